"""C09 — filter, re-index and sort keep rows intact and leave the source untouched.

Correspondence (real code vs Lean model `Exetera.FilterIndex`, driver ops `c09_*`):
  c09_kernel      ops.apply_filter_to_index_values / apply_indices_to_index_values on arrays
  c09_field       Field.apply_filter / apply_index (memory and HDF5 fields; fresh / target / in-place) and
                  Session.apply_filter / apply_index with a Field source
  c09_frame       histories of DataFrame.apply_filter / apply_index / sort_values (and Session.sort_on) over a store of
                  HDF5 dataframes, in place or into destination frames, every frame dumped afterwards
  c09_sortidx     Session.dataset_sort_index on arrays / fields
  c09_sess_array  Session.apply_filter / apply_index with an ndarray source
Oracle for the property itself (`check_spec`): the Python rendering of Spec/FilterIndex.lean on rows (filterBy, gather,
stable lexicographic sort), plus: source untouched (content, and file bytes when the destination lives in another file),
metadata / dtype preserved, and "a call that raises leaves the source as it was"."""
import itertools

PROPERTY = "C09"
LEVEL = "proof"
LEAN_MODULES = ["Exetera.Props.C09", "Exetera.Props.C09Sort", "Exetera.Witness.C09"]
THEOREMS = []
EXHAUSTIVE = {"quick": True, "thorough": True}
CASE_TIMEOUT = 240    # first numba compile on a loaded machine; an alarm landing inside the compiler corrupts it
MODES = {"quick": ["jit"], "thorough": ["jit", "nojit", "bounds"], "search": ["jit", "nojit"]}
MODE_DIFF_IS_VIOLATION = False
RULE = ("exhaustive (seed independent): a 5-column frame mixing every field type (indexed strings with empty and 2-byte "
        "UTF-8 entries, int32, S3, int8 categorical, timestamp) of n rows x ALL 2^n filters (n<=4 quick, n<=6 thorough; bool and "
        "numeric dtypes alternating) and ALL index maps [k]->[n] (k<=n+1; n<=3 quick, n<=4 thorough), each in place and into a "
        "destination frame; kernel level: all entry-length vectors over {0,1,2}^n (n<=3) x all filters of length n-1..n+1 and "
        "all index vectors over [-n-1, n]^k (k<=2); sort index: all pairs of key columns over {0,1}^n and single keys over "
        "{0,1,2}^n (n<=4). Seeded random: frames of <=12 rows with random column subsets/orders, histories of 1-3 steps "
        "(filter / index / sort by 1-3 keys with ties, in place or into d0/d1, on the source or on an earlier destination, "
        "DataFrame and Session.sort_on entry points), field-level calls in all three write modes on memory and HDF5 fields "
        "with empty / same-length / other-length targets, Session calls with ndarray sources; a malformed stream (wrong "
        "filter length, out-of-range and negative indices, bad filter dtype, name clash in the destination, missing / "
        "indexed sort key, ragged frame, read-only in place, in_place with target). Non-trivial = at least one row is "
        "dropped, moved or repeated, or an error branch is taken; distinct = distinct canonical case.")
ASSUMPTIONS = ["numpy boolean / fancy indexing and np.argsort(kind='stable') behave as modelled (filterBy / gather / stable merge sort)",
               "h5py stores and returns arrays and attributes faithfully (C01); WriteableFieldArray.clear+write = replace",
               "fixed strings and timestamps are sent to the model as order-isomorphic integers",
               "an indexed-string sort key is sorted as np.asarray(list_of_str) (a '<U' array) with np.argsort(kind='stable'): numpy "
               "compares '<U' entries code point by code point and the stable argsort is stable; for valid UTF-8 the code-point "
               "order is the bytewise order of the encodings (the order the theorems speak of); a '<U' array drops trailing NUL "
               "characters ('a\\x00' ties with 'a': open finding NC09g, modelled as found) — generated keys do not end in NUL",
               "hand-written Lean model validated by this differential run, not verified against the Python text"]
TRUSTED = ["Lean 4.33 kernel", "axioms: propext, Classical.choice, Quot.sound only (audited per theorem)",
           "checks/harness/c09.py generators, canonicalisation and oracle",
           "Lean model Exetera/Model/FilterIndex.lean mirrors operations.py / fields.py / dataframe.py / session.py by hand"]
LEVEL_TEXT = ("proof: kernel-checked Lean theorems about the executable model (both indexed-string kernels equal the row-level "
              "spec with memory safety; every write mode stores the same result; frame operations act column-wise with one "
              "row selection, leave every other frame untouched and keep metadata; dataset_sort_index equals the stable "
              "lexicographic sort permutation; sort_values with ANY mix of numeric, fixed-string and indexed-string keys is "
              "apply_index with THE stable ascending lexicographic permutation of the key tuples — rank encoding of a string "
              "column is an order embedding — and rows with equal key tuples keep their order), tied to the code by "
              "differential execution")
LEVEL_NOTE = ("the model is validated against ExeTera by differential execution, not derived from the Python source; numpy "
              "indexing/argsort and h5py are modelled, not verified; theorems are about the code with fixes D8, NC09b, "
              "NC09c, NC09d applied; string keys are ordered as numpy's '<U' arrays order them (code point order = bytewise order "
              "of the UTF-8 encodings, trailing NUL characters ignored: the bytewise statement is frame_sort_is_index_all_keys_partial "
              "with the hypothesis that no key ends in NUL, NC09g open)")
TECHNIQUE = "Lean 4 theorems over an executable model + differential correspondence with the real functions"
EXPLANATION = ""

POOL = ["", "a", "b", "ab", "é", "a", "b", "", "cé", "aa", "ba"]      # entries of indexed string columns (é = 2 bytes)
FIXED = [b"", b"x", b"y", b"xy", b"yy", b"x", b"yxx"]
CATKEY = [[0, "a"], [1, "b"], [2, "c"]]
NUMFMT = ["int32", "int8", "int64", "uint8", "float32", "float64", "int16"]


# ------------------------------------------------------------------------------------------------------------------
# case construction helpers (pure python, no exetera)
# ------------------------------------------------------------------------------------------------------------------

def enc_entries(strs):
    indices, values = [0], []
    for x in strs:
        values.extend(x.encode("utf-8"))
        indices.append(len(values))
    return indices, values


def fixed_int(b, ln):
    return int.from_bytes(b.ljust(ln, b"\0"), "big")


def col_indexed(name, strs):
    i, v = enc_entries(strs)
    if not strs:
        i = []                      # a freshly constructed indexed field holds indices=[] (D2)
    return {"name": name, "ftype": "indexedstring", "nformat": "", "strlen": 0, "key": [], "indices": i, "values": v}


def col_numeric(name, xs, nformat="int32"):
    return {"name": name, "ftype": "numeric", "nformat": nformat, "strlen": 0, "key": [], "data": list(xs)}


def col_fixed(name, bs, ln=3):
    return {"name": name, "ftype": "fixedstring", "nformat": "", "strlen": ln, "key": [], "data": [fixed_int(b, ln) for b in bs]}


def col_cat(name, xs):
    return {"name": name, "ftype": "categorical", "nformat": "int8", "strlen": 0, "key": CATKEY, "data": list(xs)}


def col_ts(name, xs):
    return {"name": name, "ftype": "timestamp", "nformat": "", "strlen": 0, "key": [], "data": list(xs)}


def std_frame(n, salt=0):
    """the fixed mixed frame of the exhaustive scope"""
    strs = [POOL[(i * 3 + salt) % len(POOL)] for i in range(n)]
    return [col_indexed("s", strs),
            col_numeric("n", [(i * 2 + salt) % 3 for i in range(n)]),
            col_fixed("f", [FIXED[(i + salt) % len(FIXED)] for i in range(n)]),
            col_cat("c", [(i + salt) % 3 for i in range(n)]),
            col_ts("t", [(7 * i + salt) % 5 for i in range(n)])]


def rand_frame(rng, n, ragged=False):
    kinds = ["s", "n", "f", "c", "t", "s2", "n2"]
    rng.shuffle(kinds)
    kinds = kinds[:rng.randrange(1, len(kinds) + 1)]
    cols = []
    for k in kinds:
        m = n
        if ragged and cols and rng.random() < 0.5:
            m = max(0, n + rng.choice([-1, 1]))
        if k[0] == "s":
            cols.append(col_indexed(k, [rng.choice(POOL) for _ in range(m)]))
        elif k[0] == "n":
            fmt = rng.choice(NUMFMT)
            lo = 0 if fmt.startswith("u") else -3
            cols.append(col_numeric(k, [rng.randrange(lo, 4) for _ in range(m)], fmt))
        elif k == "f":
            cols.append(col_fixed(k, [rng.choice(FIXED) for _ in range(m)]))
        elif k == "c":
            cols.append(col_cat(k, [rng.randrange(0, 3) for _ in range(m)]))
        else:
            cols.append(col_ts(k, [rng.randrange(0, 4) for _ in range(m)]))
    if ragged and len(cols) > 1 and len({nrows(c) for c in cols}) == 1:
        c = cols[-1]
        if "data" in c:
            c["data"] = c["data"] + [1]
        else:
            cols[-1] = col_indexed(c["name"], entries(c) + ["a"])
    return cols


def nrows(col):
    return len(col["data"]) if "data" in col else max(len(col["indices"]) - 1, 0)


def entries(col):
    """the list of row entries of a column (python ints, or str for indexed strings)"""
    if "data" in col:
        return list(col["data"])
    i, v = col["indices"], bytes(col["values"])
    return [v[i[k]:i[k + 1]].decode("utf-8") for k in range(len(i) - 1)]


def frame_case(cols, steps, dests=("d0", "d1"), pre=None, n=0, entry="df", why=None):
    store = [{"name": "src", "cols": cols}] + [{"name": d, "cols": (pre or {}).get(d, [])} for d in dests]
    c = {"op": "c09_frame", "store": store, "steps": steps, "_n": n, "entry": entry}
    if why:
        c["_why"] = why
    return c


def flt_step(flt, fkind="bool", src="src", ddf=None, fdtype=None, as_field=False):
    return {"what": "filter", "src": src, "ddf": ddf, "fkind": fkind, "flt": list(flt),
            "fdtype": fdtype or ("bool" if fkind == "bool" else "int64"), "as_field": as_field}


def idx_step(idx, src="src", ddf=None, idtype="int64", as_field=False):
    return {"what": "index", "src": src, "ddf": ddf, "idx": list(idx), "idtype": idtype, "as_field": as_field}


def sort_step(by, src="src", ddf=None, by_str=False):
    return {"what": "sort", "src": src, "ddf": ddf, "by": list(by), "by_str": by_str}


# ------------------------------------------------------------------------------------------------------------------
# generators
# ------------------------------------------------------------------------------------------------------------------

def gen_cases(tier, rng):
    from checks import corpus
    cases = list(corpus.load("C09"))
    cnt = 0
    nf, ni = (4, 3) if tier == "quick" else (6, 4)
    # ---- frames: all filters
    for n in range(nf + 1):
        for bits in itertools.product([0, 1], repeat=n):
            for ddf in (None, "d0"):
                cnt += 1
                if cnt % 2:
                    st = flt_step(bits, "bool", ddf=ddf)
                else:
                    st = flt_step([b * (1 + cnt % 3) * (-1 if cnt % 5 == 0 else 1) for b in bits], "num", ddf=ddf,
                                  fdtype=["int64", "int8", "float64", "int32"][cnt % 4])
                cases.append(frame_case(std_frame(n, cnt % 4), [st], n=cnt))
    # ---- frames: filters of the wrong length (0, n-1, n+1), indexed column first and last
    for n in range(nf + 1):
        for m in sorted({0, max(n - 1, 0), n + 1} - {n}):
            for val in (0, 1):
                for ddf in (None, "d0"):
                    for rev in (False, True):
                        cnt += 1
                        cols = std_frame(n, cnt % 4)
                        cases.append(frame_case(cols[::-1] if rev else cols, [flt_step([val] * m, "bool", ddf=ddf)], n=cnt,
                                                why="filter length"))
    # ---- frames: all index maps [k] -> [n]
    for n in range(ni + 1):
        for k in range(n + 2):
            for idx in itertools.product(range(n), repeat=k):
                for ddf in (None, "d0"):
                    cnt += 1
                    if tier == "quick" and n == ni and k == n + 1 and cnt % 3:
                        continue
                    cases.append(frame_case(std_frame(n, cnt % 4),
                                            [idx_step(idx, ddf=ddf, idtype=["int64", "int32", "uint32"][cnt % 3])], n=cnt))
    # ---- frames filtered / re-indexed by one of THEIR OWN columns (`df.apply_filter(df['k'])`): the argument is a live HDF5 field
    #      of the frame that is being rewritten, so it must be read once, before any column (itself included) changes; the
    #      column sits first, in the middle and last in creation order
    for n in range(1, min(nf, 4) + 1):
        for bits in itertools.product([0, 1], repeat=n):
            for pos in (0, 2, 5):
                for ddf in (None, "d0"):
                    cnt += 1
                    cols = std_frame(n, cnt % 4)
                    fmt = ["int8", "int64", "uint8"][cnt % 3]
                    cols.insert(pos, col_numeric("k", [b * (1 + cnt % 2) for b in bits], fmt))
                    st = flt_step([b * (1 + cnt % 2) for b in bits], "num", ddf=ddf, fdtype=fmt)
                    st["own"] = "k"
                    cases.append(frame_case(cols, [st], n=cnt, why="own column as filter"))
    for n in range(1, ni + 1):
        for idx in itertools.product(range(n), repeat=n):
            for pos in (0, 2, 5):
                for ddf in (None, "d0"):
                    cnt += 1
                    cols = std_frame(n, cnt % 4)
                    cols.insert(pos, col_numeric("k", list(idx), "int64"))
                    st = idx_step(idx, ddf=ddf, idtype="int64")
                    st["own"] = "k"
                    cases.append(frame_case(cols, [st], n=cnt, why="own column as index"))
    # ---- fields: every filter / a family of index arrays x backing x write mode (fresh, in place, into a target that is
    #      unwritten / written-empty / of the result's length / longer) x entry point, for every field type.  The source
    #      is read back after every call ("source untouched"), the target's previous content must be replaced.
    fsrc = {"s": [["ab", "c", "\u00e9"], ["", "ab", "c"]], "n": [[3, -1, 2]], "f": [[b"x", b"", b"yxx"]], "c": [[2, 0, 1]],
            "t": [[1, 0, 3]]}
    mk = {"s": lambda v: col_indexed("x", v), "n": lambda v: col_numeric("x", v, "int32"), "f": lambda v: col_fixed("x", v),
          "c": lambda v: col_cat("x", v), "t": lambda v: col_ts("x", v)}
    for kind, srcs in fsrc.items():
        for vals in srcs:
            n = len(vals)
            ops_ = [("filter", list(b)) for b in itertools.product([0, 1], repeat=n)] + \
                   [("index", list(i)) for i in ([], [2, 1, 0], [0, 0, 2], [1], [-1, 0])]
            for what, arg in ops_:
                out_n = sum(arg) if what == "filter" else len(arg)
                modes = [("fresh", None, None)] + [("inplace", None, None)]
                for tn in ("unwritten", "written-empty", out_n, out_n + 1):
                    for tb in ("h5", "mem"):
                        modes.append(("target", tn, tb))
                for backing in ("h5", "mem"):
                    for mode, tn, tb in modes:
                        for entry in (("field",) if mode == "inplace" else ("field", "session")):
                            cnt += 1
                            if tier == "quick" and kind != "s" and cnt % 3:
                                continue
                            c = {"op": "c09_field", "what": what, "src": mk[kind](vals), "backing": backing,
                                 "inplace": mode == "inplace", "entry": entry, "target": None, "_n": cnt}
                            if what == "filter":
                                if cnt % 4 == 0:
                                    c.update(fkind="num", flt=[b * (2 if cnt % 8 else -1) for b in arg], fdtype="int64")
                                else:
                                    c.update(fkind="bool", flt=arg, fdtype="bool")
                            else:
                                c.update(idx=arg, idtype="int64" if cnt % 2 else "int32")
                            if mode == "target":
                                if tn in ("unwritten", "written-empty"):
                                    t = mk[kind](vals[:0])
                                    if kind == "s" and tn == "written-empty":
                                        t["indices"] = [0]
                                else:
                                    t = mk[kind]((vals * 3)[:tn])
                                c["target"] = t
                                c["tbacking"] = tb
                            cases.append(c)
    # ---- kernels
    for n in range(4):
        for lens in itertools.product([0, 1, 2], repeat=n):
            strs = ["ab"[:ln] if ln < 2 else "cd" for ln in lens]
            indices, values = enc_entries(strs)
            for m in (n - 1, n, n + 1):
                if m < 0:
                    continue
                for bits in itertools.product([0, 1], repeat=m):
                    cnt += 1
                    cases.append({"op": "c09_kernel", "kernel": "filter", "flt": list(bits), "indices": indices,
                                  "values": values, "_n": cnt})
            for k in range(3):
                for idx in itertools.product(range(-n - 1, n + 1), repeat=k):
                    cnt += 1
                    cases.append({"op": "c09_kernel", "kernel": "index", "idx": list(idx), "indices": indices,
                                  "values": values, "idtype": ["int64", "int32", "int8"][cnt % 3], "_n": cnt})
    cases.append({"op": "c09_kernel", "kernel": "filter", "flt": [], "indices": [], "values": [], "_n": 0})
    cases.append({"op": "c09_kernel", "kernel": "index", "idx": [], "indices": [], "values": [], "idtype": "int64", "_n": 0})
    cases.append({"op": "c09_kernel", "kernel": "index", "idx": [0], "indices": [], "values": [], "idtype": "int64", "_n": 0})
    # ---- sort index
    ns = 4
    for n in range(ns + 1):
        cols2 = list(itertools.product([0, 1], repeat=n))
        for a in cols2:
            for b in cols2:
                cnt += 1
                cases.append({"op": "c09_sortidx", "keys": [list(a), list(b)], "index": None, "_n": cnt,
                              "src": "field" if cnt % 7 == 0 else "ndarray"})
        for a in itertools.product([0, 1, 2], repeat=n):
            cnt += 1
            cases.append({"op": "c09_sortidx", "keys": [list(a)], "index": list(range(n)) if cnt % 2 else None, "_n": cnt,
                          "src": "ndarray"})
    # ---- frames: every single sort key and key pair of the standard frame
    for n in (0, 1, 3, 5):
        names = ["n", "f", "c", "t"]
        stdnames = [c["name"] for c in std_frame(n, 0)]
        skeys = [k for k in stdnames if k not in names][:1]      # the indexed string column(s) of the standard frame
        for by in [[a] for a in names] + [[a, b] for a in names for b in names if a != b] + [["c", "n", "t"]] + \
                [[k] for k in skeys] + [[k, "n"] for k in skeys] + [["c", k] for k in skeys]:
            for ddf in (None, "d1"):
                cnt += 1
                cases.append(frame_case(std_frame(n, cnt % 4), [sort_step(by, ddf=ddf, by_str=(len(by) == 1 and cnt % 2 == 0))],
                                        n=cnt, entry="sort_on" if cnt % 3 == 0 else "df"))
    # ---- seeded random
    nr = 500 if tier == "quick" else (6000 if tier == "thorough" else 12000)
    for t in range(nr):
        cnt += 1
        r = rng.random()
        if r < 0.45:
            cases.append(rand_history(rng, cnt))
        elif r < 0.70:
            cases.append(rand_field_case(rng, cnt))
        elif r < 0.80:
            cases.append(rand_sess_array(rng, cnt))
        elif r < 0.88:
            cases.append(rand_sortidx(rng, cnt))
        else:
            cases.append(rand_malformed(rng, cnt))
    return cases


def rand_filter(rng, n):
    p = rng.choice([0.0, 0.2, 0.5, 0.8, 1.0])
    return [1 if rng.random() < p else 0 for _ in range(n)]


def rand_index(rng, n, neg=False):
    if n == 0:
        return []
    kind = rng.choice(["perm", "repeat", "subset", "empty", "any"])
    lo = -n if neg else 0
    if kind == "perm":
        idx = list(range(n))
        rng.shuffle(idx)
    elif kind == "repeat":
        idx = [rng.randrange(lo, n) for _ in range(n + rng.randrange(0, 3))]
    elif kind == "subset":
        idx = sorted(rng.sample(range(n), rng.randrange(0, n + 1)))
    elif kind == "empty":
        idx = []
    else:
        idx = [rng.randrange(lo, n) for _ in range(rng.randrange(0, 2 * n))]
    return idx


def rand_step(rng, frames, src, dests_free):
    """one (normally valid) step on frame `src`"""
    cols = frames[src]
    n = nrows(cols[0]) if cols else 0
    ddf = rng.choice(dests_free) if dests_free and rng.random() < 0.5 else None
    w = rng.random()
    plain = [c["name"] for c in cols if "data" in c]
    if w < 0.4 or (w >= 0.7 and not plain):
        bits = rand_filter(rng, n)
        if rng.random() < 0.5:
            st = flt_step(bits, "bool", src=src, ddf=ddf, as_field=rng.random() < 0.2)
        else:
            st = flt_step([b * rng.choice([1, 2, -1, 7]) for b in bits], "num", src=src, ddf=ddf,
                          fdtype=rng.choice(["int64", "int8", "int32", "uint8", "float64"]), as_field=rng.random() < 0.2)
            if st["fdtype"] == "uint8":
                st["flt"] = [abs(x) for x in st["flt"]]
    elif w < 0.7:
        idt = rng.choice(["int64", "int32", "uint32", "int8"])
        st = idx_step(rand_index(rng, n, neg=(idt != "uint32")), src=src, ddf=ddf, idtype=idt, as_field=rng.random() < 0.2)
    else:
        anyk = [c["name"] for c in cols] if rng.random() < 0.35 else plain      # sometimes an indexed string key too
        by = rng.sample(anyk, rng.randrange(1, min(3, len(anyk)) + 1))
        st = sort_step(by, src=src, ddf=ddf, by_str=(len(by) == 1 and rng.random() < 0.5))
    return st


def rand_history(rng, k):
    n = rng.choice([0, 1, 2, 3, 5, 8, 12])
    cols = rand_frame(rng, n)
    frames = {"src": cols, "d0": [], "d1": []}
    steps = []
    for _ in range(rng.randrange(1, 4)):
        src = rng.choice([name for name, c in frames.items() if c or name == "src"])
        free = [name for name, c in frames.items() if not c and name != "src"]
        st = rand_step(rng, frames, src, free)
        steps.append(st)
        frames = oracle_step(frames, st)      # keep later steps valid w.r.t. the shapes the spec predicts
        if frames is None:
            break
    entry = "sort_on" if rng.random() < 0.3 else "df"
    return frame_case(cols, steps, n=k, entry=entry)


def rand_field_case(rng, k):
    n = rng.choice([0, 1, 2, 3, 4, 6, 9])
    kind = rng.choice(["s", "n", "f", "c", "t"])
    src = rand_frame_col(rng, kind, n)
    what = rng.choice(["filter", "index"])
    mode = rng.choice(["fresh", "target", "target", "inplace"])
    entry = rng.choice(["field", "field", "session"]) if mode != "inplace" else "field"
    c = {"op": "c09_field", "what": what, "src": src, "backing": rng.choice(["h5", "mem"]), "inplace": mode == "inplace",
         "entry": entry, "target": None, "_n": k}
    if what == "filter":
        bits = rand_filter(rng, n)
        c.update(fkind=rng.choice(["bool", "num"]), flt=bits, fdtype="int64")
        if c["fkind"] == "bool":
            c["fdtype"] = "bool"
        else:
            c["flt"] = [b * rng.choice([1, 3, -2]) for b in bits]
        out_n = sum(1 for b in bits if b)
    else:
        idx = rand_index(rng, n, neg=True)
        c.update(idx=idx, idtype=rng.choice(["int64", "int32"]))
        out_n = len(idx)
    if mode == "target":
        tn = rng.choice([0, 0, out_n, out_n, max(0, out_n - 1), out_n + 2])
        c["target"] = rand_frame_col(rng, kind, tn, like=src)
        c["tbacking"] = rng.choice(["h5", "mem"])
    return c


def rand_frame_col(rng, kind, n, like=None):
    if kind == "s":
        return col_indexed("x", [rng.choice(POOL) for _ in range(n)])
    if kind == "n":
        fmt = like["nformat"] if like else rng.choice(NUMFMT)
        lo = 0 if fmt.startswith("u") else -3
        return col_numeric("x", [rng.randrange(lo, 4) for _ in range(n)], fmt)
    if kind == "f":
        return col_fixed("x", [rng.choice(FIXED) for _ in range(n)])
    if kind == "c":
        return col_cat("x", [rng.randrange(0, 3) for _ in range(n)])
    return col_ts("x", [rng.randrange(0, 4) for _ in range(n)])


def rand_sess_array(rng, k):
    n = rng.choice([0, 1, 3, 6])
    src = [rng.randrange(-5, 6) for _ in range(n)]
    dest = None if rng.random() < 0.5 else [rng.randrange(0, 3) for _ in range(rng.randrange(0, 3))]
    c = {"op": "c09_sess_array", "src": src, "dest": dest, "_n": k}
    if rng.random() < 0.5:
        bits = rand_filter(rng, n + rng.choice([0, 0, 0, 1, -1]) if n else 0)
        fk = rng.choice(["bool", "num"])
        c.update(what="filter", fkind=fk, flt=[b * (1 if fk == "bool" else rng.choice([1, 2])) for b in bits],
                 fdtype="bool" if fk == "bool" else "int64", as_field=rng.random() < 0.3)
    else:
        idx = rand_index(rng, n, neg=True)
        if rng.random() < 0.15:
            idx = idx + [n]
        c.update(what="index", idx=idx, idtype="int64", as_field=rng.random() < 0.3)
    return c


def rand_sortidx(rng, k):
    n = rng.choice([0, 1, 2, 5, 9, 20])
    nk = rng.randrange(1, 4)
    keys = [[rng.randrange(0, rng.choice([2, 3, 6])) for _ in range(n)] for _ in range(nk)]
    index = None
    if rng.random() < 0.4:
        index = list(range(n))
        rng.shuffle(index)
    return {"op": "c09_sortidx", "keys": keys, "index": index, "_n": k, "src": rng.choice(["ndarray", "field"])}


def rand_malformed(rng, k):
    n = rng.choice([1, 2, 3, 5])
    w = rng.randrange(0, 10)
    cols = rand_frame(rng, n)
    ddf = rng.choice([None, "d0"])
    if w == 0:      # wrong filter length (longer / shorter) — D8 / NC09a
        m = n + rng.choice([-1, 1, 2, 3])
        return frame_case(cols, [flt_step(rand_filter(rng, m) if rng.random() < 0.6 else [1] * m, rng.choice(["bool", "num"]),
                                          ddf=ddf)], n=k, why="filter length")
    if w == 1:      # out-of-range index — NC09b
        idx = rand_index(rng, n, neg=True) + [rng.choice([n, n + 1, -n - 1, 100])]
        rng.shuffle(idx)
        return frame_case(cols, [idx_step(idx, ddf=ddf)], n=k, why="index range")
    if w == 2:      # bad filter dtype
        return frame_case(cols, [flt_step([1] * n, "bad", ddf=ddf, fdtype="S1")], n=k, why="filter dtype")
    if w == 3:      # name clash in destination
        pre = {"d0": [dict(rng.choice(cols), **{})]}
        pre["d0"][0] = empty_like_col(pre["d0"][0])
        st = rng.choice([flt_step(rand_filter(rng, n), ddf="d0"), idx_step(rand_index(rng, n), ddf="d0")])
        return frame_case(cols, [st], pre=pre, n=k, why="name clash")
    if w == 4:      # missing / empty / indexed sort key
        names = [c["name"] for c in cols]
        by = rng.choice([["zz"], [], [names[0], "zz"], [c["name"] for c in cols if "indices" in c][:1] or ["zz"],
                         names[:2][::-1]])
        return frame_case(cols, [sort_step(by, ddf=ddf)], n=k, why="sort key")
    if w == 5:      # ragged frame, in-place index / sort (validate_all_field_length_in_df)
        cols = rand_frame(rng, n, ragged=True)
        if len({nrows(c) for c in cols}) == 1:
            return frame_case(cols, [idx_step(rand_index(rng, n))], n=k)
        m = min(nrows(c) for c in cols)
        plain = [c["name"] for c in cols if "data" in c]
        if plain and rng.random() < 0.4:
            return frame_case(cols, [sort_step(plain[:1])], n=k, why="ragged")
        return frame_case(cols, [idx_step(rand_index(rng, m))], n=k, why="ragged")
    if w == 6:      # ddf == self
        st = rng.choice([flt_step(rand_filter(rng, n), ddf="src"), idx_step(rand_index(rng, n), ddf="src"),
                         ])
        return frame_case(cols, [st], n=k, why="ddf is self")
    if w == 7:      # field level: in_place together with target
        c = rand_field_case(rng, k)
        c["inplace"] = True
        c["entry"] = "field"
        c["target"] = rand_frame_col(rng, "n", 0) if "data" in c["src"] else col_indexed("x", [])
        c["tbacking"] = "mem"
        return c
    if w == 8:      # field level: read-only source in place
        c = rand_field_case(rng, k)
        c.update(inplace=True, entry="field", target=None, backing="h5")
        c["src"] = dict(c["src"], we=False)
        return c
    # field level: wrong length / out of range
    c = rand_field_case(rng, k)
    c["target"] = None
    if c["what"] == "filter":
        c["flt"] = c["flt"] + [1] if rng.random() < 0.5 else c["flt"][:-1]
    else:
        c["idx"] = c["idx"] + [nrows(c["src"]) + rng.choice([0, 1]), ]
    return c


def empty_like_col(col):
    c = dict(col)
    if "data" in c:
        c["data"] = []
    else:
        c["indices"], c["values"] = [], []
    return c


def to_model(case):
    m = {k: v for k, v in case.items() if not k.startswith("_")}
    if "steps" in m:
        # `own`: the filter / index argument is the frame's own column of that name — for the model it is the list it holds
        m["steps"] = [{k: v for k, v in st.items() if k != "own"} for st in m["steps"]]
    return m


# ------------------------------------------------------------------------------------------------------------------
# implementation (runs in worker processes)
# ------------------------------------------------------------------------------------------------------------------
_S = {}


def _env():
    if not _S:
        import io
        import numpy as np
        from exetera.core import operations as ops, fields
        from exetera.core.session import Session
        _S.update(np=np, ops=ops, fields=fields, s=Session(), io=io, k=0)
    return _S


FT = {"IndexedStringField": "indexedstring", "IndexedStringMemField": "indexedstring", "FixedStringField": "fixedstring",
      "FixedStringMemField": "fixedstring", "NumericField": "numeric", "NumericMemField": "numeric",
      "CategoricalField": "categorical", "CategoricalMemField": "categorical", "TimestampField": "timestamp",
      "TimestampMemField": "timestamp"}


def np_data(e, col):
    np = e["np"]
    ft = col["ftype"]
    if ft == "numeric":
        return np.array(col["data"], dtype=col["nformat"])
    if ft == "fixedstring":
        ln = col["strlen"]
        return np.array([int(x).to_bytes(ln, "big") for x in col["data"]], dtype="S%d" % ln)
    if ft == "categorical":
        return np.array(col["data"], dtype=col["nformat"])
    return np.array(col["data"], dtype="float64")


def fill(e, f, col):
    if col["ftype"] == "indexedstring":
        strs = entries(col)
        if strs or col.get("indices") == [0]:       # indices == [0]: a field to which the empty sequence WAS written
            f.data.write(strs)
    else:
        d = np_data(e, col)
        if len(d):
            f.data.write(d)
    return f


def make_in_frame(e, df, col):
    ft, name = col["ftype"], col["name"]
    if ft == "indexedstring":
        f = df.create_indexed_string(name)
    elif ft == "numeric":
        f = df.create_numeric(name, col["nformat"])
    elif ft == "fixedstring":
        f = df.create_fixed_string(name, col["strlen"])
    elif ft == "categorical":
        f = df.create_categorical(name, col["nformat"], {s: k for k, s in col["key"]})
    else:
        f = df.create_timestamp(name)
    return fill(e, f, col)


def make_mem(e, col):
    fields, s = e["fields"], e["s"]
    ft = col["ftype"]
    if ft == "indexedstring":
        f = fields.IndexedStringMemField(s)
    elif ft == "numeric":
        f = fields.NumericMemField(s, col["nformat"])
    elif ft == "fixedstring":
        f = fields.FixedStringMemField(s, col["strlen"])
    elif ft == "categorical":
        f = fields.CategoricalMemField(s, col["nformat"], {s_: k for k, s_ in col["key"]})
    else:
        f = fields.TimestampMemField(s)
    return fill(e, f, col)


def intval(x):
    f = float(x)
    return int(f) if f == int(f) else f


def dump_field(f, name=None):
    ft = FT.get(type(f).__name__, type(f).__name__)
    out = {"ftype": ft, "nformat": "", "strlen": 0, "key": []}
    if name is not None:
        out["name"] = name
    if ft in ("numeric", "categorical"):
        out["nformat"] = str(f._nformat)
    if ft == "fixedstring":
        out["strlen"] = int(f._length)
    if ft == "categorical":
        out["key"] = sorted([int(k), (v.decode() if isinstance(v, bytes) else str(v))] for k, v in f.keys.items())
    if f.indexed:
        out["indices"] = [int(x) for x in f.indices[:].tolist()]
        out["values"] = [int(x) for x in f.values[:].tolist()]
        if len(f.values):       # (the wrapper's declared dtype is not what is stored for memory fields: use the arrays)
            out["dtype"] = str(f.indices[:].dtype) + "/" + str(f.values[:].dtype)
    else:
        d = f.data[:]
        if ft == "fixedstring":
            out["data"] = [fixed_int(bytes(x), out["strlen"]) for x in d.tolist()]
        else:
            out["data"] = [intval(x) for x in d.tolist()]
        if len(d):
            out["dtype"] = str(d.dtype)
    return out


def dump_frame(df, name):
    return {"name": name, "cols": [dump_field(df[k], k) for k in df.keys()]}


def mk_array(e, xs, dtype, as_field=False):
    np, fields, s = e["np"], e["fields"], e["s"]
    if dtype == "S1":
        a = np.array([b"1"] * len(xs), dtype="S1")
    else:
        a = np.array(xs, dtype=dtype)
    if as_field and dtype != "S1":
        f = fields.NumericMemField(s, dtype)
        if len(a):
            f.data.write(a)
            return f
    return a


def impl(case):
    return globals()["impl_" + case["op"][4:]](case)


def impl_kernel(case):
    e = _env()
    np, ops = e["np"], e["ops"]
    indices = np.array(case["indices"], dtype="int64")
    values = np.array(case["values"], dtype="uint8")
    if case["kernel"] == "filter":
        di, dv = ops.apply_filter_to_index_values(np.array(case["flt"], dtype=bool), indices, values)
    else:
        di, dv = ops.apply_indices_to_index_values(np.array(case["idx"], dtype=case.get("idtype", "int64")), indices, values)
    return {"di": [int(x) for x in di.tolist()], "dv": [int(x) for x in dv.tolist()],
            "dtype": str(di.dtype) + "/" + str(dv.dtype)}


def _open(e):
    e["k"] += 1
    name = "c09_%d" % e["k"]
    bio = e["io"].BytesIO()
    return name, bio, e["s"].open_dataset(bio, "w", name)


def impl_frame(case):
    import hashlib
    e = _env()
    s = e["s"]
    na, bioa, dsa = _open(e)
    nb, biob, dsb = _open(e)
    try:
        frames = {}
        for k, fr in enumerate(case["store"]):
            # the source frame lives in file A, destinations alternate so that some share the file with the source
            ds = dsa if (fr["name"] == "src" or (case.get("_n", 0) + k) % 3 == 0) else dsb
            df = ds.create_dataframe(fr["name"])
            for col in fr["cols"]:
                make_in_frame(e, df, col)
            frames[fr["name"]] = (df, ds)
        done, err, msg = 0, None, ""
        bytes_same = None
        for st in case["steps"]:
            df, ds = frames[st["src"]]
            ddf, dds = frames[st["ddf"]] if st.get("ddf") else (None, None)
            digest = None
            if ddf is not None and dds is not ds:
                ds._file.flush()
                digest = hashlib.sha1((bioa if ds is dsa else biob).getvalue()).hexdigest()
            try:
                if st["what"] == "filter":
                    arg = df[st["own"]] if st.get("own") else mk_array(e, st["flt"], st.get("fdtype", "bool"), st.get("as_field"))
                    df.apply_filter(arg, ddf)
                elif st["what"] == "index":
                    arg = df[st["own"]] if st.get("own") else mk_array(e, st["idx"], st.get("idtype", "int64"), st.get("as_field"))
                    df.apply_index(arg, ddf)
                else:
                    by = st["by"][0] if st.get("by_str") and len(st["by"]) == 1 else st["by"]
                    if case.get("entry") == "sort_on" and isinstance(by, list) and by and all(b in df for b in by) \
                            and ddf is not df and all(not df[b].indexed for b in by) \
                            and len({len(df[k_].data) for k_ in df.keys()}) == 1:
                        # Session.sort_on: same observable contract as sort_values on a rectangular frame
                        s.sort_on(df, ddf if ddf is not None else df, tuple(by), verbose=False)
                    else:
                        df.sort_values(by, ddf)
            except BaseException as ex:  # noqa
                if isinstance(ex, (KeyboardInterrupt, SystemExit)) or type(ex).__name__ == "CaseTimeout":
                    raise
                from checks.worker import classify
                err, msg = classify(ex), str(ex)[:160]
            if digest is not None:
                ds._file.flush()
                same = digest == hashlib.sha1((bioa if ds is dsa else biob).getvalue()).hexdigest()
                bytes_same = same if bytes_same is None else (bytes_same and same)
            if err:
                break
            done += 1
        return {"done": done, "err": err, "msg": msg, "bytes_same": bytes_same,
                "store": [dump_frame(frames[fr["name"]][0], fr["name"]) for fr in case["store"]]}
    finally:
        s.close_dataset(na)
        s.close_dataset(nb)


def impl_field(case):
    e = _env()
    s, fields = e["s"], e["fields"]
    name, bio, ds = _open(e)
    try:
        df = ds.create_dataframe("df")
        srcc = dict(case["src"], name="x")
        src = make_in_frame(e, df, srcc) if case.get("backing") == "h5" else make_mem(e, srcc)
        if srcc.get("we") is False:
            src = type(src)(s, src._field, None, write_enabled=False)
        target = None
        if case.get("target") is not None:
            tc = dict(case["target"], name="tgt")
            target = make_in_frame(e, df, tc) if case.get("tbacking") == "h5" else make_mem(e, tc)
        before = dump_field(src)
        if case["what"] == "filter":
            arg = mk_array(e, case["flt"], case.get("fdtype", "bool"))
        else:
            arg = mk_array(e, case["idx"], case.get("idtype", "int64"))
        ret_ok = True
        if case.get("entry") == "session":
            r = (s.apply_filter if case["what"] == "filter" else s.apply_index)(arg, src, target)
            if target is not None:
                out = dump_field(target)
                if src.indexed:
                    ret_ok = [int(x) for x in r[0].tolist()] == out["indices"] and [int(x) for x in r[1].tolist()] == out["values"]
                else:
                    ret_ok = len(r) == len(out["data"])
            elif src.indexed:
                out = {"indices": [int(x) for x in r[0].tolist()], "values": [int(x) for x in r[1].tolist()]}
            else:
                tmp = dict(before)
                if before["ftype"] == "fixedstring":
                    out = {"data": [fixed_int(bytes(x), before["strlen"]) for x in r.tolist()]}
                else:
                    out = {"data": [intval(x) for x in r.tolist()]}
                if len(r):
                    out["dtype"] = str(r.dtype)
        else:
            fn = src.apply_filter if case["what"] == "filter" else src.apply_index
            res = fn(arg, target, case["inplace"]) if (target is not None or case["inplace"]) else fn(arg)
            out = dump_field(res)
            out["same_object"] = ("src" if res is src else "target" if res is target else "new")
        out["ret_ok"] = ret_ok
        out["src_after"] = dump_field(src)
        out["src_before"] = before
        return out
    finally:
        s.close_dataset(name)


def impl_sortidx(case):
    e = _env()
    np, s, fields = e["np"], e["s"], e["fields"]
    keys = []
    for k in case["keys"]:
        a = np.array(k, dtype="int64")
        if case.get("src") == "field":
            f = fields.NumericMemField(s, "int64")
            if len(a):
                f.data.write(a)
            else:
                f.data.write(a)
            keys.append(f)
        else:
            keys.append(a)
    index = None if case.get("index") is None else np.array(case["index"], dtype="uint32")
    r = s.dataset_sort_index(tuple(keys), index)
    return {"p": [int(x) for x in r.tolist()]}


def impl_sess_array(case):
    e = _env()
    np, s, fields = e["np"], e["s"], e["fields"]
    src = np.array(case["src"], dtype="int64")
    dest, name = None, None
    try:
        if case.get("dest") is not None:
            # an HDF5 destination: appending an empty result to a non-empty *memory* field raises (D1, property C01)
            name, bio, ds = _open(e)
            dest = ds.create_dataframe("df").create_numeric("dest", "int64")
            if case["dest"]:
                dest.data.write(np.array(case["dest"], dtype="int64"))
        if case["what"] == "filter":
            r = s.apply_filter(mk_array(e, case["flt"], case.get("fdtype", "bool"), case.get("as_field")), src, dest)
        else:
            r = s.apply_index(mk_array(e, case["idx"], case.get("idtype", "int64"), case.get("as_field")), src, dest)
        return {"r": [int(x) for x in r.tolist()], "dest": None if dest is None else [int(x) for x in dest.data[:].tolist()]}
    finally:
        if name:
            s.close_dataset(name)


# ------------------------------------------------------------------------------------------------------------------
# the property's oracle (Python rendering of Spec/FilterIndex.lean, on rows)
# ------------------------------------------------------------------------------------------------------------------

def filter_by(bits, xs):
    return [x for b, x in zip(bits, xs) if b]


def gather(xs, idx):
    n = len(xs)
    if any(i < -n or i >= n for i in idx):
        return None
    return [xs[i] for i in idx]


def sort_perm(keys, n):
    """stable lexicographic: python's sorted is stable"""
    return sorted(range(n), key=lambda i: tuple(k[i] for k in keys))


def col_meta(c):
    return (c["ftype"], c["nformat"], c["strlen"], [list(x) for x in c["key"]])


def with_entries(col, ents):
    """a column like `col` holding the entries `ents` (canonical storage)"""
    c = {k: v for k, v in col.items() if k in ("name", "ftype", "nformat", "strlen", "key")}
    if "data" in col:
        c["data"] = list(ents)
    else:
        c["indices"], c["values"] = enc_entries(ents)
    return c


def oracle_step(frames, st):
    """frames: name -> list of cols. Returns the new frames dict, or None if the step is not applicable (must raise)."""
    cols = frames.get(st["src"])
    if cols is None:
        return None
    lens = {nrows(c) for c in cols}
    n = nrows(cols[0]) if cols else 0
    ddf = st.get("ddf")
    if ddf is not None:
        if ddf not in frames:
            return None
        have = {c["name"] for c in frames[ddf]}
        if any(c["name"] in have for c in cols):
            return None
    if st["what"] == "filter":
        if st["fkind"] == "bad":
            return None
        bits = [x != 0 for x in st["flt"]]
        if any(nrows(c) != len(bits) for c in cols):
            return None
        new = [with_entries(c, filter_by(bits, entries(c))) for c in cols]
    else:
        if st["what"] == "sort":
            by = st["by"]
            names = {c["name"]: c for c in cols}
            if not by or any(b not in names for b in by):
                return None
            if len(lens) > 1:
                return None
            # an indexed string key orders by code point = by UTF-8 bytes (accepted as a key since fix NC07b)
            idx = sort_perm([names[b]["data"] if "data" in names[b] else [e.encode("utf-8") for e in entries(names[b])]
                             for b in by], n)
        else:
            idx = st["idx"]
        if ddf is None and len(lens) > 1:
            return None
        new = []
        for c in cols:
            g = gather(entries(c), idx)
            if g is None:
                return None
            new.append(with_entries(c, g))
    out = dict(frames)
    if ddf is None:
        out[st["src"]] = new
    else:
        out[ddf] = frames[ddf] + new
    return out


def canon_col(c):
    """content + metadata of a column, storage-independent (an empty indexed column may be stored as [] or [0])"""
    return (c.get("name"), col_meta(c), entries(c),
            None if "data" in c else (c["indices"] or [0], c["values"]))


def frames_of(store):
    return {fr["name"]: fr["cols"] for fr in store}


def check_frame(case, io):
    if "err" in io and "store" not in io:
        return f"harness could not run the history: {io['err']} {io.get('msg', '')}"
    frames = frames_of(case["store"])
    done, failing = 0, None
    for st in case["steps"]:
        nxt = oracle_step(frames, st)
        if nxt is None:
            failing = st
            break
        frames = nxt
        done += 1
    got = frames_of(io["store"])
    if failing is None and io["err"] is not None:
        return f"step {io['done']} raised {io['err']} ({io.get('msg', '')}) on a valid call"
    if failing is not None and (io["err"] is None or io["done"] != done):
        if io["done"] < done:
            return f"step {io['done']} raised {io['err']} ({io.get('msg', '')}) on a valid call"
        return (f"step {done} ({failing['what']}) cannot be applied to every column consistently but did not raise: "
                f"frames now {brief(got)}")
    skip = failing.get("ddf") if failing is not None else None
    for name, cols in frames.items():
        if name == skip and name != failing["src"]:
            continue
        g = got.get(name)
        if g is None or [canon_col(c) for c in g] != [canon_col(c) for c in cols]:
            what = "source/other frame changed by a call that raised" if failing is not None else "frame differs from the row-level spec"
            return f"{what}: frame {name} is {brief({name: g})} expected {brief({name: cols})}"
        for c, x in zip(g, cols):
            dt = expected_dtype(x)
            if "dtype" in c and dt and c["dtype"] != dt:
                return f"column {name}.{c['name']} dtype {c['dtype']} != source dtype {dt}"
    if io.get("bytes_same") is False:
        return "the source file's bytes changed although the destination lives in another file"
    return None


def expected_dtype(col):
    ft = col["ftype"]
    if ft in ("numeric", "categorical"):
        return col["nformat"]
    if ft == "fixedstring":
        return "|S%d" % col["strlen"]
    if ft == "timestamp":
        return "float64"
    return "int64/uint8"


def brief(frames):
    return {n: {c.get("name"): entries(c) for c in (cols or [])} for n, cols in frames.items()}


def check_field(case, io):
    src = case["src"]
    ents = entries(src)
    if case["what"] == "filter":
        valid = case["fkind"] != "bad" and len(case["flt"]) == len(ents)
        exp = filter_by([x != 0 for x in case["flt"]], ents) if valid else None
    else:
        exp = gather(ents, case["idx"])
        valid = exp is not None
    if case["inplace"] and case.get("target") is not None:
        valid = False
    if case["inplace"] and src.get("we") is False:
        valid = False
    if "err" in io:
        return None if not valid else f"raised {io['err']} ({io.get('msg', '')}) on a valid call"
    if not valid:
        return f"invalid call did not raise; returned {io.get('data', io.get('indices'))}"
    got = entries({k: v for k, v in io.items() if k in ("data", "indices", "values")})
    if got != exp:
        return f"result {got} != spec {exp}"
    if "indices" in io and io["indices"] != enc_entries(exp)[0]:
        return f"offsets {io['indices']} do not encode {exp}"
    if "ftype" in io and col_meta(io) != col_meta(src):
        return f"metadata {col_meta(io)} != source {col_meta(src)}"
    if "dtype" in io and io["dtype"] != expected_dtype(src):
        return f"dtype {io['dtype']} != {expected_dtype(src)}"
    if not io.get("ret_ok", True):
        return "arrays returned by the session call differ from what was written to dest"
    if case["inplace"]:
        if io.get("same_object") != "src":
            return "in-place call did not return the source field"
        if canon_col(io["src_after"]) != canon_col(dict(io, name=None)):
            return "source after in-place call differs from the returned content"
    else:
        if io["src_after"] != io["src_before"]:
            return f"source changed by an out-of-place call: {io['src_before']} -> {io['src_after']}"
    return None


def check_kernel(case, io):
    col = {"indices": case["indices"], "values": case["values"]}
    ents = entries(col)
    if case["kernel"] == "filter":
        exp = filter_by(case["flt"], ents) if len(case["flt"]) == len(ents) else None
    else:
        exp = gather(ents, case["idx"])
    if "err" in io:
        if exp is None:
            return None if io["err"] == "index_error" else f"out-of-range input gave {io['err']} ({io.get('msg', '')}) instead of IndexError"
        return f"raised {io['err']} ({io.get('msg', '')}) on a valid call"
    if exp is None:
        return f"out-of-range input did not raise: returned offsets {io['di']}"
    i, v = enc_entries(exp)
    if io["di"] != i or io["dv"] != v:
        return f"result ({io['di']},{io['dv']}) does not encode {exp}"
    return None


def check_sortidx(case, io):
    keys, index = case["keys"], case.get("index")
    n = len(keys[-1]) if keys else 0
    valid = bool(keys) and all(len(k) == n for k in keys) and (index is None or sorted(index) == list(range(n)))
    if "err" in io:
        return None if not valid else f"raised {io['err']} ({io.get('msg', '')})"
    if not valid:
        return None
    io = io["p"]
    start = index if index is not None else list(range(n))
    pos = {r: p for p, r in enumerate(start)}
    exp = sorted(start, key=lambda r: (tuple(k[r] for k in keys), pos[r]))
    return None if io == exp else f"sort index {io} != stable lexicographic permutation {exp}"


def check_sess_array(case, io):
    src = case["src"]
    if case["what"] == "filter":
        exp = filter_by([x != 0 for x in case["flt"]], src) if len(case["flt"]) == len(src) and case["fkind"] != "bad" else None
    else:
        exp = gather(src, case["idx"])
    if "err" in io:
        return None if exp is None else f"raised {io['err']} ({io.get('msg', '')}) on a valid call"
    if exp is None:
        return f"invalid call did not raise: {io['r']}"
    if io["r"] != exp:
        return f"result {io['r']} != spec {exp}"
    if case.get("dest") is not None and io["dest"] != case["dest"] + exp:
        return f"dest {io['dest']} != {case['dest'] + exp}"
    return None


def check_spec(case, io, mode):
    return globals()["check_" + case["op"][4:]](case, io)


def match_finding(case, io, mode):
    # NC09g (open): sort by an indexed-string key that holds an entry ending in a NUL character (numpy '<U' arrays drop it)
    if case.get("op") == "c09_frame":
        for st in case.get("steps", []):
            if st.get("what") != "sort":
                continue
            for fr in case.get("store", []):
                if fr["name"] != st.get("src"):
                    continue
                for col in fr["cols"]:
                    if col["name"] in (st.get("by") or []) and col.get("ftype") == "indexedstring":
                        ix, vs = col.get("indices", []), col.get("values", [])
                        if any(b > a and vs[b - 1] == 0 for a, b in zip(ix, ix[1:])):
                            return "NC09g"
    return None     # D8, NC09b, NC09c, NC09d, NC09e are repaired by fix patches


# ------------------------------------------------------------------------------------------------------------------
# model vs implementation
# ------------------------------------------------------------------------------------------------------------------
IGN = ("dtype", "msg", "trace", "ret_ok", "src_after", "src_before", "same_object", "bytes_same", "name")


def strip_col(c):
    return {k: v for k, v in c.items() if k not in IGN}


def compare(case, io, mo, mode):
    op = case["op"]
    if op == "c09_frame":
        if "store" not in io:
            return f"impl could not run: {io}"
        m = mo.get("ok")
        if m is None:
            return f"model: {mo}"
        if io["done"] != m["done"] or io["err"] != m["err"]:
            return f"impl done={io['done']} err={io['err']} ({io.get('msg', '')})  model done={m['done']} err={m['err']}"
        skip = None
        if io["err"] is not None:
            st = case["steps"][io["done"]]
            skip = st.get("ddf") if st.get("ddf") != st["src"] else None
        gi, gm = frames_of(io["store"]), frames_of(m["store"])
        # Session.sort_on in place overwrites `indices[:]`; on an empty indexed column that leaves [] where
        # clear+write leaves [0] (both hold zero entries, cf. D2): not distinguished for the sort_on entry point
        z = (lambda c: dict(c, indices=[0]) if c.get("indices") == [] else c) if case.get("entry") == "sort_on" else (lambda c: c)
        for name in gm:
            if name == skip:
                continue
            a = [z(dict(strip_col(c), name=c["name"])) for c in gi[name]]
            b = [z(dict(strip_col(c), name=c["name"])) for c in gm[name]]
            if a != b:
                return f"frame {name}: impl {a} model {b}"
        return None
    if "err" in io or "err" in mo:
        a, b = io.get("err"), mo.get("err")
        return None if a == b else f"impl err={a} ({io.get('msg', '')}) model err={b}"
    m = mo["ok"]
    if op == "c09_field":
        a = strip_col(io)
        b = {k: v for k, v in strip_col(m).items() if k in a}
        return None if a == b else f"impl {a} model {b}"
    if op == "c09_kernel":
        return None if (io["di"], io["dv"]) == (m["di"], m["dv"]) else f"impl {io} model {m}"
    if op == "c09_sortidx":
        return None if io["p"] == m else f"impl {io} model {m}"
    return None if (io["r"], io["dest"]) == (m["r"], m["dest"]) else f"impl {io} model {m}"


def nontrivial(case, mo):
    op = case["op"]
    if mo is not None and "err" in mo:
        return True
    if op == "c09_frame":
        if mo and mo.get("ok", {}).get("err"):
            return True
        for st in case["steps"]:
            if st["what"] == "filter" and any(x == 0 for x in st["flt"]) and any(x != 0 for x in st["flt"]):
                return True
            if st["what"] == "index" and st["idx"] != list(range(len(st["idx"]))):
                return True
            if st["what"] == "sort":
                return True
        return False
    if op == "c09_kernel":
        return (case["kernel"] == "filter" and 0 in case["flt"] and 1 in case["flt"]) or \
               (case["kernel"] == "index" and case["idx"] != list(range(len(case["idx"]))))
    if op == "c09_sortidx":
        return any(k != sorted(k) for k in case["keys"])
    return True


def classify(case, mo):
    op = case["op"]
    tags = [op[4:]]
    if op == "c09_frame":
        for st in case["steps"]:
            tags.append(st["what"] + ("-inplace" if not st.get("ddf") else "-ddf"))
        if len(case["steps"]) > 1:
            tags.append("history>1")
        if case.get("entry") == "sort_on":
            tags.append("sort_on")
        if mo and mo.get("ok", {}).get("err"):
            tags.append("err:" + mo["ok"]["err"])
        if any("indices" in c for c in case["store"][0]["cols"]):
            tags.append("has-indexed")
    elif op == "c09_field":
        tags.append(case["what"] + ":" + ("inplace" if case["inplace"] else "target" if case.get("target") is not None else "fresh"))
        tags.append("backing:" + case.get("backing", "mem"))
        tags.append("entry:" + case.get("entry", "field"))
    elif op == "c09_kernel":
        tags.append(case["kernel"])
    if mo and "err" in mo:
        tags.append("err:" + mo["err"])
    return tags


def select_for_mode(case, mode, tier):
    # interpreted / bounds-checked runs: everything that reaches a compiled kernel, thinned
    op = case["op"]
    n = case.get("_n", 0)
    if op == "c09_kernel":
        return n % 2 == 0
    if op == "c09_frame":
        return any("indices" in c for c in case["store"][0]["cols"]) and n % 4 == 0
    if op == "c09_field":
        return "indices" in case["src"] and n % 2 == 0
    return False


# the TRANSLATED two-pass kernels (Gen/Kernels.lean) are executed against the real kernels on cases derived from the ones above
from checks.harness import genkernels  # noqa: E402
genkernels.install(globals(), "C09")
