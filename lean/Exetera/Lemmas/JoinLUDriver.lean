import Exetera.Lemmas.JoinLULoop
/-! Driver level for the left-unique variants: chunk refill, flush, one iteration of the main loop. -/
namespace Exetera.Join.LU
open Exetera Exetera.Spec Exetera.Join

variable {emit : Bool} {L R : List Int} {cs : Nat} {inv : Int} {d d' : D}

/-- an untrimmed chunk: the window read is exactly the logical chunk -/
theorem fetch_untrimmed (xs : List Int) (start cs : Nat) (hcs : 0 < cs) (hs : start ≤ xs.length) :
    ∃ c, fetchChunk false xs start cs = .ok c ∧ c.lo = start ∧ ChunkOK xs c ∧ c.data.length = c.hi - c.lo := by
  obtain ⟨h2, h3⟩ := untrimmed_ok xs start cs hcs hs
  refine ⟨_, by simp [fetchChunk], h2, h3, ?_⟩
  have h1 := nextChunk_fst start xs.length cs
  have h4 := nextChunk_snd_le start xs.length cs hs
  simp only [getUntrimmedChunk, h1, slice_length]
  omega

/-- the left chunk is replaced by the next one once the kernel has consumed it: positions and outputs are unchanged -/
theorem refill_left (hinv : UInv emit L R cs inv d) (hi : d.lch.hi - d.lch.lo ≤ d.k.i) {c : Chunk}
    (hc : ChunkOK L c) (hcl : c.data.length = c.hi - c.lo) (hclo : c.lo = d.lch.hi)
    (e_lch : d'.lch = c) (e_rch : d'.rch = d.rch) (e_lout : d'.lout = d.lout) (e_rout : d'.rout = d.rout)
    (e_i : d'.k.i = 0) (e_j : d'.k.j = d.k.j)
    (e_lb : d'.k.lb = d.k.lb) (e_rb : d'.k.rb = d.k.rb) :
    UInv emit L R cs inv d' ∧ ugmu L R d' = ugmu L R d ∧ d'.I = d.I := by
  have hile := hinv.ile
  have hlo := hinv.lok.lo_le
  have hI' : d'.I = d.I := by simp only [D.I, e_lch, e_i, hclo]; omega
  have hJ' : d'.J = d.J := by simp only [D.J, e_rch, e_j]
  refine ⟨⟨by rw [e_lch]; exact hc, by rw [e_rch]; exact hinv.rok, by rw [e_lch]; exact hcl,
      by rw [e_rch]; exact hinv.rbd, by rw [e_i]; omega, by rw [e_rch, e_j]; exact hinv.jle,
      by rw [e_lb, e_rb]; exact hinv.blen, by rw [e_rb]; exact hinv.bcap,
      by rw [hI', hJ', e_lout, e_lb]; exact hinv.outL, by rw [hI', hJ', e_rout, e_rb]; exact hinv.outR, ?_⟩, ?_, hI'⟩
  · rw [hI', hJ']; exact hinv.h1
  · simp only [ugmu, hI', hJ']

theorem refill_right (hinv : UInv emit L R cs inv d) (hj : d.rch.hi - d.rch.lo ≤ d.k.j) {c : Chunk}
    (hc : ChunkOK R c) (hcb : Boundary R c) (hclo : c.lo = d.rch.hi)
    (e_lch : d'.lch = d.lch) (e_rch : d'.rch = c) (e_lout : d'.lout = d.lout) (e_rout : d'.rout = d.rout)
    (e_i : d'.k.i = d.k.i) (e_j : d'.k.j = 0)
    (e_lb : d'.k.lb = d.k.lb) (e_rb : d'.k.rb = d.k.rb) :
    UInv emit L R cs inv d' ∧ ugmu L R d' = ugmu L R d ∧ d'.J = d.J := by
  have hjle := hinv.jle
  have hlo := hinv.rok.lo_le
  have hI' : d'.I = d.I := by simp only [D.I, e_lch, e_i]
  have hJ' : d'.J = d.J := by simp only [D.J, e_rch, e_j, hclo]; omega
  refine ⟨⟨by rw [e_lch]; exact hinv.lok, by rw [e_rch]; exact hc, by rw [e_lch]; exact hinv.llen,
      by rw [e_rch]; exact hcb, by rw [e_lch, e_i]; exact hinv.ile, by rw [e_j]; omega,
      by rw [e_lb, e_rb]; exact hinv.blen, by rw [e_rb]; exact hinv.bcap,
      by rw [hI', hJ', e_lout, e_lb]; exact hinv.outL, by rw [hI', hJ', e_rout, e_rb]; exact hinv.outR, ?_⟩, ?_, hJ'⟩
  · rw [hI', hJ']; exact hinv.h1
  · simp only [ugmu, hI', hJ']

/-- only the buffers move -/
theorem UInv.congr_buffers (hinv : UInv emit L R cs inv d)
    (e_lch : d'.lch = d.lch) (e_rch : d'.rch = d.rch)
    (e_i : d'.k.i = d.k.i) (e_j : d'.k.j = d.k.j)
    (e_lo : d'.lout ++ d'.k.lb = d.lout ++ d.k.lb) (e_ro : d'.rout ++ d'.k.rb = d.rout ++ d.k.rb)
    (e_len : d'.k.lb.length = d'.k.rb.length) (e_cap : d'.k.rb.length ≤ cs) :
    UInv emit L R cs inv d' ∧ ugmu L R d' = ugmu L R d := by
  have hI' : d'.I = d.I := by simp only [D.I, e_lch, e_i]
  have hJ' : d'.J = d.J := by simp only [D.J, e_rch, e_j]
  refine ⟨⟨by rw [e_lch]; exact hinv.lok, by rw [e_rch]; exact hinv.rok, by rw [e_lch]; exact hinv.llen,
      by rw [e_rch]; exact hinv.rbd, by rw [e_lch, e_i]; exact hinv.ile, by rw [e_rch, e_j]; exact hinv.jle,
      e_len, e_cap, by rw [hI', hJ', e_lo]; exact hinv.outL, by rw [hI', hJ', e_ro]; exact hinv.outR, ?_⟩, ?_⟩
  · rw [hI', hJ']; exact hinv.h1
  · simp only [ugmu, hI', hJ']

theorem flush_inv (hinv : UInv emit L R cs inv d) :
    UInv emit L R cs inv (flush d) ∧ ugmu L R (flush d) = ugmu L R d ∧ (flush d).k.rb = [] ∧
      (flush d).lch = d.lch ∧ (flush d).rch = d.rch ∧ (flush d).k.i = d.k.i ∧ (flush d).k.j = d.k.j := by
  unfold flush
  split
  · have := UInv.congr_buffers (d' := { d with lout := d.lout ++ d.k.lb, rout := d.rout ++ d.k.rb, k := { d.k with lb := [], rb := [] } })
      hinv rfl rfl rfl rfl (by simp) (by simp) (by simp) (by simp)
    exact ⟨this.1, this.2, rfl, rfl, rfl, rfl, rfl⟩
  · rename_i h
    have : d.k.rb = [] := by
      simp only [K.r] at h
      cases hrb : d.k.rb with
      | nil => rfl
      | cons x xs => rw [hrb] at h; simp at h
    exact ⟨hinv, rfl, this, rfl, rfl, rfl, rfl⟩

/-- invariant at the top of the driver's main loop -/
structure UMInv (emit : Bool) (L R : List Int) (cs : Nat) (inv : Int) (d : D) : Prop where
  g : UInv emit L R cs inv d
  li : d.lch.lo + d.k.i < L.length → d.k.i < d.lch.hi - d.lch.lo
  rj : d.rch.lo + d.k.j < R.length → d.k.j < d.rch.hi - d.rch.lo
  flushed : d.k.rb = []

/-- one iteration of the main loop of `generate_ordered_map_to_{left,inner}_left_unique_streamed` -/
theorem main_step (hcs : 0 < cs) (hLs : L.Pairwise (· < ·)) (hR : Sorted R) (d : D) (hm : UMInv emit L R cs inv d)
    (hg : mainGuard L R d = true) :
    ∃ d', mainBody (uvariant emit) L R cs inv d = .ok d' ∧ UMInv emit L R cs inv d' ∧ ugmu L R d' < ugmu L R d := by
  simp only [mainGuard, Bool.and_eq_true] at hg
  have hgi := of_decide_eq_true hg.1
  have hgj := of_decide_eq_true hg.2
  have hi0 := hm.li (by omega)
  have hj0 := hm.rj (by omega)
  obtain ⟨k', hk1, hk2, hk3, hk4, hk5⟩ := unique_partial hLs hR d hm.g
  have hguard0 : partialGuard (uvariant emit) (mkP L R cs inv d) d.k = true := by
    rw [partialGuard_u emit _ _ (by simp only [mkP, D.iMax]; exact hm.g.llen)]
    simp [mkP, D.iMax, D.jMax, K.r, hm.flushed, hi0, hj0, hcs]
  have hlt := hk5 hguard0
  -- state after the partial call
  let d1 : D := { d with k := k', calls := d.calls + 1 }
  have hd1 : UInv emit L R cs inv d1 ∧ ugmu L R d1 = ugmu L R { d with k := k' } :=
    UInv.congr_buffers (d := { d with k := k' }) (d' := d1) hk2 rfl rfl rfl rfl rfl rfl hk2.blen hk2.bcap
  -- left refill
  have hstepL : ∃ d2 : D, refillLeft (uvariant emit) L cs d1 = Except.ok d2 ∧ UInv emit L R cs inv d2 ∧ ugmu L R d2 = ugmu L R d1 ∧
        (d2.lch.lo + d2.k.i < L.length → d2.k.i < d2.lch.hi - d2.lch.lo) ∧ d2.rch = d1.rch ∧ d2.k.j = d1.k.j := by
    unfold refillLeft
    by_cases hc : d1.lch.lo + d1.k.i < L.length ∧ d1.k.i ≥ d1.lch.hi - d1.lch.lo
    · obtain ⟨c, hf, hclo, hcok, hcl⟩ := fetch_untrimmed L d1.lch.hi cs hcs hd1.1.lok.hi_le
      have hcond : (decide (d1.lch.lo + d1.k.i < L.length) && decide (d1.k.i ≥ d1.lch.hi - d1.lch.lo)) = true := by
        simp [hc.1, hc.2]
      rw [if_pos hcond, uvariant_ltrim, hf]
      have := refill_left (d' := { d1 with lch := c, k := { d1.k with i := 0 } }) hd1.1 hc.2 hcok hcl hclo
        rfl rfl rfl rfl rfl rfl rfl rfl
      refine ⟨_, rfl, this.1, this.2.1, ?_, rfl, rfl⟩
      intro hlt'
      have hne := hcok.nonempty
      have hile := hd1.1.ile
      have hlo := hd1.1.lok.lo_le
      simp only [] at hlt' ⊢
      omega
    · have hcond : (decide (d1.lch.lo + d1.k.i < L.length) && decide (d1.k.i ≥ d1.lch.hi - d1.lch.lo)) = false := by
        apply Bool.eq_false_iff.mpr
        intro h
        simp only [Bool.and_eq_true] at h
        exact hc ⟨of_decide_eq_true h.1, of_decide_eq_true h.2⟩
      rw [if_neg (by rw [hcond]; exact Bool.false_ne_true)]
      refine ⟨d1, rfl, hd1.1, rfl, ?_, rfl, rfl⟩
      intro hlt'
      apply Decidable.byContradiction
      intro hB
      exact hc ⟨hlt', by omega⟩
  obtain ⟨d2, hd2eq, hd2inv, hd2g, hd2li, hd2rch, hd2j⟩ := hstepL
  have hstepR : ∃ d3 : D, refillRight (uvariant emit) R cs d2 = Except.ok d3 ∧ UInv emit L R cs inv d3 ∧ ugmu L R d3 = ugmu L R d2 ∧
        (d3.rch.lo + d3.k.j < R.length → d3.k.j < d3.rch.hi - d3.rch.lo) ∧ d3.lch = d2.lch ∧ d3.k.i = d2.k.i := by
    unfold refillRight
    by_cases hc : d2.rch.lo + d2.k.j < R.length ∧ d2.k.j ≥ d2.rch.hi - d2.rch.lo
    · obtain ⟨c, hf, hclo, hcok, hcb⟩ := fetchChunk_ok (uvariant emit).rtrim R d2.rch.hi cs hcs hd2inv.rok.hi_le
      have hcond : (decide (d2.rch.lo + d2.k.j < R.length) && decide (d2.k.j ≥ d2.rch.hi - d2.rch.lo)) = true := by
        simp [hc.1, hc.2]
      rw [if_pos hcond, hf]
      have := refill_right (d' := { d2 with rch := c, k := { d2.k with j := 0 } }) hd2inv hc.2 hcok (hcb (uvariant_rtrim emit)) hclo
        rfl rfl rfl rfl rfl rfl rfl rfl
      refine ⟨_, rfl, this.1, this.2.1, ?_, rfl, rfl⟩
      intro hlt'
      have hne := hcok.nonempty
      have hjle := hd2inv.jle
      have hlo := hd2inv.rok.lo_le
      simp only [] at hlt' ⊢
      omega
    · have hcond : (decide (d2.rch.lo + d2.k.j < R.length) && decide (d2.k.j ≥ d2.rch.hi - d2.rch.lo)) = false := by
        apply Bool.eq_false_iff.mpr
        intro h
        simp only [Bool.and_eq_true] at h
        exact hc ⟨of_decide_eq_true h.1, of_decide_eq_true h.2⟩
      rw [if_neg (by rw [hcond]; exact Bool.false_ne_true)]
      refine ⟨d2, rfl, hd2inv, rfl, ?_, rfl, rfl⟩
      intro hlt'
      apply Decidable.byContradiction
      intro hB
      exact hc ⟨hlt', by omega⟩
  obtain ⟨d3, hd3eq, hd3inv, hd3g, hd3rj, hd3lch, hd3i⟩ := hstepR
  obtain ⟨hf1, hf2, hf3, hf4, hf5, hf6, hf7⟩ := flush_inv hd3inv
  refine ⟨flush d3, ?_, ⟨hf1, ?_, ?_, hf3⟩, ?_⟩
  · simp only [mainBody, hk1, bind, Except.bind]
    rw [show ({ d with k := k', calls := d.calls + 1 } : D) = d1 from rfl, hd2eq]
    simp only [hd3eq]
    rfl
  · rw [hf4, hf6, hd3lch, hd3i]; exact hd2li
  · rw [hf5, hf7]; exact hd3rj
  · rw [hf2, hd3g, hd2g, hd1.2]; exact hlt

end Exetera.Join.LU
