import Exetera.Spec.PySlice
import Exetera.Spec.Storage
/-! Facts about Python's `slice.indices` / `range` (Spec/PySlice.lean): the positions a slice visits are rows. -/
namespace Exetera.Spec

open Exetera

theorem adjBound_pos {n : Nat} {st b : Int} (h : 0 < st) : 0 ≤ adjBound n st b ∧ adjBound n st b ≤ n := by
  unfold adjBound lowerB upperB; (repeat' split) <;> omega

theorem adjBound_neg {n : Nat} {st b : Int} (h : st < 0) : -1 ≤ adjBound n st b ∧ adjBound n st b ≤ (n : Int) - 1 := by
  unfold adjBound lowerB upperB; (repeat' split) <;> omega

theorem sliceIndices_ok {n : Nat} {start stop step : Option Int} {a b st : Int}
    (h : sliceIndices n start stop step = .ok (a, b, st)) :
    st = stepOf step ∧ st ≠ 0 ∧ a = startOf n st start ∧ b = stopOf n st stop := by
  unfold sliceIndices at h
  split at h
  · cases h
  · rename_i hst
    injection h with h
    injection h with ha h
    injection h with hb hs
    subst hs
    exact ⟨rfl, hst, ha.symm, hb.symm⟩

/-- what `slice.indices(n)` returns: a non-zero step; both bounds in `[0, n]` for a positive step, in `[-1, n-1]` for a
    negative one -/
theorem sliceIndices_bounds {n : Nat} {start stop step : Option Int} {a b st : Int}
    (h : sliceIndices n start stop step = .ok (a, b, st)) :
    st ≠ 0 ∧ (0 < st → 0 ≤ a ∧ a ≤ n ∧ 0 ≤ b ∧ b ≤ n) ∧ (st < 0 → -1 ≤ a ∧ a ≤ (n : Int) - 1 ∧ -1 ≤ b ∧ b ≤ (n : Int) - 1) := by
  obtain ⟨_, hst, ha, hb⟩ := sliceIndices_ok h
  refine ⟨hst, ?_, ?_⟩
  · intro hpos
    have h1 := @adjBound_pos n st
    subst ha hb
    cases start <;> cases stop <;> simp only [startOf, stopOf, lowerB, upperB] <;>
      (try have := (h1 (b := ‹Int›) hpos)) <;> (repeat' split) <;> (try omega)
    all_goals (rename_i x y; have := h1 (b := x) hpos; have := h1 (b := y) hpos; omega)
  · intro hneg
    have h1 := @adjBound_neg n st
    subst ha hb
    cases start <;> cases stop <;> simp only [startOf, stopOf, lowerB, upperB] <;>
      (try have := (h1 (b := ‹Int›) hneg)) <;> (repeat' split) <;> (try omega)
    all_goals (rename_i x y; have := h1 (b := x) hneg; have := h1 (b := y) hneg; omega)

/-! ### `range` -/

theorem mem_pyRange {a b st r : Int} : r ∈ pyRange a b st ↔ ∃ k : Nat, k < rangeLen a b st ∧ r = a + (k : Int) * st := by
  simp only [pyRange, List.mem_map, List.mem_range]
  constructor
  · rintro ⟨k, hk, rfl⟩; exact ⟨k, hk, rfl⟩
  · rintro ⟨k, hk, rfl⟩; exact ⟨k, hk, rfl⟩

@[simp] theorem length_pyRange (a b st : Int) : (pyRange a b st).length = rangeLen a b st := by simp [pyRange]

/-- a range walking up stays below its stop -/
theorem pyRange_lt_stop {a b st : Int} (hst : 0 < st) {k : Nat} (hk : k < rangeLen a b st) : a + (k : Int) * st < b := by
  unfold rangeLen at hk
  simp only [hst, if_true] at hk
  split at hk
  · have h1 : (k : Int) ≤ (b - a - 1) / st := by omega
    have h2 := (Int.le_ediv_iff_mul_le hst).mp h1
    omega
  · omega

/-- a range walking down stays above its stop -/
theorem pyRange_gt_stop {a b st : Int} (hst : st < 0) {k : Nat} (hk : k < rangeLen a b st) : b < a + (k : Int) * st := by
  unfold rangeLen at hk
  have hn : ¬ (0 < st) := by omega
  simp only [hn, if_false, hst, if_true] at hk
  split at hk
  · have h1 : (k : Int) ≤ (a - b - 1) / (-st) := by omega
    have h2 := (Int.le_ediv_iff_mul_le (by omega : 0 < -st)).mp h1
    have h3 : (k : Int) * -st = -((k : Int) * st) := Int.mul_neg _ _
    omega
  · omega

/-- every position `range(*slice.indices(n))` visits is a row: `0 ≤ r < n` -/
theorem pyRange_rows {n : Nat} {start stop step : Option Int} {a b st : Int}
    (h : sliceIndices n start stop step = .ok (a, b, st)) {r : Int} (hr : r ∈ pyRange a b st) : 0 ≤ r ∧ r < n := by
  obtain ⟨hne, hp, hn⟩ := sliceIndices_bounds h
  obtain ⟨k, hk, rfl⟩ := mem_pyRange.mp hr
  rcases Int.lt_or_gt_of_ne hne with hneg | hpos
  · have := hn hneg
    have h1 := pyRange_gt_stop hneg hk
    have h2 : (k : Int) * st ≤ 0 := Int.mul_nonpos_of_nonneg_of_nonpos (by omega) (by omega)
    omega
  · have := hp hpos
    have h1 := pyRange_lt_stop hpos hk
    have h2 : 0 ≤ (k : Int) * st := Int.mul_nonneg (by omega) (by omega)
    omega

theorem rowOf_of_row {α} (xs : List α) {r : Int} (h0 : 0 ≤ r) (h1 : r < xs.length) :
    rowOf xs r = some (xs[r.toNat]'(by omega)) := by
  unfold rowOf
  rw [if_pos h0, List.getElem?_eq_getElem]

theorem filterMap_length_of_isSome {α β} (f : α → Option β) (l : List α) (h : ∀ x ∈ l, (f x).isSome) :
    (l.filterMap f).length = l.length := by
  induction l with
  | nil => rfl
  | cons x l ih =>
    have hx := h x (by simp)
    cases hfx : f x with
    | none => rw [hfx] at hx; cases hx
    | some y =>
      rw [List.filterMap_cons_some hfx]
      simp [ih (fun z hz => h z (by simp [hz]))]

/-- `xs[start:stop:step]` has exactly `len(range(*slice(start, stop, step).indices(len(xs))))` entries: `pySliceG` drops no
    position (none of them is outside the rows) -/
theorem pySliceG_length {α} (xs : List α) (start stop step : Option Int) {a b st : Int}
    (h : sliceIndices xs.length start stop step = .ok (a, b, st)) :
    ∃ ys, pySliceG xs start stop step = .ok ys ∧ ys.length = rangeLen a b st := by
  refine ⟨(pyRange a b st).filterMap (rowOf xs), by simp [pySliceG, h], ?_⟩
  rw [filterMap_length_of_isSome, length_pyRange]
  intro r hr
  obtain ⟨h0, h1⟩ := pyRange_rows h hr
  rw [rowOf_of_row xs h0 h1]; rfl

/-- `xs[start:stop:step]` fails exactly for step 0 -/
theorem pySliceG_error_iff {α} (xs : List α) (start stop step : Option Int) :
    (∃ e, pySliceG xs start stop step = .error e) ↔ step = some 0 := by
  unfold pySliceG sliceIndices
  constructor
  · rintro ⟨e, he⟩
    split at he
    · rename_i h; split at h
      · rename_i h0; cases step with
        | none => simp [stepOf] at h0
        | some s => simp [stepOf] at h0; rw [h0]
      · cases h
    · cases he
  · rintro rfl; exact ⟨.valueError "slice step cannot be zero", by simp [stepOf]⟩

/-! ### unit step: the contiguous slice -/

theorem rangeLen_one (a b : Int) : rangeLen a b 1 = (b - a).toNat := by
  unfold rangeLen
  simp only [show (0 : Int) < 1 by omega, if_true, Int.ediv_one]
  split <;> omega

/-- consecutive positions from a non-negative start are `drop` then `take` -/
theorem filterMap_rowAt_consecutive {α} (xs : List α) (a : Int) (ha : 0 ≤ a) (len : Nat) :
    ((List.range len).map (fun (k : Nat) => a + (k : Int) * 1)).filterMap (rowOf xs) = (xs.drop a.toNat).take len := by
  induction len with
  | zero => simp
  | succ len ih =>
    rw [List.range_succ, List.map_append, List.filterMap_append, ih, List.take_add_one]
    congr 1
    have hrow : rowOf xs (a + (len : Int) * 1) = xs[a.toNat + len]? := by
      unfold rowOf
      rw [if_pos (by omega)]
      congr 1; omega
    simp only [List.map_cons, List.map_nil, List.filterMap_cons, List.filterMap_nil, hrow, List.getElem?_drop]
    cases xs[a.toNat + len]? <;> rfl

/-- `xs[start:stop]` / `xs[start:stop:1]`: the rows from the normalised start to the normalised stop -/
theorem pySliceG_unit {α} (xs : List α) (start stop step : Option Int) {a b : Int}
    (h : sliceIndices xs.length start stop step = .ok (a, b, 1)) :
    pySliceG xs start stop step = .ok (pySlice xs a.toNat (max a b).toNat) := by
  have hb := (sliceIndices_bounds h).2.1 (by omega)
  simp only [pySliceG, h, pyRange, rangeLen_one, filterMap_rowAt_consecutive xs a hb.1, pySlice]
  congr 2
  omega

/-- for natural bounds and no step the general slice is the `pySlice` of Spec/Storage.lean -/
theorem pySliceG_nat {α} (xs : List α) (a b : Nat) :
    pySliceG xs (some (a : Int)) (some (b : Int)) none = .ok (pySlice xs a b) := by
  have h : sliceIndices xs.length (some (a : Int)) (some (b : Int)) none
      = .ok (min (a : Int) xs.length, min (b : Int) xs.length, 1) := by
    simp [sliceIndices, stepOf, startOf, stopOf, adjBound, upperB]
    constructor <;> (intro hneg; omega)
  rw [pySliceG_unit xs _ _ _ h]
  simp only [pySlice]
  by_cases hab : a ≤ xs.length
  · by_cases hbb : b ≤ xs.length
    · have e1 : (min (a : Int) xs.length).toNat = a := by omega
      have e2 : (max (min (a : Int) xs.length) (min (b : Int) xs.length)).toNat - a = b - a := by omega
      rw [e1, e2]
    · have e1 : (min (a : Int) xs.length).toNat = a := by omega
      rw [e1]
      rw [List.take_of_length_le (by simp; omega), List.take_of_length_le (by simp; omega)]
  · have e1 : xs.drop (min (a : Int) xs.length).toNat = [] := by
      rw [List.drop_eq_nil_iff]; omega
    have e2 : xs.drop a = [] := by rw [List.drop_eq_nil_iff]; omega
    rw [e1, e2]; simp

/-! ### first and last position of a range; every position lies between them -/

theorem pyRange_head? (a b st : Int) : (pyRange a b st).head? = if rangeLen a b st = 0 then none else some a := by
  unfold pyRange
  cases h : rangeLen a b st with
  | zero => simp
  | succ m => simp [List.range_succ_eq_map]

theorem pyRange_getLast? (a b st : Int) :
    (pyRange a b st).getLast? = if rangeLen a b st = 0 then none else some (a + ((rangeLen a b st - 1 : Nat) : Int) * st) := by
  unfold pyRange
  cases h : rangeLen a b st with
  | zero => simp
  | succ m => simp [List.range_succ]

theorem pyRange_between {a b st r0 rl : Int} (hst : st ≠ 0) (h0 : (pyRange a b st).head? = some r0)
    (hl : (pyRange a b st).getLast? = some rl) {r : Int} (hr : r ∈ pyRange a b st) :
    min r0 rl ≤ r ∧ r ≤ max r0 rl := by
  rw [pyRange_head?] at h0
  rw [pyRange_getLast?] at hl
  obtain ⟨k, hk, rfl⟩ := mem_pyRange.mp hr
  have hne : ¬ rangeLen a b st = 0 := by omega
  simp only [hne, if_false, Option.some.injEq] at h0 hl
  subst h0 hl
  have hkl : (k : Int) ≤ ((rangeLen a b st - 1 : Nat) : Int) := by omega
  rcases Int.lt_or_gt_of_ne hst with hneg | hpos
  · have h1 : ((rangeLen a b st - 1 : Nat) : Int) * st ≤ (k : Int) * st :=
      Int.mul_le_mul_of_nonpos_right hkl (by omega)
    have h2 : (k : Int) * st ≤ 0 := Int.mul_nonpos_of_nonneg_of_nonpos (by omega) (by omega)
    omega
  · have h1 : (k : Int) * st ≤ ((rangeLen a b st - 1 : Nat) : Int) * st :=
      Int.mul_le_mul_of_nonneg_right hkl (by omega)
    have h2 : 0 ≤ (k : Int) * st := Int.mul_nonneg (by omega) (by omega)
    omega

/-! ### a descending range is the reverse of the ascending range over the same rows -/

theorem rangeLen_reverse {a b st : Int} (hst : st < 0) (hne : rangeLen a b st ≠ 0) :
    rangeLen (a + ((rangeLen a b st - 1 : Nat) : Int) * st) (a + 1) (-st) = rangeLen a b st := by
  generalize hL : rangeLen a b st - 1 = L
  have hlen : rangeLen a b st = L + 1 := by omega
  rw [hlen]
  have h2 : (L : Int) * st ≤ 0 := Int.mul_nonpos_of_nonneg_of_nonpos (by omega) (by omega)
  unfold rangeLen
  rw [if_pos (by omega : 0 < -st), if_pos (by omega)]
  have e : a + 1 - (a + (L : Int) * st) - 1 = (L : Int) * (-st) := by
    rw [Int.mul_neg]; omega
  rw [e, Int.mul_ediv_cancel _ (by omega : -st ≠ 0)]
  omega

theorem pyRange_reverse {a b st : Int} (hst : st < 0) (hne : rangeLen a b st ≠ 0) :
    pyRange (a + ((rangeLen a b st - 1 : Nat) : Int) * st) (a + 1) (-st) = (pyRange a b st).reverse := by
  apply List.ext_getElem
  · simp [rangeLen_reverse hst hne]
  · intro k h1 h2
    rw [List.getElem_reverse]
    simp only [pyRange, List.getElem_map, List.getElem_range, List.length_map, List.length_range]
    simp only [length_pyRange, rangeLen_reverse hst hne] at h1
    generalize hL : rangeLen a b st - 1 = L
    have hlen : rangeLen a b st = L + 1 := by omega
    have e1 : ((L - k : Nat) : Int) = (L : Int) - (k : Int) := by omega
    rw [e1, Int.sub_mul, Int.mul_neg]
    omega

end Exetera.Spec
