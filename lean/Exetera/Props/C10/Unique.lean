import Exetera.Props.C14
import Exetera.Props.C10.Basic
import Exetera.Model.KernelSitesUnique
import Exetera.Model.KernelPathsUnique
/-!
# C10 — the `isin` / `unique` kernels of indexed strings (owning property: C14)

`isin` / `unique` of every other field type delegate to numpy (`np.isin`, `np.unique`): their bounds are numpy's.
-/
namespace Exetera.Props.C10
open Exetera Exetera.Unique Exetera.Spec

theorem access_sites_covered_unique : ∀ k ∈ KernelSites.uniqueSites, lookup k.1 = some k := by decide +kernel

/-- the PATH CONDITION of every subscript occurrence in these kernels (enclosing loop guards, `if` / `elif` tests, negated
    `else` branches and early exits), as regenerated from the current source (`Gen/KernelPaths.lean`), is exactly the one the
    model was written against (`Model/KernelPathsUnique.lean`): dropping or changing a test that dominates a subscript breaks
    the build; and the table covers exactly the kernels of the site table -/
theorem access_paths_covered_unique :
    (∀ k ∈ KernelPaths.uniquePaths, lookupPaths k.1 = some k) ∧
    KernelPaths.uniquePaths.map (·.1) = KernelSites.uniqueSites.map (·.1) := by decide +kernel

example : KernelSites.uniqueSites.length = 3 := by decide

/-- `compare_arrays` on ANY two byte arrays -/
theorem no_oob_compare_arrays (a b : Bytes) (site : String) : compareArrays a b ≠ .error (.oob site) :=
  ne_oob_of_ok (C14.compare_arrays_is_lex a b) site

/-- the binary search of `isin_indexed_string_speedup` for ANY row value in a sorted test list (`mid` stays inside) -/
theorem no_oob_isin_row (tests : List Bytes) (v : Bytes) (hs : SortedLe tests) (site : String) :
    isinRow tests v ≠ .error (.oob site) :=
  ne_oob_of_ok (C14.binary_search_complete tests v hs) site

/-- the compiled kernel `isin_indexed_string_speedup` on the stored form of any column and any sorted test list -/
theorem no_oob_isin_speedup (tests col : List Bytes) (hs : SortedLe tests) (site : String) :
    isinSpeedup tests (encode col).1 (encode col).2 ≠ .error (.oob site) :=
  ne_oob_of_ok (isinSpeedup_encode tests col hs) site

/-- `IndexedStringField.isin` end to end (the entry point sorts the test elements itself): any column, any test list -/
theorem no_oob_isin (col : List Bytes) (ts : List (Option Bytes)) (site : String) :
    applyIsin refNpIsin id (.indexed (encode col).1 (encode col).2) (some ts) ≠ .error (.oob site) :=
  ne_oob_of_ok (C14.isin_eq_mem col ts) site

example : applyIsin refNpIsin id (.indexed (encode [[1], [2, 2], []]).1 (encode [[1], [2, 2], []]).2)
    (some [some [2, 2], none, some []]) = .ok [false, true, true] := by
  rw [C14.isin_eq_mem]; exact congrArg _ (by decide)

/-- the compiled kernel `get_indexed_string_unique` on the stored form of ANY column, every flag combination -/
theorem no_oob_get_indexed_string_unique (col : List Bytes) (ri rv rc : Bool) (site : String) :
    getIndexedStringUnique (encode col).1 (encode col).2 ri rv rc ≠ .error (.oob site) :=
  ne_oob_of_ok (C14.unique_kernel_discovery_order col ri rv rc) site

example : (getIndexedStringUnique (encode [[1], [2], [1]]).1 (encode [[1], [2], [1]]).2 true true true).toOption.map (·.counts)
    = some (some [2, 1]) := by rfl

/-- `IndexedStringField.unique` end to end (kernel + the re-ordering loops of `unique_for_indexed_string`).
    `_partial`: the full statement has no `NoTrailingNul` hypothesis. It is the hypothesis of the owning theorem
    `C14.unique_eq_spec_partial` (open finding NC14a: numpy's `<U` sort drops trailing NUL characters, so the sorted
    order of such columns is not the specification's); that the three re-ordering gathers stay in range for columns
    WITH trailing NULs as well (the permutation is still a permutation of the discovery order) is not proved — such
    columns are covered by the differential runs only. -/
theorem no_oob_unique_partial (col : List Bytes) (hn : NoTrailingNul col) (ri rv rc : Bool) (site : String) :
    applyUnique (refNpUnique bytesLe) id (.indexed (encode col).1 (encode col).2) ri rv rc ≠ .error (.oob site) :=
  ne_oob_of_ok (C14.unique_eq_spec_partial col hn ri rv rc) site

example : NoTrailingNul [[1], [2, 2], [1]] := by
  simp [NoTrailingNul]

end Exetera.Props.C10
