import Exetera.Gen.Kernels
import Exetera.Model.JoinFlat
import Exetera.Lemmas.While
import Exetera.Lemmas.GenKernels
import Exetera.Lemmas.GenKernelsJoin
import Exetera.Lemmas.GenKernelsJoinGeneral
/-!
  The TRANSLATED flat (whole-array) left-map kernels of C19 against the guard/body model `generateLeft` of `Model/JoinFlat.lean`:

    generate_ordered_map_to_left_both_unique    ~  generateLeft true
    generate_ordered_map_to_left_right_unique   ~  generateLeft false

  The model keeps the part of `result` written so far as the list `out` (`out = result[0:i]`); the translated kernels, like the
  code, store at position `i` of the caller's array. Relation: `result[:i]` = the model's `out`, `result[i:]` still the caller's
  entries, loop variables equal. `whileE_sim` lifts the one-iteration lemmas to both loops; `whileE_mono` lets the second loop run
  on the kernel's single fuel.
-/
namespace Exetera.GenK

open Exetera Exetera.PyRt Exetera.Gen.Kernels Exetera.JoinFlat

theorem drop_succ_of_drop {α} {xs ys : List α} {i : Nat} (h : xs.drop i = ys.drop i) : xs.drop (i + 1) = ys.drop (i + 1) := by
  have := congrArg (List.drop 1) h
  simpa [List.drop_drop, Nat.add_comm] using this

/-- storing at position `i` extends the written prefix and leaves the rest alone -/
theorem store_at {buf result out : List Int} {i : Nat} (v : Int) (hl : buf.length = result.length) (hi : i < result.length)
    (ho : out.length = i) (ht : buf.take i = out) (hd : buf.drop i = result.drop i) :
    (buf.set i v).length = result.length ∧ (out ++ [v]).length = i + 1 ∧ (buf.set i v).take (i + 1) = out ++ [v] ∧
      (buf.set i v).drop (i + 1) = result.drop (i + 1) := by
  refine ⟨by simpa using hl, by simp [ho], ?_, ?_⟩
  · rw [take_set_succ _ _ _ (by omega), ht]
  · rw [List.drop_set_of_lt (by omega)]
    exact drop_succ_of_drop hd

/-! ### generate_ordered_map_to_left_both_unique -/

namespace FBU

abbrev St := generate_ordered_map_to_left_both_unique.St

abbrev mk (first second buf : List Int) (inv i j u : Int) : St := ⟨first, second, buf, inv, i, j, u⟩

def R (first second result : List Int) (inv : Int) (s : St) (t : LS) : Prop :=
  ∃ buf, s = mk first second buf inv t.i t.j t.unmapped ∧ buf.length = result.length ∧ t.out.length = t.i ∧
    buf.take t.i = t.out ∧ buf.drop t.i = result.drop t.i

theorem guard1_eq (first second result : List Int) (inv : Int) (s : St) (t : LS) (h : R first second result inv s t) :
    generate_ordered_map_to_left_both_unique.guard_L1 s = leftGuard first second t := by
  obtain ⟨buf, rfl, _⟩ := h
  have h0 : generate_ordered_map_to_left_both_unique.guard_L1 (mk first second buf inv t.i t.j t.unmapped)
      = (decide ((t.i : Int) < (first.length : Int)) && decide ((t.j : Int) < (second.length : Int))) := rfl
  rw [h0]
  simp only [leftGuard]
  rw [Bool.eq_iff_iff]
  simp only [Bool.and_eq_true, decide_eq_true_eq]
  omega

theorem guard2_eq (first second result : List Int) (inv : Int) (s : St) (t : LS) (h : R first second result inv s t) :
    generate_ordered_map_to_left_both_unique.guard_L2 s = decide (t.i < first.length) := by
  obtain ⟨buf, rfl, _⟩ := h
  have h0 : generate_ordered_map_to_left_both_unique.guard_L2 (mk first second buf inv t.i t.j t.unmapped)
      = decide ((t.i : Int) < (first.length : Int)) := rfl
  rw [h0, Bool.eq_iff_iff]
  simp only [decide_eq_true_eq]
  omega

theorem body1_sim (first second result : List Int) (inv : Int) (s : St) (t t' : LS) (h : R first second result inv s t)
    (hb : leftBody true first second result.length inv t = .ok t') :
    ∃ s', generate_ordered_map_to_left_both_unique.body_L1 s = .ok s' ∧ R first second result inv s' t' := by
  obtain ⟨buf, rfl, hl, ho, ht, hd⟩ := h
  simp only [leftBody, getE] at hb
  have e_i : (t.i : Int) + 1 = ((t.i + 1 : Nat) : Int) := by omega
  have e_j : (t.j : Int) + 1 = ((t.j + 1 : Nat) : Int) := by omega
  have e_u : (t.unmapped : Int) + 1 = ((t.unmapped + 1 : Nat) : Int) := by omega
  cases ha : first[t.i]? with
  | none => simp [ha] at hb
  | some a =>
    cases hbb : second[t.j]? with
    | none => simp [ha, hbb] at hb
    | some b =>
      simp only [ha, hbb] at hb
      simp only [generate_ordered_map_to_left_both_unique.body_L1, idxE_nat, getE, ha, hbb, bindE_ok]
      by_cases hlt : a < b
      · simp only [hlt, if_true, decide_true] at hb ⊢
        by_cases hc : t.i < result.length
        · simp only [hc, if_true, Except.ok.injEq] at hb
          subst hb
          obtain ⟨q1, q2, q3, q4⟩ := store_at inv hl hc ho ht hd
          refine ⟨mk first second (buf.set t.i inv) inv ((t.i + 1 : Nat) : Int) t.j ((t.unmapped + 1 : Nat) : Int), ?_,
            _, rfl, q1, q2, q3, q4⟩
          simp only [setIdxE_nat, setE, show t.i < buf.length by omega, if_true, bindE_ok, e_i, e_u]
        · simp [hc] at hb
      · simp only [hlt, if_false, decide_false, Bool.false_eq_true] at hb ⊢
        by_cases hgt : a > b
        · simp only [hgt, if_true, decide_true, Except.ok.injEq] at hb ⊢
          subst hb
          exact ⟨mk first second buf inv t.i ((t.j + 1 : Nat) : Int) t.unmapped, by simp only [e_j], buf, rfl, hl, ho, ht, hd⟩
        · simp only [hgt, if_false, decide_false, Bool.false_eq_true] at hb ⊢
          by_cases hc : t.i < result.length
          · simp only [hc, if_true, Except.ok.injEq] at hb
            subst hb
            obtain ⟨q1, q2, q3, q4⟩ := store_at (t.j : Int) hl hc ho ht hd
            refine ⟨mk first second (buf.set t.i (t.j : Int)) inv ((t.i + 1 : Nat) : Int) ((t.j + 1 : Nat) : Int) t.unmapped, ?_,
              _, rfl, q1, q2, q3, q4⟩
            simp only [setIdxE_nat, setE, show t.i < buf.length by omega, if_true, bindE_ok, e_i, e_j]
          · simp [hc] at hb

theorem body2_sim (first second result : List Int) (inv : Int) (s : St) (t t' : LS) (h : R first second result inv s t)
    (hb : leftTailBody result.length inv t = .ok t') :
    ∃ s', generate_ordered_map_to_left_both_unique.body_L2 s = .ok s' ∧ R first second result inv s' t' := by
  obtain ⟨buf, rfl, hl, ho, ht, hd⟩ := h
  simp only [leftTailBody] at hb
  have e_i : (t.i : Int) + 1 = ((t.i + 1 : Nat) : Int) := by omega
  by_cases hc : t.i < result.length
  · simp only [hc, if_true, Except.ok.injEq] at hb
    subst hb
    obtain ⟨q1, q2, q3, q4⟩ := store_at inv hl hc ho ht hd
    refine ⟨mk first second (buf.set t.i inv) inv ((t.i + 1 : Nat) : Int) t.j t.unmapped, ?_, _, rfl, q1, q2, q3, q4⟩
    simp only [generate_ordered_map_to_left_both_unique.body_L2, setIdxE_nat, setE, show t.i < buf.length by omega, if_true,
      bindE_ok, e_i]
  · simp [hc] at hb

end FBU

/-- the final array: what was written, followed by the caller's untouched entries -/
theorem final_array {buf result out : List Int} {i : Nat} (ho : out.length = i) (ht : buf.take i = out)
    (hd : buf.drop i = result.drop i) : buf = out ++ result.drop out.length := by
  rw [ho, ← ht, ← hd, List.take_append_drop]

/-- every `.ok` run of the model is a run of the translated kernel, for every fuel ≥ len(first) + len(second) -/
theorem left_both_unique_flat_ok (first second result : List Int) (inv : Int) (r : Bool × List Int) (fuel : Nat)
    (hf : first.length + second.length ≤ fuel) (h : generateLeft true first second result inv = .ok r) :
    generate_ordered_map_to_left_both_unique.run first second result inv fuel = .ok r := by
  unfold generateLeft at h
  by_cases hlen : first.length = result.length
  · have hne : (first.length != result.length) = false := by simp [hlen]
    simp only [hne, Bool.false_eq_true, if_false] at h
    cases h1 : whileE (leftGuard first second) (leftBody true first second result.length inv) (first.length + second.length) {} with
    | error e => rw [h1] at h; simp at h
    | ok t1 =>
      rw [h1] at h
      simp only [] at h
      cases h2 : whileE (fun s => decide (s.i < first.length)) (leftTailBody result.length inv) first.length t1 with
      | error e => rw [h2] at h; simp at h
      | ok t2 =>
        rw [h2] at h
        simp only [Except.ok.injEq] at h
        subst h
        have h1' := whileE_mono _ _ _ _ _ h1 fuel hf
        have h2' := whileE_mono _ _ _ _ _ h2 fuel (by omega)
        obtain ⟨s1, hw1, hR1⟩ := whileE_sim (FBU.R first second result inv)
          generate_ordered_map_to_left_both_unique.guard_L1 generate_ordered_map_to_left_both_unique.body_L1
          (leftGuard first second) (leftBody true first second result.length inv)
          (FBU.guard1_eq first second result inv) (fun s t t' hR _ hb => FBU.body1_sim first second result inv s t t' hR hb)
          fuel (FBU.mk first second result inv 0 0 0) {} t1 ⟨result, rfl, rfl, rfl, rfl, rfl⟩ h1'
        obtain ⟨s2, hw2, hR2⟩ := whileE_sim (FBU.R first second result inv)
          generate_ordered_map_to_left_both_unique.guard_L2 generate_ordered_map_to_left_both_unique.body_L2
          (fun s => decide (s.i < first.length)) (leftTailBody result.length inv)
          (FBU.guard2_eq first second result inv) (fun s t t' hR _ hb => FBU.body2_sim first second result inv s t t' hR hb)
          fuel s1 t1 t2 hR1 h2'
        obtain ⟨buf, rfl, _, ho, ht, hd⟩ := hR2
        unfold generate_ordered_map_to_left_both_unique.run
        have hne' : ((pyLen first) != (pyLen result)) = false := by simp [pyLen, hlen]
        simp only [hne', Bool.false_eq_true, if_false, bindE_ok]
        have hw1' : whileE generate_ordered_map_to_left_both_unique.guard_L1 generate_ordered_map_to_left_both_unique.body_L1 fuel
            (FBU.mk first second result inv 0 0 0) = .ok s1 := hw1
        simp only [FBU.mk] at hw1'
        simp only [hw1', bindE_ok, hw2]
        have hu : decide ((t2.unmapped : Int) > 0) = decide (t2.unmapped > 0) := by
          rw [Bool.eq_iff_iff]; simp only [decide_eq_true_eq]; omega
        rw [hu, ← final_array ho ht hd]
  · have hne : (first.length != result.length) = true := by simp [hlen]
    simp [hne] at h

/-! ### generate_ordered_map_to_left_right_unique -/

namespace FRU

abbrev St := generate_ordered_map_to_left_right_unique.St

abbrev mk (first second buf : List Int) (inv i j u : Int) : St := ⟨first, second, buf, inv, i, j, u⟩

def R (first second result : List Int) (inv : Int) (s : St) (t : LS) : Prop :=
  ∃ buf, s = mk first second buf inv t.i t.j t.unmapped ∧ buf.length = result.length ∧ t.out.length = t.i ∧
    buf.take t.i = t.out ∧ buf.drop t.i = result.drop t.i

theorem guard1_eq (first second result : List Int) (inv : Int) (s : St) (t : LS) (h : R first second result inv s t) :
    generate_ordered_map_to_left_right_unique.guard_L1 s = leftGuard first second t := by
  obtain ⟨buf, rfl, _⟩ := h
  have h0 : generate_ordered_map_to_left_right_unique.guard_L1 (mk first second buf inv t.i t.j t.unmapped)
      = (decide ((t.i : Int) < (first.length : Int)) && decide ((t.j : Int) < (second.length : Int))) := rfl
  rw [h0]
  simp only [leftGuard]
  rw [Bool.eq_iff_iff]
  simp only [Bool.and_eq_true, decide_eq_true_eq]
  omega

theorem guard2_eq (first second result : List Int) (inv : Int) (s : St) (t : LS) (h : R first second result inv s t) :
    generate_ordered_map_to_left_right_unique.guard_L2 s = decide (t.i < first.length) := by
  obtain ⟨buf, rfl, _⟩ := h
  have h0 : generate_ordered_map_to_left_right_unique.guard_L2 (mk first second buf inv t.i t.j t.unmapped)
      = decide ((t.i : Int) < (first.length : Int)) := rfl
  rw [h0, Bool.eq_iff_iff]
  simp only [decide_eq_true_eq]
  omega

theorem body1_sim (first second result : List Int) (inv : Int) (s : St) (t t' : LS) (h : R first second result inv s t)
    (hb : leftBody false first second result.length inv t = .ok t') :
    ∃ s', generate_ordered_map_to_left_right_unique.body_L1 s = .ok s' ∧ R first second result inv s' t' := by
  obtain ⟨buf, rfl, hl, ho, ht, hd⟩ := h
  simp only [leftBody, getE] at hb
  have e_i : (t.i : Int) + 1 = ((t.i + 1 : Nat) : Int) := by omega
  have e_j : (t.j : Int) + 1 = ((t.j + 1 : Nat) : Int) := by omega
  have e_u : (t.unmapped : Int) + 1 = ((t.unmapped + 1 : Nat) : Int) := by omega
  cases ha : first[t.i]? with
  | none => simp [ha] at hb
  | some a =>
    cases hbb : second[t.j]? with
    | none => simp [ha, hbb] at hb
    | some b =>
      simp only [ha, hbb] at hb
      simp only [generate_ordered_map_to_left_right_unique.body_L1, idxE_nat, getE, ha, hbb, bindE_ok]
      by_cases hlt : a < b
      · simp only [hlt, if_true, decide_true] at hb ⊢
        by_cases hc : t.i < result.length
        · simp only [hc, if_true, Except.ok.injEq] at hb
          subst hb
          obtain ⟨q1, q2, q3, q4⟩ := store_at inv hl hc ho ht hd
          refine ⟨mk first second (buf.set t.i inv) inv ((t.i + 1 : Nat) : Int) t.j ((t.unmapped + 1 : Nat) : Int), ?_,
            _, rfl, q1, q2, q3, q4⟩
          simp only [setIdxE_nat, setE, show t.i < buf.length by omega, if_true, bindE_ok, e_i, e_u]
        · simp [hc] at hb
      · simp only [hlt, if_false, decide_false, Bool.false_eq_true] at hb ⊢
        by_cases hgt : a > b
        · simp only [hgt, if_true, decide_true, Except.ok.injEq] at hb ⊢
          subst hb
          exact ⟨mk first second buf inv t.i ((t.j + 1 : Nat) : Int) t.unmapped, by simp only [e_j], buf, rfl, hl, ho, ht, hd⟩
        · simp only [hgt, if_false, decide_false, Bool.false_eq_true] at hb ⊢
          by_cases hc : t.i < result.length
          · simp only [hc, if_true] at hb
            obtain ⟨q1, q2, q3, q4⟩ := store_at (t.j : Int) hl hc ho ht hd
            simp only [setIdxE_nat, setE, show t.i < buf.length by omega, if_true, bindE_ok, pyLen]
            by_cases hend : t.i + 1 ≥ first.length
            · have hend' : decide (((t.i + 1 : Nat) : Int) ≥ (first.length : Int)) = true := by simp; omega
              simp only [hend, if_true, Except.ok.injEq] at hb
              subst hb
              refine ⟨mk first second (buf.set t.i (t.j : Int)) inv ((t.i + 1 : Nat) : Int) ((t.j + 1 : Nat) : Int) t.unmapped, ?_,
                _, rfl, q1, q2, q3, q4⟩
              simp only [e_i, hend', if_true, bindE_ok, e_j]
            · have hend' : decide (((t.i + 1 : Nat) : Int) ≥ (first.length : Int)) = false := by simp; omega
              simp only [hend, if_false] at hb
              cases ha1 : first[t.i + 1]? with
              | none => simp [ha1] at hb
              | some a1 =>
                simp only [ha1] at hb
                by_cases hne : a1 = a
                · have hne' : (a1 != a) = false := by simp [hne]
                  simp only [hne', Bool.false_eq_true, if_false, Except.ok.injEq] at hb
                  subst hb
                  refine ⟨mk first second (buf.set t.i (t.j : Int)) inv ((t.i + 1 : Nat) : Int) t.j t.unmapped, ?_,
                    _, rfl, q1, q2, q3, q4⟩
                  simp only [e_i, hend', Bool.false_eq_true, if_false, idxE_nat, getE, ha1, ha, bindE_ok, hne']
                · have hne' : (a1 != a) = true := by simp [hne]
                  simp only [hne', if_true, Except.ok.injEq] at hb
                  subst hb
                  refine ⟨mk first second (buf.set t.i (t.j : Int)) inv ((t.i + 1 : Nat) : Int) ((t.j + 1 : Nat) : Int) t.unmapped, ?_,
                    _, rfl, q1, q2, q3, q4⟩
                  simp only [e_i, hend', Bool.false_eq_true, if_false, idxE_nat, getE, ha1, ha, bindE_ok, hne', if_true, e_j]
          · simp [hc] at hb

theorem body2_sim (first second result : List Int) (inv : Int) (s : St) (t t' : LS) (h : R first second result inv s t)
    (hb : leftTailBody result.length inv t = .ok t') :
    ∃ s', generate_ordered_map_to_left_right_unique.body_L2 s = .ok s' ∧ R first second result inv s' t' := by
  obtain ⟨buf, rfl, hl, ho, ht, hd⟩ := h
  simp only [leftTailBody] at hb
  have e_i : (t.i : Int) + 1 = ((t.i + 1 : Nat) : Int) := by omega
  by_cases hc : t.i < result.length
  · simp only [hc, if_true, Except.ok.injEq] at hb
    subst hb
    obtain ⟨q1, q2, q3, q4⟩ := store_at inv hl hc ho ht hd
    refine ⟨mk first second (buf.set t.i inv) inv ((t.i + 1 : Nat) : Int) t.j t.unmapped, ?_, _, rfl, q1, q2, q3, q4⟩
    simp only [generate_ordered_map_to_left_right_unique.body_L2, setIdxE_nat, setE, show t.i < buf.length by omega, if_true,
      bindE_ok, e_i]
  · simp [hc] at hb

end FRU

/-- every `.ok` run of the model is a run of the translated kernel, for every fuel ≥ len(first) + len(second) -/
theorem left_right_unique_flat_ok (first second result : List Int) (inv : Int) (r : Bool × List Int) (fuel : Nat)
    (hf : first.length + second.length ≤ fuel) (h : generateLeft false first second result inv = .ok r) :
    generate_ordered_map_to_left_right_unique.run first second result inv fuel = .ok r := by
  unfold generateLeft at h
  by_cases hlen : first.length = result.length
  · have hne : (first.length != result.length) = false := by simp [hlen]
    simp only [hne, Bool.false_eq_true, if_false] at h
    cases h1 : whileE (leftGuard first second) (leftBody false first second result.length inv) (first.length + second.length) {} with
    | error e => rw [h1] at h; simp at h
    | ok t1 =>
      rw [h1] at h
      simp only [] at h
      cases h2 : whileE (fun s => decide (s.i < first.length)) (leftTailBody result.length inv) first.length t1 with
      | error e => rw [h2] at h; simp at h
      | ok t2 =>
        rw [h2] at h
        simp only [Except.ok.injEq] at h
        subst h
        have h1' := whileE_mono _ _ _ _ _ h1 fuel hf
        have h2' := whileE_mono _ _ _ _ _ h2 fuel (by omega)
        obtain ⟨s1, hw1, hR1⟩ := whileE_sim (FRU.R first second result inv)
          generate_ordered_map_to_left_right_unique.guard_L1 generate_ordered_map_to_left_right_unique.body_L1
          (leftGuard first second) (leftBody false first second result.length inv)
          (FRU.guard1_eq first second result inv) (fun s t t' hR _ hb => FRU.body1_sim first second result inv s t t' hR hb)
          fuel (FRU.mk first second result inv 0 0 0) {} t1 ⟨result, rfl, rfl, rfl, rfl, rfl⟩ h1'
        obtain ⟨s2, hw2, hR2⟩ := whileE_sim (FRU.R first second result inv)
          generate_ordered_map_to_left_right_unique.guard_L2 generate_ordered_map_to_left_right_unique.body_L2
          (fun s => decide (s.i < first.length)) (leftTailBody result.length inv)
          (FRU.guard2_eq first second result inv) (fun s t t' hR _ hb => FRU.body2_sim first second result inv s t t' hR hb)
          fuel s1 t1 t2 hR1 h2'
        obtain ⟨buf, rfl, _, ho, ht, hd⟩ := hR2
        unfold generate_ordered_map_to_left_right_unique.run
        have hne' : ((pyLen first) != (pyLen result)) = false := by simp [pyLen, hlen]
        simp only [hne', Bool.false_eq_true, if_false, bindE_ok]
        have hw1' : whileE generate_ordered_map_to_left_right_unique.guard_L1 generate_ordered_map_to_left_right_unique.body_L1 fuel
            (FRU.mk first second result inv 0 0 0) = .ok s1 := hw1
        simp only [FRU.mk] at hw1'
        simp only [hw1', bindE_ok, hw2]
        have hu : decide ((t2.unmapped : Int) > 0) = decide (t2.unmapped > 0) := by
          rw [Bool.eq_iff_iff]; simp only [decide_eq_true_eq]; omega
        rw [hu, ← final_array ho ht hd]
  · have hne : (first.length != result.length) = true := by simp [hlen]
    simp [hne] at h

/-! ### ordered_inner_map_both_unique (no `return`: the result is the two map arrays) -/

namespace FIB

abbrev St := ordered_inner_map_both_unique.St

abbrev mk (left right b2 b3 : List Int) (i j m : Int) : St := ⟨left, right, b2, b3, i, j, m⟩

def R (left right l2i r2i : List Int) (s : St) (t : IS) : Prop :=
  ∃ b2 b3, s = mk left right b2 b3 t.i t.j t.lo.length ∧ b2.length = l2i.length ∧ b3.length = r2i.length ∧
    t.ro.length = t.lo.length ∧ b2.take t.lo.length = t.lo ∧ b2.drop t.lo.length = l2i.drop t.lo.length ∧
    b3.take t.lo.length = t.ro ∧ b3.drop t.lo.length = r2i.drop t.lo.length

theorem guard_eq (left right l2i r2i : List Int) (s : St) (t : IS) (h : R left right l2i r2i s t) :
    ordered_inner_map_both_unique.guard_L1 s = innerGuard left right t := by
  obtain ⟨b2, b3, rfl, _⟩ := h
  have h0 : ordered_inner_map_both_unique.guard_L1 (mk left right b2 b3 t.i t.j t.lo.length)
      = (decide ((t.i : Int) < (left.length : Int)) && decide ((t.j : Int) < (right.length : Int))) := rfl
  rw [h0]
  simp only [innerGuard]
  rw [Bool.eq_iff_iff]
  simp only [Bool.and_eq_true, decide_eq_true_eq]
  omega

theorem body_sim (left right l2i r2i : List Int) (s : St) (t t' : IS) (h : R left right l2i r2i s t)
    (hb : innerBody false false left right (min l2i.length r2i.length) t = .ok t') :
    ∃ s', ordered_inner_map_both_unique.body_L1 s = .ok s' ∧ R left right l2i r2i s' t' := by
  obtain ⟨b2, b3, rfl, hl2, hl3, hro, ht2, hd2, ht3, hd3⟩ := h
  simp only [innerBody, getE, runLen, Bool.false_eq_true, if_false] at hb
  have e_i : (t.i : Int) + 1 = ((t.i + 1 : Nat) : Int) := by omega
  have e_j : (t.j : Int) + 1 = ((t.j + 1 : Nat) : Int) := by omega
  have e_m : (t.lo.length : Int) + 1 = ((t.lo.length + 1 : Nat) : Int) := by omega
  cases ha : left[t.i]? with
  | none => simp [ha] at hb
  | some a =>
    cases hbb : right[t.j]? with
    | none => simp [ha, hbb] at hb
    | some b =>
      simp only [ha, hbb] at hb
      simp only [ordered_inner_map_both_unique.body_L1, idxE_nat, getE, ha, hbb, bindE_ok]
      by_cases hlt : a < b
      · simp only [hlt, if_true, decide_true, Except.ok.injEq] at hb ⊢
        subst hb
        exact ⟨mk left right b2 b3 ((t.i + 1 : Nat) : Int) t.j t.lo.length, by simp only [e_i],
          b2, b3, rfl, hl2, hl3, hro, ht2, hd2, ht3, hd3⟩
      · simp only [hlt, if_false, decide_false, Bool.false_eq_true] at hb ⊢
        by_cases hgt : a > b
        · simp only [hgt, if_true, decide_true, Except.ok.injEq] at hb ⊢
          subst hb
          exact ⟨mk left right b2 b3 t.i ((t.j + 1 : Nat) : Int) t.lo.length, by simp only [e_j],
            b2, b3, rfl, hl2, hl3, hro, ht2, hd2, ht3, hd3⟩
        · simp only [hgt, if_false, decide_false, Bool.false_eq_true, Nat.mul_one] at hb ⊢
          by_cases hc : t.lo.length + 1 ≤ min l2i.length r2i.length
          · simp only [hc, if_true, Except.ok.injEq] at hb
            subst hb
            have hc2 : t.lo.length < l2i.length := by omega
            have hc3 : t.lo.length < r2i.length := by omega
            obtain ⟨p1, p2, p3, p4⟩ := store_at (t.i : Int) hl2 hc2 rfl ht2 hd2
            obtain ⟨q1, q2, q3, q4⟩ := store_at (t.j : Int) hl3 hc3 hro ht3 hd3
            have hbl : blockL 1 t.i 1 = [(t.i : Int)] := by simp [blockL]
            have hbr : blockR t.j 1 1 = [(t.j : Int)] := by simp [blockR]
            refine ⟨mk left right (b2.set t.lo.length (t.i : Int)) (b3.set t.lo.length (t.j : Int)) ((t.i + 1 : Nat) : Int)
              ((t.j + 1 : Nat) : Int) ((t.lo.length + 1 : Nat) : Int), ?_, _, _, ?_, p1, q1, ?_, ?_, ?_, ?_, ?_⟩
            · simp only [setIdxE_nat, setE, show t.lo.length < b2.length by omega, show t.lo.length < b3.length by omega,
                if_true, bindE_ok, e_i, e_j, e_m]
            · simp [hbl]
            · simp [hbl, hbr, hro]
            · rw [hbl]; simpa using p3
            · rw [hbl]; simpa using p4
            · rw [hbl, hbr]; simpa using q3
            · rw [hbl]; simpa using q4
          · simp [hc] at hb

end FIB

/-- every `.ok` run of the model is a run of the translated kernel, for every fuel ≥ len(left) + len(right) -/
theorem inner_map_both_unique_flat_ok (left right l2i r2i : List Int) (r : List Int × List Int) (fuel : Nat)
    (hf : left.length + right.length ≤ fuel) (h : orderedInnerMap false false left right l2i r2i = .ok r) :
    ordered_inner_map_both_unique.run left right l2i r2i fuel = .ok r := by
  unfold orderedInnerMap at h
  cases h1 : whileE (innerGuard left right) (innerBody false false left right (min l2i.length r2i.length))
      (left.length + right.length) {} with
  | error e => rw [h1] at h; simp at h
  | ok t1 =>
    rw [h1] at h
    simp only [Except.ok.injEq] at h
    subst h
    have h1' := whileE_mono _ _ _ _ _ h1 fuel hf
    obtain ⟨s1, hw1, hR1⟩ := whileE_sim (FIB.R left right l2i r2i)
      ordered_inner_map_both_unique.guard_L1 ordered_inner_map_both_unique.body_L1
      (innerGuard left right) (innerBody false false left right (min l2i.length r2i.length))
      (FIB.guard_eq left right l2i r2i) (fun s t t' hR _ hb => FIB.body_sim left right l2i r2i s t t' hR hb)
      fuel (FIB.mk left right l2i r2i 0 0 0) {} t1 ⟨l2i, r2i, rfl, rfl, rfl, rfl, rfl, rfl, rfl, rfl⟩ h1'
    obtain ⟨b2, b3, rfl, _, _, hro, ht2, hd2, ht3, hd3⟩ := hR1
    unfold ordered_inner_map_both_unique.run
    have hw1' : whileE ordered_inner_map_both_unique.guard_L1 ordered_inner_map_both_unique.body_L1 fuel
        (FIB.mk left right l2i r2i 0 0 0) = .ok (FIB.mk left right b2 b3 t1.i t1.j t1.lo.length) := hw1
    simp only [FIB.mk] at hw1'
    simp only [hw1', bindE_ok]
    rw [← final_array rfl ht2 hd2]
    have h3 := final_array hro ht3 hd3 (buf := b3) (result := r2i)
    rw [← h3]

end Exetera.GenK
