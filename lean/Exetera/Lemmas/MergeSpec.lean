import Exetera.Lemmas.Merge
import Exetera.Lemmas.JoinCalls
import Exetera.Lemmas.JoinFlatSession
/-! Helper lemmas for C02, part 2: facts about the specification `Spec.relJoin` alone (no model code) —
    row numbers are in range, a side whose partner has unique keys is selected row by row (`idSel`), the driving side's
    row numbers and the row keys are non-decreasing when the key columns are sorted. -/
namespace Exetera.Merge

open Exetera Exetera.Spec

/-! ### row numbers are in range -/

theorem leftRel_in_range (l r : List Int) : ∀ p ∈ leftRel l r,
    (∀ i, p.1 = some i → i < l.length) ∧ (∀ j, p.2 = some j → j < r.length) := by
  intro p hp
  simp only [leftRel, List.mem_map] at hp
  obtain ⟨q, hq, rfl⟩ := hp
  have := Join.leftJoinFrom_bounds r l 0 q hq
  refine ⟨fun i hi => ?_, fun j hj => this.2.2 j hj⟩
  simp only [Option.some.injEq] at hi
  omega

theorem unmatchedRight_in_range (l r : List Int) : ∀ p ∈ unmatchedRight l r,
    p.1 = none ∧ (∀ j, p.2 = some j → j < r.length) := by
  intro p hp
  simp only [unmatchedRight, List.mem_filterMap] at hp
  obtain ⟨q, hq, hqp⟩ := hp
  have := Join.leftJoinFrom_bounds l r 0 q hq
  cases h2 : q.2 with
  | none =>
    simp only [h2, Option.some.injEq] at hqp
    subst hqp
    refine ⟨rfl, fun j hj => ?_⟩
    simp only [Option.some.injEq] at hj
    omega
  | some _ => simp [h2] at hqp

/-- **every row of the relational join names existing rows of both frames** (all modes) -/
theorem relJoin_in_range (how : String) (l r : List Int) : ∀ p ∈ relJoin how l r,
    (∀ i, p.1 = some i → i < l.length) ∧ (∀ j, p.2 = some j → j < r.length) := by
  intro p hp
  unfold relJoin at hp
  split at hp
  · exact leftRel_in_range l r p hp
  · split at hp
    · simp only [List.mem_map] at hp
      obtain ⟨q, hq, rfl⟩ := hp
      have := JoinOld.innerJoinFrom_bound r l 0 q hq
      refine ⟨fun i hi => ?_, fun j hj => ?_⟩
      · simp only [Option.some.injEq] at hi; omega
      · simp only [Option.some.injEq] at hj; omega
    · split at hp
      · simp only [List.mem_map] at hp
        obtain ⟨q, hq, rfl⟩ := hp
        have := leftRel_in_range r l q hq
        exact ⟨this.2, this.1⟩
      · split at hp
        · rcases List.mem_append.mp hp with h | h
          · exact leftRel_in_range l r p h
          · have := unmatchedRight_in_range l r p h
            exact ⟨fun i hi => (by rw [this.1] at hi; cases hi), this.2⟩
        · simp at hp

theorem sel_left_in_range (how : String) (l r : List Int) :
    ∀ i, some i ∈ (relJoin how l r).map (·.1) → i < l.length := by
  intro i hi
  obtain ⟨p, hp, hpi⟩ := List.mem_map.mp hi
  exact (relJoin_in_range how l r p hp).1 i hpi

theorem sel_right_in_range (how : String) (l r : List Int) :
    ∀ j, some j ∈ (relJoin how l r).map (·.2) → j < r.length := by
  intro j hj
  obtain ⟨p, hp, hpj⟩ := List.mem_map.mp hj
  exact (relJoin_in_range how l r p hp).2 j hpj

/-! ### a side joined against unique keys is selected row by row -/

theorem matchRows_nodup_length {k : Int} : ∀ {r : List Int} {base : Nat}, r.Nodup → (matchRows k r base).length ≤ 1
  | [], _, _ => by simp [matchRows]
  | b :: bs, base, h => by
    have hb := List.nodup_cons.mp h
    simp only [matchRows]
    split
    · rename_i hbk
      have hbk' : b = k := by simpa using hbk
      rw [matchRows_eq_nil (fun x hx hxk => hb.1 (by rw [hbk', ← hxk]; exact hx))]
      simp
    · exact matchRows_nodup_length hb.2

theorem leftRow_fst (base : Nat) (ms : List Nat) (h : ms.length ≤ 1) : (leftRow base ms).map (·.1) = [base] := by
  match ms, h with
  | [], _ => rfl
  | [_], _ => rfl

theorem leftJoinFrom_fst_of_nodup {r : List Int} (hr : r.Nodup) : ∀ (l : List Int) (base : Nat),
    (leftJoinFrom r l base).map (·.1) = List.range' base l.length
  | [], _ => rfl
  | a :: as, base => by
    simp only [leftJoinFrom, List.map_append, List.length_cons, List.range'_succ]
    rw [leftRow_fst base _ (matchRows_nodup_length hr), leftJoinFrom_fst_of_nodup hr as (base + 1)]
    rfl

/-- left join against a right column with unique keys: every left row exactly once, in order -/
theorem leftJoin_sel_of_nodup {l r : List Int} (hr : r.Nodup) :
    (leftJoin l r).map (fun p => some p.1) = idSel l.length := by
  have := leftJoinFrom_fst_of_nodup hr l 0
  have h2 : (leftJoin l r).map (fun p => some p.1) = ((leftJoinFrom r l 0).map (·.1)).map some := by
    simp [leftJoin, List.map_map, Function.comp_def]
  rw [h2, this, idSel, List.range_eq_range']

theorem nodup_of_strict {xs : List Int} (h : xs.Pairwise (· < ·)) : xs.Nodup :=
  h.imp (fun hab => Int.ne_of_lt hab)

theorem strict_of_sorted_nodup {xs : List Int} (hs : Sorted xs) (hn : xs.Nodup) : xs.Pairwise (· < ·) := by
  induction xs with
  | nil => exact List.Pairwise.nil
  | cons a as ih =>
    have h1 := List.pairwise_cons.mp hs
    have h2 := List.nodup_cons.mp hn
    refine List.pairwise_cons.mpr ⟨fun x hx => ?_, ih h1.2 h2.2⟩
    have hle := h1.1 x hx
    have hne : a ≠ x := fun h => h2.1 (h ▸ hx)
    omega

/-! ### order of the rows -/

theorem leftRow_fst_all (base : Nat) (ms : List Nat) : ∀ p ∈ leftRow base ms, p.1 = base := by
  intro p hp
  cases ms with
  | nil => simp [leftRow] at hp; subst hp; rfl
  | cons m ms' =>
    simp only [leftRow, List.mem_map] at hp
    obtain ⟨_, _, rfl⟩ := hp
    rfl

theorem leftJoinFrom_fst_sorted (r : List Int) : ∀ (l : List Int) (base : Nat),
    ((leftJoinFrom r l base).map (·.1)).Pairwise (· ≤ ·)
  | [], _ => by simp [leftJoinFrom]
  | a :: as, base => by
    simp only [leftJoinFrom, List.map_append]
    refine List.pairwise_append.mpr ⟨?_, leftJoinFrom_fst_sorted r as (base + 1), ?_⟩
    · refine List.pairwise_map.mpr (List.Pairwise.imp_of_mem (R := fun _ _ => True) ?_ (List.pairwise_of_forall (fun _ _ => trivial)))
      intro p q hp hq _
      rw [leftRow_fst_all base _ p hp, leftRow_fst_all base _ q hq]
      exact Nat.le_refl _
    · intro x hx y hy
      obtain ⟨p, hp, rfl⟩ := List.mem_map.mp hx
      obtain ⟨q, hq, rfl⟩ := List.mem_map.mp hy
      have := Join.leftJoinFrom_bounds r as (base + 1) q hq
      rw [leftRow_fst_all base _ p hp]
      omega

theorem innerJoinFrom_fst_sorted (r : List Int) : ∀ (l : List Int) (base : Nat),
    ((innerJoinFrom r l base).map (·.1)).Pairwise (· ≤ ·)
  | [], _ => by simp [innerJoinFrom]
  | a :: as, base => by
    simp only [innerJoinFrom, List.map_append, List.map_map]
    refine List.pairwise_append.mpr ⟨?_, innerJoinFrom_fst_sorted r as (base + 1), ?_⟩
    · exact List.pairwise_map.mpr (List.pairwise_of_forall (fun _ _ => Nat.le_refl _))
    · intro x hx y hy
      obtain ⟨_, _, rfl⟩ := List.mem_map.mp hx
      obtain ⟨q, hq, rfl⟩ := List.mem_map.mp hy
      have := JoinOld.innerJoinFrom_bound r as (base + 1) q hq
      simp only [Function.comp]
      omega

/-- reading a sorted column at non-decreasing in-range positions gives a sorted list -/
theorem sorted_pick {l : List Int} (hl : Sorted l) (idx : List Nat) (hidx : idx.Pairwise (· ≤ ·))
    (hin : ∀ i ∈ idx, i < l.length) : ∃ ks, idx.map (fun i => l[i]?) = ks.map some ∧ Sorted ks := by
  refine ⟨idx.map (fun i => l.getD i 0), ?_, ?_⟩
  · rw [List.map_map]
    apply List.map_congr_left
    intro i hi
    have := hin i hi
    simp [List.getD, List.getElem?_eq_getElem this]
  · refine List.pairwise_map.mpr (List.Pairwise.imp_of_mem ?_ hidx)
    intro a b ha hb hab
    have h1 := hin a ha
    have h2 := hin b hb
    have := hl.le_of_lt hab h2
    simpa [List.getD, List.getElem?_eq_getElem h1, List.getElem?_eq_getElem h2] using this

/-! ### matched rows carry equal keys -/

theorem matchRows_key {k : Int} : ∀ (r : List Int) (base j : Nat), j ∈ matchRows k r base →
    base ≤ j ∧ r[j - base]? = some k
  | [], _, _, h => by simp [matchRows] at h
  | b :: bs, base, j, h => by
    simp only [matchRows] at h
    split at h
    · rename_i hbk
      rcases List.mem_cons.mp h with h | h
      · subst h; simp only [Nat.le_refl, Nat.sub_self, List.getElem?_cons_zero, true_and]
        simpa using hbk
      · have := matchRows_key bs (base + 1) j h
        refine ⟨by omega, ?_⟩
        have e : j - base = (j - (base + 1)) + 1 := by omega
        rw [e, List.getElem?_cons_succ]; exact this.2
    · have := matchRows_key bs (base + 1) j h
      refine ⟨by omega, ?_⟩
      have e : j - base = (j - (base + 1)) + 1 := by omega
      rw [e, List.getElem?_cons_succ]; exact this.2

theorem leftJoinFrom_key (r : List Int) : ∀ (l : List Int) (base : Nat), ∀ p ∈ leftJoinFrom r l base,
    base ≤ p.1 ∧ ∃ a, l[p.1 - base]? = some a ∧ ∀ j, p.2 = some j → r[j]? = some a
  | [], _ => by simp [leftJoinFrom]
  | a :: as, base => by
    intro p hp
    simp only [leftJoinFrom, List.mem_append] at hp
    rcases hp with hp | hp
    · have h1 := leftRow_fst_all base _ p hp
      refine ⟨by omega, a, by simp [h1], ?_⟩
      intro j hj
      cases hms : matchRows a r 0 with
      | nil => rw [hms] at hp; simp [leftRow] at hp; subst hp; simp at hj
      | cons m ms =>
        rw [hms] at hp
        simp only [leftRow, List.mem_map] at hp
        obtain ⟨y, hy, rfl⟩ := hp
        simp only [Option.some.injEq] at hj
        subst hj
        have := matchRows_key r 0 y (by rw [hms]; exact hy)
        simpa using this.2
    · obtain ⟨h1, a', h2, h3⟩ := leftJoinFrom_key r as (base + 1) p hp
      refine ⟨by omega, a', ?_, h3⟩
      have e : p.1 - base = (p.1 - (base + 1)) + 1 := by omega
      rw [e, List.getElem?_cons_succ]; exact h2

/-- **key order of the ordered path**: with sorted key columns every row of the left, right or inner relational join
    has a key and the keys are non-decreasing in row order -/
theorem relJoin_keys_sorted (how : String) (hhow : how = "left" ∨ how = "right" ∨ how = "inner") {l r : List Int}
    (hl : Sorted l) (hr : Sorted r) :
    ∃ ks, (relJoin how l r).map (rowKey l r) = ks.map some ∧ Sorted ks := by
  rcases hhow with h | h | h <;> subst h
  · have e : (relJoin "left" l r).map (rowKey l r) = ((leftJoin l r).map (·.1)).map (fun i => l[i]?) := by
      simp [relJoin, leftRel, rowKey, List.map_map, Function.comp_def]
    rw [e]
    refine sorted_pick hl _ (leftJoinFrom_fst_sorted r l 0) ?_
    intro i hi
    obtain ⟨p, hp, rfl⟩ := List.mem_map.mp hi
    have := Join.leftJoinFrom_bounds r l 0 p hp
    omega
  · have e : (relJoin "right" l r).map (rowKey l r) = ((leftJoin r l).map (·.1)).map (fun i => r[i]?) := by
      simp only [relJoin, leftRel, List.map_map, Function.comp_def]
      simp only [show ("right" = "left") = False by decide, show ("right" = "inner") = False by decide, if_false, if_true,
        List.map_map, Function.comp_def]
      apply List.map_congr_left
      intro p hp
      obtain ⟨_, a, h2, h3⟩ := leftJoinFrom_key l r 0 p hp
      simp only [Nat.sub_zero] at h2
      cases h : p.2 with
      | none => simp [rowKey]
      | some j => simp [rowKey, h3 j h, h2]
    rw [e]
    refine sorted_pick hr _ (leftJoinFrom_fst_sorted l r 0) ?_
    intro i hi
    obtain ⟨p, hp, rfl⟩ := List.mem_map.mp hi
    have := Join.leftJoinFrom_bounds l r 0 p hp
    omega
  · have e : (relJoin "inner" l r).map (rowKey l r) = ((innerJoin l r).map (·.1)).map (fun i => l[i]?) := by
      simp [relJoin, rowKey, List.map_map, Function.comp_def]
    rw [e]
    refine sorted_pick hl _ (innerJoinFrom_fst_sorted r l 0) ?_
    intro i hi
    obtain ⟨p, hp, rfl⟩ := List.mem_map.mp hi
    have := JoinOld.innerJoinFrom_bound r l 0 p hp
    omega

end Exetera.Merge
