import Exetera.Lemmas.Export
/-! C18: argument validation and column selection of `to_csv` around the loop theorem. -/
namespace Exetera

instance {ε α} [DecidableEq ε] [DecidableEq α] : DecidableEq (Except ε α) := fun a b =>
  match a, b with
  | .ok x, .ok y => if h : x = y then isTrue (by rw [h]) else isFalse (by intro e; cases e; exact h rfl)
  | .error x, .error y => if h : x = y then isTrue (by rw [h]) else isFalse (by intro e; cases e; exact h rfl)
  | .ok _, .error _ => isFalse (by intro e; cases e)
  | .error _, .ok _ => isFalse (by intro e; cases e)

end Exetera

namespace Exetera.Export
open Exetera.Spec.Export

/-- `cf` is a valid column selection of frame `f` and selects the names `sel` (in the caller's order, duplicates kept) -/
inductive Selects (f : Frame) : ColFilter → List Cell → Prop where
  | none : Selects f .none f.keys
  | one (n : Cell) : n ∈ f.keys → Selects f (.one n) [n]
  | many (ns : List Cell) : ns ≠ [] → (∀ n ∈ ns, n ∈ f.keys) → Selects f (.many ns) ns

/-- the selected names without the filter's own column (first occurrence), as `to_csv` writes them -/
def dropFilterColumn (rf : RowFilter) (sel : List Cell) : List Cell :=
  match filterColumnName rf with
  | some n => sel.erase n
  | Option.none => sel

theorem Selects.subset {f : Frame} {cf : ColFilter} {sel : List Cell} (h : Selects f cf sel) : ∀ n ∈ sel, n ∈ f.keys := by
  cases h with
  | none => intro n hn; exact hn
  | one n hn => intro m hm; simp at hm; subst hm; exact hn
  | many ns _ hall => exact hall

theorem dropFilterColumn_subset (rf : RowFilter) (sel : List Cell) : ∀ n ∈ dropFilterColumn rf sel, n ∈ sel := by
  intro n hn
  unfold dropFilterColumn at hn
  split at hn
  · exact List.mem_of_mem_erase hn
  · exact hn

theorem csvNames_ok {f : Frame} {rf : RowFilter} {cf : ColFilter} {sel : List Cell} {flt : Option (List Bool)}
    (hsel : Selects f cf sel) (hflt : validateRowFilter rf = .ok flt) :
    csvNames f rf cf = .ok (dropFilterColumn rf sel) := by
  cases hsel with
  | none => cases hfc : filterColumnName rf <;> simp only [csvNames, hflt, dropFilterColumn, hfc]
  | one n hn =>
    have : f.keys.contains n = true := by simpa using hn
    cases hfc : filterColumnName rf <;>
      simp only [csvNames, validateSelectedKeys, this, if_true, hflt, dropFilterColumn, hfc]
  | many _ hne hall =>
    cases hfc : filterColumnName rf <;>
      simp [csvNames, validateSelectedKeys, hflt, dropFilterColumn, hfc, hne] <;>
      rw [if_pos hall]

theorem get?_of_mem_keys (f : Frame) (n : Cell) (h : n ∈ f.keys) : ∃ c, f.get? n = some c ∧ c.name = n ∧ c ∈ f := by
  induction f with
  | nil => simp [Frame.keys] at h
  | cons c cs ih =>
    by_cases hc : c.name = n
    · exact ⟨c, by simp [Frame.get?, hc], hc, by simp⟩
    · have hmem : n ∈ Frame.keys cs := by
        simp only [Frame.keys, List.map_cons, List.mem_cons] at h
        rcases h with h | h
        · exact absurd h.symm hc
        · exact h
      obtain ⟨c', h1, h2, h3⟩ := ih hmem
      refine ⟨c', ?_, h2, by simp [h3]⟩
      simp only [Frame.get?] at h1 ⊢
      simp [hc, h1]

theorem getAll_ok (f : Frame) : ∀ (names : List Cell), (∀ n ∈ names, n ∈ f.keys) →
    ∃ fields, f.getAll names = .ok fields ∧ fields.map (·.name) = names ∧ ∀ c ∈ fields, c ∈ f := by
  intro names
  induction names with
  | nil => intro _; exact ⟨[], rfl, rfl, by simp⟩
  | cons n ns ih =>
    intro h
    obtain ⟨c, h1, h2, h3⟩ := get?_of_mem_keys f n (h n (by simp))
    obtain ⟨cs, g1, g2, g3⟩ := ih (fun m hm => h m (by simp [hm]))
    refine ⟨c :: cs, by simp [Frame.getAll, Frame.getE, h1, g1], by simp [h2, g2], ?_⟩
    intro x hx
    simp at hx
    rcases hx with rfl | hx
    · exact h3
    · exact g3 x hx

/-- without columns the loop fails at `chunk_data[0]`, whatever the chunk size -/
theorem exportLoop_no_columns (flt : Option (List Bool)) (crs : Nat) :
    exportLoop [] flt crs (loopFuel [] crs) = .error (.oob "chunk_data[0]") := by
  simp [exportLoop, loopFuel, whileE, loopGuard, loopBody]

/-- every cell of an exported row is a cell of one of the columns -/
theorem mem_exportRows {cols : List (List Cell)} {flt : Option (List Bool)} {r : List Cell} {x : Cell}
    (hr : r ∈ exportRows cols flt) (hx : x ∈ r) : ∃ col ∈ cols, x ∈ col := by
  simp only [exportRows, List.mem_map, List.mem_filter] at hr
  obtain ⟨i, _, rfl⟩ := hr
  simp only [rowAt, List.mem_filterMap] at hx
  obtain ⟨col, hc, hget⟩ := hx
  exact ⟨col, hc, List.mem_of_getElem? hget⟩

end Exetera.Export
