/-!
  C10 — access sites of the compiled "map a column through a join map" kernels that `Model/MapValid.lean` models: loop
  guards and array subscripts (R read / W write), frozen from the source the model was written against.
  `Props/C10/MapValid.lean` proves that the shapes regenerated from the CURRENT source (`Gen/KernelShape.lean`) are these.

  Model ↔ site map (model accessor that stands for each source subscript):
  * `get_valid_value_extents`: `chunk[i]` = the `m[i]?` match of `firstValidFrom` (`.oob "chunk[i]"`); `chunk[j]` = the
    `m[i + n]?` match of `lastValidDown` (`.oob "chunk[j]"`).
  * `next_map_subchunk`: `map_[sm]` occurs only under the loop guards `sm < len(map_) and …` (in the table below) and
    under `if sm < len(map_)`; the model fuses guard and read: `scanWhile` / `scanAsc` recurse on the suffix
    `map_[sm:]`, `m[sm1]?` is matched with `none ↦ skip`. No unguarded read exists, so the model has no error branch.
  * `ordered_map_valid_partial`: `map_values[sm]` = the `m[sm]?` match of `mapPartialStep`; `values[map_values[sm] -
    d_start]` = `getI` (computed, possibly negative index: wraps like numba); `result_data[sm]` = `setE`.
  * `ordered_map_valid_indexed_partial`: `indices[i_start]` = `getE` in `indexedPartial`; `sm_values[sm]` = the
    `p.map_[s.sm]?` match of `ipBody`; `indices[i]`, `indices[i + 1]` = `getI`; `values[v]` = `getI` in `readRange`;
    `result_indices[ri]` = the capacity check `s.ri.length < p.capI`; `result_values[rv]` = the capacity test
    `rv + v_end - v_start > len(result_values)` (`break`) that dominates the copy loop, mirrored conjunct for
    conjunct in `ipBody` (`Props.C10.indexed_partial_buffers_bounded`: no `.ok` run leaves more than `capI` / `capV`
    elements in the buffers).
  * `safe_map_values`: `map_filter[i]`, `map_field[i]` = the `filt[i]?` / `m[i]?` matches of `safeMapValuesStep`;
    `data_field[map_field[i]]` = `getI`; `result[i]` = `setE`.
  * `map_valid`: `map_field[i]` = the `m[i]?` match of `mapValidStep`; `data_field[map_field[i]]` = `getI`;
    `result[i]` = `setE`.
  * `safe_map_indexed_values`: `map_filter[i]`, `map_field[i]` = the matches of `smivLenStep` / `smivStep`;
    `data_indices[map_field[i]]`, `data_indices[map_field[i] + 1]` = `getI`; `data_values[sst:sse]` = `pySlice` (a
    slice clamps, it never raises). `i_result[0]`: `i_result` has `len(map_field) + 1 ≥ 1` slots (the initial `[0]` of `safeMapIndexedValues`);
    `i_result[i + 1]` = the capacity check `capI ≤ i + 1` of `smivStep`, `v_result[dst:dse] = …` = its check
    `capV < offset + delta` (the slice must end inside `v_result`: stricter than numpy's clamping), with `capI`, `capV` the
    sizes the kernel allocates between its passes (`len(map_field) + 1`, the `value_length` computed by `smivLenStep`);
    both discharged in `safeMapIndexedValues_spec` (the fill position is a prefix sum of the first pass's total) and, for
    ALL arguments, bounded by `Props.C10.safe_map_indexed_step_bounded`.
  * `chunks` has no subscript (modelled as `JoinOld.nextRange`; listed with the legacy join helpers).
-/
namespace Exetera.KernelSites

/-- the map-valid kernels (C04) -/
def mapValidSites : List (String × List String × List String) := [
  ("get_valid_value_extents",
    ["for i in range(start, end)", "while j >= i"],
    ["R chunk[i]", "R chunk[j]"]),
  ("safe_map_indexed_values",
    ["for i in range(len(map_field))"],
    ["R data_indices[map_field[i] + 1]", "R data_indices[map_field[i]]", "R data_values[sst:sse]", "R map_field[i]", "R map_filter[i]", "W i_result[0]", "W i_result[i + 1]", "W v_result[dst:dse]"]),
  ("safe_map_values",
    ["for i in range(len(map_field))"],
    ["R data_field[map_field[i]]", "R map_field[i]", "R map_filter[i]", "W result[i]"]),
  ("map_valid",
    ["for i in range(len(map_field))"],
    ["R data_field[map_field[i]]", "R map_field[i]", "W result[i]"]),
  ("next_map_subchunk",
    ["while sm < len(map_) and map_[sm] - start < chunksize", "while sm < len(map_) and map_[sm] == invalid"],
    ["R map_[sm]"]),
  ("ordered_map_valid_partial",
    ["while sm < sm_end"],
    ["R map_values[sm]", "R values[map_values[sm] - d_start]", "W result_data[sm]"]),
  ("ordered_map_valid_indexed_partial",
    ["for v in range(v_start, v_end)", "while sm < sm_end"],
    ["R indices[i + 1]", "R indices[i]", "R indices[i_start]", "R sm_values[sm]", "R values[v]", "W result_indices[ri]", "W result_values[rv]"])
]

end Exetera.KernelSites
