"""C16 — span concatenation produces the CSV-joined non-empty entries of each span, independent of the batching.

Correspondence: Session.apply_spans_concat (and the kernel ops._apply_spans_concat_2 directly)
                vs  Exetera.Concat.runBatches / Exetera.Concat.kernel (Lean).
Oracle for the property itself: the Python rendering of Spec/CsvLine.lean below (concat_spec, offsets, parse_csv_line),
cross-checked with Python's own csv.reader."""
import csv
import itertools

PROPERTY = "C16"
LEVEL = "proof"
LEAN_MODULES = ["Exetera.Props.C16", "Exetera.Witness.C16"]
THEOREMS = []  # checks/obligations/C16.json
EXHAUSTIVE = {"quick": True, "thorough": True}
MODES = {"quick": ["jit", "nojit"], "thorough": ["jit", "nojit", "bounds"], "search": ["jit", "nojit"]}
CASE_TIMEOUT = 30
RULE = ("exhaustive: every string column of length <= n over {'', 'a', ',', '\"', 'a,b', 'é'} x every partition of the rows "
        "into consecutive spans x the full configuration grid src_chunksize in 1..n (larger values behave like n) x value "
        "buffer dest_chunksize*chunksize_mult in {2m, 2m+1, 2m+2, 2m+5, 64+2m} (m = longest span output), factored "
        "alternately as (V,1)/(1,V)/(a,b) (quick n<=3, thorough n<=4); columns of length n+1 with one rotating grid point "
        "each (quick: every third, thorough: every second of them); then seeded random columns up to 40 rows over a 14-piece alphabet with random "
        "partitions, general (non-partition, even non-monotone) boundary lists, HDF5 and memory sources/destinations; a "
        "kernel-level stream calling _apply_spans_concat_2 directly with arbitrary sp_start/dest_start_v/limits; and a "
        "stream with value buffers from 0 to 2m-1 bytes (the sizing step of fix NC16b must grow them; these cases always "
        "execute the kernel's Python source, because the out-of-bounds write of the code before the fix cannot be "
        "observed safely under the JIT). Non-trivial = the model run makes >= 2 kernel calls or some span joins >= 2 "
        "non-empty entries or quotes an entry; distinct = distinct case line.")
ASSUMPTIONS = ["IndexedString fields store UTF-8 bytes in values and running offsets in indices; write_part on "
               "dest.indices / dest.values appends (C01); the harness re-reads target.indices/values and compares them with "
               "what the model was given",
               "the numpy int64 offsets and span boundaries are non-negative (modelled as Nat)",
               "the prefix-of-buffer abstraction: the caller reads only dest_index[:index_i] and dest_values[:index_v]",
               "hand-written Lean model validated by this differential run, not verified against the Python text"]
TRUSTED = ["Lean 4.33 kernel", "axioms: propext, Classical.choice, Quot.sound only (audited per theorem)",
           "checks/harness/c16.py generators and comparison",
           "Lean model Exetera/Model/Concat.lean mirrors operations._apply_spans_concat_2 and Session.apply_spans_concat by hand"]
TECHNIQUE = ("Lean 4 theorems about an executable model of the kernel and the batch loop (model = specification incl. "
             "memory safety and termination, for all inputs) + differential correspondence of the compiled model with the "
             "real code + Python rendering of the specification as oracle")
LEVEL_TEXT = ("proved for all inputs: for every string column, every list of span boundaries within the column, every "
              "src_chunksize >= 1 and every dest_chunksize, chunksize_mult, the model of Session.apply_spans_concat (with "
              "the D25, NC16a and NC16b fixes) returns without error or out-of-range access, stores exactly the CSV-joined "
              "non-empty entries of each span and their offsets, hence the same for all batch settings; reading a stored "
              "entry back as a CSV line returns the span's non-empty strings")
LEVEL_NOTE = ("the theorems are about the hand-written model Exetera.Concat (tied to the code by the correspondence run); "
              "bytes are an abstract alphabet with decidable equality; offsets and span boundaries are naturals; the "
              "as-found variant of the operation (D25, NC16a, NC16b) is kept with kernel-checked witnesses so a regression "
              "is reported with a replay; the empty source column is outside the theorem's reach only through D2 (C01): "
              "its indices array is [] instead of [0]")
EXPLANATION = ""

SEP, DELIM = 44, 34
ALPHA_SMALL = ["", "a", ",", "\"", "a,b", "é"]
ALPHA_RAND = ["", "", "a", ",", "\"", "a,b", "é", "x\"y", "bc", "\"\"", ",,", "\",\"", "日本", "a b"]


# ------------------------------------------------------------------------------------------------------------------
# the property's oracle: Python rendering of Spec/CsvLine.lean (over bytes)
# ------------------------------------------------------------------------------------------------------------------

def field(x):
    if SEP in x or DELIM in x:
        out = bytearray([DELIM])
        for c in x:
            if c == DELIM:
                out.append(DELIM)
            out.append(c)
        out.append(DELIM)
        return bytes(out)
    return x


def join_csv(xs):
    return bytes([SEP]).join(field(x) for x in xs)


def non_empty(xs):
    return [x for x in xs if len(x) > 0]


def py_slice(xs, a, b):
    return xs[a:b] if b > a else []


def concat_spec(entries, spans):
    return [join_csv(non_empty(py_slice(entries, a, b))) for a, b in zip(spans, spans[1:])]


def offsets(xs):
    out = [0]
    for x in xs:
        out.append(out[-1] + len(x))
    return out


def stored_indices(outs):
    return offsets(outs) if outs else []


def parse_csv_line(line):
    """Spec.CsvLine.parseCsvLine"""
    if len(line) == 0:
        return []
    res, cur, st = [], bytearray(), "start"
    for c in line:
        if st == "start":
            if c == DELIM:
                st = "quoted"
            elif c == SEP:
                res.append(bytes(cur)); cur = bytearray()
            else:
                cur.append(c); st = "unquoted"
        elif st == "unquoted":
            if c == SEP:
                res.append(bytes(cur)); cur = bytearray(); st = "start"
            else:
                cur.append(c)
        elif st == "quoted":
            if c == DELIM:
                st = "after"
            else:
                cur.append(c)
        else:
            if c == DELIM:
                cur.append(DELIM); st = "quoted"
            elif c == SEP:
                res.append(bytes(cur)); cur = bytearray(); st = "start"
            else:
                cur.append(c); st = "unquoted"
    res.append(bytes(cur))
    return res


def enc(strs):
    return [s.encode("utf-8") for s in strs]


def max_out(case):
    outs = concat_spec(enc(case["strs"]), case["spans"])
    return max([len(o) for o in outs] + [0])


def buffer_admitted_as_found(case):
    """before the NC16b repair the operation was only safe when no span output exceeded half the value buffer"""
    return max_out(case) <= (case["dc"] * case["mult"]) // 2


def admitted(case):
    """the property's precondition: a positive source chunk size and span boundaries inside a column that has an
    indices array (the empty indexed field stores indices = [] — D2, C01 — so there is no indices[0] to read).
    Since the NC16b repair there is no condition on dest_chunksize / chunksize_mult any more."""
    if case["op"] != "concat_session":
        return True
    return case["sc"] >= 1


# ------------------------------------------------------------------------------------------------------------------
# generators
# ------------------------------------------------------------------------------------------------------------------

def partitions(n):
    """all lists of span boundaries 0 = b0 < b1 < … < bk = n"""
    if n == 0:
        return [[0]]
    out = []
    for k in range(n):
        for cuts in itertools.combinations(range(1, n), k):
            out.append([0] + list(cuts) + [n])
    return out


def factor(v, k):
    """dest_chunksize, chunksize_mult with product v"""
    if v == 0:
        return (0, 3) if k % 2 == 0 else (5, 0)
    if k % 3 == 0:
        return v, 1
    if k % 3 == 1:
        return 1, v
    for a in (4, 3, 2):
        if v % a == 0:
            return a, v // a
    return v, 1


VMODES = [0, 1, 2, 5, None]   # V = 2m + delta, or 64 + 2m


def session_case(strs, spans, sc, vmode, k, src="mem", dst="h5", note=None):
    c = {"op": "concat_session", "strs": strs, "spans": spans, "sc": sc}
    m = max([len(o) for o in concat_spec(enc(strs), spans)] + [0])
    v = 64 + 2 * m if vmode is None else 2 * m + vmode
    c["dc"], c["mult"] = factor(v, k)
    c["src"], c["dst"] = src, dst
    c["_n"] = k
    if note:
        c["_why"] = note
    return c


def d1_safe(case):
    """A memory-backed destination raises in MemoryFieldArray.write_part when a batch without value bytes follows one
    with data (D1, owned by C01). Memory destinations (much cheaper than HDF5 ones) are used only where that cannot
    happen: every span output non-empty, or all of them empty."""
    outs = concat_spec(enc(case["strs"]), case["spans"])
    return all(len(o) > 0 for o in outs) or all(len(o) == 0 for o in outs)


def gen_cases(tier, rng):
    from checks import corpus
    cases = list(corpus.load("C16"))
    n_full = 3 if tier == "quick" else 4
    k = 0
    for n in range(0, n_full + 2):
        # with at most n spans every src_chunksize >= n behaves alike (one batch unless the value budget breaks it)
        grid = [(sc, vm) for sc in range(1, max(n, 1) + 1) for vm in VMODES]
        for col in itertools.product(ALPHA_SMALL, repeat=n):
            for spans in partitions(n):
                if n <= n_full:
                    pts = grid
                elif k % (3 if tier == "quick" else 2) != 0:
                    k += 1
                    continue
                else:
                    pts = [grid[(k * 7) % len(grid)]]
                for sc, vm in pts:
                    k += 1
                    c = session_case(list(col), spans, sc, vm, k)
                    if d1_safe(c):
                        c["dst"] = "mem"
                    cases.append(c)
    # seeded random larger columns
    nrand = 1500 if tier == "quick" else 20000
    for t in range(nrand):
        n = rng.choice([rng.randrange(0, 10), rng.randrange(5, 41)])
        strs = [rng.choice(ALPHA_RAND) if rng.random() < 0.8 else rand_str(rng) for _ in range(n)]
        kind = rng.random()
        if kind < 0.8:
            cuts = sorted(rng.sample(range(1, n), rng.randrange(0, n))) if n > 1 else []
            spans = ([0] + cuts + [n]) if n > 0 else [0]
        elif kind < 0.95:     # monotone boundary list with empty spans, not necessarily covering the column
            spans = sorted(rng.randrange(0, n + 1) for _ in range(rng.randrange(0, n + 3)))
        else:                 # arbitrary boundaries within the column
            spans = [rng.randrange(0, n + 1) for _ in range(rng.randrange(0, 8))]
        sc = rng.choice([1, 1, 2, 3, 4, 5, 7, 8, 16, 50])
        vm = rng.choice(VMODES + [3, 16])
        src = rng.choice(["mem", "mem", "h5"])
        c = session_case(strs, spans, sc, vm, t, src=src)
        if n == 0 and len(spans) >= 2:
            c["unsafe"] = True    # src_index of the empty field is [] (D2): the kernel would read out of bounds
        if rng.random() < 0.5 and d1_safe(c):
            c["dst"] = "mem"
        cases.append(c)
    # kernel-level stream: arbitrary sp_start / dest_start_v / limits (all within the buffers: safe under the JIT)
    nker = 400 if tier == "quick" else 8000
    for t in range(nker):
        n = rng.randrange(1, 12)
        strs = [rng.choice(ALPHA_RAND) for _ in range(n)]
        cuts = sorted(rng.sample(range(1, n), rng.randrange(0, n))) if n > 1 else []
        spans = [0] + cuts + [n]
        m = max(len(o) for o in concat_spec(enc(strs), spans))
        sp_start = rng.randrange(0, len(spans) - 1)
        max_i = rng.randrange(2 if sp_start == 0 else 1, 6)
        cap_i = max_i + rng.randrange(0, 3)
        max_v = rng.randrange(0, 2 * m + 4)
        cap_v = max_v + m + rng.randrange(0, 3)
        cases.append({"op": "concat_kernel", "strs": strs, "spans": spans, "cap_i": cap_i, "cap_v": cap_v, "max_i": max_i,
                      "max_v": max_v, "sp_start": sp_start, "dest_start_v": rng.choice([0, 0, 1, 7, 1000]),
                      "index0": rng.choice([0, 0, 5]), "_n": t})
    # value buffers smaller than twice the longest span output (down to 0): fine since the NC16b repair grows the buffer;
    # before it the kernel wrote out of bounds, so these cases always run the kernel's Python source (impl: `unsafe`)
    nbad = 150 if tier == "quick" else 1500
    for t in range(nbad):
        n = rng.randrange(1, 8)
        strs = [rng.choice(ALPHA_RAND[2:]) for _ in range(n)]
        cuts = sorted(rng.sample(range(1, n), rng.randrange(0, n))) if n > 1 else []
        spans = [0] + cuts + [n]
        m = max(len(o) for o in concat_spec(enc(strs), spans))
        v = rng.randrange(0, 2 * m)
        c = {"op": "concat_session", "strs": strs, "spans": spans, "sc": rng.choice([1, 2, 3, 8]), "src": "mem", "dst": "h5",
             "_n": t, "unsafe": True}
        c["dc"], c["mult"] = factor(v, t)
        cases.append(c)
    # value buffers between ONE and TWO times the driver's own bound on the longest span output (2*bytes + 3*entries), with
    # spans that expand strongly (mostly quote characters) behind a span that fills just under half the buffer: the regime in
    # which a batch is still open (fewer than half the bytes used) when a span arrives that does not fit the room left
    for t in range(nbad * 2):
        n = rng.randrange(2, 7)
        strs = [rng.choice(['"', '""', '""""""', '"""', 'abcdef', 'abc', 'x', ',', 'ab', '",']) for _ in range(n)]
        if rng.random() < 0.6:
            spans = list(range(n + 1))                         # one span per row
        else:
            cuts = sorted(rng.sample(range(1, n), rng.randrange(0, n)))
            spans = [0] + cuts + [n]
        bs = enc(strs)
        lens = [len(b) for b in bs]
        bound = max(2 * sum(lens[a:b]) + 3 * (b - a) for a, b in zip(spans[:-1], spans[1:]))
        v = rng.randrange(bound, 2 * bound) if rng.random() < 0.8 else rng.randrange(max(bound - 3, 0), bound + 1)
        c = {"op": "concat_session", "strs": strs, "spans": spans, "sc": rng.choice([2, 3, 8, 8]), "src": "mem", "dst": "h5",
             "_n": t, "unsafe": True, "_why": "buffer between bound and twice the bound"}
        c["dc"], c["mult"] = factor(v, t)
        cases.append(c)
    return cases


def rand_str(rng):
    return "".join(rng.choice(["a", "b", ",", "\"", " ", "é", "'", ";"]) for _ in range(rng.randrange(0, 7)))


def to_model(case):
    bs = enc(case["strs"])
    m = {k: v for k, v in case.items() if k not in ("strs", "src", "dst", "unsafe") and not k.startswith("_")}
    m["idx"] = offsets(bs) if bs else [0]     # since fix D2 (C01) an indexed string field without rows stores indices = [0]
    m["vals"] = list(b"".join(bs))
    m["sep"], m["delim"] = SEP, DELIM
    return m


# ------------------------------------------------------------------------------------------------------------------
# implementation (runs in worker processes)
# ------------------------------------------------------------------------------------------------------------------
_S = {}


def _env():
    if not _S:
        import numpy as np
        from exetera.core import operations as ops, fields
        from exetera.core.session import Session
        _S.update(np=np, ops=ops, fields=fields, s=Session(), n=0, df=None)
    e = _S
    if e["df"] is None or e["n"] % 1500 == 0:
        from io import BytesIO
        if e.get("ds") is not None:
            try:
                e["s"].close_dataset("ds%d" % e["dsn"])
            except Exception:  # noqa
                pass
        e["dsn"] = e.get("dsn", 0) + 1
        e["ds"] = e["s"].open_dataset(BytesIO(), "w", "ds%d" % e["dsn"])
        e["df"] = e["ds"].create_dataframe("df")
    e["n"] += 1
    return e


def impl(case):
    e = _env()
    np, ops, fields, s, df = e["np"], e["ops"], e["fields"], e["s"], e["df"]
    made = []
    swapped = None
    if case.get("unsafe") and hasattr(ops._apply_spans_concat_2, "py_func"):
        # cases on which the code before the NC16b repair (or outside the precondition: empty target, D2) writes/reads
        # out of bounds: under the JIT that is silent heap damage, not an observable result. Such cases always run the
        # kernel's own Python source (the dispatcher's py_func — exactly what USE_NUMBA=false executes), wrapped from
        # outside; nothing in the repo is changed.
        swapped = ops._apply_spans_concat_2
        ops._apply_spans_concat_2 = swapped.py_func

    def mk(kind, name):
        if kind == "h5":
            f = df.create_indexed_string(name)
            made.append(name)
            return f
        return fields.IndexedStringMemField(s)

    try:
        target = mk(case.get("src", "mem"), "t%d" % e["n"])
        target.data.write(list(case["strs"]))
        src_idx = target.indices[:].tolist()
        src_vals = np.asarray(target.values[:]).astype(np.uint8).tolist()
        spans = np.array(case["spans"], dtype=np.int64)
        if case["op"] == "concat_kernel":
            src_index = target.indices[:]
            src_values = target.values[:]
            dest_index = np.full(case["cap_i"], case["index0"], dtype=src_index.dtype)
            dest_values = np.zeros(case["cap_v"], dtype=src_values.dtype)
            sep = np.frombuffer(b',', dtype='S1')[0][0]
            dlm = np.frombuffer(b'"', dtype='S1')[0][0]
            s1, ii, iv = ops._apply_spans_concat_2(spans, src_index, src_values, dest_index, dest_values,
                                                   case["max_i"], case["max_v"], sep, dlm,
                                                   case["sp_start"], case["dest_start_v"])
            return {"s": int(s1), "ib": dest_index[:ii].tolist(), "vb": dest_values[:iv].astype(np.uint8).tolist(),
                    "src_idx": src_idx, "src_vals": src_vals}
        dest = mk(case.get("dst", "h5"), "d%d" % e["n"])
        s.apply_spans_concat(spans, target, dest, case["sc"], case["dc"], case["mult"])
        vals = np.asarray(dest.values[:]).astype(np.uint8).tolist()
        try:
            data = dest.data[:]
        except Exception as ex:  # noqa  (wrong offsets can make the stored bytes undecodable)
            data = "undecodable:" + type(ex).__name__
        return {"indices": [int(x) for x in dest.indices[:].tolist()], "values": vals, "data": data,
                "src_idx": src_idx, "src_vals": src_vals}
    finally:
        if swapped is not None:
            ops._apply_spans_concat_2 = swapped
        for name in made:
            try:
                del df[name]
            except Exception:  # noqa
                pass


# ------------------------------------------------------------------------------------------------------------------
# comparison with the model, and the property itself
# ------------------------------------------------------------------------------------------------------------------

def compare(case, io, mo, mode):
    if "err" in io or "err" in mo:
        a, b = io.get("err"), mo.get("err")
        return None if a == b else f"impl err={a} ({io.get('msg', '')}) model err={b}"
    tm = to_model(case)
    if case["strs"] and (io["src_idx"] != tm["idx"] or io["src_vals"] != tm["vals"]):
        return f"target field stores indices={io['src_idx']} values={io['src_vals']}, the model was given {tm['idx']} {tm['vals']}"
    m = mo["ok"]
    if case["op"] == "concat_kernel":
        if (io["s"], io["ib"], io["vb"]) != (m["s"], m["ib"], m["vb"]):
            return f"kernel impl s={io['s']} ib={io['ib']} vb={io['vb']}  model s={m['s']} ib={m['ib']} vb={m['vb']}"
        return None
    if io["indices"] != m["indices"] or io["values"] != m["values"]:
        af = mo.get("as_found", {}).get("ok")
        hint = ""
        if af and io["indices"] == af["indices"] and io["values"] == af["values"]:
            hint = "  [impl equals the AS-FOUND model variant: regression of fix D25/NC16a/NC16b]"
        return f"impl indices={io['indices']} values={io['values']}  model indices={m['indices']} values={m['values']}{hint}"
    return None


def check_spec(case, io, mode):
    if case["op"] != "concat_session":
        return None
    ok_pre = admitted(case)
    if "err" in io:
        if not ok_pre and io["err"] == "index_error":
            return None     # outside the property's precondition the code may refuse
        return f"raised {io['err']} ({io.get('msg', '')}) instead of storing the concatenated spans"
    entries = enc(case["strs"])
    outs = concat_spec(entries, case["spans"])
    if io["values"] != list(b"".join(outs)):
        return f"stored values {bytes(io['values'])!r} != concatenation of the span outputs {b''.join(outs)!r}"
    if io["indices"] != stored_indices(outs):
        return f"stored indices {io['indices']} != offsets of the span outputs {stored_indices(outs)}"
    if io["data"] != [o.decode("utf-8") for o in outs]:
        return f"dest.data[:] = {io['data']!r} != {[o.decode('utf-8') for o in outs]!r}"
    # reading every stored entry back as a CSV line gives the span's non-empty strings
    for i, (a, b) in enumerate(zip(case["spans"], case["spans"][1:])):
        want = non_empty(py_slice(entries, a, b))
        stored = bytes(io["values"][io["indices"][i]:io["indices"][i + 1]])
        if parse_csv_line(stored) != want:
            return f"CSV line {stored!r} parses to {parse_csv_line(stored)!r}, the span's non-empty strings are {want!r}"
        text = stored.decode("utf-8")
        if "\n" not in text and "\r" not in text:
            rows = list(csv.reader([text]))
            got = rows[0] if rows else []
            if got != [w.decode("utf-8") for w in want]:
                return f"csv.reader reads {text!r} as {got!r}, the span's non-empty strings are {want!r}"
    return None


def match_finding(case, io, mode):
    return None     # no open finding for C16: D25, NC16a and NC16b are repaired (fixed: entries suppress nothing)


def batches(mo):
    if mo and "ok" in mo and isinstance(mo["ok"], dict):
        return mo["ok"].get("calls", 0)
    return 0


def nontrivial(case, mo):
    if case["op"] != "concat_session":
        return True
    entries = enc(case["strs"])
    multi = any(len(non_empty(py_slice(entries, a, b))) >= 2 for a, b in zip(case["spans"], case["spans"][1:]))
    quoted = any(SEP in x or DELIM in x for x in entries)
    return batches(mo) >= 2 or multi or quoted


def classify(case, mo):
    if case["op"] == "concat_kernel":
        return ["kernel", "kernel:sp_start=0" if case["sp_start"] == 0 else "kernel:sp_start>0"]
    tags = []
    b = batches(mo)
    tags.append("batches:%s" % (b if b < 4 else "4+"))
    if case["op"] == "concat_session" and case["strs"] and not buffer_admitted_as_found(case):
        tags.append("buffer-grown(NC16b)")
    if mo and "err" in mo:
        tags.append("model-err:" + mo["err"])
    entries = enc(case["strs"])
    prs = list(zip(case["spans"], case["spans"][1:]))
    if any(len(non_empty(py_slice(entries, a, b))) >= 2 for a, b in prs):
        tags.append("joins>=2")
    if any(len(non_empty(py_slice(entries, a, b))) == 0 for a, b in prs):
        tags.append("empty-output-span")
    if any(SEP in x or DELIM in x for x in entries):
        tags.append("quoted-entry")
    if any(max(x + b"\0") > 127 for x in entries):
        tags.append("multibyte")
    if case["sc"] == 1:
        tags.append("src_chunksize=1")
    if max_out(case) * 2 == case["dc"] * case["mult"]:
        tags.append("tight-value-buffer")
    tags.append("src:" + case.get("src", "mem"))
    tags.append("dst:" + case.get("dst", "h5"))
    return tags


def select_for_mode(case, mode, tier):
    if case.get("unsafe"):
        return True
    if case.get("_corpus"):
        return True
    n = len(case["strs"])
    if tier == "quick":
        return n <= 8 and case.get("_n", 0) % 40 == 0
    return n <= 12 and case.get("_n", 0) % (8 if mode == "nojit" else 16) == 0



# the translated kernel of this property (Gen/Kernels.lean) is run against the real compiled kernel as well
from checks.harness import genkernels  # noqa: E402
genkernels.install(globals(), "C16")
