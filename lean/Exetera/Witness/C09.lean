import Exetera.Model.FilterIndex
import Exetera.Spec.FilterIndex
import Exetera.Spec.SortKeys
/-!
  Witnesses of the defects found for C09, on the `asFound` variant of the model (the code before the fix patches).
  They stay in the tree: if a fix is lost, the correspondence matches `asFound` again and these are the replays
  (corpus/C09/defects.json holds the same inputs).
-/
namespace Exetera.Witness.C09
open Exetera Exetera.FilterIndex Exetera.Spec

/-- the field holds ["a", "", "ccc", "dé"] -/
def indices : List Nat := [0, 1, 1, 4, 7]
def values : List Nat := [97, 99, 99, 99, 100, 195, 169]

/-- D8: a filter longer than the field with a set flag beyond the end subscripts `next_[4]` of a 4-element array
    (in the compiled kernel: an out-of-bounds read whose garbage becomes a length) -/
theorem d8_long_filter_reads_out_of_bounds :
    applyFilterToIndexValues .asFound [true, false, true, true, true] indices values = .error (.oob "next_[i]") := by rfl

/-- D8: if the surplus flags are all false the mismatch goes unnoticed -/
theorem d8_long_filter_accepted_silently :
    applyFilterToIndexValues .asFound [true, false, true, true, false, false] indices values =
      .ok ([0, 1, 4, 7], [97, 99, 99, 99, 100, 195, 169]) ∧
    (Column.strs [[97], [], [99, 99, 99], [100, 195, 169]]).filter [true, false, true, true, false, false] = none := by
  constructor <;> rfl

/-- NC09a: a filter shorter than the field silently drops the trailing entries although the spec is undefined -/
theorem nc09a_short_filter_truncates :
    applyFilterToIndexValues .asFound [true, false] indices values = .ok ([0, 1], [97]) ∧
    (Column.strs [[97], [], [99, 99, 99], [100, 195, 169]]).filter [true, false] = none := by
  constructor <;> rfl

/-- the repaired kernel rejects all three -/
theorem repaired_rejects :
    applyFilterToIndexValues .repaired [true, false, true, true, true] indices values =
      .error (.oob "len(index_filter) != len(indices) - 1") ∧
    applyFilterToIndexValues .repaired [true, false, true, true, false, false] indices values =
      .error (.oob "len(index_filter) != len(indices) - 1") ∧
    applyFilterToIndexValues .repaired [true, false] indices values =
      .error (.oob "len(index_filter) != len(indices) - 1") := by
  refine ⟨?_, ?_, ?_⟩ <;> rfl

/-- NC09b: an index beyond the field reaches the unguarded subscript `next_[i]`; the repaired kernel stops at its guard -/
theorem nc09b_index_out_of_bounds :
    applyIndicesToIndexValues .asFound [0, 7] indices values = .error (.oob "next_[i]") ∧
    applyIndicesToIndexValues .asFound [-5] indices values = .error (.oob "next_[i]") ∧
    applyIndicesToIndexValues .repaired [0, 7] indices values = .error (.oob "index out of bounds for indexed field") := by
  refine ⟨?_, ?_, ?_⟩ <;> rfl

/-- NC09g (open): an indexed-string sort key is sorted as a numpy `<U` array, which cannot tell a trailing NUL character from
    padding: the keys `'a\x00'`, `'a'` get the same rank (are tied), so the stable sort leaves them in their original order
    `[0, 1]` — but bytewise `'a' < 'a\x00'`, and the stable ascending permutation of the stored strings is `[1, 0]`. -/
theorem nc09g_trailing_nul_key_ties :
    rankKeys ([[97, 0], [97]].map trimNul) = [0, 0] ∧
    strLt [97] [97, 0] = true ∧
    IsStableSortPermK [.strs [[97, 0], [97]]] 2 [1, 0] ∧ ¬ IsStableSortPermK [.strs [[97, 0], [97]]] 2 [0, 1] ∧
    IsStableSortPermK [KeyCol.numpyView (.strs [[97, 0], [97]])] 2 [0, 1] := by
  refine ⟨by decide, by decide, ⟨by decide, by decide⟩, ?_, ⟨by decide, by decide⟩⟩
  intro h
  have := h.2
  revert this
  decide

/-- NC09f (repaired in /repo, kept as the regression witness): `df.apply_index(df['k'])` in place on columns k = [0, 2, 0],
    n = [1, 0, 2]. As found the index column is permuted first (k becomes [0, 0, 0]) and `n` is then re-ordered by THAT:
    [1, 1, 1]. Reading the index once gives what the out-of-place call gives: k = [0, 0, 0], n = [1, 2, 1]. -/
theorem nc09f_own_index_column_permuted_midway :
    let num (xs : List Int) : Field := { info := ⟨"numeric", "int64", 0, []⟩, payload := .plain xs, writeEnabled := true }
    colsInPlaceOwnAsFound .repaired "k" [] [("k", num [0, 2, 0]), ("n", num [1, 0, 2])] =
      .ok [("k", num [0, 0, 0]), ("n", num [1, 1, 1])] ∧
    dfApplyIndex .repaired [("src", [("k", num [0, 2, 0]), ("n", num [1, 0, 2])])] "src" [0, 2, 0] none =
      .ok [("src", [("k", num [0, 0, 0]), ("n", num [1, 2, 1])])] := by
  constructor <;> rfl

end Exetera.Witness.C09
