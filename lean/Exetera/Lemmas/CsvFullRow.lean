import Exetera.Lemmas.CsvFullCell
/-! A record in which the call stops (C05, regrowth): either the window ends inside it, or the value budget of one of its
    columns is used up. In both cases only the complete records before it are reported. -/
namespace Exetera.Csv
open Exetera Spec

/-- every column still has at least one free byte (true at entry because every budget is ≥ 1, and kept by every cell that
    fits strictly) -/
def StrictCaps (offs : List Nat) (ncols : Nat) (E : Nat → List Bytes) : Prop :=
  ∀ c, c < ncols → offAt offs c + (E c).flatten.length < offAt offs (c + 1)

theorem StrictCaps.stage {offs : List Nat} {ncols : Nat} {E : Nat → List Bytes} {j : Nat} {v : Bytes}
    (h : StrictCaps offs ncols E) (hcap : offAt offs j + (E j).flatten.length + v.length < offAt offs (j + 1)) :
    StrictCaps offs ncols (stage false E j v) := by
  intro c hc
  show offAt offs c + (upd E j v c).flatten.length < offAt offs (c + 1)
  by_cases hcj : c = j
  · subst hcj; rw [upd_flat_self]; omega
  · rw [upd_ne _ _ hcj]; exact h c hc

/-- a complete cell (its terminator `t` is in the window) that does not fit what is left of its column's budget -/
theorem cell_full {src : Bytes} {offs : List Nat} {maxrow ncols : Nat} (c : Cell) (hwf : c.WF) (A B : Bytes) (t : Nat)
    {s : KS} {j k np : Nat} {E E' : Nat → List Bytes}
    (hcs : CellStart src offs maxrow ncols s A j false k np E') (hext : Ext E E')
    (hsrc : src = A ++ (body c ++ t :: B))
    (hstrict : offAt offs j + (E' j).flatten.length < offAt offs (j + 1))
    (hover : offAt offs (j + 1) ≤ offAt offs j + (E' j).flatten.length + c.value.length) :
    ∃ n s', KSteps src offs maxrow n s s' ∧ FullEnd offs maxrow ncols s' k np E j := by
  cases hq : c.quoted with
  | false =>
    have hbody : body c = stripLead c.text := by simp [body, hq]
    have hval : c.value = stripLead c.text := by simp [Cell.value, hq]
    have hplain : ∀ b ∈ stripLead c.text, b ≠ QUOTE ∧ b ≠ SEP ∧ b ≠ NL := by
      intro b hb
      rcases hwf with h | h
      · rw [hq] at h; cases h
      · exact h b (mem_stripLead hb)
    rw [hbody] at hsrc
    rw [hval] at hover
    exact cell_full_bare hcs hext hsrc hplain hstrict hover
  | true =>
    have hbody : body c = QUOTE :: (escape c.text ++ [QUOTE]) := by simp [body, hq, renderCell]
    have hval : c.value = c.text := by simp [Cell.value, hq]
    rw [hval] at hover
    have hsrc' : src = A ++ (QUOTE :: (escape c.text ++ (QUOTE :: t :: B))) := by simp [hsrc, hbody]
    exact cell_full_quoted hcs hext hsrc' hstrict hover

/-- the cell text of `c` cut after `m ≤ |renderCell c|` bytes, no assumption on budgets: the window ends here, or the
    budget of the column is used up by what the window holds of the cell -/
theorem cell_tail_g {src : Bytes} {offs : List Nat} {maxrow ncols : Nat} (c : Cell) (hwf : c.WF) (m : Nat) {s : KS}
    {A0 : Bytes} {j k np : Nat} {E E' : Nat → List Bytes} (hsrc : src = A0 ++ (renderCell c).take m)
    (hcs : CellStart src offs maxrow ncols s (A0 ++ ((renderCell c).take m).takeWhile isWs) j false k np E')
    (hext : Ext E E') (hstrict : offAt offs j + (E' j).flatten.length < offAt offs (j + 1)) :
    ∃ n s', KSteps src offs maxrow n s s' ∧
      (WindowEnd offs maxrow ncols s' k np E ∨
       (FullEnd offs maxrow ncols s' k np E j ∧
        offAt offs (j + 1) ≤ offAt offs j + (E' j).flatten.length + c.value.length)) := by
  have hsplit : src = (A0 ++ ((renderCell c).take m).takeWhile isWs) ++ ((renderCell c).take m).dropWhile isWs := by
    rw [List.append_assoc, List.takeWhile_append_dropWhile]; exact hsrc
  cases hq : c.quoted with
  | false =>
    have hr : renderCell c = c.text := by simp [renderCell, hq]
    have hv : c.value = stripLead c.text := by simp [Cell.value, hq]
    rw [hr] at hsplit hcs
    have hplain : ∀ b ∈ (c.text.take m).dropWhile isWs, b ≠ QUOTE ∧ b ≠ SEP ∧ b ≠ NL := by
      intro b hb
      have hb' : b ∈ c.text := List.mem_of_mem_take ((List.dropWhile_sublist _).subset hb)
      rcases hwf with h | h
      · rw [hq] at h; cases h
      · exact h b hb'
    have hlen : ((c.text.take m).dropWhile isWs).length ≤ c.value.length := by
      rw [hv]; exact dropWhile_take_length_le _ _ _
    by_cases hcap : offAt offs j + (E' j).flatten.length + ((c.text.take m).dropWhile isWs).length < offAt offs (j + 1)
    · obtain ⟨n, s', hsteps, hend⟩ := cell_tail_bare hcs hext hsplit hplain hcap
      exact ⟨n, s', hsteps, Or.inl hend⟩
    · obtain ⟨n, s', hsteps, hend⟩ :=
        cell_full_bare (R := []) hcs hext (by simpa using hsplit) hplain hstrict (by omega)
      exact ⟨n, s', hsteps, Or.inr ⟨hend, by omega⟩⟩
  | true =>
    have hr : renderCell c = QUOTE :: (escape c.text ++ [QUOTE]) := by simp [renderCell, hq]
    have hv : c.value = c.text := by simp [Cell.value, hq]
    rw [hr] at hsplit hcs hsrc
    cases m with
    | zero =>
      simp only [List.take_zero, List.takeWhile_nil, List.append_nil] at hcs hsrc
      rw [← hsrc] at hcs
      exact ⟨0, s, .refl _, Or.inl (cell_tail_none hcs hext)⟩
    | succ m =>
      obtain ⟨u, tq, h1, h2, h3⟩ := take_escape c.text m
      have hqw : isWs QUOTE = false := by decide
      have htk : (QUOTE :: (escape c.text ++ [QUOTE])).take (m + 1) = QUOTE :: (escape u ++ tq) := by
        rw [List.take_succ_cons, h1]
      rw [htk] at hcs hsrc
      have htw : (QUOTE :: (escape u ++ tq)).takeWhile isWs = [] := by simp [List.takeWhile_cons, hqw]
      rw [htw, List.append_nil] at hcs
      by_cases hcap : offAt offs j + (E' j).flatten.length + u.length < offAt offs (j + 1)
      · obtain ⟨n, s', hsteps, hend⟩ := cell_tail_quoted hcs hext hsrc h2 hcap
        exact ⟨n, s', hsteps, Or.inl hend⟩
      · obtain ⟨n, s', hsteps, hend⟩ := cell_full_quoted hcs hext hsrc hstrict (by omega)
        exact ⟨n, s', hsteps, Or.inr ⟨hend, by rw [hv]; omega⟩⟩

theorem stageRow_self (E' : Nat → List Bytes) (j : Nat) (c : Cell) (cs : List Cell) :
    (stageRow false E' j (c :: cs) j).flatten.length = (E' j).flatten.length + c.value.length := by
  rw [stageRow_col]
  simp

/-- a record in which the call stops: its text is cut after `m` bytes (the window ends, `X = []`), or it is complete but
    does not fit the budgets (`¬ RowCap`) -/
theorem row_stop {src : Bytes} {offs : List Nat} {maxrow ncols : Nat} {k np : Nat} {E : Nat → List Bytes} (cs : List Cell) :
    ∀ (m : Nat) (A0 X : Bytes) (s : KS) (j : Nat) (E' : Nat → List Bytes),
      cs ≠ [] → (∀ c ∈ cs, c.WF) → j + cs.length = ncols → m ≤ (renderCells cs).length →
      (m < (renderCells cs).length → X = []) →
      (m < (renderCells cs).length ∨ ¬ RowCap offs false E' j cs) →
      src = A0 ++ ((renderCells cs).take m ++ X) →
      CellStart src offs maxrow ncols s (A0 ++ ((renderCells cs).take m ++ X).takeWhile isWs) j false k np E' → Ext E E' →
      StrictCaps offs ncols E' →
      ∃ n s', KSteps src offs maxrow n s s' ∧
        ((m < (renderCells cs).length ∧ WindowEnd offs maxrow ncols s' k np E) ∨
         ∃ j', FullEnd offs maxrow ncols s' k np E j' ∧
           offAt offs (j' + 1) ≤ offAt offs j' + (stageRow false E' j cs j').flatten.length) := by
  induction cs with
  | nil => intro _ _ _ _ _ _ h; exact absurd rfl h
  | cons c cs ih =>
    intro m A0 X s j E' _ hwf hlen hm hX hwhy hsrc hcs hext hstr
    have hwfc := hwf c (by simp)
    have hjlt : j < ncols := by simp at hlen; omega
    by_cases hmc : m ≤ (renderCell c).length
    · -- the cut is in (or right behind) this cell
      have hmlt : m < (renderCells (c :: cs)).length := by
        cases cs with
        | nil => simp [renderCells]; omega
        | cons d ds => simp [renderCells]; omega
      have htk : (renderCells (c :: cs)).take m = (renderCell c).take m := by
        cases cs with
        | nil => simp only [renderCells]; exact List.take_append_of_le_length hmc
        | cons d ds => simp only [renderCells]; exact List.take_append_of_le_length hmc
      rw [hX hmlt, List.append_nil, htk] at hsrc hcs
      obtain ⟨n, s', hsteps, hend⟩ := cell_tail_g c hwfc m hsrc hcs hext (hstr j hjlt)
      refine ⟨n, s', hsteps, ?_⟩
      rcases hend with h | ⟨h, hb⟩
      · exact Or.inl ⟨hmlt, h⟩
      · exact Or.inr ⟨j, h, by rw [stageRow_self]; omega⟩
    · cases cs with
      | nil =>
        -- the last cell of a complete record: it cannot fit
        have hlenrc : (renderCells [c]).length = (renderCell c).length + 1 := by simp [renderCells]
        have hmeq : m = (renderCell c).length + 1 := by omega
        have hnocap : ¬ (offAt offs j + (E' j).flatten.length + c.value.length < offAt offs (j + 1)) := by
          rcases hwhy with h | h
          · omega
          · intro hc
            exact h ⟨fun _ => hc, trivial⟩
        have htk : (renderCells [c]).take m = renderCell c ++ [NL] := by
          rw [hmeq]; simp only [renderCells]
          exact List.take_of_length_le (by simp)
        rw [htk] at hsrc hcs
        have hrc : renderCell c ++ [NL] ++ X = renderCell c ++ NL :: X := by simp
        rw [hrc] at hsrc hcs
        have hsrc' : src = (A0 ++ (renderCell c ++ NL :: X).takeWhile isWs) ++ (body c ++ NL :: X) := by
          rw [List.append_assoc, ← lead_drop c NL X (Or.inr rfl), List.takeWhile_append_dropWhile]; exact hsrc
        obtain ⟨n, s', hsteps, hend⟩ := cell_full c hwfc _ X NL hcs hext hsrc' (hstr j hjlt) (by omega)
        exact ⟨n, s', hsteps, Or.inr ⟨j, hend, by rw [stageRow_self]; omega⟩⟩
      | cons d ds =>
        have hrc : renderCells (c :: d :: ds) = renderCell c ++ SEP :: renderCells (d :: ds) := by simp [renderCells]
        have hm' : m = (renderCell c).length + ((m - (renderCell c).length - 1) + 1) := by omega
        have htk : (renderCells (c :: d :: ds)).take m =
            renderCell c ++ SEP :: (renderCells (d :: ds)).take (m - (renderCell c).length - 1) := by
          rw [hrc, hm', take_len_add]
          simp
        have hlen2 : (renderCells (c :: d :: ds)).length = (renderCell c).length + 1 + (renderCells (d :: ds)).length := by
          rw [hrc]; simp; omega
        have hm2 : m - (renderCell c).length - 1 ≤ (renderCells (d :: ds)).length := by omega
        have hrest : renderCell c ++ SEP :: (renderCells (d :: ds)).take (m - (renderCell c).length - 1) ++ X =
            renderCell c ++ SEP :: ((renderCells (d :: ds)).take (m - (renderCell c).length - 1) ++ X) := by simp
        rw [htk, hrest] at hsrc hcs
        generalize hB : (renderCells (d :: ds)).take (m - (renderCell c).length - 1) ++ X = B at hsrc hcs
        have hsrc' : src = (A0 ++ (renderCell c ++ SEP :: B).takeWhile isWs) ++ (body c ++ SEP :: B) := by
          rw [List.append_assoc, ← lead_drop c SEP _ (Or.inl rfl), List.takeWhile_append_dropWhile]; exact hsrc
        by_cases hcap : offAt offs j + (E' j).flatten.length + c.value.length < offAt offs (j + 1)
        · obtain ⟨n1, s1, hsteps1, hcs1⟩ :=
            cell_sep (offs := offs) (maxrow := maxrow) c hwfc _ B s j false k np E' hcs hsrc'
              (by simp at hlen; omega) (fun _ => hcap)
          have hA : A0 ++ (renderCell c ++ SEP :: B).takeWhile isWs ++ (body c ++ SEP :: B.takeWhile isWs) =
              (A0 ++ (renderCell c ++ [SEP])) ++ B.takeWhile isWs := by
            have := lead_split c SEP B (Or.inl rfl)
            simp only [List.append_assoc]
            rw [← List.append_assoc ((renderCell c ++ SEP :: B).takeWhile isWs), this]
            simp
          rw [hA] at hcs1
          have hsrc1 : src = (A0 ++ (renderCell c ++ [SEP])) ++ B := by rw [hsrc]; simp
          rw [← hB] at hcs1 hsrc1
          obtain ⟨n2, s2, hsteps2, hend⟩ :=
            ih (m - (renderCell c).length - 1) (A0 ++ (renderCell c ++ [SEP])) X s1 (j + 1) (stage false E' j c.value)
              (by simp) (fun x hx => hwf x (by simp [hx])) (by simp at hlen ⊢; omega) hm2
              (fun h => hX (by omega))
              (by
                rcases hwhy with h | h
                · left; omega
                · right
                  intro hr
                  exact h ⟨fun _ => hcap, hr⟩)
              hsrc1 hcs1 (hext.stage j c.value) (hstr.stage hcap)
          refine ⟨n1 + n2, s2, StepsN.trans hsteps1 hsteps2, ?_⟩
          rcases hend with ⟨h1, h2⟩ | h
          · exact Or.inl ⟨by omega, h2⟩
          · exact Or.inr h
        · obtain ⟨n, s', hsteps, hend⟩ := cell_full c hwfc _ B SEP hcs hext hsrc' (hstr j hjlt) (by omega)
          exact ⟨n, s', hsteps, Or.inr ⟨j, hend, by rw [stageRow_self]; omega⟩⟩

/-- the cells of a record that fits keep one free byte in every column -/
theorem strictCaps_stageRow {offs : List Nat} {ncols : Nat} (cs : List Cell) : ∀ (E : Nat → List Bytes) (j : Nat),
    StrictCaps offs ncols E → RowCap offs false E j cs → StrictCaps offs ncols (stageRow false E j cs) := by
  induction cs with
  | nil => intro E j h _; exact h
  | cons c cs ih =>
    intro E j h hcap
    exact ih _ _ (h.stage (hcap.1 rfl)) hcap.2

end Exetera.Csv
