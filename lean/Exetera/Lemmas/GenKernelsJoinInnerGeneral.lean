import Exetera.Gen.Kernels
import Exetera.Model.Join
import Exetera.Lemmas.GenKernels
import Exetera.Lemmas.GenKernelsJoin
import Exetera.Lemmas.GenKernelsJoinGeneral
/-!
  The TRANSLATED general finite-state INNER join kernel `generate_ordered_map_to_inner_partial` (the left kernel without the
  unmatched-row branch and without `invalid`) against the model `runPartial .inner` (`generalBody false`) of `Model/Join.lean`.
  Same relation and same structure of proof as `GenKernelsJoinGeneral.lean`.
-/
namespace Exetera.GenK

open Exetera Exetera.PyRt Exetera.Gen.Kernels Exetera.Join

namespace GenI

abbrev St := generate_ordered_map_to_inner_partial.St

theorem eta01 (s : St) (k c : Int) (h0 : s.v0 = k) (h1 : s.v1 = c) : ({ s with v0 := k, v1 := c } : St) = s := by
  cases s
  simp only at h0 h1
  subst h0 h1
  rfl

theorem eta23 (s : St) (k c : Int) (h0 : s.v2 = k) (h1 : s.v3 = c) : ({ s with v2 := k, v3 := c } : St) = s := by
  cases s
  simp only at h0 h1
  subst h0 h1
  rfl

/-- the left run count: `while i_ + 1 < i_max and left[i_+1] == left[i_]: cur_i_count += 1; i_ += 1` -/
theorem countL (xs : List Int) (lim : Nat) :
    ∀ (f F k c c' : Nat) (s : St), s.p0 = xs → s.p1 = (lim : Int) → s.v0 = (k : Int) → s.v1 = (c : Int) →
      lim - (k + 1) ≤ f → lim - (k + 1) ≤ F →
      runCount xs lim f k c = .ok c' →
      ∃ k', whileG generate_ordered_map_to_inner_partial.guardE_L2 generate_ordered_map_to_inner_partial.body_L2 F s
        = .ok { s with v0 := (k' : Int), v1 := (c' : Int) } := by
  intro f
  induction f with
  | zero =>
    intro F k c c' s h0 h1 hv0 hv1 hf _ h
    simp only [runCount, Except.ok.injEq] at h
    subst h
    have hg : generate_ordered_map_to_inner_partial.guardE_L2 s = .ok false := by
      have : decide ((k : Int) + 1 < (lim : Int)) = false := by simp; omega
      simp only [generate_ordered_map_to_inner_partial.guardE_L2, hv0, h1, this, Bool.false_eq_true, if_false]
    refine ⟨k, ?_⟩
    rw [eta01 s _ _ hv0 hv1]
    cases F <;> simp [whileG, hg]
  | succ f ih =>
    intro F k c c' s h0 h1 hv0 hv1 hf hF h
    simp only [runCount] at h
    by_cases hk : k + 1 < lim
    · simp only [hk, if_true] at h
      have hlt : decide (((k + 1 : Nat) : Int) < (lim : Int)) = true := by simp; omega
      cases ha : getE xs (k + 1) "run[k+1]" with
      | error e => simp [ha] at h
      | ok a =>
        cases hb : getE xs k "run[k]" with
        | error e => simp [ha, hb] at h
        | ok b =>
          simp only [ha, hb] at h
          have hc1 : ((k : Int) + 1) = ((k + 1 : Nat) : Int) := by omega
          by_cases hab : a = b
          · subst hab
            simp only [beq_self_eq_true, if_true] at h
            have hg : generate_ordered_map_to_inner_partial.guardE_L2 s = .ok true := by
              simp only [generate_ordered_map_to_inner_partial.guardE_L2, hv0, h1, hlt, if_true, h0, hc1, idxE_nat,
                Gen.getE_site "p0[v0 + 1]" ha, Gen.getE_site "p0[v0]" hb, bindE_ok, beq_self_eq_true]
            obtain ⟨F', rfl⟩ : ∃ F', F = F' + 1 := ⟨F - 1, by omega⟩
            have hbody : generate_ordered_map_to_inner_partial.body_L2 s
                = .ok { s with v1 := ((c + 1 : Nat) : Int), v0 := ((k + 1 : Nat) : Int) } := by
              have e1 : (c : Int) + 1 = ((c + 1 : Nat) : Int) := by omega
              simp only [generate_ordered_map_to_inner_partial.body_L2, hv0, hv1, hc1, e1]
            obtain ⟨k', hw⟩ := ih F' (k + 1) (c + 1) c' { s with v1 := ((c + 1 : Nat) : Int), v0 := ((k + 1 : Nat) : Int) }
              h0 h1 rfl rfl (by omega) (by omega) h
            exact ⟨k', by simp only [whileG, hg, if_true, hbody]; exact hw⟩
          · have hne : (a == b) = false := by simp [hab]
            simp only [hne, Bool.false_eq_true, if_false, Except.ok.injEq] at h
            subst h
            have hg : generate_ordered_map_to_inner_partial.guardE_L2 s = .ok false := by
              simp only [generate_ordered_map_to_inner_partial.guardE_L2, hv0, h1, hlt, if_true, h0, hc1, idxE_nat,
                Gen.getE_site "p0[v0 + 1]" ha, Gen.getE_site "p0[v0]" hb, bindE_ok, hne]
            refine ⟨k, ?_⟩
            rw [eta01 s _ _ hv0 hv1]
            cases F <;> simp [whileG, hg]
    · simp only [hk, if_false, Except.ok.injEq] at h
      subst h
      have hg : generate_ordered_map_to_inner_partial.guardE_L2 s = .ok false := by
        have : decide ((k : Int) + 1 < (lim : Int)) = false := by simp; omega
        simp only [generate_ordered_map_to_inner_partial.guardE_L2, hv0, h1, this, Bool.false_eq_true, if_false]
      refine ⟨k, ?_⟩
      rw [eta01 s _ _ hv0 hv1]
      cases F <;> simp [whileG, hg]

/-- the right run count -/
theorem countR (xs : List Int) (lim : Nat) :
    ∀ (f F k c c' : Nat) (s : St), s.p2 = xs → s.p3 = (lim : Int) → s.v2 = (k : Int) → s.v3 = (c : Int) →
      lim - (k + 1) ≤ f → lim - (k + 1) ≤ F →
      runCount xs lim f k c = .ok c' →
      ∃ k', whileG generate_ordered_map_to_inner_partial.guardE_L3 generate_ordered_map_to_inner_partial.body_L3 F s
        = .ok { s with v2 := (k' : Int), v3 := (c' : Int) } := by
  intro f
  induction f with
  | zero =>
    intro F k c c' s h0 h1 hv0 hv1 hf _ h
    simp only [runCount, Except.ok.injEq] at h
    subst h
    have hg : generate_ordered_map_to_inner_partial.guardE_L3 s = .ok false := by
      have : decide ((k : Int) + 1 < (lim : Int)) = false := by simp; omega
      simp only [generate_ordered_map_to_inner_partial.guardE_L3, hv0, h1, this, Bool.false_eq_true, if_false]
    refine ⟨k, ?_⟩
    rw [eta23 s _ _ hv0 hv1]
    cases F <;> simp [whileG, hg]
  | succ f ih =>
    intro F k c c' s h0 h1 hv0 hv1 hf hF h
    simp only [runCount] at h
    by_cases hk : k + 1 < lim
    · simp only [hk, if_true] at h
      have hlt : decide (((k + 1 : Nat) : Int) < (lim : Int)) = true := by simp; omega
      cases ha : getE xs (k + 1) "run[k+1]" with
      | error e => simp [ha] at h
      | ok a =>
        cases hb : getE xs k "run[k]" with
        | error e => simp [ha, hb] at h
        | ok b =>
          simp only [ha, hb] at h
          have hc1 : ((k : Int) + 1) = ((k + 1 : Nat) : Int) := by omega
          by_cases hab : a = b
          · subst hab
            simp only [beq_self_eq_true, if_true] at h
            have hg : generate_ordered_map_to_inner_partial.guardE_L3 s = .ok true := by
              simp only [generate_ordered_map_to_inner_partial.guardE_L3, hv0, h1, hlt, if_true, h0, hc1, idxE_nat,
                Gen.getE_site "p2[v2 + 1]" ha, Gen.getE_site "p2[v2]" hb, bindE_ok, beq_self_eq_true]
            obtain ⟨F', rfl⟩ : ∃ F', F = F' + 1 := ⟨F - 1, by omega⟩
            have hbody : generate_ordered_map_to_inner_partial.body_L3 s
                = .ok { s with v3 := ((c + 1 : Nat) : Int), v2 := ((k + 1 : Nat) : Int) } := by
              have e1 : (c : Int) + 1 = ((c + 1 : Nat) : Int) := by omega
              simp only [generate_ordered_map_to_inner_partial.body_L3, hv0, hv1, hc1, e1]
            obtain ⟨k', hw⟩ := ih F' (k + 1) (c + 1) c' { s with v3 := ((c + 1 : Nat) : Int), v2 := ((k + 1 : Nat) : Int) }
              h0 h1 rfl rfl (by omega) (by omega) h
            exact ⟨k', by simp only [whileG, hg, if_true, hbody]; exact hw⟩
          · have hne : (a == b) = false := by simp [hab]
            simp only [hne, Bool.false_eq_true, if_false, Except.ok.injEq] at h
            subst h
            have hg : generate_ordered_map_to_inner_partial.guardE_L3 s = .ok false := by
              simp only [generate_ordered_map_to_inner_partial.guardE_L3, hv0, h1, hlt, if_true, h0, hc1, idxE_nat,
                Gen.getE_site "p2[v2 + 1]" ha, Gen.getE_site "p2[v2]" hb, bindE_ok, hne]
            refine ⟨k, ?_⟩
            rw [eta23 s _ _ hv0 hv1]
            cases F <;> simp [whileG, hg]
    · simp only [hk, if_false, Except.ok.injEq] at h
      subst h
      have hg : generate_ordered_map_to_inner_partial.guardE_L3 s = .ok false := by
        have : decide ((k : Int) + 1 < (lim : Int)) = false := by simp; omega
        simp only [generate_ordered_map_to_inner_partial.guardE_L3, hv0, h1, this, Bool.false_eq_true, if_false]
      refine ⟨k, ?_⟩
      rw [eta23 s _ _ hv0 hv1]
      cases F <;> simp [whileG, hg]

/-- a state given field by field -/
abbrev mk (p : P) (l4 l5 : List Int) (i j r ii jj iiMax jjMax : Int) (inner : Bool) (w0 w1 w2 w3 : Int) : St :=
  ⟨p.left, (p.iMax : Int), p.right, (p.jMax : Int), l4, l5, (p.iOff : Int), (p.jOff : Int), i, j, r, ii, jj, iiMax, jjMax,
    inner, w0, w1, w2, w3⟩

/-- the simulation relation -/
def R (p : P) (s : St) (k : K) : Prop :=
  ∃ l4 l5 w0 w1 w2 w3, s = mk p l4 l5 k.i k.j k.rb.length k.ii k.jj k.iiMax k.jjMax k.inner w0 w1 w2 w3 ∧
    l4.length = p.cap ∧ l5.length = p.cap ∧ k.lb.length = k.rb.length ∧ l4.take k.rb.length = k.lb ∧
    l5.take k.rb.length = k.rb

theorem R_mk (p : P) (l4 l5 : List Int) (k : K) (w0 w1 w2 w3 : Int)
    (h4l : l4.length = p.cap) (h5l : l5.length = p.cap) (hll : k.lb.length = k.rb.length)
    (ht4 : l4.take k.rb.length = k.lb) (ht5 : l5.take k.rb.length = k.rb) :
    R p (mk p l4 l5 k.i k.j k.rb.length k.ii k.jj k.iiMax k.jjMax k.inner w0 w1 w2 w3) k :=
  ⟨l4, l5, w0, w1, w2, w3, rfl, h4l, h5l, hll, ht4, ht5⟩

theorem guard_eq (p : P) (s : St) (k : K) (h : R p s k) :
    generate_ordered_map_to_inner_partial.guard_L1 s = partialGuard .inner p k := by
  obtain ⟨l4, l5, w0, w1, w2, w3, rfl, h4l, _⟩ := h
  have h0 : generate_ordered_map_to_inner_partial.guard_L1
      (mk p l4 l5 k.i k.j k.rb.length k.ii k.jj k.iiMax k.jjMax k.inner w0 w1 w2 w3)
      = (decide ((k.i : Int) < (p.iMax : Int)) && (decide ((k.j : Int) < (p.jMax : Int)) &&
          decide ((k.rb.length : Int) < (l4.length : Int)))) := rfl
  rw [h0, h4l]
  simp only [partialGuard]
  rw [Bool.eq_iff_iff]
  simp only [Bool.and_eq_true, decide_eq_true_eq]
  have hr : k.r = k.rb.length := rfl
  omega

theorem body_sim (p : P) (s : St) (k k' : K) (h : R p s k) (hb : partialBody .inner p k = .ok k') :
    ∃ s', generate_ordered_map_to_inner_partial.body_L1 (partialFuel p) s = .ok s' ∧ R p s' k' := by
  obtain ⟨l4, l5, w0, w1, w2, w3, rfl, h4l, h5l, hll, ht4, ht5⟩ := h
  simp only [partialBody, generalBody, bind, Except.bind, pure, Except.pure] at hb
  have e_i : (k.i : Int) + 1 = ((k.i + 1 : Nat) : Int) := by omega
  have e_j : (k.j : Int) + 1 = ((k.j + 1 : Nat) : Int) := by omega
  have e_r : (k.rb.length : Int) + 1 = ((k.rb.length + 1 : Nat) : Int) := by omega
  cases hin : k.inner with
  | false =>
    simp only [hin, Bool.not_false, if_true] at hb
    cases ha : getE p.left k.i "left[i]" with
    | error e => rw [ha] at hb; simp at hb
    | ok a =>
      rw [ha] at hb
      simp only [] at hb
      cases hbb : getE p.right k.j "right[j]" with
      | error e => rw [hbb] at hb; simp at hb
      | ok b =>
        rw [hbb] at hb
        simp only [] at hb
        have ha' : ∀ site, getE p.left k.i site = .ok a := fun site => Gen.getE_site site ha
        have hb' : ∀ site, getE p.right k.j site = .ok b := fun site => Gen.getE_site site hbb
        by_cases hlt : a < b
        · simp only [hlt, if_true, Bool.false_eq_true, if_false, Except.ok.injEq] at hb
          subst hb
          refine ⟨mk p l4 l5 ((k.i + 1 : Nat) : Int) k.j k.rb.length k.ii k.jj k.iiMax k.jjMax false w0 w1 w2 w3, ?_, ?_⟩
          · simp only [generate_ordered_map_to_inner_partial.body_L1, mk, beq_self_eq_true, if_true, idxE_nat, ha', hb',
              bindE_ok, hlt, decide_true, e_i]
          · have := R_mk p l4 l5 { k with i := k.i + 1 } w0 w1 w2 w3 h4l h5l hll ht4 ht5
            simpa [hin] using this
        · simp only [hlt, if_false] at hb
          by_cases hgt : a > b
          · simp only [hgt, if_true, Except.ok.injEq] at hb
            subst hb
            refine ⟨mk p l4 l5 k.i ((k.j + 1 : Nat) : Int) k.rb.length k.ii k.jj k.iiMax k.jjMax false w0 w1 w2 w3, ?_, ?_⟩
            · simp only [generate_ordered_map_to_inner_partial.body_L1, mk, hin, beq_self_eq_true, if_true, idxE_nat, ha', hb',
                bindE_ok, hlt, decide_false, Bool.false_eq_true, if_false, hgt, decide_true, e_j]
            · have := R_mk p l4 l5 { k with j := k.j + 1 } w0 w1 w2 w3 h4l h5l hll ht4 ht5
              simpa [hin] using this
          · simp only [hgt, if_false] at hb
            cases hci : runCount p.left p.iMax p.iMax k.i 1 with
            | error e => rw [hci] at hb; simp at hb
            | ok ci =>
              rw [hci] at hb
              simp only [] at hb
              cases hcj : runCount p.right p.jMax p.jMax k.j 1 with
              | error e => rw [hcj] at hb; simp at hb
              | ok cj =>
                rw [hcj] at hb
                simp only [Except.ok.injEq] at hb
                subst hb
                have hF1 : p.iMax - (k.i + 1) ≤ partialFuel p := by simp only [partialFuel]; omega
                have hF2 : p.jMax - (k.j + 1) ≤ partialFuel p := by simp only [partialFuel]; omega
                obtain ⟨ki, hwi⟩ := countL p.left p.iMax p.iMax (partialFuel p) k.i 1 ci
                  (mk p l4 l5 k.i k.j k.rb.length k.ii k.jj k.iiMax k.jjMax false (k.i : Int) 1 w2 w3)
                  rfl rfl rfl rfl (by omega) hF1 hci
                obtain ⟨kj, hwj⟩ := countR p.right p.jMax p.jMax (partialFuel p) k.j 1 cj
                  (mk p l4 l5 k.i k.j k.rb.length k.ii k.jj k.iiMax k.jjMax false (ki : Int) (ci : Int) (k.j : Int) 1)
                  rfl rfl rfl rfl (by omega) hF2 hcj
                refine ⟨mk p l4 l5 k.i k.j k.rb.length 0 0 (ci : Int) (cj : Int) true (ki : Int) (ci : Int) (kj : Int) (cj : Int), ?_, ?_⟩
                · simp only [mk] at hwi hwj
                  simp only [generate_ordered_map_to_inner_partial.body_L1, mk, hin, beq_self_eq_true, if_true, idxE_nat, ha', hb',
                    bindE_ok, hlt, decide_false, Bool.false_eq_true, if_false, hgt, hwi, hwj]
                · have := R_mk p l4 l5 { k with ii := 0, jj := 0, iiMax := (ci : Int), jjMax := (cj : Int), inner := true }
                    (ki : Int) (ci : Int) (kj : Int) (cj : Int) h4l h5l hll ht4 ht5
                  simpa using this
  | true =>
    simp only [hin, Bool.not_true, Bool.false_eq_true, if_false] at hb
    cases hp : push p.cap k ((p.iOff + k.i + k.ii : Nat) : Int) ((p.jOff + k.j + k.jj : Nat) : Int) "result[r]" with
    | error e => rw [hp] at hb; simp at hb
    | ok k1 =>
      rw [hp] at hb
      simp only [] at hb
      obtain ⟨hcap, hk1⟩ := push_inv hp
      subst hk1
      have e1 : (p.iOff : Int) + (k.i : Int) + (k.ii : Int) = ((p.iOff + k.i + k.ii : Nat) : Int) := by omega
      have e2 : (p.jOff : Int) + (k.j : Int) + (k.jj : Int) = ((p.jOff + k.j + k.jj : Nat) : Int) := by omega
      have e_jj : (k.jj : Int) + 1 = ((k.jj + 1 : Nat) : Int) := by omega
      have e_ii : (k.ii : Int) + 1 = ((k.ii + 1 : Nat) : Int) := by omega
      have hft : (true == false) = false := rfl
      have h4s : (l4.set k.rb.length ((p.iOff + k.i + k.ii : Nat) : Int)).length = p.cap := by simpa using h4l
      have h5s : (l5.set k.rb.length ((p.jOff + k.j + k.jj : Nat) : Int)).length = p.cap := by simpa using h5l
      have ht4s : (l4.set k.rb.length ((p.iOff + k.i + k.ii : Nat) : Int)).take (k.rb ++ [((p.jOff + k.j + k.jj : Nat) : Int)]).length
          = k.lb ++ [((p.iOff + k.i + k.ii : Nat) : Int)] := by
        simp only [List.length_append, List.length_singleton]; rw [take_set_succ _ _ _ (by omega), ht4]
      have ht5s : (l5.set k.rb.length ((p.jOff + k.j + k.jj : Nat) : Int)).take (k.rb ++ [((p.jOff + k.j + k.jj : Nat) : Int)]).length
          = k.rb ++ [((p.jOff + k.j + k.jj : Nat) : Int)] := by
        simp only [List.length_append, List.length_singleton]; rw [take_set_succ _ _ _ (by omega), ht5]
      have hlls : (k.lb ++ [((p.iOff + k.i + k.ii : Nat) : Int)]).length = (k.rb ++ [((p.jOff + k.j + k.jj : Nat) : Int)]).length := by
        simp [hll]
      by_cases hjj : ((k.jj + 1 : Nat) : Int) = k.jjMax
      · have hjj' : (((k.jj + 1 : Nat) : Int) == k.jjMax) = true := by rw [beq_iff_eq]; exact hjj
        simp only [hjj', if_true] at hb
        by_cases hii : ((k.ii + 1 : Nat) : Int) = k.iiMax
        · have hii' : (((k.ii + 1 : Nat) : Int) == k.iiMax) = true := by rw [beq_iff_eq]; exact hii
          simp only [hii', if_true, Except.ok.injEq] at hb
          subst hb
          have e9 : (k.i : Int) + k.iiMax = ((k.i + k.iiMax.toNat : Nat) : Int) := by omega
          have e10 : (k.j : Int) + k.jjMax = ((k.j + k.jjMax.toNat : Nat) : Int) := by omega
          refine ⟨mk p (l4.set k.rb.length ((p.iOff + k.i + k.ii : Nat) : Int)) (l5.set k.rb.length ((p.jOff + k.j + k.jj : Nat) : Int))
            ((k.i + k.iiMax.toNat : Nat) : Int) ((k.j + k.jjMax.toNat : Nat) : Int) ((k.rb.length + 1 : Nat) : Int) 0 0 (-1) (-1) false
            w0 w1 w2 w3, ?_, ?_⟩
          · simp only [generate_ordered_map_to_inner_partial.body_L1, mk, hin, hft, Bool.false_eq_true, if_false, e1, e2,
              setIdxE_nat, setE, show k.rb.length < l4.length by omega, show k.rb.length < l5.length by omega, if_true,
              bindE_ok, e_r, e_jj, hjj', e_ii, hii', e9, e10]
          · have := R_mk p _ _
              { k with lb := k.lb ++ [((p.iOff + k.i + k.ii : Nat) : Int)], rb := k.rb ++ [((p.jOff + k.j + k.jj : Nat) : Int)],
                       i := k.i + k.iiMax.toNat, j := k.j + k.jjMax.toNat, inner := false, ii := 0, jj := 0, iiMax := -1, jjMax := -1 }
              w0 w1 w2 w3 h4s h5s hlls ht4s ht5s
            simpa using this
        · have hii' : (((k.ii + 1 : Nat) : Int) == k.iiMax) = false := by rw [beq_eq_false_iff_ne]; exact hii
          simp only [hii', Bool.false_eq_true, if_false, Except.ok.injEq] at hb
          subst hb
          refine ⟨mk p (l4.set k.rb.length ((p.iOff + k.i + k.ii : Nat) : Int)) (l5.set k.rb.length ((p.jOff + k.j + k.jj : Nat) : Int))
            k.i k.j ((k.rb.length + 1 : Nat) : Int) ((k.ii + 1 : Nat) : Int) 0 k.iiMax k.jjMax true w0 w1 w2 w3, ?_, ?_⟩
          · simp only [generate_ordered_map_to_inner_partial.body_L1, mk, hin, hft, Bool.false_eq_true, if_false, e1, e2,
              setIdxE_nat, setE, show k.rb.length < l4.length by omega, show k.rb.length < l5.length by omega, if_true,
              bindE_ok, e_r, e_jj, hjj', e_ii, hii']
          · have := R_mk p _ _
              { k with lb := k.lb ++ [((p.iOff + k.i + k.ii : Nat) : Int)], rb := k.rb ++ [((p.jOff + k.j + k.jj : Nat) : Int)],
                       jj := 0, ii := k.ii + 1 }
              w0 w1 w2 w3 h4s h5s hlls ht4s ht5s
            simpa [hin] using this
      · have hjj' : (((k.jj + 1 : Nat) : Int) == k.jjMax) = false := by rw [beq_eq_false_iff_ne]; exact hjj
        simp only [hjj', Bool.false_eq_true, if_false, Except.ok.injEq] at hb
        subst hb
        refine ⟨mk p (l4.set k.rb.length ((p.iOff + k.i + k.ii : Nat) : Int)) (l5.set k.rb.length ((p.jOff + k.j + k.jj : Nat) : Int))
          k.i k.j ((k.rb.length + 1 : Nat) : Int) k.ii ((k.jj + 1 : Nat) : Int) k.iiMax k.jjMax true w0 w1 w2 w3, ?_, ?_⟩
        · simp only [generate_ordered_map_to_inner_partial.body_L1, mk, hin, hft, Bool.false_eq_true, if_false, e1, e2,
            setIdxE_nat, setE, show k.rb.length < l4.length by omega, show k.rb.length < l5.length by omega, if_true,
            bindE_ok, e_r, e_jj, hjj']
        · have := R_mk p _ _
            { k with lb := k.lb ++ [((p.iOff + k.i + k.ii : Nat) : Int)], rb := k.rb ++ [((p.jOff + k.j + k.jj : Nat) : Int)],
                     jj := k.jj + 1 }
            w0 w1 w2 w3 h4s h5s hlls ht4s ht5s
          simpa [hin] using this

end GenI

/-- every `.ok` run of the model's general INNER `_partial` kernel is a run of the translated kernel (same fuel) on buffers whose written
    prefixes are the model's lists: it returns the model's indices, `r` and FSM registers, and buffers whose written prefixes are
    the model's new lists -/
theorem inner_partial_ok (p : P) (k k' : K) (lbuf rbuf : List Int)
    (hl : lbuf.length = p.cap) (hr : rbuf.length = p.cap) (hlen : k.lb.length = k.rb.length)
    (h1 : lbuf.take k.rb.length = k.lb) (h2 : rbuf.take k.rb.length = k.rb)
    (h : runPartial .inner p k = .ok k') :
    ∃ lbuf' rbuf', generate_ordered_map_to_inner_partial.run p.left p.iMax p.right p.jMax lbuf rbuf p.iOff p.jOff k.i k.j
        k.rb.length k.ii k.jj k.iiMax k.jjMax k.inner (partialFuel p)
        = .ok ((k'.i : Int), (k'.j : Int), (k'.rb.length : Int), (k'.ii : Int), (k'.jj : Int), k'.iiMax, k'.jjMax, k'.inner,
               lbuf', rbuf') ∧
      lbuf'.length = p.cap ∧ rbuf'.length = p.cap ∧ lbuf'.take k'.rb.length = k'.lb ∧ rbuf'.take k'.rb.length = k'.rb := by
  unfold runPartial at h
  obtain ⟨s', hw, hR⟩ := whileE_sim (GenI.R p) generate_ordered_map_to_inner_partial.guard_L1
    (generate_ordered_map_to_inner_partial.body_L1 (partialFuel p)) (partialGuard .inner p) (partialBody .inner p)
    (GenI.guard_eq p) (fun s t t' hR _ hb => GenI.body_sim p s t t' hR hb) (partialFuel p)
    (GenI.mk p lbuf rbuf k.i k.j k.rb.length k.ii k.jj k.iiMax k.jjMax k.inner 0 0 0 0) k k'
    (GenI.R_mk p lbuf rbuf k 0 0 0 0 hl hr hlen h1 h2) h
  obtain ⟨l4, l5, w0, w1, w2, w3, rfl, h4l, h5l, _, ht4, ht5⟩ := hR
  refine ⟨l4, l5, ?_, h4l, h5l, ht4, ht5⟩
  unfold generate_ordered_map_to_inner_partial.run
  have hw' : whileE generate_ordered_map_to_inner_partial.guard_L1 (generate_ordered_map_to_inner_partial.body_L1 (partialFuel p))
      (partialFuel p) (GenI.mk p lbuf rbuf k.i k.j k.rb.length k.ii k.jj k.iiMax k.jjMax k.inner 0 0 0 0)
      = .ok (GenI.mk p l4 l5 k'.i k'.j k'.rb.length k'.ii k'.jj k'.iiMax k'.jjMax k'.inner w0 w1 w2 w3) := hw
  simp only [GenI.mk] at hw'
  simp only [hw', bindE_ok]

end Exetera.GenK
