/-!
  Specification of snapshot journalling (C17).

  An old table holds several versions per key, a snapshot at most one row per key. The journalled table lists, per key in
  ascending order, all the old versions of the key (in the order they have in the old table) followed by the snapshot's
  row iff the key is new or that row differs from the key's last old version.  The specification is a *plan*: the
  sequence of source rows (`old r` / `new j`) the result consists of; every result column is its column of the two
  tables read along the plan, so all columns have the plan's length and their rows are aligned by construction.
-/
namespace Exetera.Spec.Journal

/-- insert a key into a strictly ascending key list (no duplicates) -/
def insertKey (k : Int) : List Int → List Int
  | [] => [k]
  | x :: xs => if k < x then k :: x :: xs else if k = x then x :: xs else x :: insertKey k xs

/-- the distinct keys of the two key columns, ascending -/
def keyUnion (old new : List Int) : List Int := (old ++ new).foldr insertKey []

/-- the row numbers (counted from `base`) whose key is `k`, ascending -/
def positionsFrom (k : Int) : Nat → List Int → List Nat
  | _, [] => []
  | base, x :: xs => if x = k then base :: positionsFrom k (base + 1) xs else positionsFrom k (base + 1) xs

def positions (k : Int) (xs : List Int) : List Nat := positionsFrom k 0 xs

/-- a row number, or `-1` for "no row" -/
def idxOr : Option Nat → Int
  | some r => (r : Int)
  | none => -1

/-- specification of `ordered_generate_journalling_indices`: one slot per distinct key, ascending; the old entry is the
    last row of the key in `old` (or -1), the new entry the key's row in `new` (or -1) -/
def indices (old new : List Int) : List Int × List Int :=
  (  (keyUnion old new).map (fun k => idxOr (positions k old).getLast?),
     (keyUnion old new).map (fun k => idxOr (positions k new).head?)  )

/-- is the snapshot row `j?` of a key appended, given the key's last old version `r?` -/
def keepFlag (differs : Nat → Nat → Bool) : Option Nat → Option Nat → Bool
  | none, _ => false            -- the key is absent from the snapshot: history only
  | some _, none => true        -- the key is new
  | some j, some r => differs r j

/-- specification of `to_keep`, slot by slot -/
def toKeep (old new : List Int) (differs : Nat → Nat → Bool) : List Bool :=
  (keyUnion old new).map (fun k => keepFlag differs (positions k new).head? (positions k old).getLast?)

/-- a row of the result: row `r` of the old table or row `j` of the snapshot -/
inductive Src where
  | old (r : Nat)
  | new (j : Nat)
  deriving Repr, DecidableEq, Inhabited

def newPart (differs : Nat → Nat → Bool) (j? r? : Option Nat) : List Src :=
  match j? with
  | some j => if keepFlag differs j? r? then [.new j] else []
  | none => []

/-- the result rows of key `k`: all its old versions in order, then possibly the snapshot's row -/
def block (okeys nkeys : List Int) (differs : Nat → Nat → Bool) (k : Int) : List Src :=
  (positions k okeys).map .old ++ newPart differs (positions k nkeys).head? (positions k okeys).getLast?

/-- the journalled table as a sequence of source rows -/
def plan (okeys nkeys : List Int) (differs : Nat → Nat → Bool) : List Src :=
  (keyUnion okeys nkeys).flatMap (block okeys nkeys differs)

/-- read a column pair at a source row -/
def pick {α} (oc nc : List α) : Src → Option α
  | .old r => oc[r]?
  | .new j => nc[j]?

/-- a result column: the column pair read along the plan -/
def column {α} (p : List Src) (oc nc : List α) : List α := p.filterMap (pick oc nc)

/-- "differs in any compared field": some column pair has different cells at old row `r` / snapshot row `j` -/
def anyDiffers {α} [BEq α] (cols : List (List α × List α)) (r j : Nat) : Bool :=
  cols.any (fun c => c.1[r]? != c.2[j]?)

end Exetera.Spec.Journal
