import Exetera.Model.FilterIndex
import Exetera.Spec.FilterIndex
/-! Facts about the offsetsF/bytes storage of an indexed string column, and the two per-entry steps of the kernels. -/
namespace Exetera.FilterIndex
open Exetera Exetera.Spec

theorem normIdx_eq_wrapIdx : normIdx = Spec.wrapIdx := rfl

theorem offsetsFrom_length {α} (s : Nat) (es : List (List α)) : (offsetsFromF s es).length = es.length + 1 := by
  induction es generalizing s with
  | nil => simp [offsetsFromF]
  | cons e es ih => simp [offsetsFromF, ih]

theorem offsetsFrom_getElem? {α} (s : Nat) (es : List (List α)) (k : Nat) (hk : k ≤ es.length) :
    (offsetsFromF s es)[k]? = some (s + (es.take k).flatten.length) := by
  induction es generalizing s k with
  | nil =>
    have : k = 0 := by simpa using hk
    subst this; simp [offsetsFromF]
  | cons e es ih =>
    cases k with
    | zero => simp [offsetsFromF]
    | succ k =>
      have hk' : k ≤ es.length := by simpa using hk
      simp [offsetsFromF, ih (s + e.length) k hk', Nat.add_assoc]

theorem offsetsFrom_append_singleton {α} (s : Nat) (xs : List (List α)) (e : List α) :
    offsetsFromF s (xs ++ [e]) = offsetsFromF s xs ++ [s + xs.flatten.length + e.length] := by
  induction xs generalizing s with
  | nil => simp [offsetsFromF]
  | cons x xs ih => simp [offsetsFromF, ih, Nat.add_assoc]

theorem cur_length {α} (es : List (List α)) : (offsetsF es).dropLast.length = es.length := by
  simp [offsetsF, offsetsFrom_length]

theorem nxt_length {α} (es : List (List α)) : ((offsetsF es).drop 1).length = es.length := by
  simp [offsetsF, offsetsFrom_length]

theorem cur_getElem? {α} (es : List (List α)) (k : Nat) (hk : k < es.length) :
    (offsetsF es).dropLast[k]? = some (es.take k).flatten.length := by
  rw [List.getElem?_dropLast]
  simp [offsetsF, offsetsFrom_length, hk, offsetsFrom_getElem? 0 es k (Nat.le_of_lt hk)]

theorem nxt_getElem? {α} (es : List (List α)) (k : Nat) (e : List α) (he : es[k]? = some e) :
    ((offsetsF es).drop 1)[k]? = some ((es.take k).flatten.length + e.length) := by
  have hk : k < es.length := by
    rcases List.getElem?_eq_some_iff.mp he with ⟨h, _⟩; exact h
  rw [List.getElem?_drop, offsetsF, offsetsFrom_getElem? 0 es (1 + k) (by omega)]
  have : 1 + k = k + 1 := by omega
  rw [this, List.take_add_one, he]
  simp

/-- the bytes of entry `k` are the slice between its two offsetsF -/
theorem slice_flatten {α} (es : List (List α)) (k : Nat) (e : List α) (he : es[k]? = some e) :
    slice es.flatten (es.take k).flatten.length ((es.take k).flatten.length + e.length) = e ∧
    (es.take k).flatten.length + e.length ≤ es.flatten.length := by
  have hk : k < es.length := by
    rcases List.getElem?_eq_some_iff.mp he with ⟨h, _⟩; exact h
  have hsplit : es = es.take k ++ e :: es.drop (k + 1) := by
    have h1 := (List.take_append_drop k es).symm
    have h2 : es.drop k = e :: es.drop (k + 1) := by
      rw [List.drop_eq_getElem_cons hk]
      congr 1
      rcases List.getElem?_eq_some_iff.mp he with ⟨_, h⟩; exact h
    rw [h2] at h1; exact h1
  have hfl : es.flatten = (es.take k).flatten ++ (e ++ (es.drop (k + 1)).flatten) := by
    conv => lhs; rw [hsplit]
    simp only [List.flatten_append, List.flatten_cons]
  generalize (es.take k).flatten = A at hfl ⊢
  generalize (es.drop (k + 1)).flatten = B at hfl
  rw [hfl]
  constructor
  · simp [slice]
  · simp only [List.length_append]; omega

theorem normIdx_natCast {n k : Nat} (h : k < n) : normIdx n (k : Int) = some k := by
  simp [normIdx, h]

theorem normIdx_lt {n : Nat} {i : Int} {k : Nat} (h : normIdx n i = some k) : k < n := by
  unfold normIdx at h
  split at h
  · split at h
    · simp at h; omega
    · simp at h
  · split at h
    · simp at h; omega
    · simp at h

theorem getWrapE_ok {α} {xs : List α} {i : Int} {k : Nat} {x : α} (site : String)
    (hk : normIdx xs.length i = some k) (hx : xs[k]? = some x) : getWrapE xs i site = .ok x := by
  simp [getWrapE, hk, hx]

theorem getWrapE_none {α} {xs : List α} {i : Int} (site : String)
    (hk : normIdx xs.length i = none) : getWrapE xs i site = .error (.oob site) := by
  simp [getWrapE, hk]

/-- pass 1 body: the byte length of entry `k` -/
theorem entryLen_ok (es : List (List Nat)) (i : Int) (k : Nat) (e : List Nat)
    (hk : normIdx es.length i = some k) (he : es[k]? = some e) :
    entryLen (offsetsF es).dropLast ((offsetsF es).drop 1) i = .ok e.length := by
  have hlt := normIdx_lt hk
  have h1 : getWrapE ((offsetsF es).drop 1) i "next_[i]" = .ok ((es.take k).flatten.length + e.length) :=
    getWrapE_ok _ (by rw [nxt_length]; exact hk) (nxt_getElem? es k e he)
  have h2 : getWrapE (offsetsF es).dropLast i "cur_[i]" = .ok (es.take k).flatten.length :=
    getWrapE_ok _ (by rw [cur_length]; exact hk) (cur_getElem? es k hlt)
  simp only [entryLen, h1, h2, bind, Except.bind, pure, Except.pure, Nat.le_add_right, ite_true,
    Nat.add_sub_cancel_left]

theorem entryLen_oob (es : List (List Nat)) (i : Int) (hk : normIdx es.length i = none) :
    entryLen (offsetsF es).dropLast ((offsetsF es).drop 1) i = .error (.oob "next_[i]") := by
  have h1 : getWrapE ((offsetsF es).drop 1) i "next_[i]" = .error (.oob "next_[i]") :=
    getWrapE_none _ (by rw [nxt_length]; exact hk)
  simp only [entryLen, h1, bind, Except.bind]

/-- the state of pass 2 after the entries `sel` have been copied, with room for `kc` more offsetsF and `kt` more bytes -/
def p2State (sel : List (List Nat)) (kc kt : Nat) : P2 :=
  { count := sel.length + 1, total := sel.flatten.length,
    di := offsetsF sel ++ List.replicate kc 0, dv := sel.flatten ++ List.replicate kt 0 }

/-- pass 2 body: entry `k` is appended to what has been copied so far; no access leaves its array -/
theorem copyEntry_ok (es : List (List Nat)) (i : Int) (k : Nat) (e : List Nat)
    (hk : normIdx es.length i = some k) (he : es[k]? = some e)
    (sel : List (List Nat)) (kc kt : Nat) (hkc : 0 < kc) (hkt : e.length ≤ kt) :
    copyEntry (offsetsF es).dropLast ((offsetsF es).drop 1) es.flatten i (p2State sel kc kt) =
      .ok (p2State (sel ++ [e]) (kc - 1) (kt - e.length)) := by
  have hlt := normIdx_lt hk
  have h1 : getWrapE ((offsetsF es).drop 1) i "next_[i]" = .ok ((es.take k).flatten.length + e.length) :=
    getWrapE_ok _ (by rw [nxt_length]; exact hk) (nxt_getElem? es k e he)
  have h2 : getWrapE (offsetsF es).dropLast i "cur_[i]" = .ok (es.take k).flatten.length :=
    getWrapE_ok _ (by rw [cur_length]; exact hk) (cur_getElem? es k hlt)
  obtain ⟨hs, hb⟩ := slice_flatten es k e he
  have h3 : sliceE es.flatten (es.take k).flatten.length ((es.take k).flatten.length + e.length) "values[c:n]" = .ok e := by
    unfold sliceE
    rw [if_pos ⟨Nat.le_add_right _ _, hb⟩, hs]
  have h4 : setSliceE (sel.flatten ++ List.replicate kt 0) sel.flatten.length (sel.flatten.length + e.length) e
      "dest_values[total:total+delta]" = .ok (sel.flatten ++ e ++ List.replicate (kt - e.length) 0) := by
    generalize sel.flatten = F
    have : F.length + e.length ≤ (F ++ List.replicate kt 0).length := by
      simp only [List.length_append, List.length_replicate]; omega
    unfold setSliceE
    rw [if_pos ⟨Nat.le_add_right _ _, this, by omega⟩, List.take_left' rfl, List.drop_append,
      List.drop_of_length_le (by omega)]
    simp
  obtain ⟨kc', rfl⟩ : ∃ kc', kc = kc' + 1 := ⟨kc - 1, by omega⟩
  have h5 : setE (offsetsF sel ++ List.replicate (kc' + 1) 0) (sel.length + 1) (sel.flatten.length + e.length)
      "dest_indices[count]" = .ok (offsetsF (sel ++ [e]) ++ List.replicate kc' 0) := by
    have hl : (offsetsF sel).length = sel.length + 1 := offsetsFrom_length 0 sel
    have e1 : offsetsF (sel ++ [e]) = offsetsF sel ++ [sel.flatten.length + e.length] := by
      simp only [offsetsF, offsetsFrom_append_singleton, Nat.zero_add]
    rw [e1]
    generalize offsetsF sel = O at hl ⊢
    generalize sel.flatten.length + e.length = t
    unfold setE
    rw [if_pos (by simp only [List.length_append, List.length_replicate]; omega), List.set_append,
      if_neg (by omega), hl, Nat.sub_self, List.replicate_succ, List.set_cons_zero]
    simp
  simp only [copyEntry, p2State, h1, h2, bind, Except.bind, pure, Except.pure]
  have hd : (es.take k).flatten.length + e.length - (es.take k).flatten.length = e.length := by omega
  simp only [hd, h3, h4, h5]
  simp
