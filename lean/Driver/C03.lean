import Driver.Util
import Exetera.Model.Join
open Lean Exetera Exetera.Join
namespace Driver.C03

def variantOf : String → Option Variant
  | "left" => some .left | "left_lu" => some .leftLU | "left_ru" => some .leftRU | "left_bu" => some .leftBU
  | "inner" => some .inner | "inner_lu" => some .innerLU | "inner_ru" => some .innerRU | "inner_bu" => some .innerBU
  | _ => none

def handle : Driver.Handler := fun op j =>
  match op with
  | "join_streamed" => some do
    let vs ← Driver.get? String j "variant"
    let some v := variantOf vs | throw s!"bad variant {vs}"
    let cs ← Driver.get? Nat j "cs"
    let inv ← Driver.get? Int j "inv"
    let l ← Driver.get? (List Int) j "left"
    let r ← Driver.get? (List Int) j "right"
    let fuel ← Driver.get? Nat j "fuel"
    pure <| Driver.outE (fun (o : Out) =>
      Json.mkObj [("l", if v.hasL then Driver.ints o.lout else Json.null), ("r", Driver.ints o.rout), ("calls", toJson o.calls)])
      (streamed v fuel cs inv l r)
  | _ => none

end Driver.C03
