"""Cross-cutting properties (C10 memory safety, C11 JIT equivalence, C12 termination) re-run the cases of the
properties that own the modelled kernels, in other execution modes / with call counting. A case carries `_h`, the name of
the harness module that owns it; impl/to_model/compare are routed there."""
import importlib
from pathlib import Path

HERE = Path(__file__).resolve().parent
_cache = {}


def base(name):
    if name not in _cache:
        _cache[name] = importlib.import_module("checks.harness." + name)
    return _cache[name]


def available(names):
    return [n for n in names if (HERE / f"{n}.py").exists()]


def gen_cases(names, tier, rng, per_base, keep=None, prefer=None):
    out = []
    for n in available(names):
        b = base(n)
        cs = [c for c in b.gen_cases(tier, rng) if not c.get("_invalid") and not c.get("_malformed")]
        if keep:
            cs = [c for c in cs if keep(n, b, c)]
        corpus = [c for c in cs if c.get("_corpus")]
        rest = [c for c in cs if not c.get("_corpus")]
        first = []
        if prefer:
            # the cases the owning harness built to stress exactly this cross-cutting property come first (at most as many
            # again as the sample), the remaining budget is a seeded sample of everything else
            first = [c for c in rest if prefer(n, b, c)]
            rest = [c for c in rest if not prefer(n, b, c)]
            if len(first) > per_base:
                first = rng.sample(first, per_base)
        if len(rest) > per_base:
            rest = rng.sample(rest, per_base)
        for c in corpus + first + rest:
            c = dict(c)
            c["_h"] = n
            out.append(c)
    return out


def impl(case, fn="impl"):
    b = base(case["_h"])
    return getattr(b, fn, b.impl)(case)


def to_model(case):
    b = base(case["_h"])
    return getattr(b, "to_model", lambda c: c)(case)


def compare(case, io, mo, mode):
    b = base(case["_h"])
    if hasattr(b, "compare"):
        return b.compare(case, io, mo, mode)
    from checks import run
    return run.default_compare(case, io, mo, mode)


def classify(case, mo):
    b = base(case["_h"])
    tags = [case["_h"]]
    if hasattr(b, "classify"):
        t = b.classify(case, mo)
        tags += list(t) if isinstance(t, (list, tuple)) else [t]
    return tags


def nontrivial(case, mo):
    b = base(case["_h"])
    return b.nontrivial(case, mo) if hasattr(b, "nontrivial") else True
