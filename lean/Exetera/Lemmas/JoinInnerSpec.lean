import Exetera.Lemmas.JoinGeneral
/-! The inner join is the matched part of the left join. -/
namespace Exetera.Join
open Exetera Exetera.Spec

theorem sel_false_leftRow_nil (base : Nat) : sel false (leftRow base []) = [] := by simp [sel, leftRow]

theorem sel_false_leftRow_cons (base : Nat) (m : Nat) (ms : List Nat) :
    sel false (leftRow base (m :: ms)) = (m :: ms).map (fun j => (base, some j)) := by
  simp only [sel, leftRow, Bool.false_eq_true, if_false, List.filter_eq_self, List.mem_map]
  rintro ⟨a, b⟩ ⟨x, _, hx⟩
  cases hx; rfl

theorem inner_eq_sel_left (r : List Int) : ∀ (l : List Int) (base : Nat),
    encodeInner (innerJoinFrom r l base) =
      (encL (sel false (leftJoinFrom r l base)), encR 0 (sel false (leftJoinFrom r l base)))
  | [], _ => by simp [innerJoinFrom, leftJoinFrom, encodeInner, sel, encL, encR]
  | a :: as, base => by
    have ih := inner_eq_sel_left r as (base + 1)
    simp only [encodeInner, Prod.mk.injEq] at ih
    simp only [innerJoinFrom, leftJoinFrom, encodeInner, sel_append, List.map_append, Prod.mk.injEq, encL, encR] at ih ⊢
    cases hm : matchRows a r 0 with
    | nil =>
      simp only [sel_false_leftRow_nil, List.map_nil, List.nil_append]
      exact ih
    | cons m ms =>
      rw [sel_false_leftRow_cons]
      simp only [List.map_map, List.map_cons]
      constructor
      · rw [← ih.1]; simp [Function.comp_def]
      · rw [← ih.2]; simp [Function.comp_def, encCell]

/-- the marker is irrelevant once unmatched rows are dropped -/
theorem encR_sel_false (inv inv' : Int) (rows : List (Nat × Option Nat)) :
    encR inv (sel false rows) = encR inv' (sel false rows) := by
  simp only [encR, sel, Bool.false_eq_true, if_false, List.map_inj_left, List.mem_filter]
  rintro ⟨a, b⟩ ⟨_, hb⟩
  cases b with
  | none => simp at hb
  | some j => rfl

end Exetera.Join
