import Exetera.Lemmas.C19MapStreamDriver
/-!
  C19, `Session.ordered_merge_left` in ALL its forms: the map of a left join against a duplicate-free right column has
  non-decreasing valid entries, so the legacy streamed mapper applies; `_streaming_map_fields` and `_map_fields` with
  zero-initialised ndarray sinks write the same columns as `_map_fields` without sinks; composition with the map kernels.
-/
namespace Exetera.JoinOld
open Exetera Exetera.Spec Exetera.Join Exetera.JoinFlat Exetera.MapValid

theorem matchRows_mem {k : Int} : ∀ (r : List Int) (base j : Nat), j ∈ matchRows k r base →
    base ≤ j ∧ r[j - base]? = some k
  | [], _, _, h => by simp [matchRows] at h
  | b :: bs, base, j, h => by
    simp only [matchRows] at h
    have tail : j ∈ matchRows k bs (base + 1) → base ≤ j ∧ (b :: bs)[j - base]? = some k := by
      intro h'
      obtain ⟨h1, h2⟩ := matchRows_mem bs (base + 1) j h'
      have e : j - base = (j - (base + 1)) + 1 := by omega
      refine ⟨by omega, ?_⟩
      rw [e, List.getElem?_cons_succ]
      exact h2
    split at h
    · rename_i hbk
      have hb : b = k := by simpa using hbk
      rcases List.mem_cons.mp h with h | h
      · subst h
        simp [hb]
      · exact tail h
    · exact tail h

/-- row `k` of the left join against a duplicate-free right column: left row `base + k`, and a right row (if any) that
    carries the same key -/
theorem leftJoinFrom_get {R : List Int} (hR : R.Pairwise (· < ·)) :
    ∀ (l : List Int) (base k : Nat) (p : Nat × Option Nat), (leftJoinFrom R l base)[k]? = some p →
      ∃ a, l[k]? = some a ∧ ∀ j, p.2 = some j → R[j]? = some a
  | [], _, _, _, h => by simp [leftJoinFrom] at h
  | a :: as, base, k, p, h => by
    have h1 := leftRow_length_one base _ (matchRows_length_le_one (k := a) (base := 0) hR)
    simp only [leftJoinFrom] at h
    cases k with
    | zero =>
      rw [List.getElem?_append_left (by omega)] at h
      have hmem := List.mem_of_getElem? h
      refine ⟨a, by simp, fun j hj => ?_⟩
      cases hm : matchRows a R 0 with
      | nil =>
        rw [hm] at hmem
        simp only [leftRow, List.mem_singleton] at hmem
        subst hmem
        simp at hj
      | cons x xs =>
        rw [hm] at hmem
        simp only [leftRow, List.mem_map] at hmem
        obtain ⟨y, hy, rfl⟩ := hmem
        simp only [Option.some.injEq] at hj
        subst hj
        have := (matchRows_mem R 0 y (by rw [hm]; exact hy)).2
        simpa using this
    | succ k =>
      rw [List.getElem?_append_right (by omega), h1] at h
      simp only [Nat.add_sub_cancel] at h
      obtain ⟨a', h2, h3⟩ := leftJoinFrom_get hR as (base + 1) k p h
      exact ⟨a', by simpa using h2, h3⟩

/-- the right map column of a left join of a sorted column against a duplicate-free sorted column: its valid entries
    never decrease -/
theorem validMonotone_encR_leftJoin {L R : List Int} (inv : Int) (hL : Sorted L) (hR : R.Pairwise (· < ·)) :
    ValidMonotone (encR inv (leftJoin L R)) inv := by
  intro i j a b hij ha hb hai hbi
  simp only [encR, List.getElem?_map, Option.map_eq_some_iff] at ha hb
  obtain ⟨p, hp, rfl⟩ := ha
  obtain ⟨q, hq, rfl⟩ := hb
  obtain ⟨x, hx1, hx2⟩ := leftJoinFrom_get hR L 0 i p hp
  obtain ⟨y, hy1, hy2⟩ := leftJoinFrom_get hR L 0 j q hq
  cases hp2 : p.2 with
  | none => simp [hp2, encCell] at hai
  | some ja =>
    cases hq2 : q.2 with
    | none => simp [hq2, encCell] at hbi
    | some jb =>
      simp only [encCell]
      have hxy : x ≤ y := Sorted.le_get? hL hij hx1 hy1
      by_cases hlt : jb < ja
      · have := RU.strict_get? hR hlt (hy2 jb hq2) (hx2 ja hp2)
        omega
      · omega

/-- `_streaming_map_fields` writes what `_map_fields` returns -/
theorem mapM_stream (m : List Int) (inv : Int) (n : Nat) {cs : Nat} (hcs : 1 ≤ cs) (hr : InRange n m inv)
    (hmono : ValidMonotone m inv) (hinv : inv < 0 ∨ (n : Int) ≤ inv) :
    ∀ (xss : List (List Int)), (∀ xs ∈ xss, xs.length = n) →
      mapM' (streamPayload m inv cs) (xss.map Payload.numeric) =
        mapM' (mapValidPayload m none inv) (xss.map Payload.numeric)
  | [], _ => rfl
  | xs :: rest, h => by
    have hx := h xs (by simp)
    have e := mapValidStreamOld_eq_mapValid xs m inv (0 : Int) hcs (by rw [hx]; exact hr) hmono (by rw [hx]; exact hinv)
    have ih := mapM_stream m inv n hcs hr hmono hinv rest (fun x hx => h x (by simp [hx]))
    simp only [List.map_cons, mapM', streamPayload, mapValidPayload, numericOf, e, ih]

/-- `_map_fields` with zero-initialised ndarray sinks (`np.zeros(len(map))`) writes what it returns without sinks:
    `map_valid` leaves the rows of marker entries as they are -/
theorem mapM_arrays (m : List Int) (inv : Int) :
    ∀ (xss : List (List Int)),
      mapM' (fun (p : Payload × List Int) => mapValidPayload m (some p.2) inv p.1)
          ((xss.map Payload.numeric).zip (List.replicate xss.length (List.replicate m.length 0))) =
        mapM' (mapValidPayload m none inv) (xss.map Payload.numeric)
  | [] => rfl
  | xs :: rest => by
    have ih := mapM_arrays m inv rest
    have e : mapValidPayload m (some (List.replicate m.length 0)) inv (Payload.numeric xs) =
        mapValidPayload m none inv (Payload.numeric xs) := rfl
    simp only [List.map_cons, List.length_cons, List.replicate_succ, List.zip_cons_cons, mapM', e, ih]

/-- the sinks the theorems speak about: none, fields, or one zero-initialised ndarray of the result's length per payload -/
def zeroArrays (rows cols : Nat) : Sinks := .arrays (List.replicate cols (List.replicate rows 0))

/-- **`ordered_merge_left`, every form**: the same columns `cols` whatever the form of the arguments -/
theorem orderedMergeLeft_all (lu : Bool) {L R : List Int} (xss : List (List Int))
    (hL : Sorted L) (hR : R.Pairwise (· < ·)) (hlu : lu = true → L.Pairwise (· < ·))
    (hne : xss ≠ []) (hlen : ∀ xs ∈ xss, xs.length = R.length) :
    ∃ cols, MappedCols (encR INVALID_INDEX (leftJoin L R)) INVALID_INDEX xss cols ∧
      ∀ (cs : Nat) (c : Cfg),
        (c.sinks = .none → orderedMergeLeft cs c lu true L R (xss.map .numeric) = .ok ⟨some cols, [], none⟩) ∧
        (c.sinks = .fields → streamable c = false →
          orderedMergeLeft cs c lu true L R (xss.map .numeric) = .ok ⟨none, cols, none⟩) ∧
        (c.sinks = zeroArrays L.length xss.length →
          orderedMergeLeft cs c lu true L R (xss.map .numeric) = .ok ⟨none, cols, none⟩) ∧
        (streamable c = true → 1 ≤ cs → (R.length : Int) ≤ INVALID_INDEX →
          orderedMergeLeft cs c lu true L R (xss.map .numeric) =
            .ok ⟨none, cols, some (encR INVALID_INDEX (leftJoin L R))⟩) := by
  obtain ⟨u, hmap⟩ := leftMap_flat lu hL hR hlu
  obtain ⟨cols, h1, h2⟩ := mapM_mapValid (encR INVALID_INDEX (leftJoin L R)) INVALID_INDEX R.length
    (inRange_encR L R INVALID_INDEX) xss hlen
  obtain ⟨cols', h3, h4⟩ := orderedMergeLeft_flat lu xss hL hR hlu hne hlen
  have hcc : cols' = cols := by
    clear h4 h1
    induction xss generalizing cols cols' with
    | nil => exact absurd rfl hne
    | cons x xs ih =>
      cases cols with
      | nil => exact absurd h2 (by simp [MappedCols])
      | cons c cs =>
        cases cols' with
        | nil => exact absurd h3 (by simp [MappedCols])
        | cons c' cs' =>
          simp only [MappedCols] at h2 h3
          have e1 : c' = c := by have := h3.1.symm.trans h2.1; simpa using this
          by_cases hxs : xs = []
          · subst hxs
            cases cs with
            | nil => cases cs' with
              | nil => rw [e1]
              | cons _ _ => exact absurd h3.2 (by simp [MappedCols])
            | cons _ _ => exact absurd h2.2 (by simp [MappedCols])
          · rw [e1, ih hxs (fun y hy => hlen y (by simp [hy])) cs h2.2 cs' h3.2]
  subst hcc
  have hemp : (xss.map Payload.numeric).isEmpty = false := by
    cases xss with
    | nil => exact absurd rfl hne
    | cons x xs => rfl
  refine ⟨cols', h2, fun cs c => ⟨?_, ?_, ?_, ?_⟩⟩
  · intro hs
    have hst : streamable c = false := by simp [streamable, hs]
    exact (h4 cs c hst).1 hs
  · intro hs hst
    exact (h4 cs c hst).2 hs
  · intro hs
    have hst : streamable c = false := by simp [streamable, hs, zeroArrays]
    have hml : (encR INVALID_INDEX (leftJoin L R)).length = L.length := encR_leftJoin_length INVALID_INDEX hR
    have harr := mapM_arrays (encR INVALID_INDEX (leftJoin L R)) INVALID_INDEX xss
    rw [hml, h1] at harr
    simp only [orderedMergeLeft, hs, zeroArrays, Sinks.count, Option.any_some, List.length_replicate, List.length_map,
      bne_self_eq_false, hemp, hst, Bool.not_true, Bool.and_false, Bool.false_eq_true, if_false, hmap, mapFields, harr]
  · intro hst hcs hsz
    have hs : c.sinks = .fields := by
      simp only [streamable, Bool.and_eq_true, beq_iff_eq] at hst
      exact hst.1.2
    have hstream := mapM_stream (encR INVALID_INDEX (leftJoin L R)) INVALID_INDEX R.length hcs
      (inRange_encR L R INVALID_INDEX) (validMonotone_encR_leftJoin INVALID_INDEX hL hR) (Or.inr hsz) xss hlen
    rw [h1] at hstream
    obtain ⟨u', hsm⟩ := streamedOld_eq INVALID_INDEX hcs hL hR
    cases lu with
    | false =>
      simp only [orderedMergeLeft, hs, Sinks.count, Option.any_none, hemp, hst, Bool.not_true, Bool.not_false,
        Bool.and_self, Bool.false_eq_true, if_false, if_true, hsm, streamingMapFields, hstream]
    | true =>
      simp only [orderedMergeLeft, hs, Sinks.count, Option.any_none, hemp, hst, Bool.not_true, Bool.false_and,
        Bool.false_eq_true, if_false, if_true, hmap, streamingMapFields, hstream]

/-- the forms of an `ordered_merge_left` call the theorems cover (all the code has): no sinks, Field sinks, or one
    zero-initialised ndarray of `rows` entries per payload; ndarray or Field keys and sources; with or without the map
    field. When the call is the streamed one the chunk size is at least 1 and the source table has at most
    `INVALID_INDEX = 2^62` rows (the marker is not a row number). -/
def FormOK (cs : Nat) (c : Cfg) (rows npayloads srcRows : Nat) : Prop :=
  (c.sinks = .none ∨ c.sinks = .fields ∨ c.sinks = zeroArrays rows npayloads) ∧
  (streamable c = true → 1 ≤ cs ∧ (srcRows : Int) ≤ INVALID_INDEX)

/-- every covered form succeeds and delivers the same columns (returned, or written to the sinks); the streamed form
    also leaves the join map in the map field -/
theorem orderedMergeLeft_any (lu : Bool) {L R : List Int} (xss : List (List Int))
    (hL : Sorted L) (hR : R.Pairwise (· < ·)) (hlu : lu = true → L.Pairwise (· < ·))
    (hne : xss ≠ []) (hlen : ∀ xs ∈ xss, xs.length = R.length) :
    ∃ cols, MappedCols (encR INVALID_INDEX (leftJoin L R)) INVALID_INDEX xss cols ∧
      ∀ (cs : Nat) (c : Cfg), FormOK cs c L.length xss.length R.length →
        ∃ o, orderedMergeLeft cs c lu true L R (xss.map .numeric) = .ok o ∧ o.returned.getD o.sinks = cols ∧
          (streamable c = true → o.map = some (encR INVALID_INDEX (leftJoin L R))) := by
  obtain ⟨cols, h1, h2⟩ := orderedMergeLeft_all lu xss hL hR hlu hne hlen
  refine ⟨cols, h1, fun cs c hf => ?_⟩
  obtain ⟨a, b, d, e⟩ := h2 cs c
  cases hst : streamable c with
  | true =>
    obtain ⟨g1, g2⟩ := hf.2 hst
    exact ⟨_, e hst g1 g2, rfl, fun _ => rfl⟩
  | false =>
    rcases hf.1 with hs | hs | hs
    · exact ⟨_, a hs, rfl, fun h => by cases h⟩
    · exact ⟨_, b hs hst, rfl, fun h => by cases h⟩
    · exact ⟨_, d hs, rfl, fun h => by cases h⟩

end Exetera.JoinOld
