import Exetera.Model.Basic
import Exetera.Spec.Spans
/-!
  Specification of C07: a group-by result has one row per distinct key tuple, in ascending key order, and the value of
  a row is the aggregate of the target values of the input rows carrying that key, taken in original row order.
-/
namespace Exetera.Spec

/-- strict lexicographic order on key tuples (first column most significant; a proper prefix is smaller) -/
def tupleLt : List Int → List Int → Bool
  | [], [] => false
  | [], _ :: _ => true
  | _ :: _, [] => false
  | a :: as, b :: bs => decide (a < b) || (a == b && tupleLt as bs)

/-- the rows (key tuples) of a frame with `n` rows given by its key columns -/
def keyRows (n : Nat) : List (List Int) → List (List Int)
  | [] => List.replicate n []
  | c :: cs => List.zipWith (fun x r => x :: r) c (keyRows n cs)

/-- `cols` are the columns of the row list `rows` -/
def ColumnsOf (cols : List (List Int)) (rows : List (List Int)) : Prop :=
  (∀ c ∈ cols, c.length = rows.length) ∧ keyRows rows.length cols = rows

/-- the target values of the rows whose key tuple is `k`, in original row order -/
def select {V} (rows : List (List Int)) (tgt : List V) (k : List Int) : List V :=
  ((rows.zip tgt).filter (fun p => p.1 == k)).map (·.2)

/-- `outKeys` are the distinct key tuples of `rows` in ascending order (this determines `outKeys`) -/
def DistinctAscending (rows outKeys : List (List Int)) : Prop :=
  outKeys.Pairwise (fun a b => tupleLt a b = true) ∧ ∀ k, k ∈ outKeys ↔ k ∈ rows

/-- group-by with an aggregate `agg` (`min?`, `max?`, `head?` = first, `getLast?` = last; `none` only for an empty
    group, which does not occur): one output row per distinct key tuple, ascending, whose value is the aggregate of the
    target values of that key's rows in original order -/
def IsGroupBy {V} (rows : List (List Int)) (tgt : List V) (agg : List V → Option V) (outKeys : List (List Int))
    (outVals : List V) : Prop :=
  DistinctAscending rows outKeys ∧ outVals.map some = outKeys.map (fun k => agg (select rows tgt k))

/-- group-by count: the number of rows carrying each key -/
def IsGroupCount (rows outKeys : List (List Int)) (counts : List Int) : Prop :=
  DistinctAscending rows outKeys ∧ counts = outKeys.map (fun k => ((rows.count k : Nat) : Int))

/-- the smallest / largest string of a group in bytewise lexicographic order (`lexLt`, a proper prefix is smaller) -/
def lexMin? : List (List Nat) → Option (List Nat)
  | [] => none
  | x :: xs => some (xs.foldl (fun m y => if lexLt y m then y else m) x)

def lexMax? : List (List Nat) → Option (List Nat)
  | [] => none
  | x :: xs => some (xs.foldl (fun m y => if lexLt m y then y else m) x)

/-- non-decreasing rows -/
def RowsSorted (rows : List (List Int)) : Prop := rows.Pairwise (fun a b => tupleLt b a = false)

/-- stacking the key columns into one array leaves the comparisons of column values unchanged -/
def CastFaithful (cast : Int → Int) : Prop := ∀ a b : Int, a < b → cast a < cast b

/-- … at least on the values that occur in the column -/
def CastFaithfulOn (cast : Int → Int) (data : List Int) : Prop := ∀ a ∈ data, ∀ b ∈ data, a < b → cast a < cast b

end Exetera.Spec
