import Exetera.Lemmas.JournalFor
/-! The (indices, values) layout of an indexed string column: offsets are prefix sums, a row is the slice between two
    consecutive offsets. -/
namespace Exetera.Journal
open Exetera

/-- number of bytes in the first `r` rows -/
def preLen (ss : List (List Int)) (r : Nat) : Nat := (ss.take r).flatten.length

theorem preLen_zero (ss : List (List Int)) : preLen ss 0 = 0 := by simp [preLen]

theorem preLen_succ {ss : List (List Int)} {r : Nat} (h : r < ss.length) : preLen ss (r + 1) = preLen ss r + ss[r].length := by
  unfold preLen
  rw [List.take_succ_eq_append_getElem h, List.flatten_append, List.length_append]
  simp

theorem preLen_all (ss : List (List Int)) : preLen ss ss.length = ss.flatten.length := by simp [preLen]

theorem preLen_le_succ (ss : List (List Int)) (r : Nat) : preLen ss r ≤ preLen ss (r + 1) := by
  by_cases h : r < ss.length
  · rw [preLen_succ h]; omega
  · simp [preLen, List.take_of_length_le (show ss.length ≤ r by omega), List.take_of_length_le (show ss.length ≤ r + 1 by omega)]

theorem offsetsFrom_length : ∀ (ss : List (List Int)) (acc : Nat), (offsetsFrom acc ss).length = ss.length + 1
  | [], _ => rfl
  | s :: ss, acc => by simp [offsetsFrom, offsetsFrom_length ss]

theorem offsetsFrom_getElem? : ∀ (ss : List (List Int)) (acc r : Nat), r ≤ ss.length →
    (offsetsFrom acc ss)[r]? = some (acc + preLen ss r)
  | [], acc, r, h => by
    have : r = 0 := by simpa using h
    subst this; simp [offsetsFrom, preLen]
  | s :: ss, acc, 0, _ => by simp [offsetsFrom, preLen]
  | s :: ss, acc, r + 1, h => by
    simp only [offsetsFrom, List.getElem?_cons_succ]
    rw [offsetsFrom_getElem? ss (acc + s.length) r (by simpa using h)]
    simp [preLen]; omega

theorem offsetsFrom_getLast? (ss : List (List Int)) (acc : Nat) :
    (offsetsFrom acc ss).getLast? = some (acc + ss.flatten.length) := by
  rw [List.getLast?_eq_getElem?, offsetsFrom_length, Nat.add_sub_cancel, offsetsFrom_getElem? ss acc ss.length (Nat.le_refl _),
    preLen_all]

theorem encode_inds_getElem? (ss : List (List Int)) {r : Nat} (h : r ≤ ss.length) : (encode ss).1[r]? = some (preLen ss r) := by
  simp [encode, offsetsFrom_getElem? ss 0 r h]

theorem encode_inds_length (ss : List (List Int)) : (encode ss).1.length = ss.length + 1 := offsetsFrom_length ss 0

/-- the slice between two consecutive offsets is the row -/
theorem slice_flatten {ss : List (List Int)} {r : Nat} (h : r < ss.length) :
    slice ss.flatten (preLen ss r) (preLen ss (r + 1)) = ss[r] := by
  have hsplit : ss = ss.take r ++ ss[r] :: ss.drop (r + 1) := by
    rw [List.getElem_cons_drop]; exact (List.take_append_drop r ss).symm
  have hfl : ss.flatten = (ss.take r).flatten ++ (ss[r] ++ (ss.drop (r + 1)).flatten) := by
    have := congrArg List.flatten hsplit
    rw [List.flatten_append, List.flatten_cons] at this
    exact this
  rw [preLen_succ h]
  unfold slice preLen
  rw [hfl, List.drop_left]
  simp

theorem rowBytes_encode {ss : List (List Int)} {r : Nat} (site : String) (h : r < ss.length) :
    rowBytes (encode ss).1 (encode ss).2 (r : Int) site = .ok ss[r] := by
  have h1 : getI (encode ss).1 (r : Int) site = .ok (preLen ss r) := by
    have hl : r < (encode ss).1.length := by rw [encode_inds_length]; omega
    rw [getI_of_nat site hl]
    have := encode_inds_getElem? ss (Nat.le_of_lt h)
    rw [List.getElem?_eq_getElem hl] at this
    simpa using this
  have h2 : getI (encode ss).1 ((r : Int) + 1) site = .ok (preLen ss (r + 1)) := by
    have hl : r + 1 < (encode ss).1.length := by rw [encode_inds_length]; omega
    have hc : ((r : Int) + 1) = ((r + 1 : Nat) : Int) := by omega
    rw [hc, getI_of_nat site hl]
    have := encode_inds_getElem? ss (show r + 1 ≤ ss.length by omega)
    rw [List.getElem?_eq_getElem hl] at this
    simpa using this
  simp only [rowBytes, h1, h2, bind, Except.bind, pure, Except.pure]
  congr 1
  exact slice_flatten h

end Exetera.Journal
