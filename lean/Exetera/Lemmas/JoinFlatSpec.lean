import Exetera.Lemmas.JoinRU
import Exetera.Model.JoinFlat
/-!
  Spec-side lemmas for the flat join kernels (C19): the merge-position invariant `Below` and what the relational join of
  sorted columns looks like at a merge position, in the `getElem?` form the kernel lemmas use.
-/
namespace Exetera.JoinFlat
open Exetera Exetera.Spec Exetera.Join

/-- merge-position invariant: every right row before `J` is below the left key at `I` -/
def Below (L R : List Int) (I J : Nat) : Prop := ∀ j b a, j < J → R[j]? = some b → L[I]? = some a → b < a

theorem Below.zero (L R : List Int) (I : Nat) : Below L R I 0 := by
  intro j b a h; omega

theorem Below.step_left {L R : List Int} {I J : Nat} (hL : Sorted L) (h : Below L R I J) : Below L R (I + 1) J := by
  intro j b a' hj hb ha'
  have hI : I < L.length := by have := (List.getElem?_eq_some_iff.mp ha').1; omega
  have h1 := h j b L[I] hj hb (get?_some_of_lt hI)
  have hle := Sorted.le_get? hL (i := I) (j := I + 1) (by omega) (get?_some_of_lt hI) ha'
  omega

theorem Below.step_right {L R : List Int} {I J : Nat} (h : Below L R I J)
    (hab : ∀ a b, L[I]? = some a → R[J]? = some b → b < a) : Below L R I (J + 1) := by
  intro j b a hj hb ha
  by_cases hjJ : j < J
  · exact h j b a hjJ hb ha
  · have : j = J := by omega
    subst this
    exact hab a b ha hb

/-- after a match `(I, J)` with the next left key strictly larger: both sides advance -/
theorem Below.step_both {L R : List Int} {I J : Nat} {a : Int} (hL : Sorted L) (h : Below L R I J)
    (ha : L[I]? = some a) (hb : R[J]? = some a) (hnext : ∀ a', L[I + 1]? = some a' → a < a') :
    Below L R (I + 1) (J + 1) := by
  apply Below.step_right (Below.step_left hL h)
  intro a' b ha' hb'
  rw [hb] at hb'; cases hb'
  exact hnext a' ha'

/-- past the end of the left column the invariant is vacuous -/
theorem Below.of_ge {L R : List Int} {I J : Nat} (hI : L.length ≤ I) : Below L R I J := by
  intro j b a _ _ ha
  have := (List.getElem?_eq_some_iff.mp ha).1
  omega

/-- unmatched left row -/
theorem rest_unmatched {L R : List Int} {I J : Nat} {a : Int} (hR : Sorted R) (h : Below L R I J)
    (ha : L[I]? = some a) (hJ : J ≤ R.length) (hgt : ∀ b, R[J]? = some b → a < b) :
    rest L R I = (I, none) :: rest L R (I + 1) := by
  obtain ⟨hI, haL⟩ := List.getElem?_eq_some_iff.mp ha
  apply rest_lt hR hI hJ
  · intro j hj
    rw [haL]
    exact h j _ a hj (get?_some_of_lt (by omega)) ha
  · intro hlt
    rw [haL]
    exact hgt _ (get?_some_of_lt hlt)

/-- matched left row against a duplicate-free right column -/
theorem rest_matched_unique {L R : List Int} {I J : Nat} {a : Int} (hR : R.Pairwise (· < ·)) (h : Below L R I J)
    (ha : L[I]? = some a) (hb : R[J]? = some a) :
    rest L R I = (I, some J) :: rest L R (I + 1) :=
  RU.rest_eq1 hR ha hb (fun j b hj hb' => h j b a hj hb' ha)

theorem encR_cons_none (inv : Int) (I : Nat) (rows : List (Nat × Option Nat)) :
    encR inv ((I, none) :: rows) = inv :: encR inv rows := by simp [encR, encCell]

theorem encR_cons_some (inv : Int) (I J : Nat) (rows : List (Nat × Option Nat)) :
    encR inv ((I, some J) :: rows) = (J : Int) :: encR inv rows := by simp [encR, encCell]

end Exetera.JoinFlat
