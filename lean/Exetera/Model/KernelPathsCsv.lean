/-!
  C10 — path conditions of the array subscripts of the compiled CSV reader `fast_csv_reader` that `Model/Csv.lean` models (owning property C05), frozen from the source the model
  was written against. `Props/C10/Csv.lean` (`access_paths_covered_csv`) proves that the table regenerated from the CURRENT
  source (`Gen/KernelPaths.lean`) is this one: a test that dominates a subscript cannot be dropped, weakened or moved in the
  source without breaking the build.

  Each entry is (site, path condition): the tests passed on the way to that occurrence of the subscript, outermost first —
  `for …` / `while …` = an enclosing loop guard (the same strings as in `KernelSitesCsv`), a bare test = the `if` / `elif`
  branch taken or an `and` operand to the left of the subscript, `not (…)` = an `else` branch, the code after an early exit
  `if …: break | continue | return | raise`, or an `or` operand to the left. A condition is the text of a test that held
  when it was passed (a syntactic path, not an invariant). A site reached on several paths has one entry per path.
  Regenerate with `python3 tools/translate_kernels.py --paths /repo <kernel> …`.

  Which conjunct of the path condition the model's checked accessor relies on (accessor names as in `KernelSitesCsv`):
  * `source[index + 1]`: every occurrence is behind the operand `index + 1 < len(source)` (the entry just before the end of
    each of its four paths: the two `elif` tests of the closing-quote branch and the blank-skipping `while` after a cell
    end) — the model fuses guard and read (`src[s.index + 1]?` handed to `lexByte`, `skipAfter`), so this conjunct is what
    makes the model's total read faithful; `source[index]` = `getE src s.index` relies on the early return
    `if index == len(source)` before the loop (entry `not (index == len(source))`) and on the same test at the end of every
    iteration; the leading blank skip reads it behind `index < len(source)`.
  * `column_vals[col_offset + cur_cell_start + cur_cell_char_count]` = `setE` in `writeChar`: reached only on
    `write_char and row_index >= 0`; no test bounds the position before the write (the kernel sets `is_column_vals_full`
    AFTER the write that fills the column and returns at the end of the iteration: `fsm_any_buffers_eq_spec`).
  * `column_inds[col_index, row_index + 1]` (write) = `set2` in `endCell`: relies on `row_index >= 0` (the header line has
    `row_index = -1`) under `end_cell`; `column_inds[col_index, row_index]` (read) after a cell end is NOT behind
    `row_index >= 0` (the `-1` wraps to the last slot — modelled as such), at entry it is (`row_index >= 0`).
  * `column_offsets[col_index]`, `column_offsets[col_index + 1]` = the two `getE offs` of `endCell`, on `end_line`
    (`col_index = 0`) and on `not (end_line)` (`col_index + 1`): no test bounds `col_index` (a line with more cells than
    columns is the model's `.oob`; excluded by the well-formed-table hypothesis of C05).
-/
namespace Exetera.KernelPaths

/-- the CSV reader kernel (C05): path condition of every subscript occurrence -/
def csvPaths : List (String × List (String × List String)) := [
  ("fast_csv_reader", [
    ("R Union[str, StringIO]", []),
    ("R column_inds.shape[0]", []),
    ("R column_inds.shape[1]", []),
    ("R column_inds[col_index, row_index]", ["not (index == len(source))", "while True", "end_cell"]),
    ("R column_inds[col_index, row_index]", ["row_index >= 0"]),
    ("R column_offsets[1]", []),
    ("R column_offsets[col_index + 1]", ["not (index == len(source))", "while True", "end_cell", "end_line"]),
    ("R column_offsets[col_index + 1]", ["not (index == len(source))", "while True", "end_cell", "not (end_line)"]),
    ("R column_offsets[col_index]", ["not (index == len(source))", "while True", "end_cell", "end_line"]),
    ("R column_offsets[col_index]", ["not (index == len(source))", "while True", "end_cell", "not (end_line)"]),
    ("R source[index + 1]", ["not (index == len(source))", "while True", "end_cell", "index + 1 < len(source)"]),
    ("R source[index + 1]", ["not (index == len(source))", "while True", "not (c == separator_value)", "not (c == newline_value)", "c == escape_value", "not (not escaped)", "not (escaped_literal_candidate)", "index + 1 < len(source)"]),
    ("R source[index + 1]", ["not (index == len(source))", "while True", "not (c == separator_value)", "not (c == newline_value)", "c == escape_value", "not (not escaped)", "not (escaped_literal_candidate)", "not (index + 1 < len(source) and source[index + 1] == escape_value)", "index + 1 < len(source)"]),
    ("R source[index + 1]", ["not (index == len(source))", "while True", "not (c == separator_value)", "not (c == newline_value)", "c == escape_value", "not (not escaped)", "not (escaped_literal_candidate)", "not (index + 1 < len(source) and source[index + 1] == escape_value)", "index + 1 < len(source)", "not (source[index + 1] == separator_value)"]),
    ("R source[index]", ["index < len(source)"]),
    ("R source[index]", ["not (index == len(source))", "while True"]),
    ("W column_inds[col_index, row_index + 1]", ["not (index == len(source))", "while True", "end_cell", "row_index >= 0"]),
    ("W column_vals[col_offset + cur_cell_start + cur_cell_char_count]", ["not (index == len(source))", "while True", "write_char and row_index >= 0"])])
]

end Exetera.KernelPaths
