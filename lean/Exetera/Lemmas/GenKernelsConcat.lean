import Exetera.Gen.Kernels
import Exetera.Model.Concat
import Exetera.Lemmas.GenKernels
import Exetera.Lemmas.GenKernelsSpans
import Exetera.Lemmas.GenKernelsSpansIdxMinIndexed
/-!
  The TRANSLATED `_apply_spans_concat_2` (seven `for` loops, the outer one with `break`; the loop variable read after the loop)
  against `Concat.kernel` over bytes (`α := Nat`) — transfer form. The model keeps the PREFIXES of `dest_index` / `dest_values`
  written in this call (`Buf.ib`, `Buf.vb`) and the capacities; the kernel keeps the buffers and positions: the translated kernel's
  buffers start with the model's prefixes.

  The inner loops are stated as rewrite rules: `loop n i S = .ok { S with … }` for every state `S` whose relevant fields are as
  required (the scratch variables a loop leaves behind are given by `lastK`).
-/
namespace Exetera.GenK

open Exetera Exetera.PyRt Exetera.Concat Exetera.Gen.Kernels

namespace CC

abbrev St := _apply_spans_concat_2.St

/-- the value a `for k in range(i, i + n)` loop leaves in its loop variable (`d` when the range is empty) -/
def lastK : Nat → Int → Int → Int
  | 0, _, d => d
  | n + 1, i, _ => lastK n (i + 1) i

abbrev loopOf (body : St → Except Err St) (set : St → Int → St) (n : Nat) (i : Int) (s : St) : Except Err St :=
  forRangeAux (fun _ => false) (fun k s => body (set s k)) n i s

/-! ### `for e in range(sp_cur, sp_next): … non_empties += 1` -/

theorem count_rw (idx : List Nat) :
    ∀ (n e acc r : Nat) (s : St), s.p1 = ints idx → s.v8 = (acc : Int) → countNonEmpty idx n e acc = .ok r →
      ∃ a' b', forRangeAux (fun _ => false) (fun k s => _apply_spans_concat_2.body_L2 { s with v9 := k }) n (e : Int) s
        = .ok { s with v8 := (r : Int), v9 := lastK n (e : Int) s.v9, v10 := a', v11 := b' } := by
  intro n
  induction n with
  | zero =>
    intro e acc r s _ h8 h
    simp only [countNonEmpty, Except.ok.injEq] at h
    subst h
    exact ⟨s.v10, s.v11, by simp only [forRangeAux, lastK, ← h8]⟩
  | succ n ih =>
    intro e acc r s h1 h8 h
    obtain ⟨q0, q1, q2, q3, q4, q5, q6, q7, q8, q9, q10, w0, w1, w2, w3, d3, w4, w5, w6, w7, w8, w9, w10, w11, w12, w13, w14, w15, w16, w17, w18, w19, b1⟩ := s
    simp only at h1 h8
    subst h1 h8
    simp only [countNonEmpty] at h
    have e3 : ((e : Int) + 1) = ((e + 1 : Nat) : Int) := by omega
    cases ha : idx[e]? with
    | none => simp [getE, ha] at h
    | some a =>
      cases hb : idx[e + 1]? with
      | none => simp [getE, ha, hb] at h
      | some b =>
        simp only [getE, ha, hb] at h
        rw [forRangeAux_succ, e3]
        generalize hL : (fun s' : St => if (fun _ : St => false) s' = true then Except.ok s' else
          forRangeAux (fun _ => false) (fun k s => _apply_spans_concat_2.body_L2 { s with v9 := k }) n
            ((e + 1 : Nat) : Int) s') = L
        simp only [_apply_spans_concat_2.body_L2, e3, idxE_nat, getE_ints _ _ _ ha, getE_ints _ _ _ hb, bindE_ok]
        by_cases hab : b > a
        · have hd : decide ((b : Int) - (a : Int) > 0) = true := decide_eq_true (by omega)
          simp only [hab, if_true] at h
          simp only [hd, if_true, bindE_ok]
          subst hL
          simp only [Bool.false_eq_true, if_false]
          obtain ⟨a', b', hrun⟩ := ih (e + 1) (acc + 1) r
            ⟨q0, ints idx, q2, q3, q4, q5, q6, q7, q8, q9, q10, w0, w1, w2, w3, d3, w4, w5, w6, w7, (acc : Int) + 1, (e : Int),
              (a : Int), (b : Int), w12, w13, w14, w15, w16, w17, w18, w19, b1⟩ rfl (by simp) h
          exact ⟨a', b', by rw [hrun]; simp only [lastK, e3]⟩
        · have hd : decide ((b : Int) - (a : Int) > 0) = false := decide_eq_false (by omega)
          simp only [hab, if_false] at h
          simp only [hd, Bool.false_eq_true, if_false, bindE_ok]
          subst hL
          simp only [Bool.false_eq_true, if_false]
          obtain ⟨a', b', hrun⟩ := ih (e + 1) acc r
            ⟨q0, ints idx, q2, q3, q4, q5, q6, q7, q8, q9, q10, w0, w1, w2, w3, d3, w4, w5, w6, w7, (acc : Int), (e : Int),
              (a : Int), (b : Int), w12, w13, w14, w15, w16, w17, w18, w19, b1⟩ rfl rfl h
          exact ⟨a', b', by rw [hrun]; simp only [lastK, e3]⟩

/-! ### `for i_c in range(a, b): if src_values[i_c] == separator: comma = True elif … == delimiter: quotes = True` -/

theorem natCast_beq (a b : Nat) : ((a : Int) == (b : Int)) = (a == b) := by
  by_cases h : a = b
  · subst h; simp
  · have h1 : ((a : Int) == (b : Int)) = false := by
      rw [beq_eq_false_iff_ne]; omega
    have h2 : (a == b) = false := by
      rw [beq_eq_false_iff_ne]; exact h
    rw [h1, h2]

theorem scan_rw (vals : List Nat) (sep delim : Nat) :
    ∀ (n i : Nat) (c q c' q' : Bool) (s : St), s.p2 = ints vals → s.p7 = (sep : Int) → s.p8 = (delim : Int) → s.v13 = c →
      s.v14 = q → scanFlags vals sep delim n i c q = .ok (c', q') →
      forRangeAux (fun _ => false) (fun k s => _apply_spans_concat_2.body_L3 { s with v15 := k }) n (i : Int) s
        = .ok { s with v13 := c', v14 := q', v15 := lastK n (i : Int) s.v15 } := by
  intro n
  induction n with
  | zero =>
    intro i c q c' q' s _ _ _ h13 h14 h
    simp only [scanFlags, Except.ok.injEq, Prod.mk.injEq] at h
    obtain ⟨rfl, rfl⟩ := h
    subst h13 h14
    rfl
  | succ n ih =>
    intro i c q c' q' s h2 h7 h8 h13 h14 h
    obtain ⟨q0, q1, q2, q3, q4, q5, q6, q7, q8, q9, q10, w0, w1, w2, w3, d3, w4, w5, w6, w7, w8, w9, w10, w11, w12, w13, w14, w15, w16, w17, w18, w19, b1⟩ := s
    simp only at h2 h7 h8 h13 h14
    subst h2 h7 h8 h13 h14
    simp only [scanFlags] at h
    have e3 : ((i : Int) + 1) = ((i + 1 : Nat) : Int) := by omega
    cases hx : vals[i]? with
    | none => simp [getE, hx] at h
    | some x =>
      simp only [getE, hx] at h
      rw [forRangeAux_succ, e3]
      generalize hL : (fun s' : St => if (fun _ : St => false) s' = true then Except.ok s' else
        forRangeAux (fun _ => false) (fun k s => _apply_spans_concat_2.body_L3 { s with v15 := k }) n
          ((i + 1 : Nat) : Int) s') = L
      simp only [_apply_spans_concat_2.body_L3, idxE_nat, getE_ints _ _ _ hx, bindE_ok, natCast_beq]
      by_cases hs : x = sep
      · subst hs
        simp only [if_true] at h
        simp only [beq_self_eq_true, if_true, bindE_ok]
        subst hL
        simp only [Bool.false_eq_true, if_false]
        rw [ih (i + 1) true w14 c' q' _ rfl rfl rfl rfl rfl h]
        simp only [lastK, e3]
      · have hs' : (x == sep) = false := by simp [hs]
        simp only [hs, if_false] at h
        simp only [hs', Bool.false_eq_true, if_false]
        by_cases hd : x = delim
        · subst hd
          simp only [if_true] at h
          simp only [beq_self_eq_true, if_true, bindE_ok]
          subst hL
          simp only [Bool.false_eq_true, if_false]
          rw [ih (i + 1) w13 true c' q' _ rfl rfl rfl rfl rfl h]
          simp only [lastK, e3]
        · have hd' : (x == delim) = false := by simp [hd]
          simp only [hd, if_false] at h
          simp only [hd', Bool.false_eq_true, if_false, bindE_ok]
          subst hL
          simp only [Bool.false_eq_true, if_false]
          rw [ih (i + 1) w13 w14 c' q' _ rfl rfl rfl rfl rfl h]
          simp only [lastK, e3]

/-! ### writes to `dest_values`: `dest_values[d_index_v + delta] = x; delta += 1` -/

theorem take_set_snoc' {α} (xs : List α) (n : Nat) (v : α) (h : n < xs.length) : (xs.set n v).take (n + 1) = xs.take n ++ [v] := by
  rw [List.take_add_one]
  simp [h, List.take_set_of_le]

/-- one `pushV` of the model is one checked store of the kernel at position `len(vb)` -/
theorem push_sim (cap : Nat) (vb vb' : List Nat) (x : Nat) (site site' : String) (p4 : List Int) (hlen : p4.length = cap)
    (htake : p4.take vb.length = ints vb) (h : pushV cap vb x site = .ok vb') :
    setIdxE p4 (vb.length : Int) (x : Int) site' = .ok (p4.set vb.length (x : Int)) ∧
      (p4.set vb.length (x : Int)).length = cap ∧ (p4.set vb.length (x : Int)).take vb'.length = ints vb' ∧
      vb'.length = vb.length + 1 := by
  simp only [pushV] at h
  split at h
  · rename_i hlt
    simp only [Except.ok.injEq] at h
    subst h
    have hlt' : vb.length < p4.length := by omega
    refine ⟨by rw [setIdxE_nat]; simp [setE, hlt'], by simp [hlen], ?_, by simp⟩
    simp only [List.length_append, List.length_singleton]
    rw [take_set_snoc' _ _ _ hlt', htake]
    simp [ints]
  · simp at h

/-! ### `for i_c in range(a, b): if src_values[i_c] == delimiter: emit delimiter; emit src_values[i_c]` -/

theorem copy_rw (vals : List Nat) (delim cap : Nat) :
    ∀ (n i : Nat) (vb vb' : List Nat) (s : St), s.p2 = ints vals → s.p8 = (delim : Int) → s.p4.length = cap →
      s.p4.take vb.length = ints vb → s.v1 + s.v12 = (vb.length : Int) → copyEsc vals delim cap n i vb = .ok vb' →
      ∃ b4, forRangeAux (fun _ => false) (fun k s => _apply_spans_concat_2.body_L4 { s with v15 := k }) n (i : Int) s
          = .ok { s with p4 := b4, v12 := (vb'.length : Int) - s.v1, v15 := lastK n (i : Int) s.v15 } ∧
        b4.length = cap ∧ b4.take vb'.length = ints vb' := by
  intro n
  induction n with
  | zero =>
    intro i vb vb' s _ _ hlen htake hpos h
    simp only [copyEsc, Except.ok.injEq] at h
    subst h
    refine ⟨s.p4, ?_, hlen, htake⟩
    have : (vb.length : Int) - s.v1 = s.v12 := by omega
    simp only [forRangeAux, lastK, this]
  | succ n ih =>
    intro i vb vb' s h2 h8 hlen htake hpos h
    obtain ⟨q0, q1, q2, q3, q4, q5, q6, q7, q8, q9, q10, w0, w1, w2, w3, d3, w4, w5, w6, w7, w8, w9, w10, w11, w12, w13, w14, w15, w16, w17, w18, w19, b1⟩ := s
    simp only at h2 h8 hlen htake hpos
    subst h2 h8
    simp only [copyEsc] at h
    have e3 : ((i : Int) + 1) = ((i + 1 : Nat) : Int) := by omega
    cases hx : vals[i]? with
    | none => simp [getE, hx] at h
    | some x =>
      simp only [getE, hx] at h
      rw [forRangeAux_succ, e3]
      generalize hL : (fun s' : St => if (fun _ : St => false) s' = true then Except.ok s' else
        forRangeAux (fun _ => false) (fun k s => _apply_spans_concat_2.body_L4 { s with v15 := k }) n
          ((i + 1 : Nat) : Int) s') = L
      simp only [_apply_spans_concat_2.body_L4, idxE_nat, getE_ints _ _ _ hx, bindE_ok, natCast_beq, hpos]
      by_cases hd : x = delim
      · subst hd
        simp only [if_true] at h
        cases hp1 : pushV cap vb x "dest_values[esc]" with
        | error e => simp [hp1] at h
        | ok vb1 =>
          simp only [hp1] at h
          cases hp2 : pushV cap vb1 x "dest_values[copy]" with
          | error e => simp [hp2] at h
          | ok vb2 =>
            simp only [hp2] at h
            obtain ⟨hs1, hl1, ht1, hn1⟩ := push_sim cap vb vb1 x _ "p4[v1 + v12]" q4 hlen htake hp1
            obtain ⟨hs2, hl2, ht2, hn2⟩ := push_sim cap vb1 vb2 x _ "p4[v1 + v12]" _ hl1 ht1 hp2
            have hpos1 : w1 + (w12 + 1) = (vb1.length : Int) := by omega
            simp only [beq_self_eq_true, if_true, hs1, bindE_ok, hpos1, idxE_nat, getE_ints _ _ _ hx, hs2]
            subst hL
            simp only [Bool.false_eq_true, if_false]
            obtain ⟨b4, hrun, hbl, hbt⟩ := ih (i + 1) vb2 vb'
              ⟨q0, q1, ints vals, q3, (q4.set vb.length (x : Int)).set vb1.length (x : Int), q5, q6, q7, (x : Int), q9, q10, w0, w1,
                w2, w3, d3, w4, w5, w6, w7, w8, w9, w10, w11, w12 + 1 + 1, w13, w14, (i : Int), w16, w17, w18, w19, b1⟩
              rfl rfl hl2 ht2 (by simp only; omega) h
            exact ⟨b4, by rw [hrun]; simp only [lastK, e3], hbl, hbt⟩
      · have hd' : (x == delim) = false := by rw [beq_eq_false_iff_ne]; exact hd
        simp only [hd, if_false] at h
        cases hp1 : pushV cap vb x "dest_values[copy]" with
        | error e => simp [hp1] at h
        | ok vb1 =>
          simp only [hp1] at h
          obtain ⟨hs1, hl1, ht1, hn1⟩ := push_sim cap vb vb1 x _ "p4[v1 + v12]" q4 hlen htake hp1
          simp only [hd', Bool.false_eq_true, if_false, bindE_ok, hpos, idxE_nat, getE_ints _ _ _ hx, hs1]
          subst hL
          simp only [Bool.false_eq_true, if_false]
          obtain ⟨b4, hrun, hbl, hbt⟩ := ih (i + 1) vb1 vb'
            ⟨q0, q1, ints vals, q3, q4.set vb.length (x : Int), q5, q6, q7, (delim : Int), q9, q10, w0, w1,
              w2, w3, d3, w4, w5, w6, w7, w8, w9, w10, w11, w12 + 1, w13, w14, (i : Int), w16, w17, w18, w19, b1⟩
            rfl rfl hl1 ht1 (by simp only; omega) h
          exact ⟨b4, by rw [hrun]; simp only [lastK, e3], hbl, hbt⟩

/-! ### the quoting block: `if comma or quotes: emit delimiter`, the escaped copy, `if comma or quotes: emit delimiter` -/

/-- the block as it stands (twice) in the kernel, for the row `src_values[lo s : hi s]` (`lo`, `hi`: the two locals that hold
    the bounds — `cur_src_i`, `next_src_i` in the single-entry branch, `src_start`, `src_end` in the multi-entry loop) -/
def emitK (lo hi : St → Int) (s : St) : Except Err St :=
  bindE (if (s.v13 || s.v14) then
      bindE (setIdxE s.p4 (s.v1 + s.v12) s.p8 "p4[v1 + v12]") fun t =>
      .ok { s with p4 := t, v12 := s.v12 + 1 }
    else
      .ok s) fun s =>
  bindE (forRangeE (lo s) (hi s) (fun k s => _apply_spans_concat_2.body_L4 { s with v15 := k }) s) fun s =>
  if (s.v13 || s.v14) then
    bindE (setIdxE s.p4 (s.v1 + s.v12) s.p8 "p4[v1 + v12]") fun t =>
    .ok { s with p4 := t, v12 := s.v12 + 1 }
  else
    .ok s

theorem emit_sim (vals : List Nat) (delim cap : Nat) (a b : Nat) (vb vb' : List Nat) (lo hi : St → Int) (s : St)
    (hlo : ∀ (p4 : List Int) (v12 : Int), lo { s with p4 := p4, v12 := v12 } = (a : Int))
    (hhi : ∀ (p4 : List Int) (v12 : Int), hi { s with p4 := p4, v12 := v12 } = (b : Int))
    (h2 : s.p2 = ints vals) (h8 : s.p8 = (delim : Int)) (hlen : s.p4.length = cap) (htake : s.p4.take vb.length = ints vb)
    (hpos : s.v1 + s.v12 = (vb.length : Int)) (h : emitBody vals delim cap (s.v13 || s.v14) a b vb = .ok vb') :
    ∃ b4 k15, emitK lo hi s = .ok { s with p4 := b4, v12 := (vb'.length : Int) - s.v1, v15 := k15 } ∧
      b4.length = cap ∧ b4.take vb'.length = ints vb' := by
  obtain ⟨q0, q1, q2, q3, q4, q5, q6, q7, q8, q9, q10, w0, w1, w2, w3, d3, w4, w5, w6, w7, w8, w9, w10, w11, w12, w13, w14, w15, w16, w17, w18, w19, b1⟩ := s
  simp only at h2 h8 hlen htake hpos h hlo hhi
  subst h2 h8
  simp only [emitBody] at h
  have hcnt : ((b : Int) - (a : Int)).toNat = b - a := by omega
  by_cases hq : (w13 || w14) = true
  · simp only [hq, if_true] at h
    cases hp1 : pushV cap vb delim "dest_values[open]" with
    | error e => simp [hp1] at h
    | ok vb1 =>
      simp only [hp1] at h
      cases hc : copyEsc vals delim cap (b - a) a vb1 with
      | error e => simp [hc] at h
      | ok vb2 =>
        simp only [hc] at h
        obtain ⟨hs1, hl1, ht1, hn1⟩ := push_sim cap vb vb1 delim _ "p4[v1 + v12]" q4 hlen htake hp1
        obtain ⟨b4, hrun, hbl, hbt⟩ := copy_rw vals delim cap (b - a) a vb1 vb2
          ⟨q0, q1, ints vals, q3, q4.set vb.length (delim : Int), q5, q6, q7, (delim : Int), q9, q10, w0, w1, w2, w3, d3, w4, w5, w6,
            w7, w8, w9, w10, w11, w12 + 1, w13, w14, w15, w16, w17, w18, w19, b1⟩ rfl rfl hl1 ht1 (by simp only; omega) hc
        obtain ⟨hs3, hl3, ht3, hn3⟩ := push_sim cap vb2 vb' delim _ "p4[v1 + v12]" b4 hbl hbt h
        have hpos3 : w1 + ((vb2.length : Int) - w1) = (vb2.length : Int) := by omega
        refine ⟨b4.set vb2.length (delim : Int), lastK (b - a) (a : Int) w15, ?_, hl3, ht3⟩
        simp only [emitK, hq, if_true, hpos, hs1, bindE_ok, forRangeE, hlo, hhi, hcnt, hrun, hpos3, hs3]
        have : (vb2.length : Int) - w1 + 1 = (vb'.length : Int) - w1 := by omega
        rw [this]
  · have hq' : (w13 || w14) = false := by simpa using hq
    simp only [hq', Bool.false_eq_true, if_false] at h
    cases hc : copyEsc vals delim cap (b - a) a vb with
    | error e => simp [hc] at h
    | ok vb2 =>
      simp only [hc, Except.ok.injEq] at h
      subst h
      obtain ⟨b4, hrun, hbl, hbt⟩ := copy_rw vals delim cap (b - a) a vb vb2
        ⟨q0, q1, ints vals, q3, q4, q5, q6, q7, (delim : Int), q9, q10, w0, w1, w2, w3, d3, w4, w5, w6,
          w7, w8, w9, w10, w11, w12, w13, w14, w15, w16, w17, w18, w19, b1⟩ rfl rfl hlen htake hpos hc
      refine ⟨b4, lastK (b - a) (a : Int) w15, ?_, hbl, hbt⟩
      have hlo' := hlo q4 w12
      have hhi' := hhi q4 w12
      simp only [emitK, hq', Bool.false_eq_true, if_false, bindE_ok, forRangeE, hlo', hhi', hcnt, hrun]

theorem body_L6_eq : _apply_spans_concat_2.body_L6 = _apply_spans_concat_2.body_L3 := rfl
theorem body_L7_eq : _apply_spans_concat_2.body_L7 = _apply_spans_concat_2.body_L4 := rfl

/-! ### the `non_empties > 1` branch: `for e in range(sp_cur, sp_next)` with the carried `prev_empty` -/

theorem multi_sim (idx vals : List Nat) (sep delim cap spCur : Nat) :
    ∀ (n e : Nat) (pe : Bool) (vb vb' : List Nat) (s : St), s.p1 = ints idx → s.p2 = ints vals → s.p7 = (sep : Int) →
      s.p8 = (delim : Int) → s.p4.length = cap → s.p4.take vb.length = ints vb → s.v1 + s.v12 = (vb.length : Int) →
      s.v16 = pe → s.v4 = (spCur : Int) → multiLoop idx vals sep delim cap spCur n e pe vb = .ok vb' →
      ∃ b4 k9 c13 c14 k15 c16 k17 k18 c19,
        forRangeAux (fun _ => false) (fun k s => _apply_spans_concat_2.body_L5 { s with v9 := k }) n (e : Int) s
          = .ok { s with p4 := b4, v9 := k9, v12 := (vb'.length : Int) - s.v1, v13 := c13, v14 := c14, v15 := k15, v16 := c16,
                         v17 := k17, v18 := k18, v19 := c19 } ∧
        b4.length = cap ∧ b4.take vb'.length = ints vb' := by
  intro n
  induction n with
  | zero =>
    intro e pe vb vb' s _ _ _ _ hlen htake hpos _ _ h
    simp only [multiLoop, Except.ok.injEq] at h
    subst h
    refine ⟨s.p4, s.v9, s.v13, s.v14, s.v15, s.v16, s.v17, s.v18, s.v19, ?_, hlen, htake⟩
    have : (vb.length : Int) - s.v1 = s.v12 := by omega
    simp only [forRangeAux, this]
  | succ n ih =>
    intro e pe vb vb' s h1 h2 h7 h8 hlen htake hpos h16 h4 h
    obtain ⟨q0, q1, q2, q3, q4, q5, q6, q7, q8, q9, q10, w0, w1, w2, w3, d3, w4, w5, w6, w7, w8, w9, w10, w11, w12, w13, w14, w15, w16, w17, w18, w19, b1⟩ := s
    simp only at h1 h2 h7 h8 hlen htake hpos h16 h4
    subst h1 h2 h7 h8 h16 h4
    simp only [multiLoop] at h
    have e3 : ((e : Int) + 1) = ((e + 1 : Nat) : Int) := by omega
    cases ha : idx[e]? with
    | none => simp [getE, ha] at h
    | some a =>
      cases hb : idx[e + 1]? with
      | none => simp [getE, ha, hb] at h
      | some b =>
        simp only [getE, ha, hb] at h
        cases hsc : scanFlags vals sep delim (b - a) a false false with
        | error er => simp [hsc] at h
        | ok cq =>
          obtain ⟨comma, quotes⟩ := cq
          simp only [hsc] at h
          rw [forRangeAux_succ, e3]
          generalize hL : (fun s' : St => if (fun _ : St => false) s' = true then Except.ok s' else
            forRangeAux (fun _ => false) (fun k s => _apply_spans_concat_2.body_L5 { s with v9 := k }) n
              ((e + 1 : Nat) : Int) s') = L
          have hcnt : ((b : Int) - (a : Int)).toNat = b - a := by omega
          simp only [_apply_spans_concat_2.body_L5, body_L6_eq, body_L7_eq, e3, idxE_nat, getE_ints _ _ _ ha, getE_ints _ _ _ hb,
            bindE_ok, forRangeE, hcnt]
          rw [scan_rw vals sep delim (b - a) a false false comma quotes _ rfl rfl rfl rfl rfl hsc]
          simp only [bindE_ok, natCast_beq]
          -- the separator between two non-empty entries
          have hsepc : ((w16 == false && (b == a) == false) = true ∧ decide ((e : Int) > (spCur : Int)) = true)
              ↔ (!w16 && !(b == a) && decide (e > spCur)) = true := by
            cases w16 <;> cases (b == a) <;> simp
          by_cases hsp : (!w16 && !(b == a) && decide (e > spCur)) = true
          · obtain ⟨hc1, hc2⟩ := hsepc.mpr hsp
            simp only [hsp, if_true] at h
            cases hp : pushV cap vb sep "dest_values[sep]" with
            | error er => simp [hp] at h
            | ok vb1 =>
              simp only [hp] at h
              obtain ⟨hs1, hl1, ht1, hn1⟩ := push_sim cap vb vb1 sep _ "p4[v1 + v12]" q4 hlen htake hp
              simp only [hc1, hc2, if_true, hpos, hs1, bindE_ok]
              cases hem : emitBody vals delim cap (comma || quotes) a b vb1 with
              | error er => simp [hem] at h
              | ok vb2 =>
                simp only [hem] at h
                obtain ⟨b4, k15, hE, hbl, hbt⟩ := emit_sim vals delim cap a b vb1 vb2 (fun s => s.v17) (fun s => s.v18)
                  ⟨q0, ints idx, ints vals, q3, q4.set vb.length (sep : Int), q5, q6, (sep : Int), (delim : Int), q9, q10, w0, w1, w2, w3,
                  d3, (spCur : Int), w5, w6, w7, w8, (e : Int), w10, w11, w12 + 1, comma, quotes, lastK (b - a) (a : Int) w15,
                  (if ((b == a) == false) = true then (b == a) else w16), (a : Int), (b : Int), (b == a), b1⟩
                  (fun _ _ => rfl) (fun _ _ => rfl) rfl rfl hl1 ht1 (by simp only; omega) hem
                obtain ⟨b4', k9, c13, c14, k15', c16, k17, k18, c19, hrun, hbl', hbt'⟩ := ih (e + 1)
                  (if (b == a) then w16 else false) vb2 vb'
                  ⟨q0, ints idx, ints vals, q3, b4, q5, q6, (sep : Int), (delim : Int), q9, q10, w0, w1, w2, w3,
                  d3, (spCur : Int), w5, w6, w7, w8, (e : Int), w10, w11, (vb2.length : Int) - w1, comma, quotes, k15,
                  (if ((b == a) == false) = true then (b == a) else w16), (a : Int), (b : Int), (b == a), b1⟩
                  rfl rfl rfl rfl hbl hbt (by simp only; omega) (by cases (b == a) <;> simp) rfl h
                refine ⟨b4', k9, c13, c14, k15', c16, k17, k18, c19, ?_, hbl', hbt'⟩
                change bindE (emitK (fun s => s.v17) (fun s => s.v18)
                  ⟨q0, ints idx, ints vals, q3, q4.set vb.length (sep : Int), q5, q6, (sep : Int), (delim : Int), q9, q10, w0, w1, w2, w3,
                  d3, (spCur : Int), w5, w6, w7, w8, (e : Int), w10, w11, w12 + 1, comma, quotes, lastK (b - a) (a : Int) w15,
                  (if ((b == a) == false) = true then (b == a) else w16), (a : Int), (b : Int), (b == a), b1⟩) L = _
                rw [hE]
                simp only [bindE_ok]
                subst hL
                simp only [Bool.false_eq_true, if_false]
                rw [hrun]
          · have hsp' : (!w16 && !(b == a) && decide (e > spCur)) = false := by simpa using hsp
            simp only [hsp', Bool.false_eq_true, if_false] at h
            have hnot : ¬ ((w16 == false && (b == a) == false) = true ∧ decide ((e : Int) > (spCur : Int)) = true) :=
              fun hc => hsp (hsepc.mp hc)
            cases hem : emitBody vals delim cap (comma || quotes) a b vb with
            | error er => simp [hem] at h
            | ok vb2 =>
              simp only [hem] at h
              by_cases hc1 : (w16 == false && (b == a) == false) = true
              · have hc2 : ¬ decide ((e : Int) > (spCur : Int)) = true := fun hc2 => hnot ⟨hc1, hc2⟩
                simp only [hc1, if_true, hc2, if_false, bindE_ok]
                obtain ⟨b4, k15, hE, hbl, hbt⟩ := emit_sim vals delim cap a b vb vb2 (fun s => s.v17) (fun s => s.v18)
                  ⟨q0, ints idx, ints vals, q3, q4, q5, q6, (sep : Int), (delim : Int), q9, q10, w0, w1, w2, w3,
                  d3, (spCur : Int), w5, w6, w7, w8, (e : Int), w10, w11, w12, comma, quotes, lastK (b - a) (a : Int) w15,
                  (if ((b == a) == false) = true then (b == a) else w16), (a : Int), (b : Int), (b == a), b1⟩
                  (fun _ _ => rfl) (fun _ _ => rfl) rfl rfl hlen htake hpos hem
                obtain ⟨b4', k9, c13, c14, k15', c16, k17, k18, c19, hrun, hbl', hbt'⟩ := ih (e + 1)
                  (if (b == a) then w16 else false) vb2 vb'
                  ⟨q0, ints idx, ints vals, q3, b4, q5, q6, (sep : Int), (delim : Int), q9, q10, w0, w1, w2, w3,
                  d3, (spCur : Int), w5, w6, w7, w8, (e : Int), w10, w11, (vb2.length : Int) - w1, comma, quotes, k15,
                  (if ((b == a) == false) = true then (b == a) else w16), (a : Int), (b : Int), (b == a), b1⟩
                  rfl rfl rfl rfl hbl hbt (by simp only; omega) (by cases (b == a) <;> simp) rfl h
                refine ⟨b4', k9, c13, c14, k15', c16, k17, k18, c19, ?_, hbl', hbt'⟩
                change bindE (emitK (fun s => s.v17) (fun s => s.v18)
                  ⟨q0, ints idx, ints vals, q3, q4, q5, q6, (sep : Int), (delim : Int), q9, q10, w0, w1, w2, w3,
                  d3, (spCur : Int), w5, w6, w7, w8, (e : Int), w10, w11, w12, comma, quotes, lastK (b - a) (a : Int) w15,
                  (if ((b == a) == false) = true then (b == a) else w16), (a : Int), (b : Int), (b == a), b1⟩) L = _
                rw [hE]
                simp only [bindE_ok]
                subst hL
                simp only [Bool.false_eq_true, if_false]
                rw [hrun]
              · simp only [hc1, if_false, bindE_ok]
                obtain ⟨b4, k15, hE, hbl, hbt⟩ := emit_sim vals delim cap a b vb vb2 (fun s => s.v17) (fun s => s.v18)
                  ⟨q0, ints idx, ints vals, q3, q4, q5, q6, (sep : Int), (delim : Int), q9, q10, w0, w1, w2, w3,
                  d3, (spCur : Int), w5, w6, w7, w8, (e : Int), w10, w11, w12, comma, quotes, lastK (b - a) (a : Int) w15,
                  (if ((b == a) == false) = true then (b == a) else w16), (a : Int), (b : Int), (b == a), b1⟩
                  (fun _ _ => rfl) (fun _ _ => rfl) rfl rfl hlen htake hpos hem
                obtain ⟨b4', k9, c13, c14, k15', c16, k17, k18, c19, hrun, hbl', hbt'⟩ := ih (e + 1)
                  (if (b == a) then w16 else false) vb2 vb'
                  ⟨q0, ints idx, ints vals, q3, b4, q5, q6, (sep : Int), (delim : Int), q9, q10, w0, w1, w2, w3,
                  d3, (spCur : Int), w5, w6, w7, w8, (e : Int), w10, w11, (vb2.length : Int) - w1, comma, quotes, k15,
                  (if ((b == a) == false) = true then (b == a) else w16), (a : Int), (b : Int), (b == a), b1⟩
                  rfl rfl rfl rfl hbl hbt (by simp only; omega) (by cases (b == a) <;> simp) rfl h
                refine ⟨b4', k9, c13, c14, k15', c16, k17, k18, c19, ?_, hbl', hbt'⟩
                change bindE (emitK (fun s => s.v17) (fun s => s.v18)
                  ⟨q0, ints idx, ints vals, q3, q4, q5, q6, (sep : Int), (delim : Int), q9, q10, w0, w1, w2, w3,
                  d3, (spCur : Int), w5, w6, w7, w8, (e : Int), w10, w11, w12, comma, quotes, lastK (b - a) (a : Int) w15,
                  (if ((b == a) == false) = true then (b == a) else w16), (a : Int), (b : Int), (b == a), b1⟩) L = _
                rw [hE]
                simp only [bindE_ok]
                subst hL
                simp only [Bool.false_eq_true, if_false]
                rw [hrun]

/-! ### one span: `body_L1` against `oneSpan` -/

theorem bindE_ex {α β} {X : Except Err α} {K : α → Except Err β} {Q : β → Prop} (P : α → Prop)
    (h1 : ∃ a, X = .ok a ∧ P a) (h2 : ∀ a, P a → ∃ b, K a = .ok b ∧ Q b) : ∃ b, bindE X K = .ok b ∧ Q b := by
  obtain ⟨a, ha, hP⟩ := h1
  rw [ha]
  exact h2 a hP

/-- the kernel's buffers and positions against the model's written prefixes -/
structure ORel (P : Params Nat) (s : St) (st : Buf Nat) : Prop where
  h0 : s.p0 = ints P.spans
  h1 : s.p1 = ints P.idx
  h2 : s.p2 = ints P.vals
  h5 : s.p5 = (P.maxI : Int)
  h6 : s.p6 = (P.maxV : Int)
  h7 : s.p7 = (P.sep : Int)
  h8 : s.p8 = (P.delim : Int)
  h10 : s.p10 = (P.destStartV : Int)
  hI : s.p3.length = P.capI
  hIt : s.p3.take st.ib.length = ints st.ib
  hv0 : s.v0 = (st.ib.length : Int)
  hV : s.p4.length = P.capV
  hVt : s.p4.take st.vb.length = ints st.vb
  hv1 : s.v1 = (st.vb.length : Int)

theorem step_sim (P : Params Nat) (sp : Nat) (s : St) (st st' : Buf Nat) (hR : ORel P s st) (hb : s.brk1 = false)
    (h : oneSpan P sp st = .ok st') :
    ∃ s', _apply_spans_concat_2.body_L1 { s with v3 := (sp : Int), v3_def := true } = .ok s' ∧
      (ORel P s' st' ∧ s'.v3 = (sp : Int) ∧ s'.v3_def = true ∧
        s'.brk1 = (decide (st'.ib.length ≥ P.maxI) || decide (st'.vb.length ≥ P.maxV))) := by
  obtain ⟨q0, q1, q2, q3, q4, q5, q6, q7, q8, q9, q10, w0, w1, w2, w3, d3, w4, w5, w6, w7, w8, w9, w10, w11, w12, w13, w14, w15, w16, w17, w18, w19, b1⟩ := s
  obtain ⟨ib, vb⟩ := st
  obtain ⟨h0, h1, h2, h5, h6, h7, h8, h10, hI, hIt, hv0, hV, hVt, hv1⟩ := hR
  simp only at h0 h1 h2 h5 h6 h7 h8 h10 hI hIt hv0 hV hVt hv1 hb
  subst h0 h1 h2 h5 h6 h7 h8 h10 hv0 hv1 hb
  simp only [oneSpan] at h
  have e3 : ((sp : Int) + 1) = ((sp + 1 : Nat) : Int) := by omega
  cases hg1 : P.spans[sp]? with
  | none => simp [getE, hg1] at h
  | some spCur =>
    cases hg2 : P.spans[sp + 1]? with
    | none => simp [getE, hg1, hg2] at h
    | some spNext =>
      simp only [getE, hg1, hg2] at h
      cases hg3 : P.idx[spCur]? with
      | none => simp [hg3] at h
      | some curI =>
        cases hg4 : P.idx[spNext]? with
        | none => simp [hg3, hg4] at h
        | some nextI =>
          simp only [hg3, hg4] at h
          cases hne : spanNonEmpties P spCur spNext curI nextI with
          | error er => simp [hne] at h
          | ok ne =>
            simp only [hne] at h
            cases hem : spanEmit P spCur spNext curI nextI ne vb with
            | error er => simp [hem] at h
            | ok vb' =>
              simp only [hem] at h
              split at h
              · rename_i hcapI
                simp only [Except.ok.injEq] at h
                subst h
                unfold _apply_spans_concat_2.body_L1
                simp only [e3, idxE_nat, getE_ints _ _ _ hg1, getE_ints _ _ _ hg2, getE_ints _ _ _ hg3, getE_ints _ _ _ hg4, bindE_ok]
                -- block 1: `non_empties`
                apply bindE_ex (fun S1 => ∃ k9 k10 k11, S1 = (⟨ints P.spans, ints P.idx, ints P.vals, q3, q4, (P.maxI : Int), (P.maxV : Int), (P.sep : Int), (P.delim : Int), q9, (P.destStartV : Int), (ib.length : Int), (vb.length : Int), w2, (sp : Int), true, (spCur : Int), (spNext : Int), (curI : Int), (nextI : Int), (ne : Int), k9, k10, k11, w12, w13, w14, w15, w16, w17, w18, w19, false⟩ : St))
                · simp only [spanNonEmpties] at hne
                  by_cases hc1 : spNext = spCur + 1
                  · have hd1 : (((spNext : Int) - (spCur : Int)) == 1) = true := by rw [beq_iff_eq]; omega
                    simp only [hc1, if_true, Except.ok.injEq] at hne
                    by_cases hc2 : nextI > curI
                    · have hd2 : decide ((nextI : Int) - (curI : Int) > 0) = true := decide_eq_true (by omega)
                      simp only [hc2, if_true] at hne
                      subst hne
                      simp only [hd1, hd2, if_true]
                      exact ⟨_, rfl, w9, w10, w11, rfl⟩
                    · have hd2 : decide ((nextI : Int) - (curI : Int) > 0) = false := decide_eq_false (by omega)
                      simp only [hc2, if_false] at hne
                      subst hne
                      simp only [hd1, hd2, if_true, Bool.false_eq_true, if_false]
                      exact ⟨_, rfl, w9, w10, w11, rfl⟩
                  · have hd1 : (((spNext : Int) - (spCur : Int)) == 1) = false := by rw [beq_eq_false_iff_ne]; omega
                    simp only [hc1, if_false] at hne
                    by_cases hc3 : spNext > spCur + 1
                    · have hd3 : decide ((spNext : Int) - (spCur : Int) > 1) = true := decide_eq_true (by omega)
                      simp only [hc3, if_true] at hne
                      have hcnt : ((spNext : Int) - (spCur : Int)).toNat = spNext - spCur := by omega
                      have hv8 : ((0 : Int)) = ((0 : Nat) : Int) := rfl
                      have hcr := count_rw P.idx (spNext - spCur) spCur 0 ne
                      have hcr2 := hcr (⟨ints P.spans, ints P.idx, ints P.vals, q3, q4, (P.maxI : Int), (P.maxV : Int), (P.sep : Int), (P.delim : Int), q9, (P.destStartV : Int), (ib.length : Int), (vb.length : Int), w2, (sp : Int), true, (spCur : Int), (spNext : Int), (curI : Int), (nextI : Int), 0, w9, w10, w11, w12, w13, w14, w15, w16, w17, w18, w19, false⟩ : St)
                      have hcr3 := hcr2 rfl
                      have hcr4 := hcr3 hv8
                      simp only [hd1, hd3, if_true, Bool.false_eq_true, if_false, forRangeE, hcnt]
                      have h9 := hcr4 hne
                      refine Exists.elim h9 ?_
                      intro a' h10
                      refine Exists.elim h10 ?_
                      intro b' hrun
                      rw [hrun]
                      exact ⟨_, rfl, _, a', b', rfl⟩
                    · have hd3 : decide ((spNext : Int) - (spCur : Int) > 1) = false := decide_eq_false (by omega)
                      simp only [hc3, if_false, Except.ok.injEq] at hne
                      subst hne
                      simp only [hd1, hd3, Bool.false_eq_true, if_false]
                      exact ⟨_, rfl, w9, w10, w11, rfl⟩
                · rintro S1 ⟨k9, k10, k11, rfl⟩
                  simp only []
                  -- block 2: what the span appends to `dest_values`
                  apply bindE_ex (fun S2 => ∃ b4 k9' c13 c14 k15 c16 k17 k18 c19, S2 = (⟨ints P.spans, ints P.idx, ints P.vals, q3, b4, (P.maxI : Int), (P.maxV : Int), (P.sep : Int), (P.delim : Int), q9, (P.destStartV : Int), (ib.length : Int), (vb.length : Int), w2, (sp : Int), true, (spCur : Int), (spNext : Int), (curI : Int), (nextI : Int), (ne : Int), k9', k10, k11, (vb'.length : Int) - (vb.length : Int), c13, c14, k15, c16, k17, k18, c19, false⟩ : St) ∧
                    b4.length = P.capV ∧ b4.take vb'.length = ints vb')
                  · simp only [spanEmit] at hem
                    by_cases hn1 : ne = 1
                    · subst hn1
                      have hdn : (((1 : Nat) : Int) == 1) = true := by decide
                      simp only [if_true] at hem
                      cases hsc : scanFlags P.vals P.sep P.delim (nextI - curI) curI false false with
                      | error er => simp [hsc] at hem
                      | ok cq =>
                        obtain ⟨comma, quotes⟩ := cq
                        simp only [hsc] at hem
                        have hcnt : ((nextI : Int) - (curI : Int)).toNat = nextI - curI := by omega
                        simp only [hdn, if_true, forRangeE, hcnt]
                        rw [scan_rw P.vals P.sep P.delim (nextI - curI) curI false false comma quotes _ rfl rfl rfl rfl rfl hsc]
                        simp only [bindE_ok]
                        have hE := emit_sim P.vals P.delim P.capV curI nextI vb vb' (fun s => s.v6) (fun s => s.v7)
                          (⟨ints P.spans, ints P.idx, ints P.vals, q3, q4, (P.maxI : Int), (P.maxV : Int), (P.sep : Int), (P.delim : Int), q9, (P.destStartV : Int), (ib.length : Int), (vb.length : Int), w2, (sp : Int), true, (spCur : Int), (spNext : Int), (curI : Int), (nextI : Int), ((1 : Nat) : Int), k9, k10, k11, 0, comma, quotes, lastK (nextI - curI) (curI : Int) w15, w16, w17, w18, w19, false⟩ : St)
                          (fun _ _ => rfl) (fun _ _ => rfl) rfl rfl hV hVt (by simp only; omega) hem
                        refine Exists.elim hE ?_
                        intro b4 hE1
                        refine Exists.elim hE1 ?_
                        intro k15 hE2
                        change ∃ a, emitK (fun s => s.v6) (fun s => s.v7)
                          (⟨ints P.spans, ints P.idx, ints P.vals, q3, q4, (P.maxI : Int), (P.maxV : Int), (P.sep : Int), (P.delim : Int), q9, (P.destStartV : Int), (ib.length : Int), (vb.length : Int), w2, (sp : Int), true, (spCur : Int), (spNext : Int), (curI : Int), (nextI : Int), ((1 : Nat) : Int), k9, k10, k11, 0, comma, quotes, lastK (nextI - curI) (curI : Int) w15, w16, w17, w18, w19, false⟩ : St) = Except.ok a ∧ _
                        rw [hE2.1]
                        exact ⟨_, rfl, b4, k9, comma, quotes, k15, w16, w17, w18, w19, rfl, hE2.2.1, hE2.2.2⟩
                    · simp only [hn1, if_false] at hem
                      have hdn : (((ne : Nat) : Int) == 1) = false := by rw [beq_eq_false_iff_ne]; omega
                      by_cases hn2 : ne > 1
                      · simp only [hn2, if_true] at hem
                        have hdn2 : decide (((ne : Nat) : Int) > 1) = true := decide_eq_true (by omega)
                        have hcnt : ((spNext : Int) - (spCur : Int)).toNat = spNext - spCur := by omega
                        simp only [hdn, hdn2, if_true, Bool.false_eq_true, if_false, forRangeE, hcnt]
                        have hM := multi_sim P.idx P.vals P.sep P.delim P.capV spCur (spNext - spCur) spCur true vb vb'
                          (⟨ints P.spans, ints P.idx, ints P.vals, q3, q4, (P.maxI : Int), (P.maxV : Int), (P.sep : Int), (P.delim : Int), q9, (P.destStartV : Int), (ib.length : Int), (vb.length : Int), w2, (sp : Int), true, (spCur : Int), (spNext : Int), (curI : Int), (nextI : Int), (ne : Int), k9, k10, k11, 0, w13, w14, w15, true, w17, w18, w19, false⟩ : St)
                          rfl rfl rfl rfl hV hVt (by simp only; omega) rfl rfl hem
                        refine Exists.elim hM ?_; intro b4 hM
                        refine Exists.elim hM ?_; intro k9' hM
                        refine Exists.elim hM ?_; intro c13 hM
                        refine Exists.elim hM ?_; intro c14 hM
                        refine Exists.elim hM ?_; intro k15 hM
                        refine Exists.elim hM ?_; intro c16 hM
                        refine Exists.elim hM ?_; intro k17 hM
                        refine Exists.elim hM ?_; intro k18 hM
                        refine Exists.elim hM ?_; intro c19 hM
                        rw [hM.1]
                        exact ⟨_, rfl, b4, k9', c13, c14, k15, c16, k17, k18, c19, rfl, hM.2.1, hM.2.2⟩
                      · simp only [hn2, if_false, Except.ok.injEq] at hem
                        subst hem
                        have hdn2 : decide (((ne : Nat) : Int) > 1) = false := decide_eq_false (by omega)
                        simp only [hdn, hdn2, Bool.false_eq_true, if_false]
                        refine ⟨_, rfl, q4, k9, w13, w14, w15, w16, w17, w18, w19, ?_, hV, hVt⟩
                        have : (vb.length : Int) - (vb.length : Int) = 0 := by omega
                        rw [this]
                  · rintro S2 ⟨b4, k9', c13, c14, k15, c16, k17, k18, c19, rfl, hbl, hbt⟩
                    have hpos : (vb.length : Int) + ((vb'.length : Int) - (vb.length : Int)) = (vb'.length : Int) := by omega
                    have hlt3 : ib.length < q3.length := by rw [hI]; exact hcapI
                    have hsum : (vb'.length : Int) + (P.destStartV : Int) = ((vb'.length + P.destStartV : Nat) : Int) := by omega
                    have hv0' : (ib.length : Int) + 1 = ((ib ++ [vb'.length + P.destStartV]).length : Int) := by simp
                    simp only [hpos, setIdxE_nat, setE, hlt3, if_true, bindE_ok, hsum]
                    have hbrk : (decide ((ib.length : Int) + 1 ≥ (P.maxI : Int)) || decide ((vb'.length : Int) ≥ (P.maxV : Int)))
                        = (decide ((ib ++ [vb'.length + P.destStartV]).length ≥ P.maxI) || decide (vb'.length ≥ P.maxV)) := by
                      have e1 : decide ((ib.length : Int) + 1 ≥ (P.maxI : Int)) = decide ((ib ++ [vb'.length + P.destStartV]).length ≥ P.maxI) := by
                        apply decide_eq_decide.mpr; simp only [List.length_append, List.length_singleton]; omega
                      have e2 : decide ((vb'.length : Int) ≥ (P.maxV : Int)) = decide (vb'.length ≥ P.maxV) := by
                        apply decide_eq_decide.mpr; omega
                      rw [e1, e2]
                    have hIt' : (q3.set ib.length ((vb'.length + P.destStartV : Nat) : Int)).take (ib ++ [vb'.length + P.destStartV]).length
                        = ints (ib ++ [vb'.length + P.destStartV]) := by
                      simp only [List.length_append, List.length_singleton]
                      rw [take_set_snoc' _ _ _ hlt3, hIt]
                      simp [ints]
                    by_cases hbk : (decide ((ib.length : Int) + 1 ≥ (P.maxI : Int)) || decide ((vb'.length : Int) ≥ (P.maxV : Int))) = true
                    · simp only [hbk, if_true]
                      refine ⟨_, rfl, ⟨rfl, rfl, rfl, rfl, rfl, rfl, rfl, rfl, by simp [hI], hIt', hv0', hbl, hbt, rfl⟩, rfl, rfl, ?_⟩
                      rw [← hbrk, hbk]
                    · have hbk' : (decide ((ib.length : Int) + 1 ≥ (P.maxI : Int)) || decide ((vb'.length : Int) ≥ (P.maxV : Int))) = false := by
                        simpa using hbk
                      simp only [hbk', Bool.false_eq_true, if_false]
                      refine ⟨_, rfl, ⟨rfl, rfl, rfl, rfl, rfl, rfl, rfl, rfl, by simp [hI], hIt', hv0', hbl, hbt, rfl⟩, rfl, rfl, ?_⟩
                      rw [← hbrk, hbk']
              · simp at h

/-! ### the span loop with its `break`, and the kernel -/

abbrev loop1 (n : Nat) (k : Int) (s : St) : Except Err St :=
  forRangeAux (fun s => s.brk1) (fun k s => _apply_spans_concat_2.body_L1 { s with v3 := k, v3_def := true }) n k s

theorem span_sim (P : Params Nat) :
    ∀ (n sp : Nat) (st : Buf Nat) (s : St) (sp' : Nat) (st' : Buf Nat), ORel P s st → s.brk1 = false →
      spanLoop P n sp st = .ok (sp', st') →
      ∃ s', loop1 n (sp : Int) s = .ok s' ∧ ORel P s' st' ∧
        (0 < n → s'.v3 + 1 = (sp' : Int) ∧ s'.v3_def = true) := by
  intro n
  induction n with
  | zero =>
    intro sp st s sp' st' hR _ h
    simp only [spanLoop, Except.ok.injEq, Prod.mk.injEq] at h
    obtain ⟨_, rfl⟩ := h
    exact ⟨s, rfl, hR, fun h0 => absurd h0 (by omega)⟩
  | succ n ih =>
    intro sp st s sp' st' hR hb h
    simp only [spanLoop] at h
    cases ho : oneSpan P sp st with
    | error e => simp [ho] at h
    | ok st1 =>
      simp only [ho] at h
      have hstep := step_sim P sp s st st1 hR hb ho
      refine Exists.elim hstep ?_
      intro s1 hs1
      have e3 : ((sp : Int) + 1) = ((sp + 1 : Nat) : Int) := by omega
      rw [loop1, forRangeAux_succ, hs1.1, bindE_ok, e3]
      by_cases hbk : (decide (st1.ib.length ≥ P.maxI) || decide (st1.vb.length ≥ P.maxV)) = true
      · simp only [hbk, if_true, Except.ok.injEq, Prod.mk.injEq] at h
        obtain ⟨rfl, rfl⟩ := h
        have hb1 : s1.brk1 = true := by rw [hs1.2.2.2.2, hbk]
        simp only [hb1, if_true]
        exact ⟨s1, rfl, hs1.2.1, fun _ => ⟨by rw [hs1.2.2.1]; omega, hs1.2.2.2.1⟩⟩
      · have hbk' : (decide (st1.ib.length ≥ P.maxI) || decide (st1.vb.length ≥ P.maxV)) = false := by simpa using hbk
        simp only [hbk', Bool.false_eq_true, if_false] at h
        have hb1 : s1.brk1 = false := by rw [hs1.2.2.2.2, hbk']
        simp only [hb1, Bool.false_eq_true, if_false]
        have hrec := ih (sp + 1) st1 s1 sp' st' hs1.2.1 hb1 h
        refine Exists.elim hrec ?_
        intro s' hs'
        refine ⟨s', hs'.1, hs'.2.1, fun _ => ?_⟩
        by_cases hn : 0 < n
        · exact hs'.2.2 hn
        · have hn0 : n = 0 := by omega
          subst hn0
          simp only [spanLoop, Except.ok.injEq, Prod.mk.injEq] at h
          have hs'eq : s' = s1 := by
            have := hs'.1
            simp only [loop1, forRangeAux, Except.ok.injEq] at this
            exact this.symm
          rw [hs'eq, hs1.2.2.1, hs1.2.2.2.1, ← h.1]
          exact ⟨by omega, rfl⟩

end CC

/-- every `.ok` run of the model kernel is a run of the translated `_apply_spans_concat_2` on buffers of the model's capacities (whose
    entry 0 of `dest_index` is the model's `index0` in the first batch): it returns the model's `s + 1` and the two positions, and
    the buffers start with the prefixes the model has written -/
theorem apply_spans_concat_2_ok (P : Params Nat) (spStart : Nat) (bufI bufV : List Int) (hI : bufI.length = P.capI)
    (hV : bufV.length = P.capV) (hI0 : spStart = 0 → bufI[0]? = some (P.index0 : Int)) (sp' : Nat) (buf : Buf Nat)
    (h : kernel P spStart = .ok (sp', buf)) :
    ∃ bI bV, _apply_spans_concat_2.run (ints P.spans) (ints P.idx) (ints P.vals) bufI bufV P.maxI P.maxV P.sep P.delim spStart
        P.destStartV = .ok ((sp' : Int), (buf.ib.length : Int), (buf.vb.length : Int), bI, bV) ∧
      bI.length = P.capI ∧ bI.take buf.ib.length = ints buf.ib ∧ bV.length = P.capV ∧ bV.take buf.vb.length = ints buf.vb := by
  unfold kernel at h
  simp only at h
  split at h
  · rename_i hlt
    have hcnt : (pyLen (ints P.spans) - 1 - (spStart : Int)).toNat = P.spans.length - 1 - spStart := by
      simp only [pyLen, ints_length]; omega
    by_cases h0 : spStart = 0
    · rw [if_pos h0] at h
      have hp9 : ((spStart : Int) == 0) = true := by rw [beq_iff_eq]; omega
      have hb0 := hI0 h0
      have hlen1 : 1 ≤ bufI.length := by
        have := (List.getElem?_eq_some_iff.mp hb0).1; omega
      have hsim := CC.span_sim P (P.spans.length - 1 - spStart) spStart ⟨[P.index0], []⟩
        ⟨ints P.spans, ints P.idx, ints P.vals, bufI, bufV, (P.maxI : Int), (P.maxV : Int), (P.sep : Int), (P.delim : Int),
          (spStart : Int), (P.destStartV : Int), 1, 0, pyLen (ints P.spans) - 1, 0, false, 0, 0, 0, 0, 0, 0, 0, 0, 0, false, false, 0,
          false, 0, 0, false, false⟩ sp' buf
        ⟨rfl, rfl, rfl, rfl, rfl, rfl, rfl, rfl, hI, by
            simp only [List.length_singleton]
            rw [List.take_one]
            cases bufI with
            | nil => simp at hlen1
            | cons x t => simp at hb0; simp [ints, hb0], rfl, hV, by simp [ints], rfl⟩ rfl h
      refine Exists.elim hsim ?_
      intro s' hs'
      have hpos : 0 < P.spans.length - 1 - spStart := by omega
      obtain ⟨hv3, hdef⟩ := hs'.2.2 hpos
      refine ⟨s'.p3, s'.p4, ?_, hs'.2.1.hI, hs'.2.1.hIt, hs'.2.1.hV, hs'.2.1.hVt⟩
      have hrun := hs'.1
      simp only [CC.loop1] at hrun
      unfold _apply_spans_concat_2.run
      simp only [hp9, if_true, bindE_ok, forRangeB, hcnt]
      rw [hrun]
      simp only [bindE_ok, readDefE, hdef, if_true, hv3, hs'.2.1.hv0, hs'.2.1.hv1]
    · simp only [h0, if_false] at h
      have hne : ((spStart : Int) == 0) = false := by rw [beq_eq_false_iff_ne]; omega
      have hsim := CC.span_sim P (P.spans.length - 1 - spStart) spStart ⟨[], []⟩
        ⟨ints P.spans, ints P.idx, ints P.vals, bufI, bufV, (P.maxI : Int), (P.maxV : Int), (P.sep : Int), (P.delim : Int),
          (spStart : Int), (P.destStartV : Int), 0, 0, pyLen (ints P.spans) - 1, 0, false, 0, 0, 0, 0, 0, 0, 0, 0, 0, false, false, 0,
          false, 0, 0, false, false⟩ sp' buf
        ⟨rfl, rfl, rfl, rfl, rfl, rfl, rfl, rfl, hI, by simp [ints], rfl, hV, by simp [ints], rfl⟩ rfl h
      refine Exists.elim hsim ?_
      intro s' hs'
      have hpos : 0 < P.spans.length - 1 - spStart := by omega
      obtain ⟨hv3, hdef⟩ := hs'.2.2 hpos
      refine ⟨s'.p3, s'.p4, ?_, hs'.2.1.hI, hs'.2.1.hIt, hs'.2.1.hV, hs'.2.1.hVt⟩
      have hrun := hs'.1
      simp only [CC.loop1] at hrun
      unfold _apply_spans_concat_2.run
      simp only [hne, Bool.false_eq_true, if_false, bindE_ok, forRangeB, hcnt]
      rw [hrun]
      simp only [bindE_ok, readDefE, hdef, if_true, hv3, hs'.2.1.hv0, hs'.2.1.hv1]
  · simp at h

end Exetera.GenK
