import Exetera.Gen.Kernels
import Exetera.Model.Transforms
import Exetera.Spec.Transforms
import Exetera.Lemmas.GenKernels
import Exetera.Lemmas.GenKernelsSpans
import Exetera.Lemmas.GenKernelsSpansIndex
import Exetera.Lemmas.GenKernelsSpansIdxMinIndexed
import Exetera.Lemmas.GenKernelsCategorical
/-!
  The TRANSLATED `leaky_categorical_transform` (the three loops of `categorical_transform`, plus the free-text branch: a slice of
  `column_vals` assigned to a slice of `freetext_values`) against `Transforms.leakyTransform` — transfer form, for chunks whose row
  offsets never decrease (`NonDecreasingBelow c.rows c.inds`: the model computes the length of a free-text cell in `Nat`, truncated at 0, the code
  in signed arithmetic; the reader's chunks — `Encodes` — always satisfy it: `encodes_nonDecreasingBelow`).
-/
namespace Exetera.GenK

open Exetera Exetera.PyRt Exetera.Transforms Exetera.Gen.Kernels

/-- consecutive offsets never decrease at the rows below `n` (the rows a transform reads; later entries may be stale) -/
def NonDecreasingBelow (n : Nat) (xs : List Nat) : Prop :=
  ∀ j a b, j < n → xs[j]? = some a → xs[j + 1]? = some b → a ≤ b

namespace Leaky

abbrev St := leaky_categorical_transform.St

abbrev loop3 (n : Nat) (k : Int) (s : St) : Except Err St :=
  forRangeAux (fun s => s.brk3) (fun k s => leaky_categorical_transform.body_L3 { s with v9 := k }) n k s

abbrev loop2 (n : Nat) (k : Int) (s : St) : Except Err St :=
  forRangeAux (fun _ => false) (fun k s => leaky_categorical_transform.body_L2 { s with v6 := k }) n k s

abbrev loop1 (n : Nat) (k : Int) (s : St) : Except Err St :=
  forRangeAux (fun s => s.brk1) (fun k s => leaky_categorical_transform.body_L1 { s with v1 := k }) n k s

/-- the byte loop `for j in range(key_len)` against `keyEq` (successful runs) -/
theorem key_sim (vals keys index : List Nat) (i lo P : Nat) (hlo : index[i]? = some lo) :
    ∀ (n j : Nat) (s : St), s.p5 = ints vals → s.p7 = ints keys → s.p8 = ints index → s.v6 = (i : Int) →
      s.v0 + s.v2 = (P : Int) → s.brk3 = false →
      match keyEq vals keys n (P + j) (lo + j) with
      | .ok true => ∃ k' e', loop3 n (j : Int) s = .ok { s with v9 := k', v10 := e' }
      | .ok false => ∃ k' e', loop3 n (j : Int) s = .ok { s with v8 := -1, brk3 := true, v9 := k', v10 := e' }
      | .error _ => True := by
  intro n
  induction n with
  | zero => intro j s _ _ _ _ _ _; exact ⟨s.v9, s.v10, rfl⟩
  | succ n ih =>
    intro j s h3 h5 h6 hv5 hP hb
    obtain ⟨q0, q1, q2, q3, q4, q5, q6, q7, q8, q9, w0, w1, w2, w3, w4, w5, w6, w7, w8, w9, w10, b1, b3⟩ := s
    simp only at h3 h5 h6 hv5 hP hb
    subst h3 h5 h6 hv5 hb
    have e1 : ((P : Int) + (j : Int)) = ((P + j : Nat) : Int) := by omega
    have e2 : ((lo : Int) + (j : Int)) = ((lo + j : Nat) : Int) := by omega
    have e3 : ((j : Int) + 1) = ((j + 1 : Nat) : Int) := by omega
    have ih' := ih (j + 1) ⟨q0, q1, q2, q3, q4, ints vals, q6, ints keys, ints index, q9, w0, w1, w2, w3, w4, w5, (i : Int), w7, w8,
      (j : Int), (lo : Int), b1, false⟩ rfl rfl rfl rfl hP rfl
    simp only [loop3] at ih'
    rw [loop3, forRangeAux_succ, e3]
    generalize hL : (fun s' : St => if s'.brk3 = true then Except.ok s' else
      forRangeAux (fun s => s.brk3) (fun k s => leaky_categorical_transform.body_L3 { s with v9 := k }) n
        ((j + 1 : Nat) : Int) s') = L
    simp only [keyEq, leaky_categorical_transform.body_L3, hP, e1, e2, idxE_nat, getE_ints _ _ _ hlo, bindE_ok]
    cases ha : vals[P + j]? with
    | none => simp [getE, ha]
    | some a =>
      cases hb' : keys[lo + j]? with
      | none => simp [getE, ha, hb']
      | some b =>
        simp only [getE, List.getElem?_map, ha, hb', Option.map_some, bindE_ok, Int.ofNat_eq_natCast]
        by_cases hab : a = b
        · subst hab
          simp only [bne_self_eq_false, Bool.false_eq_true, if_false, bindE_ok]
          subst hL
          simp only [Bool.false_eq_true, if_false, Nat.add_assoc]
          exact ih'
        · have hne : ((a : Int) != (b : Int)) = true := by simp; omega
          have hne' : (a != b) = true := by simp [hab]
          simp only [hne, hne', if_true, bindE_ok]
          subst hL
          exact ⟨(j : Int), (lo : Int), by simp⟩

/-- what the key loop has stored into `freetext_indices[row + 1]` so far (`f` = `freetext_indices[row]`) -/
def applyIdx (idx : List Nat) (row f : Nat) : Option Int → List Nat
  | none => idx
  | some _ => idx.set (row + 1) f

theorem applyIdx_length (idx : List Nat) (row f : Nat) (acc : Option Int) : (applyIdx idx row f acc).length = idx.length := by
  cases acc <;> simp [applyIdx]

theorem applyIdx_get (idx : List Nat) (row f : Nat) (acc : Option Int) (hf : idx[row]? = some f) :
    (applyIdx idx row f acc)[row]? = some f := by
  cases acc with
  | none => exact hf
  | some v =>
    simp only [applyIdx]
    rw [List.getElem?_set_ne (by omega)]
    exact hf

theorem applyIdx_set (idx : List Nat) (row f : Nat) (acc : Option Int) (v : Int) :
    (applyIdx idx row f acc).set (row + 1) f = applyIdx idx row f (some v) := by
  cases acc <;> simp [applyIdx]

/-- the key loop `for i in range(len(cat_index) - 1)` against `scanKeys` (successful runs) -/
theorem scan_sim (bm : ByteMap) (vals : List Nat) (P : Nat) (keyLen : Int) (chunk : List Int) (idx : List Nat) (row f : Nat)
    (hrow : row < chunk.length) (hrow1 : row + 1 < idx.length) (hf : idx[row]? = some f) :
    ∀ (n i : Nat) (acc : Option Int) (s : St), s.p0 = Cat.applyAcc chunk row acc → s.p1 = ints (applyIdx idx row f acc) →
      s.p5 = ints vals → s.p7 = ints bm.keys → s.p8 = ints bm.index → s.p9 = bm.values → s.v0 + s.v2 = (P : Int) →
      s.v1 = (row : Int) → s.v4 = keyLen → s.v5 = acc.isSome → s.brk3 = false →
      match scanKeys bm vals P keyLen n i acc with
      | .ok acc' => ∃ s', loop2 n (i : Int) s = .ok s' ∧ s'.p0 = Cat.applyAcc chunk row acc' ∧
          s'.p1 = ints (applyIdx idx row f acc') ∧ s'.v5 = acc'.isSome ∧ s'.p2 = s.p2 ∧ s'.p3 = s.p3 ∧ s'.p4 = s.p4 ∧
          s'.p5 = s.p5 ∧ s'.p6 = s.p6 ∧ s'.p7 = s.p7 ∧ s'.p8 = s.p8 ∧ s'.p9 = s.p9 ∧ s'.v0 = s.v0 ∧ s'.v1 = s.v1 ∧
          s'.v2 = s.v2 ∧ s'.v3 = s.v3 ∧ s'.v4 = s.v4 ∧ s'.brk1 = s.brk1 ∧ s'.brk3 = false
      | .error _ => True := by
  intro n
  induction n with
  | zero =>
    intro i acc s h0 h1 _ _ _ _ _ _ _ hv5 hb
    exact ⟨s, rfl, h0, h1, hv5, rfl, rfl, rfl, rfl, rfl, rfl, rfl, rfl, rfl, rfl, rfl, rfl, rfl, rfl, hb⟩
  | succ n ih =>
    intro i acc s h0 h1 h5 h7 h8 h9 hP hv1 hv4 hv5 hb
    obtain ⟨q0, q1, q2, q3, q4, q5, q6, q7, q8, q9, w0, w1, w2, w3, w4, w5, w6, w7, w8, w9, w10, b1, b3⟩ := s
    simp only at h0 h1 h5 h7 h8 h9 hP hv1 hv4 hv5 hb
    subst h0 h1 h5 h7 h8 h9 hv1 hv4 hv5 hb
    have e3 : ((i : Int) + 1) = ((i + 1 : Nat) : Int) := by omega
    have er : ((row : Int) + 1) = ((row + 1 : Nat) : Int) := by omega
    rw [loop2, forRangeAux_succ, e3]
    generalize hL : (fun s' : St => if (fun _ : St => false) s' = true then Except.ok s' else
      forRangeAux (fun _ => false) (fun k s => leaky_categorical_transform.body_L2 { s with v6 := k }) n
        ((i + 1 : Nat) : Int) s') = L
    simp only [scanKeys, leaky_categorical_transform.body_L2, e3, idxE_nat]
    cases hhi : bm.index[i + 1]? with
    | none => simp [getE, hhi]
    | some hi =>
      cases hlo : bm.index[i]? with
      | none => simp [getE, hhi, hlo]
      | some lo =>
        simp only [getE, List.getElem?_map, hhi, hlo, Option.map_some, bindE_ok, Int.ofNat_eq_natCast]
        by_cases hk : w4 = (hi : Int) - (lo : Int)
        · have hk' : (w4 != (hi : Int) - (lo : Int)) = false := by simp [hk]
          simp only [hk', Bool.false_eq_true, if_false]
          have hto : (w4 - 0).toNat = w4.toNat := by omega
          simp only [forRangeB, hto]
          have hkey := key_sim vals bm.keys bm.index i lo P hlo w4.toNat 0
            ⟨Cat.applyAcc chunk row acc, ints (applyIdx idx row f acc), q2, q3, q4, ints vals, q6, ints bm.keys, ints bm.index,
              bm.values, w0, (row : Int), w2, w3, w4, acc.isSome, (i : Int), (hi : Int) - (lo : Int), (i : Int), w9, w10, b1,
              false⟩ rfl rfl rfl rfl hP rfl
          have z : ((0 : Nat) : Int) = 0 := rfl
          simp only [loop3, z, Nat.add_zero] at hkey
          cases hke : keyEq vals bm.keys w4.toNat P lo with
          | error e => simp
          | ok r =>
            rw [hke] at hkey
            cases r with
            | false =>
              obtain ⟨k', e', he⟩ := hkey
              have hne : (((-1 : Int)) != -1) = false := by simp
              simp only [he, bindE_ok, hne, Bool.false_eq_true, if_false]
              subst hL
              simp only [Bool.false_eq_true, if_false]
              have := ih (i + 1) acc
                ⟨Cat.applyAcc chunk row acc, ints (applyIdx idx row f acc), q2, q3, q4, ints vals, q6, ints bm.keys, ints bm.index,
                  bm.values, w0, (row : Int), w2, w3, w4, acc.isSome, (i : Int), (hi : Int) - (lo : Int), -1, k', e', b1, false⟩
                rfl rfl rfl rfl rfl rfl hP rfl rfl rfl rfl
              simp only [loop2] at this
              exact this
            | true =>
              obtain ⟨k', e', he⟩ := hkey
              have hne : (((i : Int)) != -1) = true := by simp
              simp only [he, bindE_ok, hne, if_true, idxE_nat, er]
              cases hv : bm.values[i]? with
              | none => simp
              | some v =>
                have hlen : row < (Cat.applyAcc chunk row acc).length := by rw [Cat.applyAcc_length]; exact hrow
                have hlen1 : row + 1 < (ints (applyIdx idx row f acc)).length := by
                  rw [ints_length, applyIdx_length]; exact hrow1
                have hget : getE (ints (applyIdx idx row f acc)) row "p1[v1]" = .ok (f : Int) :=
                  getE_ints _ _ _ (applyIdx_get idx row f acc hf)
                have hset : (ints (applyIdx idx row f acc)).set (row + 1) (f : Int) = ints (applyIdx idx row f (some v)) := by
                  rw [← applyIdx_set idx row f acc v]; simp [ints, List.map_set]
                simp only [getE, hv, bindE_ok, setIdxE_nat, setE, hlen, hlen1, if_true, Cat.applyAcc_set] at hget ⊢
                simp only [hget, bindE_ok, hset]
                subst hL
                simp only [Bool.false_eq_true, if_false]
                have := ih (i + 1) (some v)
                  ⟨Cat.applyAcc chunk row (some v), ints (applyIdx idx row f (some v)), q2, q3, q4, ints vals, q6, ints bm.keys,
                    ints bm.index, bm.values, w0, (row : Int), w2, w3, w4, true, (i : Int), (hi : Int) - (lo : Int), (i : Int), k',
                    e', b1, false⟩ rfl rfl rfl rfl rfl rfl hP rfl rfl rfl rfl
                simp only [loop2] at this
                exact this
        · have hk' : (w4 != (hi : Int) - (lo : Int)) = true := by simp [hk]
          simp only [hk', if_true, bindE_ok]
          subst hL
          simp only [Bool.false_eq_true, if_false]
          have := ih (i + 1) acc
            ⟨Cat.applyAcc chunk row acc, ints (applyIdx idx row f acc), q2, q3, q4, ints vals, q6, ints bm.keys, ints bm.index,
              bm.values, w0, (row : Int), w2, w3, w4, acc.isSome, (i : Int), (hi : Int) - (lo : Int), w8, w9, w10, b1, false⟩
            rfl rfl rfl rfl rfl rfl hP rfl rfl rfl rfl
          simp only [loop2] at this
          exact this

/-- `dest[f : f + len src] = src` with the slice inside `dest`: numpy's rule (`setSliceE`) and the model's `sliceAssign` agree -/
theorem setSliceE_exact {α} (dest src : List α) (f : Nat) (h : f + src.length ≤ dest.length) :
    PyRt.setSliceE dest (some (f : Int)) (some ((f + src.length : Nat) : Int)) src
      = .ok (dest.take f ++ src ++ dest.drop (f + src.length)) := by
  have h1 : ¬ ((f : Int) < 0) := by omega
  have h2 : ¬ (((f + src.length : Nat) : Int) < 0) := by omega
  simp only [PyRt.setSliceE, normBound, h1, h2, if_false, Int.toNat_natCast]
  have ha : min f dest.length = f := by omega
  have hb : max f (min (f + src.length) dest.length) = f + src.length := by omega
  rw [ha, hb]
  have hc : f + src.length - f = src.length := by omega
  simp [broadcastTo, hc]

theorem ints_append (a b : List Nat) : ints (a ++ b) = ints a ++ ints b := by simp [ints]
theorem ints_take (a : List Nat) (n : Nat) : ints (a.take n) = (ints a).take n := by simp [ints, List.map_take]
theorem ints_drop (a : List Nat) (n : Nat) : ints (a.drop n) = (ints a).drop n := by simp [ints, List.map_drop]
theorem ints_set (a : List Nat) (n v : Nat) : ints (a.set n v) = (ints a).set n (v : Int) := by simp [ints, List.map_set]
theorem slice_ints' (xs : List Nat) (a b : Nat) : slice (ints xs) a b = ints (slice xs a b) := by
  simp [slice, ints, List.map_take, List.map_drop]

/-- the row loop with its `break` against `leakyRows` (successful runs; row offsets that never decrease) -/
theorem rows_sim (bm : ByteMap) (c : Chunk) (cinds : List (List Int)) (hinds : cinds[c.col]? = some (ints c.inds))
    (N : Nat) (hmono : NonDecreasingBelow N c.inds) :
    ∀ (n i : Nat) (st : LeakyBuf) (s : St), st.chunk.length ≤ N → s.p0 = st.chunk → s.p1 = ints st.ftIdx → s.p2 = ints st.ftVals →
      s.p3 = (c.col : Int) → s.p4 = cinds → s.p5 = ints c.vals → s.p7 = ints bm.keys → s.p8 = ints bm.index → s.p9 = bm.values →
      s.v0 = (c.off : Int) → s.brk1 = false → s.brk3 = false → st.ftIdx.length = st.chunk.length + 1 →
      match leakyRows bm c n i st with
      | .ok st' => ∃ s', loop1 n (i : Int) s = .ok s' ∧ s'.p0 = st'.chunk ∧ s'.p1 = ints st'.ftIdx ∧ s'.p2 = ints st'.ftVals
      | .error _ => True := by
  intro n
  induction n with
  | zero => intro i st s _ h0 h1 h2 _ _ _ _ _ _ _ _ _ _; exact ⟨s, rfl, h0, h1, h2⟩
  | succ n ih =>
    intro i st s hN h0 h1 h2 h3 h4 h5 h7 h8 h9 hv0 hb1 hb3 hlen
    obtain ⟨q0, q1, q2, q3, q4, q5, q6, q7, q8, q9, w0, w1, w2, w3, w4, w5, w6, w7, w8, w9, w10, b1, b3⟩ := s
    obtain ⟨chunk, idx, fvals⟩ := st
    simp only at hN h0 h1 h2 h3 h4 h5 h7 h8 h9 hv0 hb1 hb3 hlen
    subst h0 h1 h2 h3 h4 h5 h7 h8 h9 hv0 hb1 hb3
    have e3 : ((i : Int) + 1) = ((i + 1 : Nat) : Int) := by omega
    rw [loop1, forRangeAux_succ, e3]
    generalize hL : (fun s' : St => if (fun s : St => s.brk1) s' = true then Except.ok s' else
      forRangeAux (fun s => s.brk1) (fun k s => leaky_categorical_transform.body_L1 { s with v1 := k }) n
        ((i + 1 : Nat) : Int) s') = L
    simp only [leakyRows, leaky_categorical_transform.body_L1, pyLen]
    by_cases hge : i ≥ q0.length
    · have hge' : q0.length ≤ i := hge
      simp only [ge_iff_le, Int.ofNat_le, hge', decide_true, if_true, bindE_ok]
      subst hL
      simp only [if_true]
      exact ⟨_, rfl, by rfl, by rfl, by rfl⟩
    · have hge' : ¬ q0.length ≤ i := hge
      have hilt : i < q0.length := by omega
      simp only [ge_iff_le, Int.ofNat_le, hge', decide_false, Bool.false_eq_true, if_false, bindE_ok, matchRow, idxE_nat, getE,
        hinds]
      cases hs0 : c.inds[i]? with
      | none => simp
      | some s0 =>
        cases he0 : c.inds[i + 1]? with
        | none => simp
        | some e0 =>
          have hse : s0 ≤ e0 := hmono i s0 e0 (by omega) hs0 he0
          simp only [List.getElem?_map, hs0, e3, idxE_nat, getE, he0, Option.map_some, bindE_ok, Int.ofNat_eq_natCast, forRangeE]
          have hto : ((((ints bm.index).length : Nat) : Int) - 1 - 0).toNat = bm.index.length - 1 := by simp
          rw [hto]
          have hfi : i < idx.length := by omega
          have hf : idx[i]? = some idx[i] := List.getElem?_eq_getElem hfi
          generalize idx[i] = f at hf
          have hsc := scan_sim bm c.vals (c.off + s0) ((e0 : Int) - (s0 : Int)) q0 idx i f hilt (by omega) hf
            (bm.index.length - 1) 0 none
            ⟨q0, ints idx, ints fvals, (c.col : Int), q4, ints c.vals, q6, ints bm.keys, ints bm.index, bm.values, (c.off : Int),
              (i : Int), (s0 : Int), (e0 : Int), (e0 : Int) - (s0 : Int), false, w6, w7, w8, w9, w10, false, false⟩
            rfl rfl rfl rfl rfl rfl (by simp) rfl rfl rfl rfl
          have z : ((0 : Nat) : Int) = 0 := rfl
          simp only [loop2, z] at hsc
          cases hscan : scanKeys bm c.vals (c.off + s0) ((e0 : Int) - (s0 : Int)) (bm.index.length - 1) 0 none with
          | error e => simp
          | ok r =>
            rw [hscan] at hsc
            obtain ⟨s', hrun, hp0, hp1, hv5, hp2, hp3, hp4, hp5, hp6, hp7, hp8, hp9, hv0', hv1', hv2', hv3', hv4', hbk1, hbk3⟩ := hsc
            try simp only at hp2 hp3 hp4 hp5 hp6 hp7 hp8 hp9 hv0' hv1' hv2' hv3' hv4' hbk1
            simp only [hrun, bindE_ok, hf]
            cases r with
            | some v =>
              simp only [Cat.applyAcc, applyIdx, Option.isSome_some] at hp0 hp1 hv5
              have hi1 : i + 1 < idx.length := by omega
              simp only [hv5, Bool.not_true, Bool.false_eq_true, if_false, bindE_ok, setE, hilt, hi1, if_true]
              subst hL
              simp only [bindE_ok, hbk1, Bool.false_eq_true, if_false]
              have := ih (i + 1) ⟨q0.set i v, idx.set (i + 1) f, fvals⟩ s' (by simpa using hN) hp0 hp1 hp2 hp3 hp4 hp5 hp7 hp8 hp9 hv0' hbk1 hbk3
                (by simp; omega)
              simp only [loop1] at this
              exact this
            | none =>
              simp only [Cat.applyAcc, applyIdx, Option.isSome_none] at hp0 hp1 hv5
              have hi1 : i + 1 < idx.length := by omega
              have er : ((i : Int) + 1) = ((i + 1 : Nat) : Int) := by omega
              have hd : (f : Int) + ((e0 : Int) - (s0 : Int)) = ((f + (e0 - s0) : Nat) : Int) := by omega
              simp only [hv5, Bool.not_false, if_true, hp0, hp1, hp2, hp5, hv0', hv1', hv2', hv3', hv4', setIdxE_nat, idxE_nat, er,
                setE, hilt, hi1, ints_length, bindE_ok, getE_ints _ _ _ hf, hd, sliceE]
              by_cases hsl : c.off + e0 ≤ c.vals.length
              · simp only [hsl, if_true]
                have hsrc : (slice c.vals (c.off + s0) (c.off + e0)).length = e0 - s0 := by
                  simp only [slice_length]; omega
                simp only [sliceAssign, hsrc]
                by_cases hfit : f + (e0 - s0) ≤ fvals.length
                · simp only [hfit, if_true]
                  have hget1 : getE ((ints idx).set (i + 1) ((f + (e0 - s0) : Nat) : Int)) i "p1[v1]" = .ok (f : Int) := by
                    rw [← ints_set]
                    exact getE_ints _ _ _ (by rw [List.getElem?_set_ne (by omega)]; exact hf)
                  have hget2 : getE ((ints idx).set (i + 1) ((f + (e0 - s0) : Nat) : Int)) (i + 1) "p1[v1 + 1]"
                      = .ok ((f + (e0 - s0) : Nat) : Int) := by
                    rw [← ints_set]
                    exact getE_ints _ _ _ (by rw [List.getElem?_set_self (by omega)])
                  have e5 : ((c.off : Int) + (s0 : Int)) = ((c.off + s0 : Nat) : Int) := by omega
                  have e6 : ((c.off : Int) + (e0 : Int)) = ((c.off + e0 : Nat) : Int) := by omega
                  simp only [hget1, hget2, bindE_ok, e5, e6, pySlice_nat, slice_ints']
                  have hss := setSliceE_exact (ints fvals) (ints (slice c.vals (c.off + s0) (c.off + e0))) f
                    (by rw [ints_length, ints_length, hsrc]; exact hfit)
                  rw [ints_length, hsrc] at hss
                  simp only [hss, bindE_ok]
                  subst hL
                  simp only [hbk1, Bool.false_eq_true, if_false]
                  have := ih (i + 1) ⟨q0.set i (-1), idx.set (i + 1) (f + (e0 - s0)),
                      fvals.take f ++ slice c.vals (c.off + s0) (c.off + e0) ++ fvals.drop (f + (e0 - s0))⟩
                    { s' with p0 := q0.set i (-1), p1 := (ints idx).set (i + 1) ((f + (e0 - s0) : Nat) : Int),
                              p2 := (ints fvals).take f ++ ints (slice c.vals (c.off + s0) (c.off + e0)) ++
                                (ints fvals).drop (f + (e0 - s0)) }
                    (by simpa using hN) rfl (by simp) (by simp) hp3 hp4 hp5 hp7 hp8 hp9 hv0' hbk1 hbk3
                    (by simp; omega)
                  simp only [loop1, hp5, hv0', hv1', hv2', hv3', hv4', hv5, hbk1] at this
                  exact this
                · simp [hfit]
              · simp [hsl]

end Leaky

/-- every `.ok` run of the model is a run of the translated kernel on the staging arrays that hold the chunk's column, started on
    the zero-filled buffers `LeakyCategoricalImporter.import_part` allocates, ending with the same three buffers -/
theorem leaky_categorical_transform_ok (bm : ByteMap) (c : Chunk) (cinds : List (List Int)) (coffs : List Int)
    (hst : Staged c cinds coffs) (hmono : NonDecreasingBelow c.rows c.inds) (r : LeakyBuf) (h : leakyTransform bm c = .ok r) :
    leaky_categorical_transform.run (List.replicate c.rows 0) (List.replicate (c.rows + 1) 0) (List.replicate c.cap 0)
      (c.col : Int) cinds (ints c.vals) coffs (ints bm.keys) (ints bm.index) bm.values
      = .ok (r.chunk, ints r.ftIdx, ints r.ftVals) := by
  unfold leakyTransform withCol at h
  split at h
  · simp at h
  · split at h
    · simp at h
    · have hrows := Leaky.rows_sim bm c cinds hst.hinds c.rows hmono (c.inds.length - 1) 0
        ⟨List.replicate c.rows 0, List.replicate (c.rows + 1) 0, List.replicate c.cap 0⟩
        ⟨List.replicate c.rows 0, List.replicate (c.rows + 1) 0, List.replicate c.cap 0, (c.col : Int), cinds, ints c.vals, coffs,
          ints bm.keys, ints bm.index, bm.values, (c.off : Int), 0, 0, 0, 0, false, 0, 0, 0, 0, 0, false, false⟩
        (by simp) rfl (by simp [ints]) (by simp [ints]) rfl rfl rfl rfl rfl rfl rfl rfl rfl (by simp)
      rw [h] at hrows
      obtain ⟨s', hrun, hp0, hp1, hp2⟩ := hrows
      have z : ((0 : Nat) : Int) = 0 := rfl
      simp only [Leaky.loop1, z] at hrun
      unfold leaky_categorical_transform.run
      have hto : (pyLen (ints c.inds) - 1 - 0).toNat = c.inds.length - 1 := by simp [pyLen]
      simp only [idxE_nat, getE, hst.hoff, hst.hinds, bindE_ok, forRangeB, hto, hrun, hp0, hp1, hp2]

theorem encFrom_head (c : Chunk) (i s : Nat) (cells : List Bytes) (h : Spec.Transforms.EncFrom c i s cells) :
    c.inds[i]? = some s := by
  cases cells with
  | nil => exact h
  | cons cell rest => exact h.1

theorem encFrom_mono (c : Chunk) : ∀ (cells : List Bytes) (i s : Nat), Spec.Transforms.EncFrom c i s cells →
    ∀ j a b, i ≤ j → j < i + cells.length → c.inds[j]? = some a → c.inds[j + 1]? = some b → a ≤ b
  | [], i, s, _, j, a, b, h1, h2, _, _ => by simp at h2; omega
  | cell :: rest, i, s, h, j, a, b, h1, h2, ha, hb => by
    obtain ⟨hi, _, _, hrest⟩ := h
    by_cases hji : j = i
    · subst hji
      have hn := encFrom_head c (j + 1) (s + cell.length) rest hrest
      rw [hi] at ha
      rw [hn] at hb
      simp only [Option.some.injEq] at ha hb
      omega
    · exact encFrom_mono c rest (i + 1) (s + cell.length) hrest j a b (by omega) (by simp at h2; omega) ha hb

/-- a chunk the reader filled has non-decreasing row offsets at the rows it wrote -/
theorem encodes_nonDecreasingBelow (c : Chunk) (cells : List Bytes) (h : Spec.Transforms.Encodes c cells) :
    NonDecreasingBelow c.rows c.inds := by
  obtain ⟨s0, henc, _⟩ := h.enc
  intro j a b hj ha hb
  exact encFrom_mono c cells 0 s0 henc j a b (by omega) (by rw [← h.rows]; omega) ha hb

end Exetera.GenK
