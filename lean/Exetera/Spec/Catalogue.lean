import Exetera.Model.Catalogue
/-!
  C15 — what "the catalogue is consistent" means, and the abstract catalogue the model refines.

  * `Inv s`      : the in-memory catalogue and the file catalogue of state `s` name the same things and the same objects,
                   at both levels (columns of a frame, frames of a dataset), and the field objects held in `_columns` are
                   valid, open, owned by their frame and wrap exactly the linked object.
  * `absPy`/`absH5` : the abstract catalogue  dataset ↦ frame name ↦ column name ↦ (type, data)  read through the Python
                   objects / read from the file (which is what a reopen sees).
  * `Renamed`    : the abstract effect of `rename`.
-/
namespace Exetera.Catalogue

/-- the part of the invariant that does not mention `_dataframes` (it also holds while `create_dataframe` is filling a new frame) -/
structure InvCore (s : State) : Prop where
  /-- `_columns` of every frame is a dictionary, the link table of every group is a link table -/
  colsNodup : (keys s.cols).Nodup
  linksNodup : (keys s.links).Nodup
  /-- names(_columns) = names(h5 group), for every frame -/
  sameKeys : ∀ k, k ∈ keys s.cols ↔ k ∈ keys s.links
  /-- same objects: the field object stored under a name is valid, open, owned by the frame and wraps the object linked there -/
  sameObj : ∀ k h, (k, h) ∈ s.cols → ∃ hd, s.handles[h]? = some hd ∧ hd.valid = true ∧ hd.closed = false ∧
              hd.owner = some k.1 ∧ hd.home = k.1 ∧ (k, hd.oid) ∈ s.links
  /-- one field object per column, one link per object, objects exist -/
  handleInj : (s.cols.map (·.2)).Nodup
  oidInj : (s.links.map (·.2)).Nodup
  oidLt : ∀ k o, (k, o) ∈ s.links → o < s.objs.length
  /-- the root link table of every file is a link table; one link per group -/
  fileNodup : (keys s.file).Nodup
  frameInj : (s.file.map (·.2)).Nodup
  /-- `frame.name` is the name the frame is registered under; frames know their dataset -/
  frameName : ∀ k g, (k, g) ∈ s.file → s.fname[g]? = some k.2
  frameDs : ∀ k g, (k, g) ∈ s.file → s.fds[g]? = some k.1
  fdsLen : s.fds.length = s.fname.length
  /-- every link (and so every column) belongs to a frame that is registered -/
  linkFrame : ∀ k o, (k, o) ∈ s.links → k.1 ∈ s.file.map (·.2)
  /-- an open field object (the one `_columns` holds, or a writeable view of it) whose group is still linked is valid and
      remembers the frame the group is linked in -/
  handleLink : ∀ (h : Nat) (hd : Handle), s.handles[h]? = some hd → hd.closed = false → ∀ k, (k, hd.oid) ∈ s.links →
                 hd.valid = true ∧ hd.owner = some k.1 ∧ hd.home = k.1
  handleOidLt : ∀ (h : Nat) (hd : Handle), s.handles[h]? = some hd → hd.oid < s.objs.length

structure Inv (s : State) : Prop extends InvCore s where
  /-- dataset level: `_dataframes` = root link table, same names and same frames -/
  dfsNodup : (keys s.dfs).Nodup
  sameFrames : ∀ e, e ∈ s.dfs ↔ e ∈ s.file

/-- a step that keeps the core invariant and does not touch the dataset-level tables keeps the invariant -/
theorem Inv.lift {s s' : State} (hI : Inv s) (hc : InvCore s') (hd : s'.dfs = s.dfs) (hf : s'.file = s.file) : Inv s' :=
  { hc with dfsNodup := hd ▸ hI.dfsNodup, sameFrames := by rw [hd, hf]; exact hI.sameFrames }

/-! ### the abstract catalogue -/

abbrev Frame := Name → Option Content
abbrev Cat := Nat → Name → Option Frame

/-- the catalogue as stored in the file(s): what a fresh reopen reads -/
def absH5 (s : State) : Cat := fun d fn =>
  (look s.file (d, fn)).map fun g => fun n => (look s.links (g, n)).bind fun oid => s.objs[oid]?

/-- the catalogue as reported by the Python objects: `ds.keys()`, `df.keys()`, `df[n]` and its data -/
def absPy (s : State) : Cat := fun d fn =>
  (look s.dfs (d, fn)).map fun g => fun n =>
    (look s.cols (g, n)).bind fun h => (s.handles[h]?).bind fun hd => s.objs[hd.oid]?

/-- the columns of one frame as stored in the file -/
def frameH5 (s : State) (g : Nat) : Frame := fun n => (look s.links (g, n)).bind fun oid => s.objs[oid]?

/-- the renaming function of a `rename` dictionary -/
def renOf (dict : List (Name × Name)) (n : Name) : Name := (lookN dict n).getD n

/-- `F'` is `F` with every column `n` renamed to `renOf dict n`: nothing lost, nothing invented, contents untouched -/
structure Renamed (dict : List (Name × Name)) (F F' : Frame) : Prop where
  fwd : ∀ n c, F n = some c → F' (renOf dict n) = some c
  bwd : ∀ n' c, F' n' = some c → ∃ n, F n = some c ∧ renOf dict n = n'

/-- the pre-check of `rename`, abstractly: every key names a column; destinations are distinct and none is a column that stays -/
structure RenameOk (dict : List (Name × Name)) (cur : List Name) : Prop where
  keysNodup : (dict.map (·.1)).Nodup
  keysPresent : ∀ k ∈ dict.map (·.1), k ∈ cur
  valsNodup : (dict.map (·.2)).Nodup
  noClash : ∀ t ∈ dict.map (·.2), t ∈ cur → t ∈ dict.map (·.1)

/-- where a key goes when frame `g` is renamed by `dict` -/
def renKey (g : Nat) (dict : List (Name × Name)) (k : Key) : Key := if k.1 = g then (g, renOf dict k.2) else k

/-- the state after `rename` took effect: both catalogues of frame `g` re-keyed by the same map, order, field objects and
    link targets untouched -/
def renamedState (s : State) (g : Nat) (dict : List (Name × Name)) : State :=
  { s with links := s.links.map (fun e => (renKey g dict e.1, e.2)),
           cols := setFrameCols s.cols g ((ownedBy s.cols g).map fun e => (renOf dict e.1, e.2)) }

/-- what the client sees of a field object: closed / invalid / its current name / AttributeError for a deleted field -/
inductive HandleView where
  | closed | invalid | named (n : Name) | unlinked | none
  deriving DecidableEq, Repr

def viewHandle (s : State) (h : Nat) : HandleView :=
  match s.handles[h]? with
  | none => .none
  | some hd =>
    if hd.closed then .closed
    else if !hd.valid then .invalid
    else match nameOfVal s.links hd.oid with
      | some n => .named n
      | none => .unlinked

/-! ### all-or-nothing -/

/-- an outcome whose exception, if any, leaves the state `s` alone -/
def ErrKeeps {α} (s : State) (r : Res α) : Prop := ∀ e s', r = .err e s' → s' = s

/-- the field object still wraps a linked field (it is not the left-over of a deleted column) -/
def Linked (s : State) (h : Nat) : Prop := ∀ hd, ensureValid s h = .ok hd → ∃ k, fieldName s h = .ok k

/-- calls on the columns of a dataframe -/
def Op.fieldLevel : Op → Bool
  | .create .. | .setItem .. | .add .. | .delItem .. | .drop .. | .deleteField .. | .rename .. | .copyField .. | .moveField ..
  | .view .. => true
  | _ => false

/-- the field object given to `dataframe.move`, if any, is not the left-over of a deleted column -/
def Op.srcLinked (s : State) : Op → Prop
  | .moveField r _ _ _ => ∀ h, getField s r = .ok h → Linked s h
  | _ => True

/-- the object heap only grows: no existing field object changes its type or data -/
def ObjsExt (s s' : State) : Prop := ∃ extra, s'.objs = s.objs ++ extra

/-! ### the abstract catalogue as a state machine (what every call means, with no h5 groups, dictionaries or objects) -/

def Frame.empty : Frame := fun _ => none
def Cat.empty : Cat := fun _ _ => none

/-- add / replace / remove a whole dataframe -/
def Cat.setFrame (A : Cat) (d : Nat) (fn : Name) (F : Option Frame) : Cat :=
  fun d' fn' => if (d', fn') = (d, fn) then F else A d' fn'

/-- add / replace / remove one column of a dataframe (nothing happens when the dataframe does not exist) -/
def Cat.setCol (A : Cat) (d : Nat) (fn n : Name) (x : Option Content) : Cat :=
  fun d' fn' => if (d', fn') = (d, fn) then (A d fn).map (fun F n' => if n' = n then x else F n') else A d' fn'

/-- the abstract position of a field: dataset, dataframe name, column name -/
structure Src where
  d : Nat
  frame : Name
  col : Name
  deriving DecidableEq, Repr

def Cat.col (A : Cat) (p : Src) : Option Content := (A p.d p.frame).bind (· p.col)

/-- a frame with its columns renamed by `dict` (a passed pre-check `RenameOk` makes this a bijection on the columns):
    `n'` shows the column renamed to it, a name that was renamed away shows nothing, every other name is untouched -/
def renFrame (dict : List (Name × Name)) (F : Frame) : Frame := fun n' =>
  match dict.find? (fun p => p.2 == n') with
  | some p => F p.1
  | none => if n' ∈ dict.map (·.1) then none else F n'

/-- The abstract effect of one call that returns normally. `src` is the position of the field the call was handed
    (`df[c]` looked up now, or wherever the field object the client kept has got to), when the call takes a field. -/
def specStep (src : Option Src) (A : Cat) : Op → Cat
  | .create d fn n c => A.setCol d fn n (some c)
  | .setItem d fn n _ => match src with | some p => A.setCol d fn n (A.col p) | none => A
  | .copyField _ d fn n => match src with | some p => A.setCol d fn n (A.col p) | none => A
  | .add d fn _ => match src with | some p => A.setCol d fn p.col (A.col p) | none => A
  | .delItem d fn n => A.setCol d fn n none
  | .drop d fn n => A.setCol d fn n none
  | .deleteField d fn _ => match src with | some p => A.setCol d fn p.col none | none => A
  | .rename d fn dict => A.setFrame d fn ((A d fn).map (renFrame dict))
  | .moveField _ d fn n =>
    match src with
    | some p =>
      if (p.d, p.frame) = (d, fn) then A.setFrame d fn ((A d fn).map (renFrame [(p.col, n)]))   -- same frame: a rename
      else (A.setCol d fn n (A.col p)).setCol p.d p.frame p.col none                            -- else: copy, then drop
    | none => A
  | .createFrame d fn none => A.setFrame d fn (some Frame.empty)
  | .createFrame d fn (some (sd, sfn)) => A.setFrame d fn (A sd sfn)
  | .requireFrame d fn => if (A d fn).isSome then A else A.setFrame d fn (some Frame.empty)
  | .copyFrame sd sfn d fn => A.setFrame d fn (A sd sfn)
  | .setFrame d fn sd sfn =>
    if sd = d then (A.setFrame d sfn none).setFrame d fn (A d sfn)      -- a frame of this dataset: a rename
    else A.setFrame d fn (A sd sfn)                                     -- a foreign frame: a copy
  | .delFrame d fn => A.setFrame d fn none
  | .dropFrame d fn => A.setFrame d fn none
  | .deleteFrame d _ sfn => A.setFrame d sfn none
  | .moveFrame sd sfn d fn => (A.setFrame d fn (A sd sfn)).setFrame sd sfn none
  | .reopen _ => A
  | .view _ => A            -- a second wrapper object is not a change of the catalogue

/-- one entry of the client's call log: the call, where the field it was handed was at that moment, whether it returned -/
structure Call where
  op : Op
  src : Option Src
  returned : Bool

/-- a call that raises changes nothing -/
def specCall (A : Cat) (c : Call) : Cat := if c.returned then specStep c.src A c.op else A

/-- the abstract catalogue after a call log -/
def specRun (A : Cat) (cs : List Call) : Cat := cs.foldl specCall A

/-! #### reading a call log off the model -/

/-- the key under which value `v` is stored -/
def keyOfVal : Table → Nat → Option Key
  | [], _ => none
  | (k, v') :: t, v => if v' = v then some k else keyOfVal t v

/-- where the h5 object `oid` is linked: dataset, dataframe name, column name -/
def posOfOid (s : State) (oid : Nat) : Option Src :=
  (keyOfVal s.links oid).bind fun gk => (keyOfVal s.file gk.1).map fun dk => ⟨dk.1, dk.2, gk.2⟩

/-- the abstract position a field reference stands for -/
def refPos (s : State) : FRef → Option Src
  | .byName d fn c => some ⟨d, fn, c⟩
  | .byHandle h => (s.handles[h]?).bind fun hd => if hd.closed then none else posOfOid s hd.oid

/-- the field a call is handed, if it takes one -/
def Op.ref : Op → Option FRef
  | .setItem _ _ _ r | .add _ _ r | .deleteField _ _ r | .copyField r _ _ _ | .moveField r _ _ _ => some r
  | _ => none

def srcOf (s : State) (op : Op) : Option Src := op.ref.bind (refPos s)

def callOf (v : Variant) (s : State) (op : Op) : Call := ⟨op, srcOf s op, (step v s op).isOk⟩

/-- the call log of a history -/
def callLog (v : Variant) : State → List Op → List Call
  | _, [] => []
  | s, op :: ops => callOf v s op :: callLog v (step v s op).state ops

/-- the field object a call is handed, if any, is not the left-over of a deleted column (cf. `Op.srcLinked`, which says
    this of `dataframe.move` only) -/
def Op.refsLinked (s : State) (op : Op) : Prop :=
  match op.ref with
  | some r => ∀ h, getField s r = .ok h → Linked s h
  | none => True

/-- … along a whole history -/
def HistLinked (v : Variant) : State → List Op → Prop
  | _, [] => True
  | s, op :: ops => op.refsLinked s ∧ HistLinked v (step v s op).state ops

/-- the places of the abstract catalogue a call may change (everything else keeps its type and data: `specStep_untouched`) -/
def Op.touches (src : Option Src) : Op → Src → Prop
  | .create d fn n _, p => p = ⟨d, fn, n⟩
  | .setItem d fn n _, p => p = ⟨d, fn, n⟩
  | .copyField _ d fn n, p => p = ⟨d, fn, n⟩
  | .add d fn _, p => ∃ q, src = some q ∧ p = ⟨d, fn, q.col⟩
  | .delItem d fn n, p => p = ⟨d, fn, n⟩
  | .drop d fn n, p => p = ⟨d, fn, n⟩
  | .deleteField d fn _, p => ∃ q, src = some q ∧ p = ⟨d, fn, q.col⟩
  | .rename d fn dict, p => p.d = d ∧ p.frame = fn ∧ (p.col ∈ dict.map (·.1) ∨ p.col ∈ dict.map (·.2))
  | .moveField _ d fn n, p => p = ⟨d, fn, n⟩ ∨ src = some p
  | .createFrame d fn _, p => (p.d, p.frame) = (d, fn)
  | .requireFrame d fn, p => (p.d, p.frame) = (d, fn)
  | .copyFrame _ _ d fn, p => (p.d, p.frame) = (d, fn)
  | .setFrame d fn sd sfn, p => (p.d, p.frame) = (d, fn) ∨ (sd = d ∧ (p.d, p.frame) = (d, sfn))
  | .delFrame d fn, p => (p.d, p.frame) = (d, fn)
  | .dropFrame d fn, p => (p.d, p.frame) = (d, fn)
  | .deleteFrame d _ sfn, p => (p.d, p.frame) = (d, sfn)
  | .moveFrame sd sfn d fn, p => (p.d, p.frame) = (d, fn) ∨ (p.d, p.frame) = (sd, sfn)
  | .reopen _, _ => False
  | .view _, _ => False

/-! #### when a call returns: the abstract pre-condition of every call -/

def Cat.hasFrame (A : Cat) (d : Nat) (fn : Name) : Bool := (A d fn).isSome
def Cat.hasCol (A : Cat) (d : Nat) (fn n : Name) : Bool := (A.col ⟨d, fn, n⟩).isSome

/-- the field a call is handed exists (a looked-up name that is a column; a held object whose field is still there) -/
def srcLive (src : Option Src) (A : Cat) : Bool :=
  match src with
  | some p => (A.col p).isSome
  | none => false

/-- the pre-check of `rename`, on an abstract frame (`RenameOk` with "is a column" read off the frame) -/
def renameOkF (dict : List (Name × Name)) (F : Frame) : Bool :=
  decide (dict.map (·.1)).Nodup && dict.all (fun p => (F p.1).isSome) && decide (dict.map (·.2)).Nodup &&
  dict.all (fun p => !(F p.2).isSome || decide (p.2 ∈ dict.map (·.1)))

/-- Exactly when a call returns normally (otherwise it raises and, by `specCall`, changes nothing).
    `writeable()` is left out (`true`): whether it raises depends on the object's `_valid_reference` only. -/
def specOk (src : Option Src) (A : Cat) : Op → Bool
  | .create d fn n _ => A.hasFrame d fn && !A.hasCol d fn n
  | .setItem d fn n _ => srcLive src A && A.hasFrame d fn && !A.hasCol d fn n
  | .copyField _ d fn n => srcLive src A && A.hasFrame d fn && !A.hasCol d fn n
  | .add d fn _ => match src with | some p => srcLive src A && A.hasFrame d fn && !A.hasCol d fn p.col | none => false
  | .delItem d fn n => A.hasCol d fn n
  | .drop d fn n => A.hasCol d fn n
  | .deleteField d fn _ => match src with | some p => srcLive src A && decide ((p.d, p.frame) = (d, fn)) | none => false
  | .rename d fn dict => match A d fn with | some F => renameOkF dict F | none => false
  | .moveField _ d fn n =>
    match src with
    | some p =>
      srcLive src A &&
      (match A d fn with
       | some F => if (p.d, p.frame) = (d, fn) then renameOkF [(p.col, n)] F else !(F n).isSome
       | none => false)
    | none => false
  | .createFrame d fn none => !A.hasFrame d fn
  | .createFrame d fn (some (sd, sfn)) => A.hasFrame sd sfn && !A.hasFrame d fn
  | .requireFrame _ _ => true
  | .copyFrame sd sfn d fn => A.hasFrame sd sfn && !A.hasFrame d fn
  | .setFrame d fn sd sfn => A.hasFrame sd sfn && !A.hasFrame d fn
  | .delFrame d fn => A.hasFrame d fn
  | .dropFrame d fn => A.hasFrame d fn
  | .deleteFrame d sd sfn => A.hasFrame sd sfn && A.hasFrame d sfn
  | .moveFrame sd sfn d fn => A.hasFrame sd sfn && !A.hasFrame d fn
  | .reopen _ => true
  | .view _ => true

def Op.isView : Op → Bool
  | .view _ => true
  | _ => false

/-- THE abstract catalogue machine: a call whose pre-condition holds takes effect, any other call raises and changes nothing.
    All it is told besides the call is where the field object handed in sits (`src`). -/
def specNext (A : Cat) (c : Op × Option Src) : Cat := if specOk c.2 A c.1 then specStep c.2 A c.1 else A

def specExec (A : Cat) (cs : List (Op × Option Src)) : Cat := cs.foldl specNext A

/-- the calls of a history, each with the position of the field object it was handed at that moment -/
def srcLog (v : Variant) : State → List Op → List (Op × Option Src)
  | _, [] => []
  | s, op :: ops => (op, srcOf s op) :: srcLog v (step v s op).state ops

end Exetera.Catalogue
