import Exetera.Lemmas.CatalogueViews
/-! All-or-nothing: under the invariant a call on the columns of a dataframe that raises leaves the state as it was. -/
namespace Exetera.Catalogue

theorem ErrKeeps.void {α} {s : State} {r : Res α} (h : ErrKeeps s r) : ErrKeeps s r.void := by
  intro e s' he
  cases r with
  | ok a s1 => cases he
  | err e1 s1 => simp only [Res.void, Res.err.injEq] at he; have := h e1 s1 rfl; rw [← he.2]; exact this

theorem errKeeps_err {α} (s : State) (e : Err) : ErrKeeps s (Res.err e s : Res α) := by
  intro e' s' h; cases h; rfl

theorem errKeeps_ok {α} (s : State) (a : α) (s1 : State) : ErrKeeps s (Res.ok a s1) := by
  intro e' s' h; cases h

theorem addField_errKeeps (v : Variant) (s : State) (g : Nat) (n : Name) (c : Content) : ErrKeeps s (addField v s g n c) := by
  unfold addField
  split
  · exact errKeeps_err _ _
  split
  · exact errKeeps_err _ _
  · exact errKeeps_ok _ _ _

theorem copyField_errKeeps (v : Variant) (s : State) (h g : Nat) (n : Name) : ErrKeeps s (copyField v s h g n) := by
  unfold copyField
  split
  · exact errKeeps_err _ _
  · exact addField_errKeeps _ _ _ _ _

theorem addCopy_errKeeps (v : Variant) (s : State) (g h : Nat) : ErrKeeps s (addCopy v s g h) := by
  unfold addCopy
  split
  · exact errKeeps_err _ _
  · exact copyField_errKeeps _ _ _ _ _

theorem delItem_errKeeps (s : State) (g : Nat) (n : Name) : ErrKeeps s (delItem s g n) := by
  unfold delItem
  split
  · exact errKeeps_err _ _
  split
  · exact errKeeps_err _ _
  · exact errKeeps_ok _ _ _

theorem deleteField_errKeeps (s : State) (g h : Nat) : ErrKeeps s (deleteField s g h) := by
  unfold deleteField
  split
  · exact errKeeps_err _ _
  split
  · exact errKeeps_err _ _
  split
  · exact errKeeps_err _ _
  · exact delItem_errKeeps _ _ _

theorem dropField_errKeeps {s : State} (hI : InvCore s) (g : Nat) (n : Name) : ErrKeeps s (dropField s g n) := by
  by_cases h : (g, n) ∈ keys s.cols
  · rw [dropField_ok hI h]; exact errKeeps_ok _ _ _
  · unfold dropField; simp only [h, not_false_eq_true, if_true]; exact errKeeps_err _ _

theorem renameFields_errKeeps {s : State} (hI : InvCore s) (g : Nat) (dict : List (Name × Name)) (hkn : (dict.map (·.1)).Nodup) :
    ErrKeeps s (renameFields .repaired s g dict) := by
  by_cases hok : RenameOk dict ((ownedBy s.cols g).map (·.1))
  · rw [renameFields_ok hI g dict hok]; exact errKeeps_ok _ _ _
  · obtain ⟨e, he⟩ := renameFields_fail .repaired s g dict hkn hok
    rw [he]; exact errKeeps_err _ _

theorem moveField_errKeeps {s : State} (hI : InvCore s) (h g : Nat) (n : Name) (hg : g ∈ s.file.map (·.2)) (hz : Linked s h) :
    ErrKeeps s (moveField .repaired s h g n) := by
  unfold moveField
  split
  · exact errKeeps_err _ _
  · next hd hv =>
    obtain ⟨k, hk⟩ := hz hd hv
    split
    · rw [hk]; exact renameFields_errKeeps hI g _ (by simp)
    · next hne =>
      have hck := copyField_errKeeps .repaired s h g n
      cases hc : copyField .repaired s h g n with
      | err e s1 =>
        rw [hc] at hck
        simp only [Res.andThen]
        intro e' s' he
        cases he
        exact hck e s1 rfl
      | ok a s1 =>
        -- after the copy the source is still linked under the same name, so the drop goes through
        have hI1 : InvCore s1 := by have := copyField_inv hI h g n hg; rw [hc] at this; exact this
        obtain ⟨hd0, g0, hh0, ho0, hcol0⟩ := fieldName_ok hI hk
        have hshape : (∀ e, e ∈ s.cols → e ∈ s1.cols) ∧ (∀ e, e ∈ s.links → e ∈ s1.links) ∧
            (∀ (j : Nat) (x : Handle), s.handles[j]? = some x → s1.handles[j]? = some x) := by
          unfold copyField at hc
          split at hc
          · cases hc
          · have := addField_ok_shape hc
            exact ⟨this.2.2.2.2.2.2.1, this.2.2.2.2.2.1, this.2.2.2.2.1⟩
        have hh := (ensureValid_ok hv).1
        rw [hh] at hh0; cases hh0
        have hcol1 := hshape.1 _ hcol0
        obtain ⟨hd1, h11, h12, h13, _, _, h16⟩ := hI1.sameObj _ _ hcol1
        have hfn1 : fieldName s1 h = .ok k := by
          unfold fieldName ensureValid
          simp only [h11, h13, h12, Bool.false_eq_true, if_false, if_true]
          rw [(nameOfVal_eq_some hI1.oidInj).2 ⟨g0, h16⟩]
        simp only [Res.andThen, ho0, hfn1]
        rw [dropField_ok hI1 (mem_keys_of_mem hcol1)]
        exact errKeeps_ok _ _ _

theorem field_ops_errKeeps {s : State} (hI : Inv s) (op : Op) (hf : op.fieldLevel = true) (hz : op.srcLinked s) :
    ErrKeeps s (step .repaired s op) := by
  cases op with
  | create d fn n c =>
    simp only [step, withFrame]; split
    · exact errKeeps_err _ _
    · exact (addField_errKeeps _ _ _ _ _).void
  | setItem d fn n r =>
    simp only [step, withField, withFrame]; split
    · exact errKeeps_err _ _
    · split
      · exact errKeeps_err _ _
      · exact (copyField_errKeeps _ _ _ _ _).void
  | add d fn r =>
    simp only [step, withField, withFrame]; split
    · exact errKeeps_err _ _
    · split
      · exact errKeeps_err _ _
      · exact (addCopy_errKeeps _ _ _ _).void
  | delItem d fn n =>
    simp only [step, withFrame]; split
    · exact errKeeps_err _ _
    · exact delItem_errKeeps _ _ _
  | drop d fn n =>
    simp only [step, withFrame]; split
    · exact errKeeps_err _ _
    · exact dropField_errKeeps hI.toInvCore _ _
  | deleteField d fn r =>
    simp only [step, withField, withFrame]; split
    · exact errKeeps_err _ _
    · split
      · exact errKeeps_err _ _
      · exact deleteField_errKeeps _ _ _
  | rename d fn dict =>
    simp only [step, withFrame]; split
    · exact errKeeps_err _ _
    · next hn =>
      split
      · exact errKeeps_err _ _
      · exact renameFields_errKeeps hI.toInvCore _ dict (Decidable.not_not.1 hn)
  | copyField r d fn n =>
    simp only [step, withField, withFrame]; split
    · exact errKeeps_err _ _
    · split
      · exact errKeeps_err _ _
      · exact (copyField_errKeeps _ _ _ _ _).void
  | moveField r d fn n =>
    simp only [step, withField, withFrame]; split
    · exact errKeeps_err _ _
    · next h hh =>
      split
      · exact errKeeps_err _ _
      · next g hg => exact moveField_errKeeps hI.toInvCore h g n (getFrame_ok hI hg).2 (hz h hh)
  | createFrame d fn src => simp [Op.fieldLevel] at hf
  | requireFrame d fn => simp [Op.fieldLevel] at hf
  | copyFrame a b c d => simp [Op.fieldLevel] at hf
  | setFrame a b c d => simp [Op.fieldLevel] at hf
  | delFrame a b => simp [Op.fieldLevel] at hf
  | dropFrame a b => simp [Op.fieldLevel] at hf
  | deleteFrame a b c => simp [Op.fieldLevel] at hf
  | moveFrame a b c d => simp [Op.fieldLevel] at hf
  | reopen a => simp [Op.fieldLevel] at hf

end Exetera.Catalogue
