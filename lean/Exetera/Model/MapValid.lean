import Exetera.Model.Basic
import Exetera.Model.Join
/-!
  Model of "map a column through a join map" (exetera/core/operations.py), with the fixes D5, D9, D10, D11, D12, NC04a
  applied (fixes/*.patch):

    next_map_subchunk, get_map_subchunks_based_on_index_lengths, get_valid_value_extents,
    ordered_map_valid_partial, ordered_map_valid_stream,
    calculate_chunk_decomposition, ordered_map_valid_indexed_partial, ordered_map_valid_indexed_stream,
    safe_map_values, safe_map_indexed_values, map_valid.

  Conventions
  * map entries, source offsets (`indices` of an indexed string field) and the running destination offset are `Int`,
    exactly the quantities the code subtracts and compares; loop counters (`sm`, `ri`, `rv`, chunk bounds) are `Nat`.
  * element values are an arbitrary type `α` (the kernels only copy them); bytes of indexed strings an arbitrary `β`.
  * `result_data` of the non-indexed stream is a real array (`List α` of length `chunksize`, written with `setE` at
    position `sm`, reused across map chunks). `result_indices`/`result_values` of the indexed stream are written at
    `ri`/`rv` and then `ri`/`rv` are incremented, and the driver flushes `[:ri]`/`[:rv]`: they are modelled as the lists
    of values written so far with a capacity check (same convention as `Model/Join.lean`).
  * Python subscripts with a computed (possibly negative) index go through `getI` (negative indices wrap as in
    Python and in numba); Python slices with computed bounds through `pySlice`.
  * counted loops (`for i in range`, `while sm < sm_end: …; sm += 1`) are `forE`; `for x in list` is `foldE`; loops whose
    progress is not syntactically evident are `whileE` with fuel.
-/
namespace Exetera.MapValid

open Exetera

/-- counted loop: `for i in range(i0, i0 + n): s = body i s` -/
def forE {σ} (body : Nat → σ → Except Err σ) : Nat → Nat → σ → Except Err σ
  | _, 0, s => .ok s
  | i, n + 1, s =>
    match body i s with
    | .ok s' => forE body (i + 1) n s'
    | .error e => .error e

/-- `for x in xs: s = body x s` -/
def foldE {σ γ} (body : γ → σ → Except Err σ) : List γ → σ → Except Err σ
  | [], s => .ok s
  | x :: xs, s =>
    match body x s with
    | .ok s' => foldE body xs s'
    | .error e => .error e

/-- Python / numba subscript `xs[i]` with a computed index: negative indices count from the end -/
def getI {α} (xs : List α) (i : Int) (site : String := "") : Except Err α :=
  if 0 ≤ i then getE xs i.toNat site
  else if (-i).toNat ≤ xs.length then getE xs (xs.length - (-i).toNat) site
  else .error (.oob site)

/-- normalisation of one bound of a Python slice -/
def normIdx (len : Nat) (i : Int) : Nat :=
  if 0 ≤ i then min i.toNat len else len - (-i).toNat

/-- Python slice `xs[a:b]` with computed (possibly negative) bounds -/
def pySlice {α} (xs : List α) (a b : Int) : List α :=
  slice xs (normIdx xs.length a) (normIdx xs.length b)

/-! ### sub-chunks of a map chunk by index span -/

/-- `while sm < len(xs0) and p(xs0[sm]): sm += 1`, `xs` being `xs0[sm:]` -/
def scanWhile (p : Int → Bool) : List Int → Nat → Nat
  | [], sm => sm
  | x :: xs, sm => if p x then scanWhile p xs (sm + 1) else sm

/-- the second loop of `next_map_subchunk` (NC02a fixed: a sub-chunk also ends where a valid entry is smaller than the
    previous valid one), `xs` being `map_[sm:]`:
    `while sm < len(map_) and map_[sm] - start < chunksize:`
    `    if map_[sm] != invalid: (if map_[sm] < prev: break); prev = map_[sm]`
    `    sm += 1` -/
def scanAsc (inv start : Int) (cs : Nat) : Int → List Int → Nat → Nat
  | _, [], sm => sm
  | prev, x :: xs, sm =>
    if x - start < (cs : Int) then
      if x != inv then
        if x < prev then sm else scanAsc inv start cs x xs (sm + 1)
      else scanAsc inv start cs prev xs (sm + 1)
    else sm

/-- `next_map_subchunk(map_, sm, invalid, chunksize)` -/
def nextMapSubchunk (m : List Int) (sm : Nat) (inv : Int) (cs : Nat) : Nat :=
  -- while sm < len(map_) and map_[sm] == invalid: sm += 1
  let sm1 := scanWhile (fun x => x == inv) (m.drop sm) sm
  -- if sm < len(map_): start = map_[sm]   (otherwise the second loop does not run)
  match m[sm1]? with
  | none => sm1
  | some start =>
    -- prev = start; while sm < len(map_) and map_[sm] - start < chunksize: …
    scanAsc inv start cs start (m.drop sm1) sm1

structure SC where
  sm : Nat
  acc : List (Nat × Nat)
  deriving Repr, DecidableEq, Inhabited

def subchunksBody (m : List Int) (inv : Int) (cs : Nat) (s : SC) : Except Err SC :=
  let n := nextMapSubchunk m s.sm inv cs
  .ok ⟨n, s.acc ++ [(s.sm, n)]⟩

/-- `get_map_subchunks_based_on_index_lengths(map_, invalid, chunksize)` (D9 fixed: `invalid` is passed on).
    With `chunksize = 0` the Python loop does not advance; the model then runs out of fuel. -/
def subchunks (m : List Int) (inv : Int) (cs : Nat) : Except Err (List (Nat × Nat)) :=
  match whileE (fun s : SC => decide (s.sm < m.length)) (subchunksBody m inv cs) m.length ⟨0, []⟩ with
  | .ok s => .ok s.acc
  | .error e => .error e

/-! ### get_valid_value_extents -/

/-- `for i in range(i, i+n): if chunk[i] != invalid: first = chunk[i]; break` — returns the break position and value -/
def firstValidFrom (m : List Int) (inv : Int) : Nat → Nat → Except Err (Option (Nat × Int))
  | _, 0 => .ok none
  | i, n + 1 =>
    match m[i]? with
    | none => .error (.oob "chunk[i]")
    | some x => if x != inv then .ok (some (i, x)) else firstValidFrom m inv (i + 1) n

/-- `j = i+n-1; while j >= i: if chunk[j] != invalid: last = chunk[j]; break; j -= 1` -/
def lastValidDown (m : List Int) (inv : Int) (i : Nat) : Nat → Except Err (Option Int)
  | 0 => .ok none
  | n + 1 =>
    match m[i + n]? with
    | none => .error (.oob "chunk[j]")
    | some x => if x != inv then .ok (some x) else lastValidDown m inv i n

/-- `get_valid_value_extents(chunk, start, end, invalid)`; with `end <= start` the Python code reads the unbound `i` -/
def getValidValueExtents (m : List Int) (start end_ : Nat) (inv : Int) : Except Err (Int × Int) :=
  if end_ ≤ start then .error (.other "UnboundLocalError")
  else
    match firstValidFrom m inv start (end_ - start) with
    | .error e => .error e
    | .ok r =>
      let first := match r with | some (_, x) => x | none => inv
      -- `i` is the break position, or `end-1` when the loop ran to completion
      let i := match r with | some (i, _) => i | none => end_ - 1
      match lastValidDown m inv i (end_ - i) with
      | .error e => .error e
      | .ok l => .ok (first, l.getD inv)

/-! ### the non-indexed stream -/

/-- one iteration of `ordered_map_valid_partial` -/
def mapPartialStep {α} (values : List α) (m : List Int) (dStart inv : Int) (empty : α) (sm : Nat) (res : List α) :
    Except Err (List α) :=
  match m[sm]? with
  | none => .error (.oob "map_values[sm]")
  | some k =>
    if k == inv then setE res sm empty "result_data[sm]"
    else
      match getI values (k - dStart) "values[map_values[sm]-d_start]" with
      | .error e => .error e
      | .ok v => setE res sm v "result_data[sm]"

/-- `ordered_map_valid_partial(values, map_values, sm_start, sm_end, d_start, result_data, invalid, invalid_value)` -/
def orderedMapValidPartial {α} (values : List α) (m : List Int) (smStart smEnd : Nat) (dStart : Int) (res : List α)
    (inv : Int) (empty : α) : Except Err (List α) :=
  forE (mapPartialStep values m dStart inv empty) smStart (smEnd - smStart) res

/-- numpy slice assignment of a scalar: `buf[s:e] = v` -/
def fillRange {α} (buf : List α) (s e : Nat) (v : α) : List α :=
  buf.mapIdx (fun i x => if s ≤ i ∧ i < e then v else x)

/-- body of `for sm_start, sm_end in sub_map_chunks` (D10/D12 fixed: only the sub-chunk's slice is cleared, with the
    type's empty value) -/
def subBody {α} (src : List α) (map_ : List Int) (inv : Int) (empty : α) (se : Nat × Nat) (buf : List α) :
    Except Err (List α) :=
  match getValidValueExtents map_ se.1 se.2 inv with
  | .error e => .error e
  | .ok d =>
    if d.1 == inv then .ok (fillRange buf se.1 se.2 empty)
    else orderedMapValidPartial (pySlice src d.1 (d.2 + 1)) map_ se.1 se.2 d.1 buf inv empty

/-- state of the map-chunk loop of `ordered_map_valid_stream` -/
structure St (α : Type) where
  lo : Nat            -- m_chunk[0] = m_off
  hi : Nat            -- m_chunk[1]
  buf : List α        -- result_data (never re-initialised between chunks)
  out : List α        -- result_field.data
  deriving Repr, DecidableEq, Inhabited

def chunkBody {α} (src : List α) (m : List Int) (inv : Int) (cs : Nat) (empty : α) (s : St α) : Except Err (St α) :=
  let map_ := slice m s.lo s.hi
  match subchunks map_ inv cs with
  | .error e => .error e
  | .ok subs =>
    match foldE (subBody src map_ inv empty) subs s.buf with
    | .error e => .error e
    | .ok buf =>
      -- result_field.data.write(result_data[:m_max]); next_untrimmed_chunk
      let rg := Join.nextChunk s.hi m.length cs
      .ok ⟨rg.1, rg.2, buf, s.out ++ buf.take (s.hi - s.lo)⟩

/-- `ordered_map_valid_stream(data_field, map_field, result_field, invalid, chunksize)`; `empty` is the zero / empty
    value of the destination dtype (`np.zeros` initialises the buffer with it and `empty_value` is chosen equal to it) -/
def orderedMapValidStream {α} (src : List α) (m : List Int) (inv : Int) (cs : Nat) (empty : α) : Except Err (List α) :=
  let rg := Join.nextChunk 0 m.length cs
  match whileE (fun s : St α => decide (s.lo < m.length)) (chunkBody src m inv cs empty) m.length
      ⟨rg.1, rg.2, List.replicate cs empty, []⟩ with
  | .ok s => .ok s.out
  | .error e => .error e

/-! ### the indexed-string stream -/

/-- `calculate_chunk_decomposition(s_start, s_end, indices, value_chunk_size, sub_chunks)`: the recursion halves
    `[s, e)`, so `e - s + 1` levels always suffice (`chunkDecompF_fuel`); structural recursion on that depth bound keeps
    the model evaluable by the kernel -/
def chunkDecompF (indices : List Int) (budget : Int) : Nat → Nat → Nat → Except Err (List (Nat × Nat))
  | 0, _, _ => .error .outOfFuel
  | f + 1, s, e =>
    match indices[e]?, indices[s]? with
    | some ie, some is_ =>
      if ie - is_ > budget ∧ e - s > 1 then
        let mid := s + (e - s) / 2
        match chunkDecompF indices budget f s mid with
        | .error er => .error er
        | .ok l1 =>
          match chunkDecompF indices budget f mid e with
          | .error er => .error er
          | .ok l2 => .ok (l1 ++ l2)
      else .ok [(s, e)]
    | _, _ => .error (.oob "indices[s]")

def chunkDecomp (indices : List Int) (budget : Int) (s e : Nat) : Except Err (List (Nat × Nat)) :=
  chunkDecompF indices budget (e - s + 1) s e

/-- `for v in range(v, v+n): result_values[rv] = values[v]; rv += 1` — the bytes read -/
def readRange {β} (values : List β) : Int → Nat → Except Err (List β)
  | _, 0 => .ok []
  | v, n + 1 =>
    match getI values v "values[v]" with
    | .error e => .error e
    | .ok b =>
      match readRange values (v + 1) n with
      | .error e => .error e
      | .ok bs => .ok (b :: bs)

/-- loop state of `ordered_map_valid_indexed_partial` -/
structure IP (β : Type) where
  sm : Nat
  ri : List Int       -- result_indices[:ri]
  rv : List β         -- result_values[:rv]
  accum : Int         -- ri_accum
  need : Bool := false
  brk : Bool := false
  deriving Repr, DecidableEq, Inhabited

/-- parameters of one `ordered_map_valid_indexed_partial` call -/
structure IPar (β : Type) where
  map_ : List Int
  smEnd : Nat
  indices : List Int
  iMax : Nat
  values : List β
  mvStart : Int
  capI : Nat          -- len(result_indices)
  capV : Nat          -- len(result_values)
  inv : Int
  vOffset : Int

def ipGuard {β} (p : IPar β) (s : IP β) : Bool := decide (s.sm < p.smEnd) && !s.brk

def ipBody {β} (p : IPar β) (s : IP β) : Except Err (IP β) :=
  match p.map_[s.sm]? with
  | none => .error (.oob "sm_values[sm]")
  | some k =>
    if k == p.inv then
      if s.ri.length < p.capI then .ok { s with sm := s.sm + 1, ri := s.ri ++ [s.accum] }
      else .error (.oob "result_indices[ri]")
    else
      let i := k - p.mvStart
      if i ≥ (p.iMax : Int) then .ok { s with need := true, brk := true }
      else
        match getI p.indices i "indices[i]", getI p.indices (i + 1) "indices[i+1]" with
        | .ok a, .ok b =>
          let vStart := a - p.vOffset
          let vEnd := b - p.vOffset
          if (s.rv.length : Int) + vEnd - vStart > (p.capV : Int) then .ok { s with brk := true }
          else
            -- the copy loop writes result_values[rv .. rv + (vEnd - vStart)), inside the buffer by the test above
            match readRange p.values vStart (vEnd - vStart).toNat with
            | .error e => .error e
            | .ok bytes =>
              let accum := s.accum + (vEnd - vStart)
              if s.ri.length < p.capI then
                .ok { s with sm := s.sm + 1, ri := s.ri ++ [accum], rv := s.rv ++ bytes, accum := accum }
              else .error (.oob "result_indices[ri]")
        | .error e, _ => .error e
        | _, .error e => .error e

/-- `ordered_map_valid_indexed_partial(sm_values, sm_start, sm_end, indices, i_start, i_max, values, mv_start,
    result_indices, result_values, invalid, sm, ri, rv, ri_accum)` -/
def indexedPartial {β} (map_ : List Int) (smEnd : Nat) (indices : List Int) (iStart iMax : Nat) (values : List β)
    (mvStart : Int) (capI capV : Nat) (inv : Int) (sm : Nat) (ri : List Int) (rv : List β) (accum : Int) :
    Except Err (IP β) :=
  match getE indices iStart "indices[i_start]" with
  | .error e => .error e
  | .ok vOffset =>
    let p : IPar β := ⟨map_, smEnd, indices, iMax, values, mvStart, capI, capV, inv, vOffset⟩
    whileE (ipGuard p) (ipBody p) (smEnd - sm + 1) ⟨sm, ri, rv, accum, false, false⟩

/-- state of the `while sm < sm_end` loop over partial calls inside one sub-chunk of the map -/
structure IW (β : Type) where
  sm : Nat
  s : Nat                 -- index into sub_chunks
  sc : Nat × Nat          -- sub_chunks[s]
  vals : List β           -- values_
  ri : List Int
  rv : List β
  accum : Int
  outI : List Int         -- result_field.indices
  outV : List β           -- result_field.values
  deriving Repr, DecidableEq, Inhabited

/-- `values_ = data_field.values[indices_[sc[0]]:indices_[sc[1]]]` -/
def valueWindow {β} (indices_ : List Int) (values : List β) (sc : Nat × Nat) : Except Err (List β) :=
  match getE indices_ sc.1 "indices_[sc[0]]", getE indices_ sc.2 "indices_[sc[1]]" with
  | .ok a, .ok b => .ok (pySlice values a b)
  | .error e, _ => .error e
  | _, .error e => .error e

def innerBody {β} (map_ : List Int) (smEnd : Nat) (indices_ : List Int) (values : List β) (subs : List (Nat × Nat))
    (mvStart : Int) (capI capV : Nat) (inv : Int) (w : IW β) : Except Err (IW β) :=
  match indexedPartial map_ smEnd indices_ w.sc.1 w.sc.2 w.vals mvStart capI capV inv w.sm w.ri w.rv w.accum with
  | .error e => .error e
  | .ok p =>
    -- D5 fixed: a call that neither consumed a map entry nor asked for the next value sub-chunk cannot make progress
    if p.sm == w.sm && !p.need then .error (.valueError "entry does not fit the value buffer")
    else
      let flushed : IW β := { w with sm := p.sm, ri := [], rv := [], accum := p.accum,
                                     outI := w.outI ++ p.ri, outV := w.outV ++ p.rv }
      if p.need then
        -- s += 1; sc = sub_chunks[s]; values_ = …
        match getE subs (w.s + 1) "sub_chunks[s]" with
        | .error e => .error e
        | .ok sc =>
          match valueWindow indices_ values sc with
          | .error e => .error e
          | .ok vals => .ok { flushed with s := w.s + 1, sc := sc, vals := vals }
      else .ok flushed

/-- what the stream carries from one sub-chunk of the map to the next -/
structure IO (β : Type) where
  accum : Int
  outI : List Int
  outV : List β
  deriving Repr, DecidableEq, Inhabited

/-- body of `for sm_start, sm_end in sub_map_chunks` of the indexed stream (D11 fixed: compares with `invalid`) -/
def indexedSubBody {β} (indices : List Int) (values : List β) (map_ : List Int) (inv : Int) (cs vf : Nat)
    (se : Nat × Nat) (o : IO β) : Except Err (IO β) :=
  match getValidValueExtents map_ se.1 se.2 inv with
  | .error e => .error e
  | .ok lim =>
    if lim.1 == inv then
      -- result_indices.fill(ri_accum); result_field.indices.write(result_indices[:sm_end - sm_start])
      .ok { o with outI := o.outI ++ List.replicate (min (se.2 - se.1) cs) o.accum }
    else
      let indices_ := pySlice indices lim.1 (lim.2 + 2)
      match chunkDecomp indices_ ((cs * vf : Nat) : Int) 0 (lim.2 - lim.1 + 1).toNat with
      | .error e => .error e
      | .ok subs =>
        match getE subs 0 "sub_chunks[0]" with
        | .error e => .error e
        | .ok sc =>
          match valueWindow indices_ values sc with
          | .error e => .error e
          | .ok vals =>
            match whileE (fun w : IW β => decide (w.sm < se.2))
                (innerBody map_ se.2 indices_ values subs lim.1 cs (cs * vf) inv)
                (se.2 - se.1 + subs.length)
                ⟨se.1, 0, sc, vals, [], [], o.accum, o.outI, o.outV⟩ with
            | .error e => .error e
            | .ok w => .ok ⟨w.accum, w.outI, w.outV⟩

/-- state of the map-chunk loop of `ordered_map_valid_indexed_stream` -/
structure ISt (β : Type) where
  lo : Nat
  hi : Nat
  io : IO β
  deriving Repr, DecidableEq, Inhabited

def indexedChunkBody {β} (indices : List Int) (values : List β) (m : List Int) (inv : Int) (cs vf : Nat) (s : ISt β) :
    Except Err (ISt β) :=
  let map_ := slice m s.lo s.hi
  match subchunks map_ inv cs with
  | .error e => .error e
  | .ok subs =>
    match foldE (indexedSubBody indices values map_ inv cs vf) subs s.io with
    | .error e => .error e
    | .ok io =>
      let rg := Join.nextChunk s.hi m.length cs
      .ok ⟨rg.1, rg.2, io⟩

/-- `ordered_map_valid_indexed_stream(data_field, map_field, result_field, invalid, chunksize, value_factor)`:
    returns the destination's `indices` and `values` -/
def orderedMapValidIndexedStream {β} (indices : List Int) (values : List β) (m : List Int) (inv : Int) (cs vf : Nat) :
    Except Err (List Int × List β) :=
  let rg := Join.nextChunk 0 m.length cs
  -- result_field.indices.write(result_indices[:1])
  match whileE (fun s : ISt β => decide (s.lo < m.length)) (indexedChunkBody indices values m inv cs vf) m.length
      ⟨rg.1, rg.2, ⟨0, List.replicate (min 1 cs) 0, []⟩⟩ with
  | .ok s => .ok (s.io.outI, s.io.outV)
  | .error e => .error e

/-- `max(indices[1:] - indices[:-1])` over the whole offsets array (0 for fewer than two offsets; the code finds it in one
    chunked pass, which is the same maximum) -/
def longestEntry (indices : List Int) : Nat :=
  (List.zipWith (fun a b => (b - a).toNat) indices indices.tail).foldl max 0

/-- the `value_factor=None` default of `ordered_map_valid_indexed_stream` (fix NC02c): at least `vf` (= 8 in the source) and
    large enough for the longest entry of the source: `max(vf, ceil(longest / chunksize))` -/
def autoValueFactor (vf : Nat) (indices : List Int) (cs : Nat) : Nat :=
  max vf ((longestEntry indices + cs - 1) / cs)

/-! ### the non-streaming helpers -/

/-- one iteration of `safe_map_values` (NC04a fixed: the zero-initialised result is left alone when no
    `empty_value` is given) -/
def safeMapValuesStep {α} (data : List α) (m : List Int) (filt : List Bool) (emptyArg : Option α) (i : Nat)
    (res : List α) : Except Err (List α) :=
  match filt[i]? with
  | none => .error (.oob "map_filter[i]")
  | some true =>
    match m[i]? with
    | none => .error (.oob "map_field[i]")
    | some k =>
      match getI data k "data_field[map_field[i]]" with
      | .error e => .error e
      | .ok v => setE res i v "result[i]"
  | some false =>
    match emptyArg with
    | some e => setE res i e "result[i]"
    | none => .ok res

/-- `safe_map_values(data_field, map_field, map_filter, empty_value)`; `zero` is the zero of `data_field.dtype` -/
def safeMapValues {α} (data : List α) (m : List Int) (filt : List Bool) (emptyArg : Option α) (zero : α) :
    Except Err (List α) :=
  forE (safeMapValuesStep data m filt emptyArg) 0 m.length (List.replicate m.length zero)

/-- one iteration of `map_valid` -/
def mapValidStep {α} (data : List α) (m : List Int) (inv : Int) (i : Nat) (res : List α) : Except Err (List α) :=
  match m[i]? with
  | none => .error (.oob "map_field[i]")
  | some k =>
    if k != inv then
      match getI data k "data_field[map_field[i]]" with
      | .error e => .error e
      | .ok v => setE res i v "result[i]"
    else .ok res

/-- `map_valid(data_field, map_field, result, invalid)` -/
def mapValid {α} (data : List α) (m : List Int) (result : Option (List α)) (inv : Int) (zero : α) : Except Err (List α) :=
  forE (mapValidStep data m inv) 0 m.length (result.getD (List.replicate m.length zero))

/-- first pass of `safe_map_indexed_values`: `value_length` -/
def smivLenStep (indices : List Int) (m : List Int) (filt : List Bool) (emptyLen : Nat) (i : Nat) (len : Int) :
    Except Err Int :=
  match filt[i]? with
  | none => .error (.oob "map_filter[i]")
  | some true =>
    match m[i]? with
    | none => .error (.oob "map_field[i]")
    | some k =>
      match getI indices (k + 1) "data_indices[map_field[i]+1]", getI indices k "data_indices[map_field[i]]" with
      | .ok b, .ok a => .ok (len + (b - a))
      | .error e, _ => .error e
      | _, .error e => .error e
  | some false => .ok (len + emptyLen)

structure SI (β : Type) where
  offset : Int
  iRes : List Int
  vRes : List β
  deriving Repr, DecidableEq, Inhabited

/-- second pass of `safe_map_indexed_values`. `v_result[dst:dse] = …` always writes at the current fill position
    `offset`, so `v_result` is modelled as the list appended so far (for a well-formed source the slice has exactly
    `delta` bytes and the appended list is the final `v_result`).
    `capI = len(i_result)`, `capV = len(v_result)` are the sizes the kernel itself allocates between the passes
    (`len(map_field) + 1` and the `value_length` of the first pass): `i_result[i + 1] = dse` is checked against `capI`, the
    slice write `v_result[dst:dse] = …` must end inside `v_result` (stricter than numpy, which clamps the slice and then
    rejects the size mismatch). With `empty_value=None` (and for an empty `empty_value`) nothing is written to `v_result`
    on the unset branch. -/
def smivStep {β} (indices : List Int) (values : List β) (m : List Int) (filt : List Bool) (empty : List β)
    (capI : Nat) (capV : Int) (i : Nat) (s : SI β) : Except Err (SI β) :=
  match filt[i]? with
  | none => .error (.oob "map_filter[i]")
  | some true =>
    match m[i]? with
    | none => .error (.oob "map_field[i]")
    | some k =>
      match getI indices k "data_indices[map_field[i]]", getI indices (k + 1) "data_indices[map_field[i]+1]" with
      | .ok sst, .ok sse =>
        let delta := sse - sst
        if capI ≤ i + 1 then .error (.oob "i_result[i+1]")
        else if capV < s.offset + delta then .error (.oob "v_result[dst:dse]")
        else .ok ⟨s.offset + delta, s.iRes ++ [s.offset + delta], s.vRes ++ pySlice values sst sse⟩
      | .error e, _ => .error e
      | _, .error e => .error e
  | some false =>
    if capI ≤ i + 1 then .error (.oob "i_result[i+1]")
    else if !empty.isEmpty && capV < s.offset + empty.length then .error (.oob "v_result[dst:dse]")
    else .ok ⟨s.offset + empty.length, s.iRes ++ [s.offset + empty.length], s.vRes ++ empty⟩

/-- `safe_map_indexed_values(data_indices, data_values, map_field, map_filter, empty_value)`
    (`empty_value=None` is `empty = []`): the first pass computes `value_length`, then
    `i_result = np.zeros(len(map_field) + 1)`, `v_result = np.zeros(value_length)`, `i_result[0] = 0` (in range: at least
    one slot) and the second pass fills them -/
def safeMapIndexedValues {β} (indices : List Int) (values : List β) (m : List Int) (filt : List Bool) (empty : List β) :
    Except Err (List Int × List β) :=
  match forE (smivLenStep indices m filt empty.length) 0 m.length 0 with
  | .error e => .error e
  | .ok valueLength =>
    match forE (smivStep indices values m filt empty (m.length + 1) valueLength) 0 m.length ⟨0, [0], []⟩ with
    | .error e => .error e
    | .ok s => .ok (s.iRes, s.vRes)

end Exetera.MapValid
