import Driver.Util
import Exetera.Model.Csv
open Lean Exetera Exetera.Csv
namespace Driver.C05

def mat (m : List (List Nat)) : Json := Json.arr (m.map Driver.nats).toArray

def kindOfJson (j : Json) : Except String FieldKind := do
  let k ← j.getObjValAs? String "kind"
  if k == "indexed" then pure .indexed
  else if k == "fixed" then do
    let n ← j.getObjValAs? Nat "n"
    pure (.fixed n)
  else if k == "int" then pure .int
  else throw s!"bad kind {k}"

def impJson (i : Imp) : Json :=
  match i.kind with
  | .indexed => Json.mkObj [("idx", Driver.nats i.idx), ("vals", Driver.nats i.vals)]
  | .fixed _ => Json.mkObj [("rows", Json.arr (i.rows.map Driver.nats).toArray)]
  | .int => Json.mkObj [("nums", Driver.nats i.nums), ("valids", toJson i.valids)]

def optList (j : Json) (k : String) : Except String (Option (List String)) :=
  match j.getObjVal? k with
  | .ok Json.null => pure none
  | .ok v => do let l ← fromJson? (α := List String) v; pure (some l)
  | .error _ => pure none

/-- which full flag every kernel call of the driver loop returned (0 none, 1 `is_column_inds_full`, 2 `is_column_vals_full`):
    a replay of the model's own `driverStep` from the state `readFile` starts in; coverage / correspondence glue only -/
def flagTrace (file : List Nat) (w ncols : Nat) (im : List Nat) : Nat → DS → List Nat
  | 0, _ => []
  | n + 1, s =>
    if decide (s.ci < file.length) && !s.stop then
      match driverStep file w ncols im s with
      | .ok s' =>
        if s'.stop then [] else (if s'.indsFull then 1 else if s'.valsFull then 2 else 0) :: flagTrace file w ncols im n s'
      | .error _ => []
    else []

def flagsOf (file : List Nat) (crs ncols : Nat) (offs im : List Nat) (imps : List Imp) (fuel : Nat) : List Nat :=
  let crs2 := crs * Gen.Csv.CHUNK_ROW_FACTOR
  let s0 : DS := { ci := 0, hasHeader := true, rows := 0, inds := zeros2 ncols (crs2 + 1), vals := List.replicate (offs.getLastD 0) 0, offs := offs, indsFull := false, valsFull := false, content := [], start := 0, imps := imps, calls := [], stop := false }
  flagTrace file (crs2 * ncols) ncols im fuel s0

def handle : Driver.Handler := fun op j =>
  match op with
  | "csv_kernel" => some do
    let src ← Driver.get? (List Nat) j "src"
    let start ← Driver.get? Nat j "start"
    let inds ← Driver.get? (List (List Nat)) j "inds"
    let vals ← Driver.get? (List Nat) j "vals"
    let offs ← Driver.get? (List Nat) j "offs"
    let hh ← Driver.get? Bool j "has_header"
    pure <| Driver.outE (fun (o : KOut) =>
      Json.mkObj [("next", toJson o.nextPos), ("written", toJson o.written), ("inds_full", toJson o.indsFull),
                  ("vals_full", toJson o.valsFull), ("vfc", match o.vfc with | none => toJson (-1 : Int) | some c => toJson c),
                  ("inds", mat o.inds), ("vals", Driver.nats o.vals)])
      (fastCsvReader src start inds vals offs hh)
  | "csv_driver" => some do
    let file ← Driver.get? (List Nat) j "file"
    let crs ← Driver.get? Nat j "crs"
    let ncols ← Driver.get? Nat j "ncols"
    let offs ← Driver.get? (List Nat) j "offs"
    let im ← Driver.get? (List Nat) j "index_map"
    let fuel ← Driver.get? Nat j "fuel"
    let imps := im.map (fun _ => ({ kind := .indexed } : Imp))
    pure <| Driver.outE (fun (o : DOut) =>
      Json.mkObj [("rows", toJson o.rows), ("calls", toJson o.calls), ("cols", Json.arr (o.imps.map impJson).toArray),
                  ("flags", toJson (flagsOf file crs ncols offs im imps fuel))])
      (readFile file crs ncols offs im imps fuel)
  | "csv_import" => some do
    let file ← Driver.get? (List Nat) j "file"
    let names ← Driver.get? (List String) j "names"
    let crs ← Driver.get? Nat j "crs"
    let fuel ← Driver.get? Nat j "fuel"
    let sj ← Driver.get? (List Json) j "schema"
    let schema ← sj.mapM (fun e => do
      let n ← e.getObjValAs? String "name"
      let k ← kindOfJson e
      pure (n, k))
    let incl ← optList j "include"
    let excl ← optList j "exclude"
    pure <| Driver.outE (fun (o : COut) =>
      Json.mkObj [("rows", toJson o.rows),
                  ("fields", Json.mkObj (o.fields.map (fun f => (f.name, impJson f.imp))))])
      (readCsv file names schema incl excl crs fuel)
  | _ => none

end Driver.C05
