import Exetera.Gen.Kernels
import Exetera.Lemmas.GenKernels
import Exetera.Lemmas.GenKernelsJoinInnerUnique
/-!
  The TRANSLATED kernel `ordered_inner_map_left_unique_partial(d_i, d_j, left, right, left_to_inner, right_to_inner)`.

  The kernel has NO caller reachable from the library's API (its only caller `ordered_inner_map_left_unique_streamed` is called by
  tests/ only): the theorems below are NOT obligations of any property; they are re-checked by `lake build Exetera` only. The
  translation itself is validated differentially under C10 (checks/harness/genkernels.py).

  It is the C03 kernel `generate_ordered_map_to_inner_left_unique_partial` entered at `i = j = r = 0` with `i_max = len(left)`,
  `j_max = len(right)`: `inner_lu_partial_iff` proves that for EVERY input and fuel the two TRANSLATED definitions return normally
  on the same inputs, with the same result (they differ in the names of their subscript sites only, so their errors are equal up
  to the site string). Every theorem about the C03 kernel (`C03Gen.gen_inner_left_unique_partial_ok`, `gen_ilu_partial_call`)
  therefore speaks about this one too.

  Technique: `okOf` forgets the error value; `okOf` of either loop body is the same function of the state (`simp` normalises both
  to one site-free expression), and `whileE` commutes with such a conversion of states (`whileE_okOf`).
-/
namespace Exetera.GenK

open Exetera Exetera.PyRt Exetera.Gen.Kernels

/-- the value of a run, forgetting which error it was -/
def okOf {α} : Except Err α → Option α
  | .ok a => some a
  | .error _ => none

@[simp] theorem okOf_ok {α} (a : α) : okOf (.ok a : Except Err α) = some a := rfl
@[simp] theorem okOf_error {α} (e : Err) : okOf (.error e : Except Err α) = none := rfl

@[simp] theorem okOf_bindE {α β} (x : Except Err α) (k : α → Except Err β) :
    okOf (bindE x k) = (okOf x).bind (fun a => okOf (k a)) := by
  cases x <;> rfl

theorem okOf_ite {α} (c : Prop) [Decidable c] (a b : Except Err α) : okOf (if c then a else b) = if c then okOf a else okOf b := by
  split <;> rfl

theorem okOf_eq_some {α} {x : Except Err α} {a : α} : okOf x = some a ↔ x = .ok a := by
  cases x <;> simp [okOf]

/-- `xs[i]` without the site -/
def idxO {α} (xs : List α) (i : Int) : Option α := if 0 ≤ i then xs[i.toNat]? else none

/-- `xs[i] = v` without the site -/
def setIdxO {α} (xs : List α) (i : Int) (v : α) : Option (List α) :=
  if 0 ≤ i then (if i.toNat < xs.length then some (xs.set i.toNat v) else none) else none

@[simp] theorem okOf_idxE {α} (xs : List α) (i : Int) (site : String) : okOf (idxE xs i site) = idxO xs i := by
  unfold idxE idxO getE
  split
  · cases xs[i.toNat]? <;> rfl
  · rfl

@[simp] theorem okOf_setIdxE {α} (xs : List α) (i : Int) (v : α) (site : String) :
    okOf (setIdxE xs i v site) = setIdxO xs i v := by
  unfold setIdxE setIdxO setE
  split
  · split <;> rfl
  · rfl

/-- `whileE` commutes with a conversion `f` of states under which guards agree and bodies agree up to the error value
    (on the states satisfying an invariant `P` that the second body preserves) -/
theorem whileE_okOf {σ τ} (f : τ → σ) (P : τ → Prop) (g1 : σ → Bool) (b1 : σ → Except Err σ) (g2 : τ → Bool)
    (b2 : τ → Except Err τ) (hg : ∀ t, P t → g1 (f t) = g2 t)
    (hb : ∀ t, P t → okOf (b1 (f t)) = (okOf (b2 t)).map f) (hp : ∀ t t', P t → b2 t = .ok t' → P t') :
    ∀ (n : Nat) (t : τ), P t → okOf (whileE g1 b1 n (f t)) = (okOf (whileE g2 b2 n t)).map f := by
  intro n
  induction n with
  | zero =>
    intro t ht
    simp only [whileE, hg t ht]
    cases g2 t <;> simp
  | succ n ih =>
    intro t ht
    simp only [whileE, hg t ht]
    cases hgt : g2 t with
    | false => simp
    | true =>
      simp only [if_true]
      have h := hb t ht
      cases h2 : b2 t with
      | error e =>
        rw [h2] at h
        simp only [okOf_error, Option.map_none] at h
        cases h1 : b1 (f t) with
        | error e' => simp
        | ok s' => rw [h1] at h; simp at h
      | ok t' =>
        rw [h2] at h
        simp only [okOf_ok, Option.map_some] at h
        rw [okOf_eq_some.mp h]
        exact ih t' (hp t t' ht h2)

namespace ILUP

abbrev S1 := ordered_inner_map_left_unique_partial.St
abbrev S2 := generate_ordered_map_to_inner_left_unique_partial.St

/-- the state of the flat kernel that corresponds to a state of the C03 kernel -/
def conv (t : S2) : S1 := ⟨t.p6, t.p7, t.p0, t.p2, t.p4, t.p5, t.p8, t.p9, t.p10⟩

def P (t : S2) : Prop := t.p1 = pyLen t.p0 ∧ t.p3 = pyLen t.p2

theorem guard_eq (t : S2) (h : P t) :
    ordered_inner_map_left_unique_partial.guard_L1 (conv t) = generate_ordered_map_to_inner_left_unique_partial.guard_L1 t := by
  obtain ⟨q0, q1, q2, q3, q4, q5, q6, q7, q8, q9, q10⟩ := t
  obtain ⟨h1, h3⟩ := h
  simp only at h1 h3
  subst h1 h3
  rfl

theorem body_eq (t : S2) (h : P t) :
    okOf (ordered_inner_map_left_unique_partial.body_L1 (conv t))
      = (okOf (generate_ordered_map_to_inner_left_unique_partial.body_L1 t)).map conv := by
  obtain ⟨q0, q1, q2, q3, q4, q5, q6, q7, q8, q9, q10⟩ := t
  obtain ⟨h1, h3⟩ := h
  simp only at h1 h3
  subst h1 h3
  show okOf (ordered_inner_map_left_unique_partial.body_L1 ⟨q6, q7, q0, q2, q4, q5, q8, q9, q10⟩) = _
  simp only [ordered_inner_map_left_unique_partial.body_L1, generate_ordered_map_to_inner_left_unique_partial.body_L1,
    okOf_bindE, okOf_ite, okOf_ok, okOf_idxE, okOf_setIdxE]
  cases idxO q0 q8 <;> cases idxO q2 q9 <;> simp only [Option.bind_none, Option.bind_some, Option.map_none]
  rename_i a b
  split
  · rfl
  · split
    · rfl
    · cases setIdxO q4 q10 (q8 + q6) <;> cases setIdxO q5 q10 (q9 + q7) <;>
        simp only [Option.bind_none, Option.bind_some, Option.map_none]
      split
      · simp [conv]
      · cases idxO q2 (q9 + 1) <;> simp only [Option.bind_none, Option.bind_some, Option.map_none]
        rename_i c
        split <;> simp [conv]

/-- the four fields the invariant speaks about -/
def frame (t : S2) : List Int × Int × List Int × Int := (t.p0, t.p1, t.p2, t.p3)

theorem body_frame (t : S2) :
    (okOf (generate_ordered_map_to_inner_left_unique_partial.body_L1 t)).map frame
      = (okOf (generate_ordered_map_to_inner_left_unique_partial.body_L1 t)).map (fun _ => frame t) := by
  obtain ⟨q0, q1, q2, q3, q4, q5, q6, q7, q8, q9, q10⟩ := t
  simp only [generate_ordered_map_to_inner_left_unique_partial.body_L1, okOf_bindE, okOf_ite, okOf_ok, okOf_idxE, okOf_setIdxE]
  cases idxO q0 q8 <;> cases idxO q2 q9 <;> simp only [Option.bind_none, Option.bind_some, Option.map_none]
  rename_i a b
  split
  · rfl
  · split
    · rfl
    · cases setIdxO q4 q10 (q8 + q6) <;> cases setIdxO q5 q10 (q9 + q7) <;>
        simp only [Option.bind_none, Option.bind_some, Option.map_none]
      split
      · simp [frame]
      · cases idxO q2 (q9 + 1) <;> simp only [Option.bind_none, Option.bind_some, Option.map_none]
        rename_i c
        split <;> simp [frame]

theorem body_pres (t t' : S2) (h : P t) (hb : generate_ordered_map_to_inner_left_unique_partial.body_L1 t = .ok t') : P t' := by
  have hf := body_frame t
  rw [hb] at hf
  simp only [okOf_ok, Option.map_some, Option.some.injEq, frame, Prod.mk.injEq] at hf
  obtain ⟨e0, e1, e2, e3⟩ := hf
  obtain ⟨h1, h3⟩ := h
  exact ⟨by rw [e1, e0, h1], by rw [e3, e2, h3]⟩

end ILUP

/-- for EVERY input and fuel: the translated flat kernel returns normally exactly when the translated C03 kernel, entered at
    `i = j = r = 0` with the bounds `len(left)`, `len(right)`, does, and with the same result -/
theorem inner_lu_partial_iff (di dj : Int) (left right l2i r2i : List Int) (fuel : Nat)
    (r : Int × Int × Int × List Int × List Int) :
    ordered_inner_map_left_unique_partial.run di dj left right l2i r2i fuel = .ok r ↔
      generate_ordered_map_to_inner_left_unique_partial.run left (pyLen left) right (pyLen right) l2i r2i di dj 0 0 0 fuel = .ok r := by
  have h := whileE_okOf ILUP.conv ILUP.P ordered_inner_map_left_unique_partial.guard_L1
    ordered_inner_map_left_unique_partial.body_L1 generate_ordered_map_to_inner_left_unique_partial.guard_L1
    generate_ordered_map_to_inner_left_unique_partial.body_L1 ILUP.guard_eq ILUP.body_eq ILUP.body_pres fuel
    ⟨left, pyLen left, right, pyLen right, l2i, r2i, di, dj, 0, 0, 0⟩ ⟨rfl, rfl⟩
  unfold ordered_inner_map_left_unique_partial.run generate_ordered_map_to_inner_left_unique_partial.run
  simp only [ILUP.conv] at h
  rw [← okOf_eq_some, ← okOf_eq_some]
  simp only [okOf_bindE, okOf_ok, h]
  cases okOf (whileE generate_ordered_map_to_inner_left_unique_partial.guard_L1
    generate_ordered_map_to_inner_left_unique_partial.body_L1 fuel ⟨left, pyLen left, right, pyLen right, l2i, r2i, di, dj, 0, 0, 0⟩) <;>
    simp [ILUP.conv]

/-- transfer from the hand model of the C03 kernel (`Join.runPartial .innerLU`, entered with empty buffers at `i = j = 0` and the
    bounds `len(left)`, `len(right)`): every `.ok` run of the model is a run of the translated flat kernel on buffers whose written
    prefixes are the model's lists -/
theorem inner_lu_partial_flat_ok (p : Join.P) (k' : Join.K) (lbuf rbuf : List Int)
    (hl : lbuf.length = p.cap) (hr : rbuf.length = p.cap) (hi : p.iMax = p.left.length) (hj : p.jMax = p.right.length)
    (h : Join.runPartial .innerLU p {} = .ok k') :
    ∃ lbuf' rbuf', ordered_inner_map_left_unique_partial.run p.iOff p.jOff p.left p.right lbuf rbuf (Join.partialFuel p)
        = .ok ((k'.i : Int), (k'.j : Int), (k'.rb.length : Int), lbuf', rbuf') ∧
      lbuf'.length = p.cap ∧ rbuf'.length = p.cap ∧ lbuf'.take k'.rb.length = k'.lb ∧ rbuf'.take k'.rb.length = k'.rb := by
  obtain ⟨lbuf', rbuf', hrun, h1, h2, h3, h4⟩ := inner_left_unique_partial_ok p {} k' lbuf rbuf hl hr rfl rfl rfl h
  refine ⟨lbuf', rbuf', ?_, h1, h2, h3, h4⟩
  rw [inner_lu_partial_iff]
  rw [hi, hj] at hrun
  exact hrun

example : ordered_inner_map_left_unique_partial.run 3 5 [1, 2, 4] [1, 2, 2, 4, 6] [7, 7, 7, 7] [8, 8, 8, 8] 9
    = .ok (3, 4, 4, [3, 4, 4, 5], [5, 6, 7, 8]) := rfl

end Exetera.GenK
