import Exetera.Gen.Kernels
import Exetera.Model.JoinOld
import Exetera.Lemmas.While
import Exetera.Lemmas.GenKernels
/-!
  The TRANSLATED kernel of the legacy streamed mapper (`Session.ordered_merge_left / _right`, streamed form:
  `_streaming_map_fields` → `ordered_map_valid_stream_old`) against its recursive model `partialOldMap` of `Model/JoinOld.lean`:

    ordered_map_valid_partial_old   ~  partialOldMap        (`while True:` left by `return` only)

  The model returns the list of values of the consumed map entries (`acc = result[0:i]`, the buffer's zero for a marker row, which the
  code does not write); the translated kernel, like the code, stores into the caller's scratch array, which the driver hands over
  zeroed (`np.zeros(chunksize)`, `rslt[:] = 0` after every write-out). Relation: the array is `bufOf cap acc` — the model's list
  padded with zeros to the capacity (marker rows beyond the capacity are not stored by the code and only counted by the model).
  The model wraps a negative subscript `data_field[val - d]` (`MapValid.getI`), the translation makes it an error: the transfer is
  stated for maps without a valid entry below the window start `d`.
-/
namespace Exetera.GenK

open Exetera Exetera.PyRt Exetera.Gen.Kernels Exetera.JoinOld

namespace MapOld

/-- the caller's zeroed scratch array of `cap` slots after the values `acc` were stored at its first positions -/
def bufOf (cap : Nat) (acc : List Int) : List Int := (acc ++ List.replicate (cap - acc.length) 0).take cap

theorem bufOf_nil (cap : Nat) : bufOf cap [] = List.replicate cap 0 := by
  simp [bufOf]

theorem bufOf_len (cap : Nat) (acc : List Int) : (bufOf cap acc).length = cap := by
  simp [bufOf]; omega

theorem bufOf_zero (cap : Nat) (acc : List Int) : bufOf cap (acc ++ [0]) = bufOf cap acc := by
  unfold bufOf
  by_cases h : acc.length < cap
  · have e : cap - acc.length = (cap - (acc ++ [0]).length) + 1 := by simp; omega
    rw [e, List.replicate_succ]
    simp
  · rw [List.take_append_of_le_length (by simp; omega), List.take_append_of_le_length (by omega)]
    rw [List.take_append_of_le_length (by omega)]

theorem bufOf_set (cap : Nat) (acc : List Int) (x : Int) (h : acc.length < cap) :
    (bufOf cap acc).set acc.length x = bufOf cap (acc ++ [x]) := by
  unfold bufOf
  have e : cap - acc.length = (cap - (acc ++ [x]).length) + 1 := by simp; omega
  rw [e, List.replicate_succ]
  rw [List.take_of_length_le (by simp; omega), List.take_of_length_le (by simp; omega)]
  simp

/-- as long as the values fit, the array is the values followed by the untouched zeros -/
theorem bufOf_of_le (cap : Nat) (acc : List Int) (h : acc.length ≤ cap) :
    bufOf cap acc = acc ++ List.replicate (cap - acc.length) 0 := by
  unfold bufOf
  rw [List.take_of_length_le (by simp; omega)]

abbrev St := ordered_map_valid_partial_old.St

abbrev mk (d : Int) (dfc mfc buf : List Int) (inv i v : Int) (ret : Bool) (r0 r1 : Int) : St :=
  ⟨d, dfc, mfc, buf, inv, i, v, ret, r0, r1⟩

theorem while_ret (d : Int) (dfc mfc buf : List Int) (inv i v r0 r1 : Int) (n : Nat) :
    whileE ordered_map_valid_partial_old.guard_L1 ordered_map_valid_partial_old.body_L1 n (mk d dfc mfc buf inv i v true r0 r1)
      = .ok (mk d dfc mfc buf inv i v true r0 r1) := by
  cases n <;> simp [whileE, ordered_map_valid_partial_old.guard_L1]

/-- a valid entry beyond the data view: `return i, val` -/
theorem body_beyond (d : Int) (dfc mfc buf : List Int) (inv v1 r0 r1 : Int) (i : Nat) (v : Int)
    (hv : mfc[i]? = some v) (hne : v ≠ inv) (hbig : v ≥ d + (dfc.length : Int)) :
    ordered_map_valid_partial_old.body_L1 (mk d dfc mfc buf inv i v1 false r0 r1)
      = .ok (mk d dfc mfc buf inv i v true i v) := by
  simp [ordered_map_valid_partial_old.body_L1, idxE_nat, getE, hv, hne, pyLen, hbig]

/-- a valid entry inside the data view: stored at `result[i]`; `return i, val` when it was the last entry -/
theorem body_store (d : Int) (dfc mfc buf : List Int) (inv v1 r0 r1 : Int) (i : Nat) (v x : Int)
    (hv : mfc[i]? = some v) (hne : v ≠ inv) (hsmall : ¬ v ≥ d + (dfc.length : Int)) (hpos : 0 ≤ v - d)
    (hx : dfc[(v - d).toNat]? = some x) (hi : i < buf.length) :
    ordered_map_valid_partial_old.body_L1 (mk d dfc mfc buf inv i v1 false r0 r1)
      = .ok (if ((i : Int) + 1 ≥ (mfc.length : Int)) then mk d dfc mfc (buf.set i x) inv ((i : Int) + 1) v true ((i : Int) + 1) v
             else mk d dfc mfc (buf.set i x) inv ((i : Int) + 1) v false r0 r1) := by
  have hidx : idxE dfc (v - d) "p1[v1 - p0]" = .ok x := by
    have hdv : d ≤ v := by omega
    simp [idxE, hdv, getE, hx]
  have hsmall' : ¬ (d + (dfc.length : Int) ≤ v) := hsmall
  simp [ordered_map_valid_partial_old.body_L1, idxE_nat, getE, hv, hne, pyLen, hsmall', hidx, setIdxE_nat, setE, hi]
  split <;> rfl

/-- a marker row: nothing stored -/
theorem body_marker (d : Int) (dfc mfc buf : List Int) (inv v1 r0 r1 : Int) (i : Nat)
    (hv : mfc[i]? = some inv) :
    ordered_map_valid_partial_old.body_L1 (mk d dfc mfc buf inv i v1 false r0 r1)
      = .ok (if ((i : Int) + 1 ≥ (mfc.length : Int)) then mk d dfc mfc buf inv ((i : Int) + 1) inv true ((i : Int) + 1) inv
             else mk d dfc mfc buf inv ((i : Int) + 1) inv false r0 r1) := by
  simp [ordered_map_valid_partial_old.body_L1, idxE_nat, getE, hv, pyLen]
  split <;> rfl

/-- the loop from position `acc.length` of the map chunk: it follows every successful run of the model's recursion over the rest
    `vs` of the chunk and ends by `return` -/
theorem loop_from (d : Nat) (dfc : List Int) (inv : Int) (cap : Nat) (mfc : List Int) :
    ∀ (vs pre acc : List Int) (last v1 r0 r1 : Int) (fuel : Nat) (res : List Int × Int),
      vs ≠ [] → mfc = pre ++ vs → pre.length = acc.length → vs.length ≤ fuel →
      (∀ v ∈ vs, v ≠ inv → (d : Int) ≤ v) →
      partialOldMapFrom d dfc inv (0 : Int) cap vs acc last = .ok res →
      whileE ordered_map_valid_partial_old.guard_L1 ordered_map_valid_partial_old.body_L1 fuel
          (mk d dfc mfc (bufOf cap acc) inv acc.length v1 false r0 r1)
        = .ok (mk d dfc mfc (bufOf cap res.1) inv res.1.length res.2 true res.1.length res.2) := by
  intro vs
  induction vs with
  | nil => intro _ _ _ _ _ _ _ _ h; exact absurd rfl h
  | cons v vs ih =>
    intro pre acc last v1 r0 r1 fuel res _ hm hpre hfuel hpos h
    obtain ⟨n, rfl⟩ : ∃ n, fuel = n + 1 := ⟨fuel - 1, by simp only [List.length_cons] at hfuel; omega⟩
    have hv : mfc[acc.length]? = some v := by
      rw [hm, ← hpre, List.getElem?_append_right (Nat.le_refl _)]
      simp
    have hlen : mfc.length = acc.length + 1 + vs.length := by
      rw [hm, List.length_append, hpre, List.length_cons]; omega
    have hg : ordered_map_valid_partial_old.guard_L1 (mk d dfc mfc (bufOf cap acc) inv acc.length v1 false r0 r1) = true := rfl
    have e1 : ((acc.length : Nat) : Int) + 1 = (((acc ++ [v]).length : Nat) : Int) := by simp
    rw [whileE, hg, if_pos rfl]
    by_cases hvi : v = inv
    · have hne : (v != inv) = false := by simp [hvi]
      simp only [partialOldMapFrom, hne, Bool.false_eq_true, if_false] at h
      subst hvi
      rw [body_marker d dfc mfc _ v v1 r0 r1 acc.length hv]
      cases vs with
      | nil =>
        simp only [partialOldMapFrom, Except.ok.injEq] at h
        subst h
        have hge : ((acc.length : Nat) : Int) + 1 ≥ (mfc.length : Int) := by rw [hlen]; simp
        rw [if_pos hge]
        simp only []
        rw [while_ret, bufOf_zero]
        simp
      | cons w ws =>
        have hlt : ¬ (((acc.length : Nat) : Int) + 1 ≥ (mfc.length : Int)) := by rw [hlen]; simp; omega
        rw [if_neg hlt]
        simp only []
        have e0 : ((acc.length : Nat) : Int) + 1 = (((acc ++ [(0 : Int)]).length : Nat) : Int) := by simp
        have := ih (pre ++ [v]) (acc ++ [0]) v v r0 r1 n res (by simp) (by rw [hm]; simp) (by simp [hpre])
          (by simp only [List.length_cons] at hfuel ⊢; omega) (fun u hu => hpos u (List.mem_cons_of_mem _ hu)) h
        rw [bufOf_zero] at this
        rw [e0]
        exact this
    · have hne : (v != inv) = true := by simpa using hvi
      simp only [partialOldMapFrom, hne, if_true] at h
      by_cases hbig : v ≥ ((d + dfc.length : Nat) : Int)
      · simp only [hbig, if_true, Except.ok.injEq] at h
        subst h
        rw [body_beyond d dfc mfc _ inv v1 r0 r1 acc.length v hv hvi (by push_cast at hbig; exact hbig)]
        simp only []
        rw [while_ret]
      · simp only [hbig, if_false] at h
        have hdv : (d : Int) ≤ v := hpos v (by simp) hvi
        cases hgi : MapValid.getI dfc (v - (d : Int)) "data_field[val - d]" with
        | error e => simp [hgi] at h
        | ok x =>
          simp only [hgi] at h
          have hx : dfc[(v - (d : Int)).toNat]? = some x := by
            have h0 : 0 ≤ v - (d : Int) := by omega
            unfold MapValid.getI at hgi
            rw [if_pos h0] at hgi
            exact getE_eq_ok.mp hgi
          by_cases hc : acc.length < cap
          · simp only [hc, if_true] at h
            rw [body_store d dfc mfc _ inv v1 r0 r1 acc.length v x hv hvi (by push_cast at hbig; exact hbig) (by omega) hx
              (by rw [bufOf_len]; exact hc)]
            rw [bufOf_set cap acc x hc]
            cases vs with
            | nil =>
              simp only [partialOldMapFrom, Except.ok.injEq] at h
              subst h
              have hge : ((acc.length : Nat) : Int) + 1 ≥ (mfc.length : Int) := by rw [hlen]; simp
              rw [if_pos hge]
              simp only []
              rw [while_ret]
              simp
            | cons w ws =>
              have hlt : ¬ (((acc.length : Nat) : Int) + 1 ≥ (mfc.length : Int)) := by rw [hlen]; simp; omega
              rw [if_neg hlt]
              simp only []
              have e0 : ((acc.length : Nat) : Int) + 1 = (((acc ++ [x]).length : Nat) : Int) := by simp
              have := ih (pre ++ [v]) (acc ++ [x]) v v r0 r1 n res (by simp) (by rw [hm]; simp) (by simp [hpre])
                (by simp only [List.length_cons] at hfuel ⊢; omega) (fun u hu => hpos u (List.mem_cons_of_mem _ hu)) h
              rw [e0]
              exact this
          · simp [hc] at h

end MapOld

/-- every `.ok` run of the model `partialOldMap` (numeric column, zeroed scratch array of `cap` slots) is a run of the translated
    kernel, for every fuel ≥ len(map_field), provided no valid map entry lies below the window start `d` (the model wraps the
    negative subscript, the translation rejects it): it returns `i = len(values)`, the same `val`, and the scratch array holds
    the model's values followed by the untouched zeros -/
theorem map_valid_partial_old_ok (d : Nat) (dfc mfc : List Int) (inv : Int) (cap : Nat) (r : List Int × Int) (fuel : Nat)
    (hf : mfc.length ≤ fuel) (hpos : ∀ v ∈ mfc, v ≠ inv → (d : Int) ≤ v)
    (h : partialOldMap d dfc mfc inv (0 : Int) cap = .ok r) :
    ordered_map_valid_partial_old.run (d : Int) dfc mfc (List.replicate cap 0) inv fuel
      = .ok ((r.1.length : Int), r.2, MapOld.bufOf cap r.1) := by
  cases mfc with
  | nil => simp [partialOldMap] at h
  | cons v vs =>
    simp only [partialOldMap] at h
    have := MapOld.loop_from d dfc inv cap (v :: vs) (v :: vs) [] [] v 0 0 0 fuel r (by simp) rfl rfl hf hpos h
    rw [MapOld.bufOf_nil] at this
    unfold ordered_map_valid_partial_old.run
    simp only [MapOld.mk, List.length_nil, Int.natCast_zero] at this
    simp only [this, bindE_ok, if_true]

end Exetera.GenK
