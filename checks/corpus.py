"""corpus/<Cxx>/*.json — minimised past disagreements and defect witnesses; always run first."""
import json
from pathlib import Path

ROOT = Path(__file__).resolve().parent.parent / "corpus"


def load(prop):
    out = []
    d = ROOT / prop
    if d.is_dir():
        for f in sorted(d.glob("*.json")):
            j = json.load(open(f))
            for c in (j if isinstance(j, list) else [j]):
                c = dict(c)
                c["_corpus"] = f.name
                out.append(c)
    return out
