import Exetera.Lemmas.MapValidStream
/-! Helper lemmas for C04, part 3: the non-streaming helpers `safe_map_values`, `map_valid`,
    `safe_map_indexed_values`. Core Lean only. -/
namespace Exetera.MapValid

open Exetera Exetera.Spec

theorem getI_row {α} (data : List α) (k : Int) (site : String) (h0 : 0 ≤ k) (hk : k < data.length) :
    ∃ v, data[k.toNat]? = some v ∧ getI data k site = .ok v := by
  have : k.toNat < data.length := by omega
  exact ⟨data[k.toNat], List.getElem?_eq_getElem this, getI_nonneg _ _ _ _ h0 (List.getElem?_eq_getElem this)⟩

/-- `safe_map_values`: rows whose filter is set get `data[map[i]]`, the others the empty value (the caller's, or the
    dtype's zero) -/
theorem safeMapValues_spec {α} (data : List α) (m : List Int) (filt : List Bool) (e : Option α) (zero : α)
    (hlen : filt.length = m.length)
    (hr : ∀ (i : Nat) (k : Int), m[i]? = some k → filt[i]? = some true → 0 ≤ k ∧ k < data.length) :
    ∃ out, safeMapValues data m filt e zero = .ok out ∧ out.length = m.length ∧
      ∀ (i : Nat) (k : Int) (b : Bool), m[i]? = some k → filt[i]? = some b →
        out[i]? = if b then data[k.toNat]? else some (e.getD zero) := by
  have h := forE_rule (safeMapValuesStep data m filt e) 
    (fun i res => res.length = m.length ∧ (∀ q, i ≤ q → q < m.length → res[q]? = some zero) ∧
      (∀ (p : Nat) (k : Int) (b : Bool), p < i → m[p]? = some k → filt[p]? = some b →
        res[p]? = if b then data[k.toNat]? else some (e.getD zero)))
    m.length 0 (List.replicate m.length zero)
    ⟨by simp, fun q _ hq => by simp [hq], fun p k b hp => by omega⟩
    (by
      intro i res _ hi ⟨hl, hzero, hdone⟩
      have hi' : i < m.length := by omega
      have hgm : m[i]? = some m[i] := List.getElem?_eq_getElem hi'
      have hif : i < filt.length := by omega
      have hgf : filt[i]? = some filt[i] := List.getElem?_eq_getElem hif
      have hir : i < res.length := by omega
      -- the three ways the step can go, each writing `v` at `i` or leaving `res` alone
      have key : ∃ res', safeMapValuesStep data m filt e i res = .ok res' ∧ res'.length = m.length ∧
          (∀ q, q ≠ i → res'[q]? = res[q]?) ∧
          res'[i]? = if filt[i] then data[m[i].toNat]? else some (e.getD zero) := by
        cases hb : filt[i] with
        | true =>
          obtain ⟨h0, h1⟩ := hr i m[i] hgm (by rw [hgf, hb])
          obtain ⟨v, hv1, hv2⟩ := getI_row data m[i] "data_field[map_field[i]]" h0 h1
          refine ⟨res.set i v, ?_, by simpa using hl, fun q hq => List.getElem?_set_ne (Ne.symm hq), ?_⟩
          · simp only [safeMapValuesStep, hgf, hb, hgm, hv2]
            exact setE_ok _ _ _ _ hir
          · simp [List.getElem?_set_self hir, hv1]
        | false =>
          cases he : e with
          | none =>
            refine ⟨res, ?_, hl, fun _ _ => rfl, ?_⟩
            · simp only [safeMapValuesStep, hgf, hb]
            · simp [hzero i (Nat.le_refl _) hi']
          | some ev =>
            refine ⟨res.set i ev, ?_, by simpa using hl, fun q hq => List.getElem?_set_ne (Ne.symm hq), ?_⟩
            · simp only [safeMapValuesStep, hgf, hb]
              exact setE_ok _ _ _ _ hir
            · simp [List.getElem?_set_self hir]
      obtain ⟨res', hrun, hl', hother, hat⟩ := key
      refine ⟨res', hrun, hl', ?_, ?_⟩
      · intro q hq1 hq2
        rw [hother q (by omega)]
        exact hzero q (by omega) hq2
      · intro p k b hp hpk hpb
        by_cases hpi : p = i
        · subst hpi
          rw [hgm] at hpk; rw [hgf] at hpb
          cases hpk; cases hpb
          exact hat
        · rw [hother p hpi]
          exact hdone p k b (by omega) hpk hpb)
  obtain ⟨out, hrun, hl, _, hdone⟩ := h
  refine ⟨out, hrun, hl, ?_⟩
  intro i k b hk hb
  exact hdone i k b (by have := (List.getElem?_eq_some_iff.mp hk).1; omega) hk hb

/-- with the filter "entry is not the marker", `safe_map_values` is `mapSpec` -/
theorem safeMapValues_mapSpec {α} (data : List α) (m : List Int) (inv : Int) (e : Option α) (zero : α)
    (hr : InRange data.length m inv) :
    ∃ out, safeMapValues data m (m.map (fun k => k != inv)) e zero = .ok out ∧
      mapSpec data inv (e.getD zero) m = some out := by
  obtain ⟨out, hrun, hl, hrows⟩ := safeMapValues_spec data m (m.map (fun k => k != inv)) e zero (by simp)
    (by
      intro i k hk hf
      simp only [List.getElem?_map, hk, Option.map_some, Option.some.injEq] at hf
      exact hr i k hk (by simpa using hf))
  refine ⟨out, hrun, ?_⟩
  apply mapSpec_of_pointwise _ _ _ _ _ hl
  intro p k hk
  have hf : (m.map (fun k => k != inv))[p]? = some (k != inv) := by simp [List.getElem?_map, hk]
  have := hrows p k (k != inv) hk hf
  by_cases hki : k = inv
  · subst hki
    refine ⟨e.getD zero, by simp [lookup], ?_⟩
    simpa using this
  · obtain ⟨h0, h1⟩ := hr p k hk hki
    have hlt : k.toNat < data.length := by omega
    refine ⟨data[k.toNat], ?_, ?_⟩
    · simp [lookup, hki, h0, List.getElem?_eq_getElem hlt]
    · have hne : (k != inv) = true := by simpa using hki
      rw [hne] at this
      simpa [List.getElem?_eq_getElem hlt] using this

/-- `map_valid`: valid rows get `data[map[i]]`, marker rows keep what the result array held (zero when the function
    allocates it) -/
theorem mapValid_spec {α} (data : List α) (m : List Int) (result : Option (List α)) (inv : Int) (zero : α)
    (hres : ∀ r, result = some r → r.length = m.length)
    (hr : InRange data.length m inv) :
    ∃ out, mapValid data m result inv zero = .ok out ∧ out.length = m.length ∧
      ∀ (i : Nat) (k : Int), m[i]? = some k →
        out[i]? = if k = inv then (result.getD (List.replicate m.length zero))[i]? else data[k.toNat]? := by
  have hbl : (result.getD (List.replicate m.length zero)).length = m.length := by
    cases result with
    | none => simp
    | some r => simpa using hres r rfl
  unfold mapValid
  generalize result.getD (List.replicate m.length zero) = base at hbl ⊢
  have h := forE_rule (mapValidStep data m inv)
    (fun i res => res.length = m.length ∧ (∀ q, i ≤ q → res[q]? = base[q]?) ∧
      (∀ (p : Nat) (k : Int), p < i → m[p]? = some k →
        res[p]? = if k = inv then base[p]? else data[k.toNat]?))
    m.length 0 base ⟨hbl, fun _ _ => rfl, fun p k hp => by omega⟩
    (by
      intro i res _ hi ⟨hl, hsame, hdone⟩
      have hi' : i < m.length := by omega
      have hgm : m[i]? = some m[i] := List.getElem?_eq_getElem hi'
      have hir : i < res.length := by omega
      have key : ∃ res', mapValidStep data m inv i res = .ok res' ∧ res'.length = m.length ∧
          (∀ q, q ≠ i → res'[q]? = res[q]?) ∧
          res'[i]? = if m[i] = inv then base[i]? else data[m[i].toNat]? := by
        by_cases hk : m[i] = inv
        · refine ⟨res, ?_, hl, fun _ _ => rfl, ?_⟩
          · simp [mapValidStep, hgm, hk]
          · simp [hk, hsame i (Nat.le_refl _)]
        · obtain ⟨h0, h1⟩ := hr i m[i] hgm hk
          obtain ⟨v, hv1, hv2⟩ := getI_row data m[i] "data_field[map_field[i]]" h0 h1
          refine ⟨res.set i v, ?_, by simpa using hl, fun q hq => List.getElem?_set_ne (Ne.symm hq), ?_⟩
          · have hne : (m[i] != inv) = true := by simpa using hk
            simp only [mapValidStep, hgm, hne, if_true, hv2]
            exact setE_ok _ _ _ _ hir
          · simp [List.getElem?_set_self hir, hk, hv1]
      obtain ⟨res', hrun, hl', hother, hat⟩ := key
      refine ⟨res', hrun, hl', ?_, ?_⟩
      · intro q hq
        rw [hother q (by omega)]
        exact hsame q (by omega)
      · intro p k hp hpk
        by_cases hpi : p = i
        · subst hpi
          rw [hgm] at hpk
          cases hpk
          exact hat
        · rw [hother p hpi]
          exact hdone p k (by omega) hpk)
  obtain ⟨out, hrun, hl, _, hdone⟩ := h
  refine ⟨out, hrun, hl, ?_⟩
  · intro i k hk
    exact hdone i k (by have := (List.getElem?_eq_some_iff.mp hk).1; omega) hk

/-- `map_valid` allocating its own result is `mapSpec` with the dtype's zero as empty value -/
theorem mapValid_mapSpec {α} (data : List α) (m : List Int) (inv : Int) (zero : α)
    (hr : InRange data.length m inv) :
    ∃ out, mapValid data m none inv zero = .ok out ∧ mapSpec data inv zero m = some out := by
  obtain ⟨out, hrun, hl, hrows⟩ := mapValid_spec data m none inv zero (by intro r h; cases h) hr
  refine ⟨out, hrun, ?_⟩
  apply mapSpec_of_pointwise _ _ _ _ _ hl
  intro p k hk
  have := hrows p k hk
  have hp : p < m.length := (List.getElem?_eq_some_iff.mp hk).1
  by_cases hki : k = inv
  · subst hki
    refine ⟨zero, by simp [lookup], ?_⟩
    simpa [List.getElem?_replicate, hp] using this
  · obtain ⟨h0, h1⟩ := hr p k hk hki
    have hlt : k.toNat < data.length := by omega
    refine ⟨data[k.toNat], ?_, ?_⟩
    · simp [lookup, hki, h0, List.getElem?_eq_getElem hlt]
    · simpa [hki, List.getElem?_eq_getElem hlt] using this

end Exetera.MapValid
