import Driver.Util
import Exetera.Model.Transforms
open Lean Exetera Exetera.Transforms
namespace Driver.C06

def hexVal (c : Char) : Option Nat :=
  if '0' ≤ c && c ≤ '9' then some (c.toNat - '0'.toNat)
  else if 'a' ≤ c && c ≤ 'f' then some (c.toNat - 'a'.toNat + 10)
  else none

def unhexList : List Char → Except String Bytes
  | [] => .ok []
  | [_] => .error "odd hex"
  | a :: b :: r =>
    match hexVal a, hexVal b, unhexList r with
    | some x, some y, .ok t => .ok ((x * 16 + y) :: t)
    | _, _, .error e => .error e
    | _, _, _ => .error "bad hex digit"

def unhex (s : String) : Except String Bytes := unhexList s.toList

def hexDigit (n : Nat) : Char := if n < 10 then Char.ofNat (48 + n) else Char.ofNat (87 + n)
def toHex (bs : Bytes) : String := String.ofList (bs.flatMap (fun b => [hexDigit (b / 16 % 16), hexDigit (b % 16)]))

def bools (xs : List Bool) : Json := Json.arr (xs.map (fun b => Json.num (if b then 1 else 0))).toArray

def getChunk (j : Json) : Except String Chunk := do
  let inds ← get? (List Nat) j "inds"
  let vals ← unhex (← get? String j "vals")
  let off ← get? Nat j "off"
  let cap ← get? Nat j "cap"
  let rows ← get? Nat j "rows"
  let col ← get? Nat j "col"          -- col_idx the importer is called with
  let ncols ← get? Nat j "ncols"      -- column_inds.shape[0] = len(column_offsets) - 1
  pure { inds, vals, off, cap, rows, col, ncols }

def getChunks (j : Json) : Except String (List Chunk) := do
  let arr ← get? (Array Json) j "chunks"
  arr.toList.mapM getChunk

def getCats (j : Json) : Except String (List (Bytes × Int)) := do
  let arr ← get? (Array Json) j "cats"
  arr.toList.mapM (fun e => do
    let k ← unhex (← get? String e "k")
    let v ← get? Int e "v"
    pure (k, v))

def modeOf : String → Except String Mode
  | "strict" => .ok .strict | "allow_empty" => .ok .allowEmpty | "relaxed" => .ok .relaxed
  | m => .error s!"bad mode {m}"

/-- the float parser is a table supplied with the case: text (hex) ↦ token of the parsed value, or null -/
def getPTable (j : Json) : Except String (List (Bytes × Option String)) := do
  let arr ← get? (Array Json) j "ptable"
  arr.toList.mapM (fun e => do
    let k ← unhex (← get? String e "k")
    let v : Option String := (e.getObjValAs? String "v").toOption
    pure (k, v))

def tableParse (t : List (Bytes × Option String)) (bs : Bytes) : Parsed String :=
  match t.find? (fun kv => kv.1 == bs) with
  | some (_, some v) => .val v
  | _ => .bad

def timeOut (r : List Int × List Bytes × List Bool) : Json :=
  Json.mkObj [("ts", ints r.1), ("day", Json.arr (r.2.1.map (fun d => Json.str (toHex d))).toArray), ("set", bools r.2.2)]

def runCol (j : Json) : Except String Json := do
  let kind ← get? String j "kind"
  let chunks ← getChunks j
  match kind with
  | "categorical" =>
    let cats ← getCats j
    -- the importer with fix NC06d; under `asfound` the as-found variant of the model (NC06d: 0 stored for a cell that is no
    -- category), which the harness accepts only while the finding is listed open
    let fixed := outE (fun d => Json.mkObj [("data", ints d)]) (categoricalImportChecked cats chunks [])
    let asFound := outE (fun d => Json.mkObj [("data", ints d)]) (categoricalImport cats chunks [])
    pure <| fixed.setObjVal! "asfound" asFound
  | "leaky" =>
    let cats ← getCats j
    pure <| outE (fun (s : LeakyState) => Json.mkObj [("data", ints s.data), ("ft_indices", nats s.ftIndices),
        ("ft_values", Json.str (toHex s.ftValues))]) (leakyImport cats chunks LeakyState.init)
  | "fixed" =>
    let n ← get? Nat j "strlen"
    pure <| outE (fun d => Json.mkObj [("data", Json.str (toHex d))]) (fixedImport n chunks [])
  | "bool" =>
    let mode ← modeOf (← get? String j "mode")
    let inv ← get? Bool j "invalid_truth"
    pure <| outE (fun (r : List Bool × List Bool) => Json.mkObj [("data", bools r.1), ("valid", bools r.2)])
      (boolImport mode inv chunks ([], []))
  | "int" =>
    let mode ← modeOf (← get? String j "mode")
    let lo ← get? Int j "lo"
    let hi ← get? Int j "hi"
    let it ← unhex (← get? String j "invalid_text")
    let iv ← get? Int j "invalid_val"
    pure <| outE (fun (r : List Int × List Bool) => Json.mkObj [("data", ints r.1), ("valid", bools r.2)])
      (numImport (parseIntRange lo hi) mode it iv chunks ([], []))
  | "float" =>
    let mode ← modeOf (← get? String j "mode")
    let it ← unhex (← get? String j "invalid_text")
    let iv ← get? String j "invalid_val"
    let pt ← getPTable j
    pure <| outE (fun (r : List String × List Bool) => Json.mkObj [("data", toJson r.1), ("valid", bools r.2)])
      (numImport (tableParse pt) mode it iv chunks ([], []))
  | "datetime" => pure <| outE timeOut (timeImport datetimeCell chunks ([], [], []))
  | "date" => pure <| outE timeOut (timeImport dateCell chunks ([], [], []))
  | k => throw s!"bad kind {k}"

def handle : Driver.Handler := fun op j =>
  match op with
  | "c06_col" => some (runCol j)
  | "c06_csv" => some do
    let cols ← get? (Array Json) j "cols"
    let outs ← cols.toList.mapM runCol
    pure <| okJson (Json.arr outs.toArray)
  | "c06_parse_int" => some do
    let t ← unhex (← get? String j "text")
    pure <| okJson (match parseIntPy t with | some n => Json.num (JsonNumber.fromInt n) | none => Json.null)
  | _ => none

end Driver.C06
