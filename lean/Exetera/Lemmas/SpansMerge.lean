import Exetera.Lemmas.Spans
import Exetera.Lemmas.SpansScan
/-! Helper lemmas for C08, part 4: `_get_spans_for_2_fields_by_spans` is the sorted union of two span arrays
    (and never reads `span1` out of bounds when `span1` reaches at least as far as `span0`). -/
namespace Exetera.Spans

open Exetera Exetera.Spec

theorem mergeAdvance_eq (x : Nat) : ∀ (s1 : List Nat), s1.Pairwise (· < ·) → (∃ y ∈ s1, x ≤ y) →
    mergeAdvance x s1 = .ok (s1.filter (· < x), s1.filter (x < ·))
  | [], _, h => by obtain ⟨y, hy, _⟩ := h; simp at hy
  | y :: rest, hp, h => by
    rw [List.pairwise_cons] at hp
    unfold mergeAdvance
    by_cases h1 : y < x
    · simp only [h1, if_true]
      have hex : ∃ z ∈ rest, x ≤ z := by
        obtain ⟨z, hz, hxz⟩ := h
        rcases List.mem_cons.1 hz with rfl | hz
        · omega
        · exact ⟨z, hz, hxz⟩
      rw [mergeAdvance_eq x rest hp.2 hex]
      have : ¬ x < y := by omega
      simp [h1, this]
    · simp only [h1, if_false]
      by_cases h2 : y = x
      · subst h2
        simp only [beq_self_eq_true, if_true]
        have e1 : (y :: rest).filter (· < y) = [] := by
          rw [List.filter_eq_nil_iff]
          intro a ha
          rcases List.mem_cons.1 ha with rfl | ha
          · simp
          · have := hp.1 a ha; simp; omega
        have e2 : (y :: rest).filter (y < ·) = rest := by
          rw [List.filter_cons]
          simp only [Nat.lt_irrefl, decide_false, Bool.false_eq_true, if_false]
          rw [List.filter_eq_self]
          intro a ha; have := hp.1 a ha; simpa using this
        rw [e1, e2]
      · have hb : (y == x) = false := by simp [h2]
        simp only [hb, Bool.false_eq_true, if_false]
        have e1 : (y :: rest).filter (· < x) = [] := by
          rw [List.filter_eq_nil_iff]
          intro a ha
          rcases List.mem_cons.1 ha with rfl | ha
          · simpa using h1
          · have := hp.1 a ha; simp; omega
        have e2 : (y :: rest).filter (x < ·) = y :: rest := by
          rw [List.filter_eq_self]
          intro a ha
          rcases List.mem_cons.1 ha with rfl | ha
          · simp; omega
          · have := hp.1 a ha; simp; omega
        rw [e1, e2]

theorem mergeLoop_nil_right : ∀ (s0 : List Nat), mergeLoop s0 [] = .ok s0
  | [] => rfl
  | x :: xs => by rw [mergeLoop, mergeLoop_nil_right xs]; rfl

/-- the merge loop: in bounds, strictly increasing result with exactly the elements of both arrays -/
theorem mergeLoop_spec : ∀ (s0 s1 : List Nat), s0.Pairwise (· < ·) → s1.Pairwise (· < ·) →
    (s1 = [] ∨ ∀ x ∈ s0, ∃ y ∈ s1, x ≤ y) →
    ∃ m, mergeLoop s0 s1 = .ok m ∧ m.Pairwise (· < ·) ∧ ∀ z, z ∈ m ↔ z ∈ s0 ∨ z ∈ s1
  | [], s1, _, h1, _ => ⟨s1, by cases s1 <;> rfl, h1, by simp⟩
  | x :: xs, [], h0, _, _ => ⟨x :: xs, mergeLoop_nil_right _, h0, by simp⟩
  | x :: xs, y :: rest, h0, h1, hc => by
    have hc' : ∀ x' ∈ x :: xs, ∃ z ∈ y :: rest, x' ≤ z := by
      rcases hc with hc | hc
      · simp at hc
      · exact hc
    have hadv := mergeAdvance_eq x (y :: rest) h1 (hc' x (by simp))
    have h0' := List.pairwise_cons.1 h0
    have hr : ((y :: rest).filter (x < ·)).Pairwise (· < ·) := List.Pairwise.filter _ h1
    have hcr : ((y :: rest).filter (x < ·)) = [] ∨ ∀ x' ∈ xs, ∃ z ∈ (y :: rest).filter (x < ·), x' ≤ z := by
      right
      intro x' hx'
      obtain ⟨z, hz, hxz⟩ := hc' x' (by simp [hx'])
      have := h0'.1 x' hx'
      exact ⟨z, by rw [List.mem_filter]; exact ⟨hz, by simp; omega⟩, hxz⟩
    obtain ⟨t, ht, htp, htm⟩ := mergeLoop_spec xs ((y :: rest).filter (x < ·)) h0'.2 hr hcr
    refine ⟨(y :: rest).filter (· < x) ++ x :: t, ?_, ?_, ?_⟩
    · rw [mergeLoop, hadv]
      simp only []
      rw [ht]
    · rw [List.pairwise_append]
      refine ⟨List.Pairwise.filter _ h1, ?_, ?_⟩
      · rw [List.pairwise_cons]
        refine ⟨?_, htp⟩
        intro a ha
        rcases (htm a).1 ha with ha | ha
        · exact h0'.1 a ha
        · rw [List.mem_filter] at ha; simpa using ha.2
      · intro a ha b hb
        rw [List.mem_filter] at ha
        have hax : a < x := by simpa using ha.2
        rcases List.mem_cons.1 hb with rfl | hb
        · exact hax
        · rcases (htm b).1 hb with hb | hb
          · have := h0'.1 b hb; omega
          · rw [List.mem_filter] at hb
            have : x < b := by simpa using hb.2
            omega
    · intro z
      simp only [List.mem_append, List.mem_cons, List.mem_filter, htm]
      constructor
      · rintro (⟨hz, _⟩ | rfl | hz | ⟨hz, _⟩)
        · exact Or.inr hz
        · exact Or.inl (Or.inl rfl)
        · exact Or.inl (Or.inr hz)
        · exact Or.inr hz
      · rintro ((rfl | hz) | hz)
        · exact Or.inr (Or.inl rfl)
        · exact Or.inr (Or.inr (Or.inl hz))
        · by_cases hlt : z < x
          · exact Or.inl ⟨hz, by simpa using hlt⟩
          · by_cases heq : z = x
            · exact Or.inr (Or.inl heq)
            · exact Or.inr (Or.inr (Or.inr ⟨hz, by simp; omega⟩))

/-- two well-formed span arrays of the same column length merge without error into their sorted union -/
theorem merge_wellformed (s0 s1 : List Nat) (n : Nat) (h0 : Wellformed s0 n) (h1 : Wellformed s1 n) :
    ∃ m, getSpansFor2FieldsBySpans s0 s1 = .ok m ∧ m.Pairwise (· < ·) ∧ ∀ z, z ∈ m ↔ z ∈ s0 ∨ z ∈ s1 := by
  apply mergeLoop_spec s0 s1 h0.1 h1.1
  right
  intro x hx
  have hn : n ∈ s1 := by
    have := h1.2.2
    rw [List.getLast?_eq_some_iff] at this
    obtain ⟨ys, hys⟩ := this
    rw [hys]; simp
  exact ⟨n, hn, le_getLast_of_pairwise' s0 n h0.1 h0.2.2 x hx⟩

/-- **merging the span arrays of two columns gives the span array of the zipped column** -/
theorem getSpansFor2FieldsBySpans_eq_spec {α β} [BEq α] [BEq β] (a : List α) (b : List β) (hl : a.length = b.length) :
    getSpansFor2FieldsBySpans (spans neq a) (spans neq b) = .ok (spans neq (a.zip b)) := by
  obtain ⟨m, hm, hp, hmem⟩ := merge_wellformed (spans neq a) (spans neq b) a.length
    (spans_wellformed' neq a) (by rw [hl]; exact spans_wellformed' neq b)
  rw [hm]
  congr 1
  apply pairwise_lt_ext hp (spans_pairwise _ _)
  intro z
  rw [hmem, mem_spans, mem_spans, mem_spans, isBoundary_zip a b hl]
  have hz : (a.zip b).length = a.length := by simp [List.length_zip, hl]
  rw [hz, ← hl]
  simp only [Bool.or_eq_true]
  constructor
  · rintro ((h | h | h) | (h | h | h))
    · exact Or.inl h
    · exact Or.inr (Or.inl h)
    · exact Or.inr (Or.inr (Or.inl h))
    · exact Or.inl h
    · exact Or.inr (Or.inl h)
    · exact Or.inr (Or.inr (Or.inr h))
  · rintro (h | h | h | h)
    · exact Or.inl (Or.inl h)
    · exact Or.inl (Or.inr (Or.inl h))
    · exact Or.inl (Or.inr (Or.inr h))
    · exact Or.inr (Or.inr (Or.inr h))

end Exetera.Spans
