import Exetera.Model.GroupBy
import Exetera.Lemmas.SortIndexPass
import Exetera.Lemmas.SpansScan
/-!
  C07 helper lemmas, part 1: `check_if_sorted_for_multi_fields` is sound and never reads out of bounds; stacking;
  the spans of the stacked (cast) key columns are the spans of the key rows when the casts are faithful.
-/
namespace Exetera.GroupBy
open Exetera Exetera.Spec Exetera.Spans Exetera.SortIndex List

/-- all columns have `n` rows -/
def Rect (n : Nat) (cols : List (List Int)) : Prop := ∀ c ∈ cols, c.length = n

theorem keyAt_eq_of_lt {cols : List (List Int)} {n i : Nat} (h : Rect n cols) (hi : i < n) :
    cols.map (·[i]?) = (keyAt cols i).map some := by
  simp only [keyAt, map_map]
  apply map_congr_left
  intro c hc
  have : i < c.length := by rw [h c hc]; exact hi
  simp [List.getD_eq_getElem?_getD, List.getElem?_eq_getElem this]

/-! ### check_if_sorted_for_multi_fields -/

theorem rowLe_eq (i n : Nat) (h0 : 0 < i) (hi : i < n) : ∀ (fs : List (List Int)), Rect n fs →
    rowLe i fs = .ok (!tupleLt (keyAt fs i) (keyAt fs (i - 1)))
  | [], _ => by simp [rowLe, keyAt, tupleLt]
  | f :: fs, h => by
    have hf : f.length = n := h f (by simp)
    have h1 : i - 1 < f.length := by omega
    have h2 : i < f.length := by omega
    have ih := rowLe_eq i n h0 hi fs (fun c hc => h c (by simp [hc]))
    simp only [rowLe, getE_of_lt _ h1, getE_of_lt _ h2, keyAt_cons, tupleLt_cons]
    simp only [List.getD_eq_getElem?_getD, List.getElem?_eq_getElem h1, List.getElem?_eq_getElem h2, Option.getD_some]
    by_cases hgt : f[i - 1] > f[i]
    · simp [hgt]
    · by_cases hlt : f[i - 1] < f[i]
      · have : ¬ f[i] < f[i - 1] := by omega
        have hne : ¬ f[i] = f[i - 1] := by omega
        simp [hgt, hlt, this, hne]
      · have heq : f[i] = f[i - 1] := by omega
        have : ¬ f[i] < f[i - 1] := by omega
        rw [ih]
        simp [hgt, hlt, this, heq]

theorem checkLoop_spec (fs : List (List Int)) (n : Nat) (h : Rect n fs) : ∀ (k i : Nat), i + k = n → 1 ≤ i →
    ∃ b, checkLoop fs k i = .ok b ∧
      (b = true → ∀ j, i ≤ j → j < n → tupleLt (keyAt fs j) (keyAt fs (j - 1)) = false) ∧
      (b = false → ∃ j, i ≤ j ∧ j < n ∧ tupleLt (keyAt fs j) (keyAt fs (j - 1)) = true)
  | 0, i, hik, _ => ⟨true, rfl, fun _ j h1 h2 => by omega, by simp⟩
  | k + 1, i, hik, h1 => by
    have hrow := rowLe_eq i n (by omega) (by omega) fs h
    obtain ⟨b, hb, hspec, hconv⟩ := checkLoop_spec fs n h k (i + 1) (by omega) (by omega)
    cases hv : tupleLt (keyAt fs i) (keyAt fs (i - 1)) with
    | true =>
      refine ⟨false, ?_, by simp, fun _ => ⟨i, by omega, by omega, hv⟩⟩
      simp [checkLoop, hrow, hv]
    | false =>
      refine ⟨b, ?_, ?_, ?_⟩
      · simp [checkLoop, hrow, hv, hb]
      · intro hbt j hj1 hj2
        by_cases hji : j = i
        · subst hji; exact hv
        · exact hspec hbt j (by omega) hj2
      · intro hbf
        obtain ⟨j, h1', h2', h3'⟩ := hconv hbf
        exact ⟨j, by omega, h2', h3'⟩

/-- adjacent rows in order ⇒ all rows in order -/
theorem sorted_of_adjacent (key : Nat → List Int) (n : Nat)
    (h : ∀ j, 1 ≤ j → j < n → tupleLt (key j) (key (j - 1)) = false) :
    ∀ j i, i < j → j < n → tupleLt (key j) (key i) = false
  | 0, i, hij, _ => by omega
  | j + 1, i, hij, hj => by
    have hstep := h (j + 1) (by omega) hj
    simp only [Nat.add_sub_cancel] at hstep
    by_cases hi : i = j
    · subst hi; exact hstep
    · have := sorted_of_adjacent key n h j i (by omega) (by omega)
      exact tupleLe_trans this hstep

/-- `check_if_sorted_for_multi_fields` on a rectangular array: returns (no out-of-bounds read), `True` exactly if
    the rows are in non-decreasing lexicographic order -/
theorem checkIfSorted_spec (f0 : List Int) (fs : List (List Int)) (n : Nat) (h : Rect n (f0 :: fs)) :
    ∃ b, checkIfSorted (f0 :: fs) = .ok b ∧
      (b = true ↔ ∀ i j, i < j → j < n → tupleLt (keyAt (f0 :: fs) j) (keyAt (f0 :: fs) i) = false) := by
  have h0 : f0.length = n := h f0 (by simp)
  unfold checkIfSorted
  by_cases hn : n = 0
  · refine ⟨true, by simp [h0, hn], ?_⟩
    simp only [true_iff]
    intro i j _ hj; omega
  · have : (f0.length == 0) = false := by simp [h0, hn]
    simp only [this, Bool.false_eq_true, if_false]
    obtain ⟨b, hb, hspec, hconv⟩ := checkLoop_spec (f0 :: fs) n h (f0.length - 1) 1 (by omega) (by omega)
    refine ⟨b, hb, ?_, ?_⟩
    · intro hbt i j hij hj
      exact sorted_of_adjacent (keyAt (f0 :: fs)) n (fun j h1 h2 => hspec hbt j h1 h2) j i hij hj
    · intro hsorted
      cases hbv : b with
      | true => rfl
      | false =>
        obtain ⟨j, h1, h2, h3⟩ := hconv hbv
        have := hsorted (j - 1) j (by omega) h2
        rw [h3] at this; cases this

/-! ### stacking -/

theorem stack_ok (k0 : KeyCol) (ks : List KeyCol) (n : Nat) (h : Rect n ((k0 :: ks).map (·.data))) :
    stack (k0 :: ks) = .ok ((k0 :: ks).map (fun k => k.data.map k.cast)) := by
  unfold stack
  have : ks.all (fun k => k.data.length == k0.data.length) = true := by
    rw [all_eq_true]
    intro k hk
    have h1 : k.data.length = n := h k.data (by simp; exact Or.inr ⟨k, hk, rfl⟩)
    have h2 : k0.data.length = n := h k0.data (by simp)
    simp [h1, h2]
  simp [this]

theorem rect_stacked (keys : List KeyCol) (n : Nat) (h : Rect n (keys.map (·.data))) :
    Rect n (keys.map (fun k => k.data.map k.cast)) := by
  intro c hc
  simp only [mem_map] at hc
  obtain ⟨k, hk, rfl⟩ := hc
  simpa using h k.data (mem_map.2 ⟨k, hk, rfl⟩)

/-- every cast of the key columns preserves `<` (hence `=` and `≠`) on the values of its column -/
def Faithful (keys : List KeyCol) : Prop := ∀ k ∈ keys, CastFaithfulOn k.cast k.data

theorem castFaithful_inj {cast : Int → Int} {data : List Int} (h : CastFaithfulOn cast data) {a b : Int}
    (ha : a ∈ data) (hb : b ∈ data) (hab : cast a = cast b) : a = b := by
  rcases Int.lt_trichotomy a b with hlt | heq | hgt
  · have := h a ha b hb hlt; omega
  · exact heq
  · have := h b hb a ha hgt; omega

theorem castFaithful_lt_iff {cast : Int → Int} {data : List Int} (h : CastFaithfulOn cast data) {a b : Int}
    (ha : a ∈ data) (hb : b ∈ data) : cast a < cast b ↔ a < b := by
  constructor
  · intro hc
    rcases Int.lt_trichotomy a b with hlt | heq | hgt
    · exact hlt
    · subst heq; omega
    · have := h b hb a ha hgt; omega
  · exact h a ha b hb

theorem getD_mem {c : List Int} {i : Nat} (h : i < c.length) : c.getD i 0 ∈ c := by
  simp [List.getD_eq_getElem?_getD, List.getElem?_eq_getElem h]

/-- key tuple of row `i` of the stacked columns -/
theorem keyAt_stacked (keys : List KeyCol) (n i : Nat) (h : Rect n (keys.map (·.data))) (hi : i < n) :
    keyAt (keys.map (fun k => k.data.map k.cast)) i = keys.map (fun k => k.cast (k.data.getD i 0)) := by
  simp only [keyAt, map_map]
  apply map_congr_left
  intro k hk
  have : i < k.data.length := by rw [h k.data (mem_map.2 ⟨k, hk, rfl⟩)]; exact hi
  simp [List.getD_eq_getElem?_getD, List.getElem?_eq_getElem this]

theorem keyAt_data (keys : List KeyCol) (i : Nat) : keyAt (keys.map (·.data)) i = keys.map (fun k => k.data.getD i 0) := by
  simp [keyAt]

/-- comparing stacked rows = comparing key rows, for faithful casts -/
theorem tupleLt_stacked (n : Nat) : ∀ (keys : List KeyCol), Rect n (keys.map (·.data)) → Faithful keys →
    ∀ (i j : Nat), i < n → j < n →
    tupleLt (keys.map (fun k => k.cast (k.data.getD i 0))) (keys.map (fun k => k.cast (k.data.getD j 0))) =
      tupleLt (keys.map (fun k => k.data.getD i 0)) (keys.map (fun k => k.data.getD j 0))
  | [], _, _, _, _, _, _ => rfl
  | k :: ks, hr, hf, i, j, hi, hj => by
    have hk : CastFaithfulOn k.cast k.data := hf k (by simp)
    have hlen : k.data.length = n := hr k.data (by simp)
    have ih := tupleLt_stacked n ks (fun c hc => hr c (by simp at hc ⊢; exact Or.inr hc))
      (fun k' hk' => hf k' (by simp [hk'])) i j hi hj
    simp only [map_cons, tupleLt_cons, ih]
    have ha : k.data.getD i 0 ∈ k.data := getD_mem (by omega)
    have hb : k.data.getD j 0 ∈ k.data := getD_mem (by omega)
    generalize k.data.getD i 0 = a at ha
    generalize k.data.getD j 0 = b at hb
    have h1 := castFaithful_lt_iff hk ha hb
    have h2 : (k.cast a == k.cast b) = (a == b) := by
      by_cases he : a = b
      · simp [he]
      · have : ¬ k.cast a = k.cast b := fun hc => he (castFaithful_inj hk ha hb hc)
        rw [beq_eq_false_iff_ne.2 he, beq_eq_false_iff_ne.2 this]
    rw [h2]
    congr 1
    exact decide_eq_decide.2 h1

theorem eq_stacked (n : Nat) : ∀ (keys : List KeyCol), Rect n (keys.map (·.data)) → Faithful keys →
    ∀ (i j : Nat), i < n → j < n →
    ((keys.map (fun k => k.cast (k.data.getD i 0)) = keys.map (fun k => k.cast (k.data.getD j 0))) ↔
      (keys.map (fun k => k.data.getD i 0) = keys.map (fun k => k.data.getD j 0)))
  | [], _, _, _, _, _, _ => by simp
  | k :: ks, hr, hf, i, j, hi, hj => by
    have hk : CastFaithfulOn k.cast k.data := hf k (by simp)
    have hlen : k.data.length = n := hr k.data (by simp)
    have ih := eq_stacked n ks (fun c hc => hr c (by simp at hc ⊢; exact Or.inr hc))
      (fun k' hk' => hf k' (by simp [hk'])) i j hi hj
    have ha : k.data.getD i 0 ∈ k.data := getD_mem (by omega)
    have hb : k.data.getD j 0 ∈ k.data := getD_mem (by omega)
    simp only [map_cons, cons.injEq, ih]
    constructor
    · rintro ⟨h1, h2⟩; exact ⟨castFaithful_inj hk ha hb h1, h2⟩
    · rintro ⟨h1, h2⟩; exact ⟨by rw [h1], h2⟩

end Exetera.GroupBy
