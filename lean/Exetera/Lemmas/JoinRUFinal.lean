import Exetera.Lemmas.JoinRUDriver
import Exetera.Lemmas.JoinInnerSpec
/-!
  Whole-driver theorems for the two right-unique variants
  (`generate_ordered_map_to_left_right_unique_streamed`, `generate_ordered_map_to_inner_right_unique_streamed`):
  for every sorted left column (runs of equal keys allowed), every duplicate-free sorted right column, every chunk size
  ≥ 1 and every marker, the streamed maps are the relational join. `|L| + |R|` driver iterations always suffice.
-/
namespace Exetera.Join.RU
open Exetera Exetera.Spec Exetera.Join

variable {emit : Bool} {L R : List Int} {cs : Nat} {inv : Int}

/-- initial driver state -/
theorem ru_init_inv (hcs : 0 < cs) :
    ∃ lch rch, fetchChunk (ruvariant emit).ltrim L 0 cs = .ok lch ∧ fetchChunk (ruvariant emit).rtrim R 0 cs = .ok rch ∧
      UMInv emit L R cs inv { lch := lch, rch := rch, k := {} } ∧
      ugmu L R { lch := lch, rch := rch, k := {} } ≤ L.length + R.length := by
  obtain ⟨lch, hl1, hl2, hl3, hl4⟩ := fetchChunk_ok (ruvariant emit).ltrim L 0 cs hcs (Nat.zero_le _)
  obtain ⟨rch, hr1, hr2, hr3, hr4⟩ := fetch_untrimmed_ok R 0 cs hcs (Nat.zero_le _)
  refine ⟨lch, rch, hl1, by rw [ruvariant_rtrim]; exact hr1, ⟨⟨hl3, hr3, hl4 (ruvariant_ltrim emit), hr4, Nat.zero_le _, Nat.zero_le _,
    rfl, Nat.zero_le _, ?_, ?_, ?_⟩, ?_, ?_, rfl⟩, ?_⟩
  · simp [D.I, hl2, rest_zero]
  · simp [D.I, hl2, rest_zero]
  · intro j b a hj; simp [D.J, hr2] at hj
  · intro h; have := hl3.nonempty; simp only [] at h ⊢; omega
  · intro h; have := hr3.nonempty; simp only [] at h ⊢; omega
  · simp only [ugmu, D.I, D.J]; omega

/-- what is known when the main loop stops: if left rows remain, the right column is exhausted below them -/
theorem ru_main_exit {d : D} (hm : UMInv emit L R cs inv d) (hg : mainGuard L R d = false) :
    d.I < L.length → AllBelow L R d.I := by
  have hng : ¬ (d.k.i + d.lch.lo < L.length ∧ d.k.j + d.rch.lo < R.length) := by
    intro h
    have : mainGuard L R d = true := by simp [mainGuard, h.1, h.2]
    rw [this] at hg; cases hg
  intro hI j b a hj hb ha
  have hJ : R.length ≤ d.J := by
    simp only [D.I, D.J] at *
    apply Decidable.byContradiction
    intro hc
    apply hng; constructor <;> omega
  exact hm.g.h1 j b a (by omega) hb ha

/-- both right-unique drivers, uniformly: the buffers written are the (selected) relational left join -/
theorem ru_streamed (hcs : 0 < cs) (hL : Sorted L) (hR : R.Pairwise (· < ·)) (fuel : Nat)
    (hfuel : L.length + R.length ≤ fuel) :
    ∃ calls, streamed (ruvariant emit) fuel cs inv L R =
      .ok ⟨if (ruvariant emit).hasL then encL (sel emit (leftJoin L R)) else [],
           encR inv (sel emit (leftJoin L R)), calls⟩ := by
  have hRs := sorted_of_strict hR
  obtain ⟨lch, rch, hf1, hf2, hm0, hg0⟩ := ru_init_inv (emit := emit) (L := L) (R := R) (inv := inv) hcs
  -- main loop
  obtain ⟨d1, hw1, hm1, hgf1⟩ := whileE_rule (mainGuard L R) (mainBody (ruvariant emit) L R cs inv)
    (UMInv emit L R cs inv) (ugmu L R)
    (fun d hm hg => ru_main_step hcs hL hR d hm hg) fuel _ hm0 (by omega)
  have hbelow := ru_main_exit hm1 hgf1
  have hlb1 : d1.k.lb = [] := by
    have := hm1.g.blen; rw [hm1.flushed] at this; simpa using this
  cases emit with
  | false =>
    have hnil : sel false (rest L R d1.I) = [] := by
      apply sel_false_eq_nil
      exact rest_all_unmatched hL hRs _ _ rfl hbelow
    have hoL := hm1.g.outL
    have hoR := hm1.g.outR
    rw [hnil, hlb1] at hoL
    rw [hnil, hm1.flushed] at hoR
    refine ⟨d1.calls, ?_⟩
    simp only [streamed, hf1, hf2, hw1, bind, Except.bind, pure, Except.pure]
    simp [ruvariant, Variant.isLeft, Variant.hasL] at hoL hoR ⊢
    simp [encL, encR] at hoL hoR
    exact ⟨hoL, hoR⟩
  | true =>
    have ht1 : TTop L R cs inv d1 := by
      refine ⟨⟨hm1.g.lok.lo_le, hm1.g.lok.hi_le, hm1.g.ile, hm1.g.blen, hm1.g.bcap, ?_, ?_, hbelow⟩, hm1.li, hm1.flushed⟩
      · have := hm1.g.outL; simpa [sel] using this
      · have := hm1.g.outR; simpa [sel] using this
    obtain ⟨d2, hw2, ht2, hgf2⟩ := whileE_rule (tailGuard L) (tailBody L R cs inv)
      (TTop L R cs inv) (fun d => L.length - d.I)
      (fun d ht hg => tail_step hcs hL hRs d ht hg) fuel _ ht1 (by omega)
    have hI2 : L.length ≤ d2.I := by
      simp only [tailGuard] at hgf2
      have := of_decide_eq_false hgf2
      simp only [D.I]; omega
    have hoR := ht2.t.outR
    rw [rest_of_ge L R hI2, ht2.flushed] at hoR
    refine ⟨d2.calls, ?_⟩
    simp only [streamed, hf1, hf2, hw1, bind, Except.bind, pure, Except.pure]
    simp [ruvariant, Variant.isLeft, Variant.hasL, hw2, sel] at hoR ⊢
    simp [encR] at hoR
    exact hoR

/-- `generate_ordered_map_to_left_right_unique_streamed` (writes `r_result` only): for every sorted `L` (duplicates
    allowed), duplicate-free sorted `R`, chunk size ≥ 1 and marker, the map written is the relational left join -/
theorem left_right_unique_streamed (hcs : 0 < cs) (hL : Sorted L) (hR : R.Pairwise (· < ·)) (fuel : Nat)
    (hfuel : L.length + R.length ≤ fuel) :
    ∃ calls, streamed .leftRU fuel cs inv L R = .ok ⟨[], encR inv (leftJoin L R), calls⟩ := by
  have := ru_streamed (emit := true) (inv := inv) hcs hL hR fuel hfuel
  simpa [ruvariant, Variant.hasL, sel] using this

/-- `generate_ordered_map_to_inner_right_unique_streamed`: the two maps written are the matched rows of the relational
    left join, in order -/
theorem inner_right_unique_streamed (hcs : 0 < cs) (hL : Sorted L) (hR : R.Pairwise (· < ·)) (fuel : Nat)
    (hfuel : L.length + R.length ≤ fuel) :
    ∃ calls, streamed .innerRU fuel cs inv L R =
      .ok ⟨encL (sel false (leftJoin L R)), encR inv (sel false (leftJoin L R)), calls⟩ := by
  have := ru_streamed (emit := false) (inv := inv) hcs hL hR fuel hfuel
  simpa [ruvariant, Variant.hasL] using this

/-- the same, phrased with the relational inner join of the specification -/
theorem inner_right_unique_streamed_eq (hcs : 0 < cs) (hL : Sorted L) (hR : R.Pairwise (· < ·)) (fuel : Nat)
    (hfuel : L.length + R.length ≤ fuel) :
    ∃ calls, streamed .innerRU fuel cs inv L R =
      .ok ⟨(encodeInner (innerJoin L R)).1, (encodeInner (innerJoin L R)).2, calls⟩ := by
  obtain ⟨calls, h⟩ := inner_right_unique_streamed (inv := inv) hcs hL hR fuel hfuel
  refine ⟨calls, ?_⟩
  rw [h]
  have hspec := inner_eq_sel_left R L 0
  simp only [innerJoin, hspec, leftJoin]
  rw [encR_sel_false inv 0]

/-- the same for the left join, phrased with `encodeLeft` -/
theorem left_right_unique_streamed_eq (hcs : 0 < cs) (hL : Sorted L) (hR : R.Pairwise (· < ·)) (fuel : Nat)
    (hfuel : L.length + R.length ≤ fuel) :
    ∃ calls, streamed .leftRU fuel cs inv L R = .ok ⟨[], (encodeLeft inv (leftJoin L R)).2, calls⟩ :=
  left_right_unique_streamed hcs hL hR fuel hfuel

-- non-vacuity: a left column with runs longer than the chunk, against a duplicate-free right column
example : Sorted [1, 1, 1, 2, 4, 4, 7] ∧ ([1, 3, 4, 5] : List Int).Pairwise (· < ·) ∧ 0 < 2 := by simp [Sorted]
example : (streamed .leftRU 11 2 (-1) [1, 1, 1, 2, 4, 4, 7] [1, 3, 4, 5]).toOption.map (fun o => (o.lout, o.rout)) =
    some ([], (encodeLeft (-1) (leftJoin [1, 1, 1, 2, 4, 4, 7] [1, 3, 4, 5])).2) := by decide
example : (streamed .innerRU 11 1 0 [1, 1, 1, 2, 4, 4, 7] [1, 3, 4, 5]).toOption.map (fun o => (o.lout, o.rout)) =
    some (encodeInner (innerJoin [1, 1, 1, 2, 4, 4, 7] [1, 3, 4, 5])) := by decide

end Exetera.Join.RU
