/-!
  CSV text as written by Python's `csv.writer(f, delimiter=',', lineterminator='\n')` (QUOTE_MINIMAL, doublequote) and as
  read back by a standard CSV parser — the specification side of C18.  Core Lean only.

  * `renderRow` / `render` : the writer. It is the *specified stand-in* for the opaque `csv.writer`; the harness validates it
    against Python's own `csv` module (op `c18_render`).
  * `parse d`              : the reader, a total char-by-char state machine that follows CPython's `_csv.c` reader for the
    default dialect (doublequote, non-strict). Two switches give the two readers the property talks about:
      `Dialect.std`     — `csv.reader(open(p, newline=''))`: a bare `\r` outside quotes ends a record, blanks are kept;
      `Dialect.exetera` — ExeTera's own importer (`fast_csv_reader`): only `\n` ends a record, blanks after a separator
                          or a line end are skipped (Python's `skipinitialspace=True`).
    The harness validates `parse` against `csv.reader` (op `c18_parse`) and against the real importer (re-import cases).
-/
namespace Exetera.Spec.Csv

abbrev Cell := List Char

/-- characters that force quoting: the delimiter, the quote character, and the characters of the line terminator -/
def special (c : Char) : Bool := c == ',' || c == '"' || c == '\n'

/-- double every quote character -/
def escape : List Char → List Char
  | [] => []
  | c :: cs => if c == '"' then '"' :: '"' :: escape cs else c :: escape cs

/-- one field: quoted (with doubled quotes) iff it contains a special character -/
def renderCell (s : Cell) : List Char :=
  if s.any special then '"' :: (escape s ++ ['"']) else s

/-- fields joined by the delimiter -/
def joinCells : List Cell → List Char
  | [] => []
  | [c] => renderCell c
  | c :: cs => renderCell c ++ ',' :: joinCells cs

/-- one record. A record consisting of a single empty field is written as `""` (otherwise the line would be empty). -/
def renderRow (cells : List Cell) : List Char :=
  (if cells = [[]] then ['"', '"'] else joinCells cells) ++ ['\n']

def render (rows : List (List Cell)) : List Char := rows.flatMap renderRow

/-! ### the reader -/

structure Dialect where
  /-- skip blanks at the start of a field (`skipinitialspace`; ExeTera's importer does this) -/
  skipInitialSpace : Bool
  /-- a bare carriage return outside quotes ends the record (universal newlines; ExeTera's importer does not) -/
  crEndsRecord : Bool
  deriving Repr, DecidableEq

def Dialect.std : Dialect := ⟨false, true⟩
def Dialect.exetera : Dialect := ⟨true, false⟩

inductive PS where
  | startRecord | startField | inField | inQuoted | quoteInQuoted | afterCR
  deriving Repr, DecidableEq

structure St where
  /-- completed records, most recent first -/
  recs : List (List Cell)
  /-- completed fields of the current record, most recent first -/
  row : List Cell
  /-- characters of the current field, most recent first -/
  cell : List Char
  ps : PS
  deriving Repr, DecidableEq

def St.init : St := ⟨[], [], [], .startRecord⟩

def isEol (d : Dialect) (c : Char) : Bool := c == '\n' || (d.crEndsRecord && c == '\r')

def eolNext (c : Char) : PS := if c == '\r' then .afterCR else .startRecord

def saveField (s : St) (next : PS) : St := { s with row := s.cell.reverse :: s.row, cell := [], ps := next }

def endRecord (s : St) (next : PS) : St :=
  { recs := (s.cell.reverse :: s.row).reverse :: s.recs, row := [], cell := [], ps := next }

def addChar (s : St) (c : Char) (next : PS) : St := { s with cell := c :: s.cell, ps := next }

def stepStartField (d : Dialect) (s : St) (c : Char) : St :=
  if isEol d c then endRecord s (eolNext c)
  else if c == '"' then { s with ps := .inQuoted }
  else if c == ' ' && d.skipInitialSpace then { s with ps := .startField }
  else if c == ',' then saveField s .startField
  else addChar s c .inField

/-- at the start of a record an end of line yields an empty record (Python's reader returns `[]` for a blank line) -/
def stepStartRecord (d : Dialect) (s : St) (c : Char) : St :=
  if isEol d c then { s with recs := [] :: s.recs, ps := eolNext c } else stepStartField d s c

def step (d : Dialect) (s : St) (c : Char) : St :=
  match s.ps with
  | .startRecord => stepStartRecord d s c
  | .afterCR => if c == '\n' then { s with ps := .startRecord } else stepStartRecord d s c
  | .startField => stepStartField d s c
  | .inField =>
    if isEol d c then endRecord s (eolNext c)
    else if c == ',' then saveField s .startField
    else addChar s c .inField
  | .inQuoted => if c == '"' then { s with ps := .quoteInQuoted } else addChar s c .inQuoted
  | .quoteInQuoted =>
    if c == '"' then addChar s c .inQuoted
    else if c == ',' then saveField s .startField
    else if isEol d c then endRecord s (eolNext c)
    else addChar s c .inField

def run (d : Dialect) (s : St) (cs : List Char) : St := cs.foldl (step d) s

/-- end of input: an unfinished record is flushed -/
def finish (s : St) : List (List Cell) :=
  match s.ps with
  | .startRecord | .afterCR => s.recs.reverse
  | _ => (endRecord s .startRecord).recs.reverse

def parse (d : Dialect) (text : List Char) : List (List Cell) := finish (run d St.init text)

/-- what a reader of dialect `d` makes of a cell written by `renderCell`: unquoted leading blanks are lost when the
    reader skips initial space -/
def asRead (d : Dialect) (c : Cell) : Cell :=
  if d.skipInitialSpace && !c.any special then c.dropWhile (· == ' ') else c

end Exetera.Spec.Csv
