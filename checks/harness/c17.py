"""C17 — snapshot journalling keeps all history and appends only changed/new records.
Correspondence: journal.journal_table on HDF5-backed (BytesIO) dataframes, and the ops.* journalling kernels called one after
the other on sorted columns,  vs  Exetera.Journal.journalTable / journalIndices+compareCols+mergeCols (Lean).
Oracle for the property itself: the Python rendering of Spec.Journal.plan below (per key ascending: the old versions in
(j_valid_from, physical row) order, then the snapshot's row iff the key is new or the row differs from the last old version)."""
import itertools

PROPERTY = "C17"
LEVEL = "proof"
LEAN_MODULES = ["Exetera.Props.C17"]
THEOREMS = []  # filled from checks/obligations/C17.json
EXHAUSTIVE = {"quick": True, "thorough": True}
MODES = {"quick": ["jit"], "thorough": ["jit", "nojit", "bounds"], "search": ["jit", "nojit"]}
CASE_TIMEOUT = 60
RULE = ("exhaustive: every old key column over 3 keys with 0-3 versions per key and at most n rows (quick n=3, thorough n=5) in "
        "every physical order x every snapshot over the 3 keys (unique keys, every subset in every order) x payload variants (quick: one per pair, rotating) "
        "(one numeric and one indexed-string column; per key the snapshot row equals the latest old version / differs in the "
        "numeric column only / in the string column only; j_valid_from increasing with, reversed against, or tied across the "
        "physical order), through journal_table on HDF5 dataframes; plus the kernels called directly on every sorted pair of key "
        "columns with at most 5 (thorough 6) old rows; "
        "plus seeded random tables (up to 40 rows, 1-4 compared columns of int32/int64 (thorough also int8/float64)/indexed string incl. empty "
        "and multi-byte strings, int64 and fixed-string keys). Non-trivial = at least one key with >=1 old version that is also "
        "in the snapshot AND (a key only in old or only in new or a kept changed row); distinct = distinct canonical case.")
ASSUMPTIONS = ["np.argsort(kind='stable') is a stable sort; numpy fancy indexing / Field.apply_index permute rows (C09)",
               "IndexedStringField stores (offsets, bytes) with offsets[0]=0 and non-decreasing offsets (C01)",
               "numpy/numba compare int64 and fixed-length byte-string keys as the total order the model uses on Int",
               "the snapshot's keys are unique (the property's quantifier); float payloads are integer-valued or NaN, and a NaN "
               "cell is shown to the model as one more value equal to itself (the behaviour after fix NC17a)",
               "hand-written Lean model validated by this differential run, not verified against the Python text"]
TRUSTED = ["Lean 4.33 kernel", "axioms: propext, Classical.choice, Quot.sound only (audited per theorem)",
           "checks/harness/c17.py generators and comparison", "Lean model Exetera/Model/Journal.lean mirrors operations.py / journal.py by hand",
           "h5py/HDF5 (BytesIO) stores what is written"]
TECHNIQUE = "Lean 4 theorems about an executable model + differential execution of model and real code"
LEVEL_TEXT = ("Proved in Lean for all inputs (12 theorems, Props/C17.lean): the index generator is memory-safe and terminates on every "
              "pair of key columns, and on ascending old keys / strictly ascending snapshot keys returns one slot per distinct key of "
              "old+new in ascending order (last old row or -1, snapshot row or -1); after the compare loop over any non-empty list of "
              "numeric and indexed fields to_keep is true exactly for new keys and for snapshot rows differing from the last old "
              "version in some compared field; the numeric and the indexed merge kernels (with the count kernel sizing the value "
              "buffer) write exactly the rows of the specification's plan - all versions of a key in order, then the kept snapshot "
              "row - with no out-of-bounds access; every result field has len(old)+count(to_keep) rows and all fields follow the "
              "same plan (rows aligned); keys absent from the snapshot keep their history; and journal_table's model, including its "
              "two stable sorts, equals the per-key specification for tables in ANY physical order with unique snapshot keys. "
              "The model is tied to exetera by differential execution (exhaustive small scope + seeded random, JIT / interpreted / "
              "bounds-checked).")
LEVEL_NOTE = ("'original order' of a key's old versions is read as (j_valid_from, physical row) order, which is what journal_table "
              "sorts by (theorem history_order); for tables whose versions are physically in j_valid_from order (every table produced "
              "by journalling) this is the literal physical order. The result frame holds only the compared fields (no key / "
              "j_valid_* columns), which the property does not demand. Values are Int in the model: float NaN cells are covered by the "
              "correspondence only (NC17a: before the fix NaN != NaN made an unchanged record reappear). np.argsort(kind='stable'), "
              "fancy indexing and the indexed-string layout are modelled externals.")
EXPLANATION = ""

STRS = ["", "a", "b", "ab", "ba", "abc", "é", "aé", "zz z"]
NUM_DTYPES = ["int32", "int64", "int8", "float64"]
NAN = 1000003        # how a NaN cell (JSON null in a float64 column) is shown to the model: one more value, equal to itself


# ------------------------------------------------------------------------------------------------------------------
# generators
# ------------------------------------------------------------------------------------------------------------------

def sbytes(s):
    return list(s.encode("utf-8"))


def multiset_perms(counts):
    """all distinct sequences with counts[k] copies of key k"""
    base = [k for k, c in enumerate(counts) for _ in range(c)]
    return sorted(set(itertools.permutations(base)))


def old_key_seqs(nmax):
    out = []
    for counts in itertools.product(range(4), repeat=3):
        if sum(counts) <= nmax:
            out.extend(list(p) for p in multiset_perms(counts))
    return out


def new_key_seqs():
    out = []
    for r in range(4):
        for sub in itertools.combinations(range(3), r):
            out.extend(list(p) for p in itertools.permutations(sub))
    return out


def build_table_case(old_ids, new_ids, variant, vf_mode, n, kdtype="int64", dtypes=("int32",)):
    """payloads: version v (in physical order) of key k carries num = 20*k + v, str = STRS[(k+v) % len]; the snapshot row of
    key k equals the latest old version except as `variant` (a per-key digit 0 same,1 num differs,2 str differs) says."""
    m = len(old_ids)
    if vf_mode == 0:
        vf = list(range(1, m + 1))                    # physical order is time order
    elif vf_mode == 1:
        vf = list(range(m, 0, -1))                    # physical order is reversed time order
    else:
        vf = [1 + (i % 2) for i in range(m)]          # ties: stable order decides
    onum = [20 * k + i for i, k in enumerate(old_ids)]
    ostr = [STRS[(k + i) % len(STRS)] for i, k in enumerate(old_ids)]
    order = sorted(range(m), key=lambda r: (old_ids[r], vf[r], r))
    latest = {}
    for r in order:
        latest[old_ids[r]] = r
    nnum, nstr = [], []
    for k in new_ids:
        var = variant[k]
        if k in latest:
            a, b = onum[latest[k]], ostr[latest[k]]
        else:
            a, b = 20 * k + 15, STRS[(k + 5) % len(STRS)]
        if var == 1:
            a += 7
        if var == 2:
            b = b + "x"
        nnum.append(a)
        nstr.append(b)
    return {"op": "journal_table", "old_ids": list(old_ids), "old_vf": vf, "new_ids": list(new_ids), "kdtype": kdtype,
            "cols": [{"kind": "num", "dtype": dtypes[0], "o": onum, "n": nnum},
                     {"kind": "str", "o": [sbytes(s) for s in ostr], "n": [sbytes(s) for s in nstr]}], "_n": n}


def gen_cases(tier, rng):
    cases = []
    from checks import corpus
    cases.extend(corpus.load("C17"))
    news = new_key_seqs()
    variants = [(0, 0, 0), (1, 0, 2), (2, 1, 0), (0, 2, 1)]
    # journal_table on HDF5 dataframes: every physical order of the old table and of the snapshot
    cnt = pair = 0
    dts = NUM_DTYPES[:2] if tier == "quick" else NUM_DTYPES      # every dtype is one more numba specialisation per worker
    for o in old_key_seqs(3 if tier == "quick" else 5):
        for nw in news:
            pair += 1
            for vi, var in enumerate(variants):
                if tier == "quick" and vi != pair % 4:
                    continue        # quick: one of the four payload variants per pair, rotating
                cnt += 1
                cases.append(build_table_case(o, nw, var, cnt % 3, cnt, kdtype="S2" if cnt % 5 == 0 else "int64",
                                              dtypes=(dts[cnt % len(dts)],)))
    # the kernels called directly on sorted columns (as tests/test_operations.py does)
    nk = 0
    for o in old_key_seqs(5 if tier == "quick" else 6):
        so = sorted(o)
        if so != list(o):
            continue
        for nw in news:
            sn = sorted(nw)
            if sn != list(nw):
                continue
            for var in variants:
                nk += 1
                c = build_table_case(so, sn, var, 0, nk)
                cases.append({"op": "journal_kernels", "old": so, "new": sn, "cols": c["cols"], "_n": nk})
    # seeded random: kernels incl. keys outside the precondition, then whole tables
    for t in range(600 if tier == "quick" else 6000):
        cases.append(rand_kernel_case(rng, t))
    for t in range(150 if tier == "quick" else 5000):
        cases.append(rand_table_case(rng, t, dts))
    return cases


def rand_payload(rng, kind):
    if kind == "str":
        return sbytes(rng.choice(STRS) + rng.choice(["", "", "q", "ü"]))
    return rng.randrange(-3, 4)


def rand_cols(rng, old_ids, new_ids, old_order, dts=NUM_DTYPES):
    """random compared columns; the snapshot row of a key already in old is, with probability 1/2, a copy of the latest version"""
    ncols = rng.choice([1, 1, 2, 2, 3, 4])
    kinds = [rng.choice(["num", "str"]) for _ in range(ncols)]
    latest = {}
    for r in old_order:
        latest[old_ids[r]] = r
    cols = []
    for kind in kinds:
        o = [rand_payload(rng, kind) for _ in old_ids]
        cols.append({"kind": kind, "o": o, "n": [0] * len(new_ids)})
        if kind == "num":
            cols[-1]["dtype"] = rng.choice(dts)
            if cols[-1]["dtype"] == "float64":
                cols[-1]["o"] = [None if rng.random() < 0.3 else v for v in o]      # NaN cells
    for j, k in enumerate(new_ids):
        same = k in latest and rng.random() < 0.5
        diffcol = rng.randrange(ncols)
        for ci, c in enumerate(cols):
            if same:
                c["n"][j] = c["o"][latest[k]]
            elif k in latest and ci != diffcol:
                c["n"][j] = c["o"][latest[k]]         # differences confined to one column
            else:
                v = rand_payload(rng, c["kind"])
                if c.get("dtype") == "float64" and rng.random() < 0.3:
                    v = None
                if k in latest and v == c["o"][latest[k]]:
                    v = (v + [120]) if c["kind"] == "str" else (5 if v is None else v + 1)
                c["n"][j] = v
    return cols


def rand_table_case(rng, t, dts=NUM_DTYPES):
    nkeys = rng.choice([1, 2, 3, 5, 8, 12])
    keys = rng.sample(range(0, 60), nkeys + 3)
    old_ids = []
    for k in keys[:nkeys]:
        old_ids.extend([k] * rng.choice([1, 1, 2, 3, 4]))
    if rng.random() < 0.1:
        old_ids = []
    rng.shuffle(old_ids)
    old_ids = old_ids[:40]
    pool = keys[:]
    new_ids = rng.sample(pool, rng.randrange(0, len(pool) + 1))
    dup = rng.random() < 0.04 and len(new_ids) >= 1
    if dup:
        new_ids.insert(rng.randrange(len(new_ids) + 1), rng.choice(new_ids))   # outside the property's quantifier
    m = len(old_ids)
    mode = rng.randrange(3)
    vf = [rng.randrange(1, 4) for _ in range(m)] if mode == 0 else (list(range(m)) if mode == 1 else [5] * m)
    order = sorted(range(m), key=lambda r: (old_ids[r], vf[r], r))
    return {"op": "journal_table", "old_ids": old_ids, "old_vf": vf, "new_ids": new_ids,
            "kdtype": "S2" if rng.random() < 0.2 else "int64", "cols": rand_cols(rng, old_ids, new_ids, order, dts),
            "_n": t, "_rand": True}


def rand_kernel_case(rng, t):
    old = sorted(rng.choice(range(8)) for _ in range(rng.randrange(0, 12)))
    new = sorted(rng.sample(range(10), rng.randrange(0, 7)))
    r = rng.random()
    if r < 0.15 and len(old) > 1:
        rng.shuffle(old)                               # unsorted old: outside the precondition, model must still agree
    elif r < 0.3 and new:
        new.insert(rng.randrange(len(new) + 1), rng.choice(new))   # duplicate / unsorted new
    cols = rand_cols(rng, old, new, list(range(len(old))), NUM_DTYPES)
    for c in cols:
        if c.get("dtype") != "float64":
            c.pop("dtype", None)
    return {"op": "journal_kernels", "old": old, "new": new, "cols": cols, "_n": t, "_rand": True}


# ------------------------------------------------------------------------------------------------------------------
# implementation (runs in worker processes)
# ------------------------------------------------------------------------------------------------------------------
_S = {}


def _env():
    if not _S:
        import numpy as np
        from io import BytesIO
        from exetera.core import operations as ops, journal
        from exetera.core.session import Session
        _S.update(np=np, ops=ops, journal=journal, s=Session(), BytesIO=BytesIO, n=0)
    return _S


class _Schema:
    def __init__(self, names):
        self.fields = {n: None for n in names}


def _write_table(e, df, ids, vf, cols, side, kdtype, drop=()):
    np, s = e["np"], e["s"]
    if "id" not in drop:
        if kdtype == "S2":
            s.create_fixed_string(df, "id", 2).data.write(np.array([b"%02d" % x for x in ids], dtype="S2"))
        else:
            s.create_numeric(df, "id", "int64").data.write(np.array(ids, dtype="int64"))
    if "j_valid_from" not in drop:
        s.create_timestamp(df, "j_valid_from").data.write(np.array(vf, dtype="float64"))
    if "j_valid_to" not in drop:
        s.create_timestamp(df, "j_valid_to").data.write(np.array([9e9] * len(ids), dtype="float64"))
    for ci, c in enumerate(cols):
        name = "c%d" % ci
        if c["kind"] == "num":
            dt = c.get("dtype", "int32")
            s.create_numeric(df, name, dt).data.write(np.array([np.nan if x is None else x for x in c[side]], dtype=dt))
        else:
            s.create_indexed_string(df, name).data.write([bytes(b).decode("utf-8") for b in c[side]])


def impl_table(case):
    e = _env()
    np, s, journal = e["np"], e["s"], e["journal"]
    e["n"] += 1
    name = "d%d" % e["n"]
    ds = s.open_dataset(e["BytesIO"](), "w", name)
    try:
        o, n, r = ds.create_dataframe("o"), ds.create_dataframe("n"), ds.create_dataframe("r")
        cols = case["cols"]
        kd = case.get("kdtype", "int64")
        _write_table(e, o, case["old_ids"], case["old_vf"], cols, "o", kd, case.get("drop_old", ()))
        _write_table(e, n, case["new_ids"], [99.0] * len(case["new_ids"]), cols, "n", kd, case.get("drop_new", ()))
        if case.get("extra"):                       # fields present on one side only are not journalled
            s.create_numeric(o, "zo", "int32").data.write(np.array([1] * len(case["old_ids"]), dtype="int32"))
            s.create_numeric(n, "zn", "int32").data.write(np.array([2] * len(case["new_ids"]), dtype="int32"))
        names = ["id"] + ["c%d" % ci for ci in range(len(cols))] + (["zo", "zn"] if case.get("extra") else [])
        if case.get("_n", 0) % 4 == 2 and cols and case["new_ids"] and not case.get("drop_old") and not case.get("drop_new"):
            # a refused call on the same objects first: a snapshot whose last column is one row short (journal_table raises);
            # the valid call below, into the same result frame, must not notice
            import copy
            bad = copy.deepcopy(cols)
            bad[-1]["n"] = bad[-1]["n"][:-1]
            nb = ds.create_dataframe("nb")
            _write_table(e, nb, case["new_ids"], [99.0] * len(case["new_ids"]), bad, "n", kd)
            try:
                journal.journal_table(s, _Schema(names), o, nb, "id", r)
                refused = False
            except Exception:  # noqa
                refused = True
            if not refused:                         # tolerated (nothing differed in the missing row): start from a fresh frame
                r = ds.create_dataframe("r2")
        journal.journal_table(s, _Schema(names), o, n, "id", r)
        out = []
        for ci, c in enumerate(cols):
            f = r["c%d" % ci]
            if c["kind"] == "num":
                d = f.data[:]
                out.append({"kind": "num", "d": [None if x != x else int(x) for x in d.tolist()], "len": len(f.data)})
            else:
                out.append({"kind": "str", "i": [int(x) for x in f.indices[:].tolist()],
                            "v": [int(x) for x in f.values[:].tolist()], "len": len(f.data)})
        return {"cols": out, "names": sorted(r.keys())}
    finally:
        s.close_dataset(name)


def _encode(np, rows):
    inds = [0]
    vals = []
    for b in rows:
        vals.extend(b)
        inds.append(len(vals))
    return np.array(inds, dtype="int64"), np.array(vals, dtype="uint8")


def impl_kernels(case):
    e = _env()
    np, ops = e["np"], e["ops"]
    old = np.array(case["old"], dtype="int64")
    new = np.array(case["new"], dtype="int64")
    om, nm = ops.ordered_generate_journalling_indices(old, new)
    tk = np.zeros(len(om), dtype=bool)
    arrs = []
    for c in case["cols"]:
        if c["kind"] == "num":
            dt = c.get("dtype", "int64")
            a = tuple(np.array([np.nan if x is None else x for x in c[side]], dtype=dt) for side in ("o", "n"))
            ops.compare_rows_for_journalling(om, nm, a[0], a[1], tk)
        else:
            oi, ov = _encode(np, c["o"])
            ni, nv = _encode(np, c["n"])
            a = (oi, ov, ni, nv)
            ops.compare_indexed_rows_for_journalling(om, nm, oi, ov, ni, nv, tk)
        arrs.append(a)
    merged = len(old) + int(tk.sum())
    out = []
    for c, a in zip(case["cols"], arrs):
        if c["kind"] == "num":
            dest = np.zeros(merged, dtype=a[0].dtype)
            ops.merge_journalled_entries(om, nm, tk, a[0], a[1], dest)
            out.append({"kind": "num", "d": [None if x != x else int(x) for x in dest.tolist()]})
        else:
            di = np.zeros(merged + 1, dtype="int64")
            cnt = ops.merge_indexed_journalled_entries_count(om, nm, tk, a[0], a[2])
            dv = np.zeros(int(cnt), dtype="uint8")
            ops.merge_indexed_journalled_entries(om, nm, tk, a[0], a[1], a[2], a[3], di, dv)
            out.append({"kind": "str", "i": di.tolist(), "v": dv.tolist()})
    return {"om": om.tolist(), "nm": nm.tolist(), "tk": [bool(x) for x in tk.tolist()], "cols": out}


def impl(case):
    return impl_table(case) if case["op"] == "journal_table" else impl_kernels(case)


def to_model(case):
    c = {k: v for k, v in case.items() if not k.startswith("_")}
    c["cols"] = [dict(col, o=[NAN if x is None else x for x in col["o"]], n=[NAN if x is None else x for x in col["n"]])
                 if col["kind"] == "num" else col for col in case["cols"]]
    return c


# ------------------------------------------------------------------------------------------------------------------
# the property's oracle (Python rendering of Spec/Journal.lean)
# ------------------------------------------------------------------------------------------------------------------

def spec_plan(okeys, ovf, nkeys, cols):
    """per key ascending: ('o', r) for its old rows in (valid_from, physical) order, then ('n', j) iff the key is new or the
    snapshot row differs from the last old version in some compared column"""
    plan = []
    for k in sorted(set(okeys) | set(nkeys)):
        hist = sorted((r for r in range(len(okeys)) if okeys[r] == k), key=lambda r: (ovf[r], r))
        plan.extend(("o", r) for r in hist)
        js = [j for j in range(len(nkeys)) if nkeys[j] == k]
        if js:
            j = js[0]
            if not hist or any(c["o"][hist[-1]] != c["n"][j] for c in cols):
                plan.append(("n", j))
    return plan


def in_scope(case):
    nk = case["new_ids"] if case["op"] == "journal_table" else case["new"]
    if len(set(nk)) != len(nk):
        return False
    if case["op"] == "journal_kernels":
        return case["old"] == sorted(case["old"]) and nk == sorted(nk)
    return not case.get("drop_old") and not case.get("drop_new")


def decode_str(col):
    i, v = col["i"], col["v"]
    if not i or i[0] != 0 or any(a > b for a, b in zip(i, i[1:])) or i[-1] != len(v):
        return None
    return [v[a:b] for a, b in zip(i, i[1:])]


_CONFIRMED = {}


def _confirm(case, io):
    """A worker that is still compiling the numba kernels on a loaded machine can exceed the pool's stall limit and report
    'hang' for a case that does not spin (every loop of journal_table is bounded). Such a result is re-run once, in this
    process, with a generous limit; a real spin stays a 'hang'."""
    if io.get("err") != "hang":
        return io
    import json
    import signal
    import sys
    import os
    key = json.dumps({k: v for k, v in case.items() if not k.startswith("_")}, sort_keys=True)
    if key not in _CONFIRMED:
        repo = os.environ.get("EXETERA_REPO", "/repo")
        if repo not in sys.path:
            sys.path.insert(0, repo)

        def _alarm(signum, frame):
            raise TimeoutError()
        old = signal.signal(signal.SIGALRM, _alarm)
        signal.setitimer(signal.ITIMER_REAL, 600)
        try:
            _CONFIRMED[key] = impl(case)
        except TimeoutError:
            _CONFIRMED[key] = io
        except Exception as e:  # noqa
            from checks.worker import classify as _classify
            _CONFIRMED[key] = {"err": _classify(e), "msg": str(e)[:200]}
        finally:
            signal.setitimer(signal.ITIMER_REAL, 0)
            signal.signal(signal.SIGALRM, old)
    return _CONFIRMED[key]


def check_spec(case, io, mode):
    io = _confirm(case, io)
    if not in_scope(case) or not case["cols"]:
        return None
    if "err" in io:
        return f"raised {io['err']} ({io.get('msg', '')}) instead of journalling the tables"
    if case["op"] == "journal_table":
        okeys, ovf, nkeys = case["old_ids"], case["old_vf"], case["new_ids"]
        want_names = sorted("c%d" % ci for ci in range(len(case["cols"])))
        if io["names"] != want_names:
            return f"result fields {io['names']} != compared fields {want_names}"
    else:
        okeys, nkeys = case["old"], case["new"]
        ovf = [0] * len(okeys)
    plan = spec_plan(okeys, ovf, nkeys, case["cols"])
    lens = set()
    for ci, (c, oc) in enumerate(zip(case["cols"], io["cols"])):
        want = [c["o"][r] if side == "o" else c["n"][r] for side, r in plan]
        if oc["kind"] == "num":
            got = oc["d"]
        else:
            got = decode_str(oc)
            if got is None:
                return f"column {ci}: malformed indexed output indices={oc['i']} values={oc['v']}"
        lens.add(len(got))
        if "len" in oc and oc["len"] != len(got):
            return f"column {ci}: field length {oc['len']} != {len(got)} rows read"
        if got != want:
            return f"column {ci}: rows differ from the journal specification: got {got} expected {want}"
    if len(lens) > 1:
        return f"output columns have different lengths {sorted(lens)}"
    return None


def compare(case, io, mo, mode):
    io = _confirm(case, io)
    if case.get("drop_old") or case.get("drop_new"):
        return None if io.get("err") == "key_error" else f"expected KeyError, got {io}"
    if "err" in io or "err" in mo:
        a, b = io.get("err"), mo.get("err")
        return None if a == b else f"impl err={a} ({io.get('msg', '')}) model err={b}"
    m = mo["ok"]
    for key in ("om", "nm", "tk"):
        if key in m and io.get(key) != m[key]:
            return f"{key}: impl {io.get(key)} model {m[key]}"
    if len(io["cols"]) != len(m["cols"]):
        return f"impl has {len(io['cols'])} columns, model {len(m['cols'])}"
    for ci, (a, b) in enumerate(zip(io["cols"], m["cols"])):
        if "d" in a:
            a = dict(a, d=[NAN if x is None else x for x in a["d"]])
        for key in ("kind", "d", "i", "v"):
            if a.get(key) != b.get(key):
                return f"column {ci} {key}: impl {a.get(key)} model {b.get(key)}"
    return None


def match_finding(case, io, mode):
    """NC17a: a float field that is NaN both in the latest old version and in the snapshot row of the same key"""
    if "err" in io or not in_scope(case):
        return None
    if case["op"] == "journal_table":
        okeys, ovf, nkeys = case["old_ids"], case["old_vf"], case["new_ids"]
    else:
        okeys, nkeys = case["old"], case["new"]
        ovf = [0] * len(okeys)
    for j, k in enumerate(nkeys):
        hist = sorted((r for r in range(len(okeys)) if okeys[r] == k), key=lambda r: (ovf[r], r))
        if hist and any(c["kind"] == "num" and c["o"][hist[-1]] is None and c["n"][j] is None for c in case["cols"]):
            return "NC17a"
    return None


def _keys(case):
    if case["op"] == "journal_table":
        return case["old_ids"], case["new_ids"]
    return case["old"], case["new"]


def nontrivial(case, mo):
    if not in_scope(case) or not case["cols"]:
        return False
    o, n = _keys(case)
    so, sn = set(o), set(n)
    return bool(so & sn) and bool((so - sn) or (sn - so))


def classify(case, mo):
    o, n = _keys(case)
    tags = [case["op"]]
    so, sn = set(o), set(n)
    if not in_scope(case):
        tags.append("outside-quantifier")
    if not o:
        tags.append("empty-old")
    if not n:
        tags.append("empty-new")
    if so - sn:
        tags.append("key-only-in-old")
    if sn - so:
        tags.append("key-only-in-new")
    if so & sn:
        tags.append("common-key")
    if o and max(o.count(k) for k in so) > 1:
        tags.append("multi-version")
    if case["op"] == "journal_table":
        if list(o) != sorted(o):
            tags.append("old-physically-unsorted")
        if case.get("kdtype") == "S2":
            tags.append("string-keys")
    kinds = {c["kind"] for c in case["cols"]}
    for k in sorted(kinds):
        tags.append("col-" + k)
    if mo and "err" in mo:
        tags.append("model-err:" + mo["err"])
    return tags


def select_for_mode(case, mode, tier):
    o, n = _keys(case)
    if not in_scope(case) and mode == "bounds" and case["op"] == "journal_kernels":
        return True
    return len(o) + len(n) <= 12 and case.get("_n", 0) % (7 if case["op"] == "journal_table" else 2) == 0


# the translated kernels of this property (Gen/Kernels.lean) are run against the real compiled kernels as well
from checks.harness import genkernels  # noqa: E402
genkernels.install(globals(), "C17")
