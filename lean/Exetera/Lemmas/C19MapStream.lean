import Exetera.Lemmas.C19StreamDriver
/-!
  C19, legacy streamed mapper `ordered_map_valid_stream_old` + `ordered_map_valid_partial_old`: for every chunk size ≥ 1
  and every in-range map whose valid entries do not decrease (the map of a left join against a duplicate-free right
  column), the column written is `Spec.mapSpec` — the value `map_valid` returns (`MapValid.mapValid_mapSpec`).

  The marker must not be a row number of the source (`inv < 0 ∨ len(data) ≤ inv`; `INVALID_INDEX = 1 << 62` in
  `Session`): the driver fetches the next data chunk when the last map entry it looked at is `≥ df_range[1]` and
  `< len(data)` without testing it against the marker.
-/
namespace Exetera.JoinOld
open Exetera Exetera.Spec Exetera.Join Exetera.MapValid

/-- the data view `dfc = data[d : d + len(dfc)]` -/
structure DWin {α} (data : List α) (d : Nat) (dfc : List α) : Prop where
  le : d + dfc.length ≤ data.length
  get : ∀ k, k < dfc.length → dfc[k]? = data[d + k]?

/-- **one `ordered_map_valid_partial_old` call** from any position: it appends the mapped values of a prefix of the rest
    of the map chunk; either the whole rest is consumed (and the last entry looked at is the marker or a row of the data
    view) or it stops at a valid entry beyond the data view and returns it. No out-of-bounds access. -/
theorem partialOldMapFrom_spec {α} (data : List α) (d : Nat) (dfc : List α) (inv : Int) (zero : α) (cap : Nat)
    (hw : DWin data d dfc) :
    ∀ (vs : List Int) (acc : List α) (last : Int),
      (∀ v ∈ vs, v ≠ inv → (d : Int) ≤ v ∧ v < data.length) → acc.length + vs.length ≤ cap →
      ∃ ys last', partialOldMapFrom d dfc inv zero cap vs acc last = .ok (acc ++ ys, last') ∧
        ys.length ≤ vs.length ∧ mapSpec data inv zero (vs.take ys.length) = some ys ∧
        ((ys.length = vs.length ∧ (vs = [] → last' = last) ∧
            (vs ≠ [] → last' = inv ∨ last' < ((d + dfc.length : Nat) : Int))) ∨
          (∃ v, vs[ys.length]? = some v ∧ v ≠ inv ∧ ((d + dfc.length : Nat) : Int) ≤ v ∧ last' = v)) := by
  intro vs
  induction vs with
  | nil =>
    intro acc last _ _
    exact ⟨[], last, by simp [partialOldMapFrom], Nat.le_refl _, rfl, Or.inl ⟨rfl, fun _ => rfl, fun h => absurd rfl h⟩⟩
  | cons v vs ih =>
    intro acc last hr hcap
    have hcap' : acc.length + 1 + vs.length ≤ cap := by simp only [List.length_cons] at hcap; omega
    have hr' : ∀ v' ∈ vs, v' ≠ inv → (d : Int) ≤ v' ∧ v' < data.length := fun v' hv' => hr v' (by simp [hv'])
    by_cases hvi : v = inv
    · -- marker row: the buffer's zero
      have hne : (v != inv) = false := by simp [hvi]
      obtain ⟨ys, last', hrun, hle, hspec, hcase⟩ := ih (acc ++ [zero]) v hr' (by simpa using hcap')
      refine ⟨zero :: ys, last', ?_, by simp only [List.length_cons]; omega, ?_, ?_⟩
      · simp only [partialOldMapFrom, hne, Bool.false_eq_true, if_false, hrun]
        simp
      · have hl : lookup data inv zero v = some zero := by simp [lookup, hvi]
        simp only [List.length_cons, List.take_succ_cons, mapSpec, hl, hspec]
      · rcases hcase with ⟨h1, h2, h3⟩ | ⟨w, h1, h2, h3, h4⟩
        · refine Or.inl ⟨by simp only [List.length_cons]; omega, fun h => by simp at h, fun _ => ?_⟩
          by_cases hvs : vs = []
          · exact Or.inl (by rw [h2 hvs, hvi])
          · exact h3 hvs
        · exact Or.inr ⟨w, by simpa using h1, h2, h3, h4⟩
    · have hne : (v != inv) = true := by simpa using hvi
      by_cases hbig : v ≥ ((d + dfc.length : Nat) : Int)
      · -- needs the next data chunk
        refine ⟨[], v, ?_, Nat.zero_le _, rfl, Or.inr ⟨v, by simp, hvi, hbig, rfl⟩⟩
        simp only [partialOldMapFrom, hne, if_true, hbig]
        simp
      · obtain ⟨hdv, hvd⟩ := hr v (by simp) hvi
        have hlt : v - (d : Int) < (dfc.length : Int) := by omega
        obtain ⟨x, hx1, hx2⟩ := getI_row dfc (v - (d : Int)) "data_field[val - d]" (by omega) hlt
        have hk : (v - (d : Int)).toNat < dfc.length := by omega
        have hx3 : data[v.toNat]? = some x := by
          rw [← hx1, hw.get _ hk]
          congr 1
          omega
        have hacc : acc.length < cap := by omega
        obtain ⟨ys, last', hrun, hle, hspec, hcase⟩ := ih (acc ++ [x]) v hr' (by simpa using hcap')
        refine ⟨x :: ys, last', ?_, by simp only [List.length_cons]; omega, ?_, ?_⟩
        · simp only [partialOldMapFrom, hne, if_true, hbig, if_false, hx2, hacc, hrun]
          simp
        · have hl : lookup data inv zero v = some x := by
            have h0 : 0 ≤ v := by omega
            simp [lookup, hvi, h0, hx3]
          simp only [List.length_cons, List.take_succ_cons, mapSpec, hl, hspec]
        · rcases hcase with ⟨h1, h2, h3⟩ | ⟨w, h1, h2, h3, h4⟩
          · refine Or.inl ⟨by simp only [List.length_cons]; omega, fun h => by simp at h, fun _ => ?_⟩
            by_cases hvs : vs = []
            · exact Or.inr (by rw [h2 hvs]; omega)
            · exact h3 hvs
          · exact Or.inr ⟨w, by simpa using h1, h2, h3, h4⟩

end Exetera.JoinOld
