"""C07 — group-by results equal the group-wise reference computation.
Correspondence: DataFrame.groupby(...).count/min/max/first/last/distinct, DataFrame.drop_duplicates and Session.aggregate_*
on in-memory HDF5 dataframes  vs  Exetera.GroupBy.groupbyCount/groupbyAgg/groupbyDistinct/aggregate (Lean, Driver/C07.lean).
Oracle for the property itself: `reference()` below — distinct key tuples ascending, aggregate over the rows of each key in
original row order (the Python rendering of Spec/GroupBy.lean `IsGroupBy`)."""
import itertools

PROPERTY = "C07"
LEVEL = "proof"
LEAN_MODULES = ["Exetera.Props.C07", "Exetera.Witness.C07"]
EXHAUSTIVE = {"quick": True, "thorough": True}
CASE_TIMEOUT = 30
TECHNIQUE = ("Lean 4 theorems about an executable model of groupby / sort index / span reductions + differential correspondence "
             "of the compiled model with the real DataFrame.groupby and Session.aggregate_* calls")
LEVEL_TEXT = ("Proof, for all inputs, over the executable Lean model (Model/GroupBy.lean, Model/SortIndex.lean, Model/Spans.lean) that "
              "the driver runs: the multi-key sort index is the stable lexicographic sort; groupby(...).count / min / max / first / "
              "last / distinct and drop_duplicates return one row per distinct key tuple, ascending, with the aggregate of that "
              "key's rows taken in original order - for numeric, fixed-string and indexed-string targets (strings bytewise "
              "lexicographic), sorted or not, with or without a truthful hint (which is shown to be unobservable), with no "
              "out-of-bounds access and no spurious error; counts sum to the row count; Session.aggregate_* returns the same "
              "values on an ascending index; the specification determines the result. The theorems assume that stacking the key "
              "columns does not change how their values compare (true whenever all key columns have one dtype - proved as the "
              "unconditional `groupby_eq_spec` family); mixed dtypes are the recorded finding D20 (witness theorems).")
LEVEL_NOTE = ("Trusted: Lean kernel; the hand-written model is validated against the real code by the differential run (exhaustive "
              "frames up to 4/6 rows, all string sequences up to 3/4 rows for string min/max, seeded random frames to 3000 rows, "
              "int64 keys beyond 2^53, mixed key dtypes), not verified against the Python text; numpy's stable argsort is modelled by "
              "List.mergeSort, numpy's promotion when stacking key columns by a per-column cast (float64 rounding / decimal text) "
              "chosen by the harness from the dtypes; fixed strings are rank-coded (the kernels only compare), so the theorems "
              "speak about any totally ordered value type through Int. The span kernels' own theorems are C08's "
              "(Props/C08.lean), reused here. The theorems are about the tree with fix D18 and NC08b applied; Session.aggregate_* "
              "with an IndexedStringField index needs fix NC07a and is covered by the correspondence only (the theorem is for "
              "numeric indexes).")
RULE = ("corpus (D18, D20 x3, empty frame, text-ordered ints); exhaustive: every key frame with 1 key column over {0,1,2} and <= n "
        "rows and 2 key columns over {0,1}^2 and <= m rows (quick n=4,m=3; thorough n=6,m=4) x {count, distinct/drop_duplicates, "
        "min, max, first, last} x target kind rotating (thorough: all of) numeric/fixed/indexed, hint on when the frame is sorted; "
        "every sequence of <= 3 (thorough 4) strings from a 6-string alphabet (prefixes, empty, trailing blank, non-ASCII) as one "
        "group and as two groups for string min/max; every Session.aggregate_* fn on every index over {0,1,2} with <= 4 rows; "
        "seeded random frames (1-3 key columns of int32/int64/float64/S3/indexed string incl. mixed, values beyond 2^53, up to 60 / 3000 rows, "
        "sorted with hint / sorted without / unsorted) and a malformed stream (ragged keys, no keys, aggregate without target / "
        "wrong length; a few untruthful hints, compared with the model only). Non-trivial = at least two groups and at least one "
        "group with two or more rows; distinct = distinct case dict.")
ASSUMPTIONS = ["all columns of a dataframe have the same number of rows (ragged key columns are only run as an error case)",
               "np.argsort(kind='stable') is a stable sort (modelled by List.mergeSort)",
               "numpy/numba compare int32/int64/float64 values and fixed-length byte strings as the total order the model uses on Int "
               "(fixed strings rank-coded bytewise; float payloads integer-valued, no NaN)",
               "np.asarray([...]) of key columns promotes as rendered by the harness' cast table (identity for one dtype, float64 "
               "rounding for int64 with float64, decimal text for integers with byte strings)",
               "h5py stores and returns arrays faithfully; create_like gives a field of the same type",
               "hand-written Lean model validated by this differential run, not verified against the Python text"]
TRUSTED = ["Lean 4.33 kernel", "axioms: propext, Classical.choice, Quot.sound only (audited per theorem)",
           "checks/harness/c07.py generators, cast table, rank coding and comparison",
           "Lean models Exetera/Model/GroupBy.lean, SortIndex.lean, Spans.lean mirror dataframe.py / session.py / operations.py by hand"]
EXPLANATION = ""

STRS = ["", "a", "a ", "ab", "b", "aé"]          # prefixes, empty, trailing blank, non-ASCII (2 utf-8 bytes >= 0x80)
FIXED = ["", "a", "a ", "ab", "b", "a\xe9", "\xe9"]    # latin-1 renderings of S3 byte strings
BIG = [2 ** 53 - 1, 2 ** 53, 2 ** 53 + 1, 2 ** 53 + 2, 2 ** 53 + 3, 2 ** 62, 2 ** 62 + 1, -2 ** 53 - 1, -2 ** 53]
DEC = [0, 1, 2, 9, 10, 11, 19, 100, 101]
AGGS = ["count", "distinct", "min", "max", "first", "last"]


# ------------------------------------------------------------------------------------------------------------------
# generators
# ------------------------------------------------------------------------------------------------------------------

def lat(s):
    """text -> the latin-1 rendering of its utf-8 bytes (what impl returns for indexed strings)"""
    return s.encode("utf-8").decode("latin-1")


def keycol(dtype, data):
    return {"dtype": dtype, "data": list(data)}


def mk_target(kind, n, k, rng=None):
    """a target column of n rows; k selects the pattern (seed independent) unless rng is given"""
    def pick(pool, i):
        return pool[rng.randrange(len(pool))] if rng else pool[(i * (k % 5 + 1) + k // 5) % len(pool)]
    if kind == "numeric":
        dt = ["int32", "int64", "float64"][k % 3]
        pool = [3, -1, 7, 0, 5, 2, -4] + ([2 ** 53 + 1, 2 ** 53] if dt == "int64" else [])
        return {"kind": "numeric", "dtype": dt, "data": [pick(pool, i) for i in range(n)]}
    if kind == "fixed":
        return {"kind": "fixed", "len": 3, "data": [pick(FIXED, i) for i in range(n)]}
    return {"kind": "indexed", "data": [pick(STRS, i) for i in range(n)]}


def is_sorted_rows(keys):
    rows = key_rows(keys)
    return all(rows[i - 1] <= rows[i] for i in range(1, len(rows)))


def kenc(k):
    """encoding of the strings of a key column: indexed strings are text (utf-8), fixed strings latin-1 renderings of bytes"""
    return "utf-8" if k["dtype"] == "indexed" else "latin-1"


def is_str_key(k):
    return k["dtype"].startswith("S") or k["dtype"] == "indexed"


def key_rows(keys):
    cols = [[(x.encode(kenc(k)) if isinstance(x, str) else x) for x in k["data"]] for k in keys]
    return list(zip(*cols)) if cols else []


def mk_groupby(keys, agg, targets, hint, n, api=None):
    c = {"op": "groupby", "agg": agg, "hint": bool(hint), "keys": keys, "targets": targets if agg not in ("count", "distinct") else [],
         "_n": n}
    if agg == "distinct":
        c["api"] = api or ("drop_duplicates" if n % 2 else "groupby")
    return c


def frames(ncols, alphabet, maxlen):
    rows = list(itertools.product(alphabet, repeat=ncols))
    for ln in range(maxlen + 1):
        for seq in itertools.product(rows, repeat=ln):
            yield [[r[j] for r in seq] for j in range(ncols)]


def gen_cases(tier, rng):
    from checks import corpus
    cases = list(corpus.load("C07"))
    quick = tier == "quick"
    n1, n2 = (4, 3) if quick else (6, 4)
    cnt = 0
    kinds = ["numeric", "fixed", "indexed"]
    # exhaustive key frames
    for ncols, alpha, mx in ((1, (0, 1, 2), n1), (2, (0, 1), n2)):
        for cols in frames(ncols, alpha, mx):
            n = len(cols[0])
            for agg in AGGS:
                for tk in ([kinds[cnt % 3]] if quick or agg in ("count", "distinct") else kinds):
                    cnt += 1
                    kd = ["int32", "int64", "S3", "float64", "indexed"][cnt % 5] if ncols == 1 else ["int64", "int32", "indexed"][cnt % 3]
                    keys = [keycol(kd, [FIXED[x + 1] for x in c] if kd == "S3" else [STRS[x + 1] for x in c] if kd == "indexed" else c)
                            for c in cols]
                    tg = [mk_target(tk, n, cnt)]
                    srt = is_sorted_rows(keys)
                    cases.append(mk_groupby(keys, agg, tg, srt and cnt % 2 == 0, cnt))
    # exhaustive string sequences for string min/max: one group, and two groups interleaved
    smax = 3 if quick else 4
    for ln in range(1, smax + 1):
        for seq in itertools.product(range(len(STRS)), repeat=ln):
            for agg in ("min", "max"):
                cnt += 1
                tgi = {"kind": "indexed", "data": [STRS[i] for i in seq]}
                tgf = {"kind": "fixed", "len": 3, "data": [FIXED[i] for i in seq]}
                cases.append(mk_groupby([keycol("int32", [0] * ln)], agg, [tgi, tgf], cnt % 3 == 0, cnt))
                if ln >= 2 and (not quick or cnt % 4 == 0):
                    cases.append(mk_groupby([keycol("int32", [i % 2 for i in range(ln)])], agg, [tgi], False, cnt))
    # exhaustive Session.aggregate_*
    for ln in range(0, 5):
        for idx in itertools.product((0, 1, 2), repeat=ln):
            for fn in ("count", "min", "max", "first", "last"):
                cnt += 1
                if quick and cnt % 3:
                    continue
                cases.append(mk_aggregate(list(idx), fn, cnt))
    # seeded random frames
    nrand = 500 if quick else 12000
    for t in range(nrand):
        cases.append(rand_groupby(rng, t, quick))
    for t in range(60 if quick else 1500):
        cases.append(rand_aggregate(rng, t))
    cases.extend(malformed(rng, 12 if quick else 60))
    return cases


def mk_aggregate(idx, fn, k, rng=None):
    n = len(idx)
    ik = ["ndarray", "field", "fixed_field", "fixed_ndarray", "indexed_field"][k % 5]
    index = {"kind": ik, "dtype": ["int32", "int64"][k % 2], "data": idx}
    if ik.startswith("fixed"):
        index["data"] = [FIXED[x % len(FIXED)] for x in idx]
        index["dtype"] = "S3"
    if ik == "indexed_field":
        index["data"] = [STRS[x % len(STRS)] for x in idx]
        index["dtype"] = "indexed"
    tg = mk_target("numeric", n, k, rng)
    target = None if fn == "count" else {"kind": ["ndarray", "field"][(k // 5) % 2], "dtype": tg["dtype"], "data": tg["data"]}
    return {"op": "aggregate", "fn": fn, "index": index, "target": target, "dest": k % 7 == 0, "_n": k}


def rand_key_values(rng, dtype, n, card, pool_kind):
    if dtype == "S3":
        pool = rng.sample(FIXED, min(card, len(FIXED)))
    elif dtype == "indexed":
        pool = rng.sample(STRS, min(card, len(STRS)))
    elif pool_kind == "big" and dtype == "int64":
        pool = rng.sample(BIG, min(card, len(BIG)))
    elif pool_kind == "dec":
        pool = rng.sample(DEC, min(card, len(DEC)))
    else:
        lo = rng.choice([-3, 0, 0, 100])
        pool = list(range(lo, lo + card))
    return [rng.choice(pool) for _ in range(n)]


def rand_groupby(rng, t, quick):
    if quick:
        n = rng.choice([0, 1, 2, 3, 5, 8, 13, 21, 40, 60])
    else:
        n = rng.choice([0, 1, 2, 3, 5, 8, 13, 21, 40, 60, 100, 100, 300]) if t % 40 else rng.choice([1000, 3000])
    ncols = rng.choice([1, 1, 2, 2, 3])
    mixed = rng.random() < 0.3
    if ncols == 1 or not mixed:
        d = rng.choice(["int32", "int64", "float64", "S3", "indexed"])
        dts = [d] * ncols
    else:
        fam = rng.choice(["intfloat", "ints", "intstr"])
        if fam == "intfloat":
            dts = [rng.choice(["int64", "float64", "int32"]) for _ in range(ncols)]
        elif fam == "ints":
            dts = [rng.choice(["int64", "int32"]) for _ in range(ncols)]
        else:
            st = rng.choice(["S3", "indexed"])
            dts = [rng.choice(["int64", st, "int32"]) for _ in range(ncols)]
    has_s = "S3" in dts or "indexed" in dts
    has_f = "float64" in dts
    keys = []
    for d in dts:
        card = rng.choice([1, 2, 3, 5, max(1, n // 2 + 1)])
        pk = "dec" if has_s and d not in ("S3", "indexed") else ("big" if d == "int64" and rng.random() < (0.6 if has_f else 0.25) else "small")
        keys.append(keycol(d, rand_key_values(rng, d, n, card, pk)))
    shape = rng.choice(["unsorted", "unsorted", "sorted", "sorted_hint"])
    tcols = [mk_target(rng.choice(["numeric", "fixed", "indexed"]), n, t, rng) for _ in range(rng.choice([1, 1, 2]))]
    if shape != "unsorted" and n:
        order = sorted(range(n), key=lambda i: key_rows(keys)[i])
        keys = [keycol(k["dtype"], [k["data"][i] for i in order]) for k in keys]
    agg = rng.choice(AGGS)
    hint = shape == "sorted_hint"
    if shape == "unsorted" and rng.random() < 0.06:
        hint = True      # untruthful hint: outside the property, compared with the model only
    return mk_groupby(keys, agg, tcols, hint, t)


def rand_aggregate(rng, t):
    n = rng.choice([0, 1, 2, 5, 9, 30])
    card = rng.choice([1, 2, 3, 6])
    idx = [rng.randrange(card) for _ in range(n)]
    if rng.random() < 0.7:
        idx.sort()
    return mk_aggregate(idx, rng.choice(["count", "min", "max", "first", "last"]), rng.randrange(1000), rng)


def malformed(rng, m):
    out = []
    for t in range(m):
        k = t % 4
        if k == 0:    # ragged key columns
            c = mk_groupby([keycol("int32", [1, 0, 1]), keycol("int32", [0, 1])], AGGS[t % 6], [mk_target("numeric", 3, t)], False, t)
        elif k == 1:  # no key at all
            c = mk_groupby([], AGGS[t % 6], [mk_target("numeric", 3, t)], False, t)
        elif k == 2:  # aggregate without a target
            c = mk_aggregate([0, 0, 1], ["min", "max", "first", "last"][t % 4], 5 * t)
            c["target"] = None
        else:         # aggregate with a target of the wrong length
            c = mk_aggregate([0, 0, 1], ["min", "max", "first", "last"][t % 4], 5 * t)
            c["target"]["data"] = c["target"]["data"][:2] if t % 8 < 4 else c["target"]["data"] + [1]
        c["_malformed"] = True
        out.append(c)
    return out


# ------------------------------------------------------------------------------------------------------------------
# numpy's promotion when the key columns are stacked -> per-column cast tag for the model; Python renderings of the casts
# ------------------------------------------------------------------------------------------------------------------

def cast_tags(dtypes):
    if any(d.startswith("S") or d == "indexed" for d in dtypes):
        return ["id" if d.startswith("S") or d == "indexed" else "dec" for d in dtypes]
    if any(d.startswith("float") for d in dtypes):
        return ["f64" if d == "int64" else "id" for d in dtypes]
    return ["id"] * len(dtypes)


def cast_py(tag, x):
    if tag == "f64":
        return float(x)
    if tag == "dec":
        return str(x).encode()
    return x


def rank_table(values, enc="latin-1"):
    return sorted(set(v.encode(enc) for v in values))


def to_model(case):
    if case["op"] == "groupby":
        tags = cast_tags([k["dtype"] for k in case["keys"]])
        keys = []
        for k, tag in zip(case["keys"], tags):
            if is_str_key(k):
                tab = rank_table(k["data"], kenc(k))
                keys.append({"cast": "id", "data": [tab.index(v.encode(kenc(k))) for v in k["data"]]})
            else:
                keys.append({"cast": tag, "data": k["data"]})
        targets = []
        for t in case["targets"]:
            if t["kind"] == "numeric":
                targets.append({"kind": "plain", "data": t["data"]})
            elif t["kind"] == "fixed":
                tab = rank_table(t["data"])
                targets.append({"kind": "plain", "data": [tab.index(v.encode("latin-1")) for v in t["data"]]})
            else:
                indices, values = [0], []
                for s in t["data"]:
                    values.extend(s.encode("utf-8"))
                    indices.append(len(values))
                targets.append({"kind": "indexed", "indices": indices, "values": values})
        return {"op": "groupby", "agg": case["agg"], "hint": case["hint"], "keys": keys, "targets": targets}
    ix = case["index"]
    if ix["kind"] in ("ndarray", "field"):
        index = {"kind": "numeric", "data": ix["data"]}
    elif ix["kind"].startswith("fixed"):
        index = {"kind": "fixed", "rows": [list(v.encode("latin-1")) for v in ix["data"]]}
    else:
        indices, values = [0], []
        for s in ix["data"]:
            values.extend(s.encode("utf-8"))
            indices.append(len(values))
        index = {"kind": "indexed", "indices": indices, "values": values}
    m = {"op": "aggregate", "fn": case["fn"], "index": index}
    if case["target"] is not None:
        m["target"] = case["target"]["data"]
    return m


# ------------------------------------------------------------------------------------------------------------------
# implementation (runs in worker processes)
# ------------------------------------------------------------------------------------------------------------------
_S = {}


def _env():
    if not _S:
        import io
        import numpy as np
        from exetera.core import operations as ops, fields
        from exetera.core.session import Session
        _S.update(np=np, ops=ops, fields=fields, s=Session(), io=io, n=0)
    return _S


def _canon_array(np, a):
    if a.dtype.kind == "S":
        return [bytes(x).decode("latin-1") for x in a.tolist()]
    if a.dtype.kind == "f":
        return [int(x) if float(x).is_integer() else float(x) for x in a.tolist()]
    return [int(x) for x in a.tolist()]


def _canon_field(np, f):
    if f.indexed:
        return [lat(x) for x in f.data[:]]
    return _canon_array(np, np.asarray(f.data[:]))


def impl(case):
    e = _env()
    np, s, io = e["np"], e["s"], e["io"]
    e["n"] += 1
    name = "ds%d" % e["n"]
    ds = s.open_dataset(io.BytesIO(), "w", name)
    try:
        if case["op"] == "groupby":
            return impl_groupby(np, ds, case)
        return impl_aggregate(np, s, ds, case)
    finally:
        s.close_dataset(name)


def impl_groupby(np, ds, case):
    df = ds.create_dataframe("df")
    knames = []
    for j, k in enumerate(case["keys"]):
        nm = "k%d" % j
        knames.append(nm)
        if k["dtype"] == "indexed":
            df.create_indexed_string(nm).data.write(list(k["data"]))
        elif k["dtype"].startswith("S"):
            df.create_fixed_string(nm, int(k["dtype"][1:])).data.write(
                np.array([v.encode("latin-1") for v in k["data"]], dtype=k["dtype"]))
        else:
            df.create_numeric(nm, k["dtype"]).data.write(np.array(k["data"], dtype=k["dtype"]))
    tnames = []
    for j, t in enumerate(case["targets"]):
        nm = "t%d" % j
        tnames.append(nm)
        if t["kind"] == "numeric":
            df.create_numeric(nm, t["dtype"]).data.write(np.array(t["data"], dtype=t["dtype"]))
        elif t["kind"] == "fixed":
            df.create_fixed_string(nm, t["len"]).data.write(np.array([v.encode("latin-1") for v in t["data"]], dtype="S%d" % t["len"]))
        else:
            df.create_indexed_string(nm).data.write(list(t["data"]))
    ddf = ds.create_dataframe("ddf")
    by = knames[0] if len(knames) == 1 and case.get("_n", 0) % 2 == 0 else knames
    agg = case["agg"]
    if agg == "distinct" and case.get("api") == "drop_duplicates":
        df.drop_duplicates(by, ddf, hint_keys_is_sorted=case["hint"])
    else:
        g = df.groupby(by, hint_keys_is_sorted=case["hint"])
        if case.get("_n", 0) % 2 == 1 or case.get("reuse"):
            # the group-by object is reused, as scripts do (`g = df.groupby(k); g.count(a); g.max('x', b); …`): every
            # aggregate is first run once into a scratch dataframe; the measured call below must not notice
            tall = tnames[0] if len(tnames) == 1 else tnames
            for k_, a_ in enumerate(("last", "count", "first", "max", "min", "distinct")):
                scratch = ds.create_dataframe("scratch%d" % k_)
                if a_ in ("count", "distinct"):
                    getattr(g, a_)(scratch)
                elif tnames:
                    getattr(g, a_)(tall, scratch)
        if agg == "count":
            g.count(ddf)
        elif agg == "distinct":
            g.distinct(ddf)
        else:
            tg = tnames[0] if len(tnames) == 1 and case.get("_n", 0) % 3 == 0 else tnames
            getattr(g, agg)(tg, ddf)
    out = {"keys": [_canon_field(np, ddf[nm]) for nm in knames], "vals": []}
    if agg == "count":
        out["vals"].append(_canon_field(np, ddf["count"]))
    elif agg != "distinct":
        out["vals"] = [_canon_field(np, ddf[nm + "_" + agg]) for nm in tnames]
    extra = sorted(set(ddf.keys()) - set(knames) - {"count"} - {nm + "_" + agg for nm in tnames})
    if extra:
        out["extra"] = extra
    return out


def impl_aggregate(np, s, ds, case):
    df = ds.create_dataframe("df")
    ix = case["index"]
    if ix["kind"] == "ndarray":
        index = np.array(ix["data"], dtype=ix["dtype"])
    elif ix["kind"] == "field":
        index = df.create_numeric("i", ix["dtype"])
        index.data.write(np.array(ix["data"], dtype=ix["dtype"]))
    elif ix["kind"] == "fixed_ndarray":
        index = np.array([v.encode("latin-1") for v in ix["data"]], dtype="S3")
    elif ix["kind"] == "fixed_field":
        index = df.create_fixed_string("i", 3)
        index.data.write(np.array([v.encode("latin-1") for v in ix["data"]], dtype="S3"))
    else:
        index = df.create_indexed_string("i")
        index.data.write(list(ix["data"]))
    t = case["target"]
    target = None
    if t is not None:
        if t["kind"] == "ndarray":
            target = np.array(t["data"], dtype=t["dtype"])
        else:
            target = df.create_numeric("t", t["dtype"])
            target.data.write(np.array(t["data"], dtype=t["dtype"]))
    dest = None
    if case.get("dest"):
        dest = df.create_numeric("d", "int64" if case["fn"] == "count" else t["dtype"] if t else "int64")
    fn = getattr(s, "aggregate_" + case["fn"])
    if case["fn"] == "count":
        r = fn(index, dest)
    else:
        r = fn(index, target, dest)
    if dest is not None:
        return {"vals": _canon_array(np, np.asarray(dest.data[:]))}
    return {"vals": _canon_array(np, np.asarray(r))}


# ------------------------------------------------------------------------------------------------------------------
# the property's oracle: group-wise reference (Python rendering of Spec/GroupBy.lean)
# ------------------------------------------------------------------------------------------------------------------

def tvalue(t, i):
    v = t["data"][i]
    if t["kind"] == "fixed":
        return v.encode("latin-1")
    if t["kind"] == "indexed":
        return v.encode("utf-8")
    return v


def render(t, v):
    return v.decode("latin-1") if isinstance(v, bytes) else v


AGGF = {"min": min, "max": max, "first": lambda xs: xs[0], "last": lambda xs: xs[-1]}


def reference(case):
    """one row per distinct key tuple, ascending; aggregate over that key's rows in original order"""
    rows = key_rows(case["keys"])
    distinct = sorted(set(rows))
    members = {k: [i for i, r in enumerate(rows) if r == k] for k in distinct}
    keys = [[render(None, k[j]) for k in distinct] for j in range(len(case["keys"]))]
    agg = case["agg"]
    if agg == "count":
        vals = [[len(members[k]) for k in distinct]]
    elif agg == "distinct":
        vals = []
    else:
        vals = [[render(t, AGGF[agg]([tvalue(t, i) for i in members[k]])) for k in distinct] for t in case["targets"]]
    return {"keys": keys, "vals": vals}


def index_keys(case):
    ix = case["index"]
    enc = "utf-8" if ix["kind"] == "indexed_field" else "latin-1"
    return [x.encode(enc) if isinstance(x, str) else x for x in ix["data"]]


def runs_reference(case):
    """Session.aggregate_* on an index whose equal values are contiguous and ascending = the group-wise reference"""
    idx = index_keys(case)
    distinct = sorted(set(idx))
    members = {k: [i for i, r in enumerate(idx) if r == k] for k in distinct}
    if case["fn"] == "count":
        return [len(members[k]) for k in distinct]
    t = case["target"]["data"]
    return [AGGF[case["fn"]]([t[i] for i in members[k]]) for k in distinct]


def check_spec(case, io, mode):
    if case.get("_malformed"):
        return None          # outside the property's domain; only the error branch is compared with the model
    if case["op"] == "aggregate":
        key = index_keys(case)
        if any(key[i - 1] > key[i] for i in range(1, len(key))):
            return None      # not pre-grouped in key order: the property says nothing
        if "err" in io:
            return f"aggregate_{case['fn']} raised {io['err']} ({io.get('msg', '')}) on a pre-grouped index"
        ex = runs_reference(case)
        if io["vals"] != ex:
            return f"aggregate_{case['fn']} differs from the group-wise reference: got {io['vals']} expected {ex}"
        return None
    if case["hint"] and not is_sorted_rows(case["keys"]):
        return None          # untruthful hint: outside the property
    if "err" in io:
        return f"groupby.{case['agg']} raised {io['err']} ({io.get('msg', '')})"
    ex = reference(case)
    if io["keys"] != ex["keys"]:
        return f"key columns differ from the distinct ascending key tuples: got {io['keys']} expected {ex['keys']}"
    if io["vals"] != ex["vals"]:
        return f"{case['agg']} differs from the group-wise reference: got {io['vals']} expected {ex['vals']}"
    if io.get("extra"):
        return f"unexpected fields in the destination: {io['extra']}"
    if case["agg"] == "count" and sum(io["vals"][0]) != len(key_rows(case["keys"])):
        return "counts do not sum to the number of rows"
    return None


def match_finding(case, io, mode):
    """D20: key columns of different dtypes are stacked into one numpy array; the promotion changes how the values of some
    column compare (two different values become equal, or their order flips). Only such inputs are assigned to D20."""
    if case["op"] != "groupby" or case.get("_malformed") or "err" in io:
        return None
    tags = cast_tags([k["dtype"] for k in case["keys"]])
    for k, tag in zip(case["keys"], tags):
        if tag == "id":
            continue
        vals = sorted(set(k["data"]))
        for a, b in zip(vals, vals[1:]):
            if not cast_py(tag, a) < cast_py(tag, b):
                return "D20"
    return None


def decode_model(case, m):
    """model result (rank codes, byte lists) -> the canonical form impl returns"""
    if case["op"] == "aggregate":
        return {"vals": m}
    keys = []
    for k, col in zip(case["keys"], m["keys"]):
        if is_str_key(k):
            tab = rank_table(k["data"], kenc(k))
            keys.append([tab[r].decode("latin-1") for r in col])
        else:
            keys.append(col)
    vals = []
    if case["agg"] == "count":
        vals = m["vals"]
    elif case["agg"] != "distinct":
        for t, col in zip(case["targets"], m["vals"]):
            if t["kind"] == "fixed":
                tab = rank_table(t["data"])
                vals.append([tab[r].decode("latin-1") for r in col])
            elif t["kind"] == "indexed":
                vals.append([bytes(r).decode("latin-1") for r in col])
            else:
                vals.append(col)
    return {"keys": keys, "vals": vals}


def compare(case, io, mo, mode):
    if "err" in io or "err" in mo:
        a, b = io.get("err"), mo.get("err")
        return None if a == b else f"impl err={a} ({io.get('msg', '')}) model err={b}"
    m = decode_model(case, mo["ok"])
    for f in ("keys", "vals"):
        if f in m and io.get(f) != m[f]:
            return f"{f}: impl={io.get(f)} model={m[f]}"
    return None


def nontrivial(case, mo):
    if case.get("_malformed"):
        return False
    if case["op"] == "aggregate":
        idx = case["index"]["data"]
        return len(set(idx)) >= 2 and len(idx) > len(set(idx))
    rows = key_rows(case["keys"])
    return len(set(rows)) >= 2 and len(rows) > len(set(rows))


def classify(case, mo):
    tags = [case["op"]]
    if case.get("_malformed"):
        tags.append("malformed")
    if case["op"] == "aggregate":
        tags += ["fn:" + case["fn"], "index:" + case["index"]["kind"]]
    else:
        tags.append("agg:" + case["agg"])
        rows = key_rows(case["keys"])
        tags.append("rows:" + ("0" if not rows else "1-8" if len(rows) <= 8 else "9-99" if len(rows) < 100 else ">=100"))
        tags.append("keys:%d" % len(case["keys"]))
        srt = is_sorted_rows(case["keys"])
        tags.append(("hint" if srt else "untruthful-hint") if case["hint"] else ("sorted" if srt else "unsorted"))
        for t in case["targets"]:
            tags.append("target:" + t["kind"])
        ct = cast_tags([k["dtype"] for k in case["keys"]])
        if any(c != "id" for c in ct):
            tags.append("cast:" + "+".join(sorted(set(ct))))
        if any(isinstance(x, int) and abs(x) > 2 ** 53 for k in case["keys"] for x in k["data"]):
            tags.append("beyond-2^53")
    if mo and "err" in mo:
        tags.append("model-err:" + mo["err"])
    return tags


def select_for_mode(case, mode, tier):
    if case["op"] == "groupby":
        n = len(case["keys"][0]["data"]) if case["keys"] else 0
        return n <= 40 and (case.get("_n", 0) % (11 if tier == "quick" else 3) == 0 or "_corpus" in case)
    return case.get("_n", 0) % 5 == 0
