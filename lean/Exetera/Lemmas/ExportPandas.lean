import Exetera.Lemmas.ExportApi
/-! C18: `to_pandas` returns the selected columns, filtered. -/
namespace Exetera.Export
open Exetera.Spec.Export

/-- the `row_filter` of `to_pandas` is absent or a boolean list / array of the frame's length `n`; `flt` is its content -/
inductive PdFilterOk (n : Nat) : PdFilter → Option (List Bool) → Prop where
  | none : PdFilterOk n .none Option.none
  | list (xs : List Bool) : xs.length = n → PdFilterOk n (.list xs) (some xs)
  | array (xs : List Bool) : xs.length = n → PdFilterOk n (.array xs) (some xs)

theorem filterCol_nil {α} (flt : Option (List Bool)) : filterCol ([] : List α) flt = [] := by simp [filterCol]

theorem filterMap_range_getElem? {α} : ∀ (xs : List α), (List.range xs.length).filterMap (fun i => xs[i]?) = xs := by
  intro xs
  induction xs with
  | nil => simp
  | cons x xs ih =>
    rw [List.length_cons, List.range_succ_eq_map]
    simp only [List.filterMap_cons, List.getElem?_cons_zero, List.filterMap_map]
    have : ((fun i => (x :: xs)[i]?) ∘ Nat.succ) = fun i => xs[i]? := by funext i; simp
    rw [this, ih]

theorem filterCol_none {α} (xs : List α) : filterCol xs Option.none = xs := by
  have hk : (List.range xs.length).filter (keep Option.none) = List.range xs.length :=
    List.filter_eq_self.mpr (fun _ _ => rfl)
  simp only [filterCol, hk]
  exact filterMap_range_getElem? xs

theorem filterCol_cons {α} (d : α) (ds : List α) (b : Bool) (bs : List Bool) :
    filterCol (d :: ds) (some (b :: bs)) = (if b then [d] else []) ++ filterCol ds (some bs) := by
  simp only [filterCol, List.length_cons]
  rw [List.range_succ_eq_map]
  have hk : (keep (some (b :: bs)) ∘ Nat.succ) = keep (some bs) := by funext i; simp [keep]
  have hg : ((fun i => (d :: ds)[i]?) ∘ Nat.succ) = fun i => ds[i]? := by funext i; simp
  cases b <;> simp [List.filter_cons, keep, List.filter_map, List.filterMap_map, hk, hg]

theorem zip_filter_eq_filterCol {α} : ∀ (data : List α) (xs : List Bool), xs.length = data.length →
    maskSelect data xs = filterCol data (some xs) := by
  intro data
  induction data with
  | nil => intro xs _; simp [maskSelect, filterCol_nil]
  | cons d ds ih =>
    intro xs h
    cases xs with
    | nil => simp at h
    | cons b bs =>
      rw [filterCol_cons, ← ih bs (by simpa using h)]
      cases b <;> simp [maskSelect]

/-- as found: a filter that is absent or a boolean list / array of the column's own length is applied as `to_csv` applies it -/
theorem pdApplyAsFound_ok (data : List Cell) (rf : PdFilter) (flt : Option (List Bool)) (h : PdFilterOk data.length rf flt) :
    pdApplyAsFound rf data = .ok (filterCol data flt) := by
  cases h with
  | none => simp [pdApplyAsFound, filterCol_none]
  | list xs hx =>
    cases xs with
    | nil =>
      have : data = [] := by simpa using hx.symm
      simp [pdApplyAsFound, this, filterCol_nil]
    | cons b bs => simp [pdApplyAsFound, hx, zip_filter_eq_filterCol data (b :: bs) hx]
  | array xs hx =>
    cases xs with
    | nil =>
      have : data = [] := by simpa using hx.symm
      simp [pdApplyAsFound, this, filterCol_nil]
    | cons b bs => simp [pdApplyAsFound, hx, zip_filter_eq_filterCol data (b :: bs) hx]

/-! ### the repaired filter: any length -/

theorem filterCol_some_nil {α} (xs : List α) : filterCol xs (some []) = [] := by
  have hk : (List.range xs.length).filter (keep (some [])) = [] :=
    List.filter_eq_nil_iff.mpr (fun _ _ => by simp [keep])
  simp [filterCol, hk]

theorem pdSelected_zero (xs : List Bool) : pdSelected 0 xs = [] := by simp [pdSelected]

theorem pdSelected_nil (n : Nat) : pdSelected n [] = List.replicate n false := by simp [pdSelected]

theorem pdSelected_cons (n : Nat) (b : Bool) (bs : List Bool) : pdSelected (n + 1) (b :: bs) = b :: pdSelected n bs := by
  simp [pdSelected, Nat.succ_min_succ]

theorem maskSelect_replicate_false {α} : ∀ (data : List α) (n : Nat), maskSelect data (List.replicate n false) = [] := by
  intro data
  induction data with
  | nil => intro n; simp [maskSelect]
  | cons d ds ih =>
    intro n
    cases n with
    | zero => simp [maskSelect]
    | succ n =>
      have := ih n
      simp only [maskSelect] at this ⊢
      simp [List.replicate_succ, this]

/-- the mask the repaired `to_pandas` builds selects exactly the rows `keep` keeps — for a filter of ANY length -/
theorem maskSelect_pdSelected {α} : ∀ (data : List α) (xs : List Bool),
    maskSelect data (pdSelected data.length xs) = filterCol data (some xs) := by
  intro data
  induction data with
  | nil => intro xs; simp [pdSelected_zero, maskSelect, filterCol_nil]
  | cons d ds ih =>
    intro xs
    cases xs with
    | nil => rw [pdSelected_nil, maskSelect_replicate_false, filterCol_some_nil]
    | cons b bs =>
      rw [List.length_cons, pdSelected_cons, filterCol_cons, ← ih bs]
      cases b <;> simp [maskSelect]

theorem pdApply_eq_filterCol (flt : Option (List Bool)) (data : List Cell) : pdApply flt data = filterCol data flt := by
  cases flt with
  | none => simp [pdApply, filterCol_none]
  | some xs => simp [pdApply, maskSelect_pdSelected]

/-- a filter the partial theorem admits is validated to its own content -/
theorem validate_of_pdFilterOk {n : Nat} {rf : PdFilter} {flt : Option (List Bool)} (h : PdFilterOk n rf flt) :
    validateRowFilter rf.toRowFilter = .ok flt := by
  cases h <;> rfl

/-- `to_pandas` validates the object `to_csv` was given exactly as `to_csv` does -/
theorem validate_ofCsv (rf : RowFilter) : validateRowFilter (PdFilter.ofCsv rf).toRowFilter = validateRowFilter rf := by
  cases rf <;> rfl

/-- every selected name is a column of the frame of length `N` -/
def AllLen (f : Frame) (N : Nat) (names : List Cell) : Prop :=
  ∀ n ∈ names, ∃ c, f.get? n = some c ∧ c ∈ f ∧ c.name = n ∧ c.data.length = N

theorem pdCheckLengths_ok (f : Frame) (N : Nat) : ∀ names, AllLen f N names → pdCheckLengths f N names = .ok () := by
  intro names
  induction names with
  | nil => intro _; rfl
  | cons n ns ih =>
    intro h
    obtain ⟨c, hc, _, _, hl⟩ := h n (by simp)
    simp only [pdCheckLengths, Frame.getE, hc, hl, ne_eq, not_true_eq_false, if_false]
    exact ih (fun m hm => h m (by simp [hm]))

/-- a result column is the filtered data of the frame column of that name (`self._columns[name]`) -/
def GoodCol (f : Frame) (flt : Option (List Bool)) (p : Cell × List Cell) : Prop :=
  ∃ c, f.get? p.1 = some c ∧ c ∈ f ∧ c.name = p.1 ∧ p.2 = filterCol c.data flt

theorem pdCollect_ok (f : Frame) (app : List Cell → Except Err (List Cell)) (flt : Option (List Bool)) (N : Nat)
    (happ : ∀ data : List Cell, data.length = N → app data = .ok (filterCol data flt)) :
    ∀ (names : List Cell) (acc : List (Cell × List Cell)), AllLen f N names → (∀ p ∈ acc, GoodCol f flt p) →
      ∃ out, pdCollect f app names acc = .ok out ∧ out.map (·.1) = firstOccurrences (acc.map (·.1)) names ∧
        ∀ p ∈ out, GoodCol f flt p := by
  intro names
  induction names with
  | nil => intro acc _ hacc; exact ⟨acc, rfl, rfl, hacc⟩
  | cons n ns ih =>
    intro acc h hacc
    obtain ⟨c, hc, hcf, hcn, hl⟩ := h n (by simp)
    have happ := happ c.data hl
    have hgood : GoodCol f flt (n, filterCol c.data flt) := ⟨c, hc, hcf, hcn, rfl⟩
    simp only [pdCollect, Frame.getE, hc, happ]
    by_cases hin : acc.any (fun p => p.1 == n) = true
    · have hcont : (acc.map (·.1)).contains n = true := by
        simp only [List.any_eq_true, List.contains_eq_mem, List.mem_map, decide_eq_true_eq] at hin ⊢
        obtain ⟨p, hp, he⟩ := hin
        exact ⟨p, hp, by simpa using he⟩
      simp only [hin, if_true, firstOccurrences, hcont]
      have hmapfst : (acc.map (fun p => if (p.1 == n) = true then (n, filterCol c.data flt) else p)).map (·.1) = acc.map (·.1) := by
        simp only [List.map_map]
        apply List.map_congr_left
        intro p _
        by_cases hp : (p.1 == n) = true
        · simp only [Function.comp, hp, if_true]; exact (by simpa using hp : p.1 = n).symm
        · simp [Function.comp, hp]
      obtain ⟨out, h1, h2, h3⟩ := ih (acc.map (fun p => if (p.1 == n) = true then (n, filterCol c.data flt) else p))
          (fun m hm => h m (by simp [hm])) (by
        intro p hp
        simp only [List.mem_map] at hp
        obtain ⟨q, hq, rfl⟩ := hp
        by_cases hqn : (q.1 == n) = true
        · simp only [hqn, if_true]; exact hgood
        · rw [if_neg hqn]; exact hacc q hq)
      exact ⟨out, h1, by rw [h2, hmapfst], h3⟩
    · have hcont : (acc.map (·.1)).contains n = false := by
        simp only [Bool.not_eq_true, List.any_eq_false] at hin
        simp only [List.contains_eq_mem, List.mem_map, decide_eq_false_iff_not, not_exists, not_and]
        intro p hp he
        have := hin p hp
        simp [he] at this
      simp only [hin, firstOccurrences, hcont]
      obtain ⟨out, h1, h2, h3⟩ := ih (acc ++ [(n, filterCol c.data flt)]) (fun m hm => h m (by simp [hm])) (by
        intro p hp
        simp only [List.mem_append, List.mem_singleton] at hp
        rcases hp with hp | rfl
        · exact hacc p hp
        · exact hgood)
      exact ⟨out, h1, by rw [h2]; simp, h3⟩

end Exetera.Export
