"""C12 — streaming operations always terminate. The streamed drivers are run on adversarial shapes (a key repeated more
often than the chunk size, chunk size 1, zero-length inputs, entries longer than a buffer …) with a per-case watchdog; the number
of `_partial` invocations is counted by wrapping the module attributes from outside and compared with the model's count."""
from checks.harness import meta

PROPERTY = "C12"
LEVEL = "proof"
LEAN_MODULES = ["Exetera.Props.C12", "Exetera.Props.C12Copy", "Exetera.Props.C12Map", "Exetera.Props.C12Rest", "Exetera.Props.C12Legacy", "Exetera.Witness.C12"]
BASES = ["c03", "c04", "c16", "c05", "c18", "c12_copy", "c12_legacy"]
MODES = {"quick": ["jit"], "thorough": ["jit", "nojit"], "search": ["jit"]}
CASE_TIMEOUT = 15
EXHAUSTIVE = {"quick": False, "thorough": False}
TECHNIQUE = ("Lean 4 total-correctness theorems over fuel-indexed driver loops (outOfFuel = spin): explicit linear fuel bounds, "
             "clear-error theorems, one-iteration progress (strictly decreasing measure) theorems + call-count correspondence and "
             "watchdog on adversarial inputs")
LEVEL_TEXT = ("Proof on the model's step semantics, per streamed driver, for every chunk size >= 1 and EVERY fuel above an explicit "
              "bound linear in input plus output size (the bound is written out in each statement): "
              "(1) the eight join-map generators: fuel >= |L|+|R|+2|left join|+1 gives the relational join, kernel invocations <= 2x "
              "that bound, also when a run of equal keys exceeds the chunk (join_streamed_terminates/_never_spins, "
              "get_next_chunk_terminates); "
              "(2) ordered_map_valid_stream: at most ceil(|map|/cs) iterations (map_stream_iterations), fuel >= |map| suffices "
              "(map_stream_terminates), every iteration moves to the next chunk (map_stream_never_spins); "
              "(3) ordered_map_valid_indexed_stream: with fuel >= |map|+|indices| for the loop over map chunks and for every "
              "`while sm < sm_end` loop the result is the specified column, or the ValueError 'entry does not fit the value "
              "buffer' when a mapped entry is longer than chunksize*value_factor, never outOfFuel "
              "(map_indexed_stream_total/_terminates/_clear_error); every iteration of `while sm < sm_end` consumes a map entry or "
              "moves to the next value sub-chunk (map_indexed_stream_never_spins); "
              "(4) Session.apply_spans_concat: fuel >= number of spans gives concatSpec with at most one kernel call per span "
              "(concat_terminates_linear), every batch handles >= 1 span (concat_never_spins); "
              "(5) DataFrame.to_csv: fuel >= len(first column)+1 gives the specified rows (export_terminates), chunk_row_size <= 0 is "
              "the ValueError (export_clear_error), every iteration breaks or consumes chunk_row_size rows (export_never_spins); "
              "(6) element_chunked_copy/chunked_copy: exactly ceil(n/cs) writes, destination = source, for every fuel with "
              "n <= fuel*cs (chunked_copy_eq/_terminates/_field_eq), every iteration advances by min(cs, n-i) "
              "(chunked_copy_never_spins); "
              "(7) read_file_using_fast_csv_reader: fuel >= records+2 gives the file's columns, under C05's two no-regrowth "
              "hypotheses only (csv_driver_terminates_partial); "
              "(8) the legacy driver generate_ordered_map_to_left_right_unique_streamed_old: `.ok` on every input within the model's "
              "budgets |L|+|R| (main loop) and |L| (tail), every iteration advances i+j (legacy_join_streamed_terminates/_never_spins); "
              "(9) the legacy mapper ordered_map_valid_stream_old WITH fix NC12a: on every input (any map, in range or not) an "
              "error other than outOfFuel or `.ok` within |map|+|data|+1 iterations, every iteration consumes a map entry, moves to "
              "the next data chunk or is the ValueError (legacy_map_stream_never_spins/_progress); in C19's regime it equals the "
              "as-found model and returns the specified column (legacy_map_stream_terminates); as found it spins on a map entry "
              ">= len(data) (Witness.C12.nc12a_legacy_map_stream_spins). "
              "Partial by nature: wall-clock time is not modelled; the step semantics is tied to the code by comparing "
              "kernel-invocation / write counts and by a watchdog.")
LEVEL_NOTE = ("The drivers of (2)-(4) are the models of C04/C16 with the fuel of their driver loops turned into a parameter "
              "(Model/StreamFuel.lean), tied to the models the correspondence runs by rfl theorems (…_eq_F) and, for the indexed "
              "stream, by indexedStream_agree; the kernels called from those loops keep the budgets written in their models (each "
              "linear in the window the kernel is given) and finish within them as part of the same `.ok` statements. The indexed "
              "stream's bound is linear for a fixed run of the driver loops; the total work over a NON-monotone map (NC02a) can "
              "revisit a source window once per sub-chunk and is then bounded by the product |map|·min(cs,|source|), not stated "
              "here. Not proved: CSV reading with regrowth of the staging buffers (_partial, owned by C05); NC12a (found by this check): "
              "ordered_map_valid_stream_old spins on a map entry that is not a row of the source; repaired by "
              "fixes/NC12a_map_valid_stream_old_unmapped_row.patch, the model of (9) is the code with that patch (Model/LegacyMapFix.lean), "
              "the driver reports the as-found variant next to it, and the witness cases (fixes/NC12a_corpus_proposed.json) enter "
              "corpus/C12 together with the patch. With chunksize = 0 (outside the property) "
              "element_chunked_copy spins — recorded as a fixpoint example next to chunked_copy_eq, not a finding. "
              "Trusted: Lean kernel; the hand-written driver models (validated by result and call-count correspondence); the "
              "watchdog (CASE_TIMEOUT seconds, retried with 4x budget) for what 'hang' means on the implementation.")
RULE = ("cases of the streamed-operation harnesses restricted to streaming entry points, plus their adversarial generators (run >= chunk, "
        "chunk size 1, empty inputs), plus chunked_copy on plain and indexed memory fields (every length 0..7 x chunk size 1..9, "
        "random lengths to 400 with chunk sizes n-1, n, n+1); non-trivial = more than one driver iteration in the model; distinct = distinct case dict")
ASSUMPTIONS = ["a Python-level spin is interrupted by SIGALRM; a spin inside a compiled kernel is detected by the worker stall timeout"]
TRUSTED = ["Lean 4.33 kernel", "axioms propext/Classical.choice/Quot.sound only", "checks/harness/*.py"]


def gen_cases(tier, rng):
    per = {"quick": 1500, "thorough": 20000, "search": 8000}[tier]

    def keep(n, b, c):
        f = getattr(b, "is_streamed", None)
        return f(c) if f else True
    return meta.gen_cases(BASES, tier, rng, per, keep)


def impl(case):
    return meta.impl(case, "impl_counted")


to_model = meta.to_model
classify = meta.classify


def nontrivial(case, mo):
    try:
        return mo["ok"].get("calls", 2) > 1
    except Exception:
        return True


def compare(case, io, mo, mode):
    why = meta.compare(case, io, mo, mode)
    if why:
        return why
    if io.get("calls") is not None and "ok" in mo and "calls" in mo["ok"] and io["calls"] != mo["ok"]["calls"]:
        return f"kernel invocations: impl {io['calls']} model {mo['ok']['calls']}"
    return None


def check_spec(case, io, mode):
    if io.get("err") == "hang":
        return "did not finish within the watchdog budget (spins)"
    b = meta.base(case["_h"])
    if case["_h"] in ("c12_copy", "c12_legacy"):
        why = b.check_spec(case, io, mode)
        if why:
            return why
    bound = getattr(b, "step_bound", None)
    if bound and io.get("calls") is not None and io["calls"] > bound(case, io):
        return f"{io['calls']} kernel invocations exceed the linear bound {bound(case, io)}"
    return None


def match_finding(case, io, mode):
    b = meta.base(case["_h"])
    fm = getattr(b, "match_finding", None) if case["_h"].startswith("c12_") else None
    return fm(case, io, mode) if fm else None


def select_for_mode(case, mode, tier):
    b = meta.base(case["_h"])
    sel = getattr(b, "select_for_mode", None)
    return sel(case, mode, "thorough") if sel else True


# ------------------------------------------------------------------------------------------------------------------
# worker warm-up: the owning harnesses are imported lazily by `meta.base` — inside the per-case alarm of checks/worker.py.
# Importing them here (ExeTera, pandas, and the bases' own kernel warm-ups) happens before the alarm is armed: an alarm
# firing inside an import or a numba compilation leaves the worker process broken for every following case.
# ------------------------------------------------------------------------------------------------------------------
import sys  # noqa: E402
if sys.argv and sys.argv[0].endswith("worker.py"):
    for _n in meta.available(BASES):
        try:
            _b = meta.base(_n)
            _w = getattr(_b, "warm_up", None)
            if _w:
                _w()
        except Exception:   # noqa
            pass
