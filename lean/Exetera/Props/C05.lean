import Exetera.Lemmas.CsvDriverThm
import Exetera.Lemmas.CsvWindow
import Exetera.Lemmas.CsvLoopThm
import Exetera.Lemmas.CsvReadCsv
import Exetera.Lemmas.CsvReadCsvG
/-!
# C05 — CSV import reproduces the file's records exactly, independent of chunking

All theorems are about the model the correspondence driver executes (`Driver/C05.lean` → `Exetera.Csv.fastCsvReader`,
`readFile`, `readCsv` of `Model/Csv.lean`, which mirrors the code with the fixes D26, NC05a, D27 applied) and about the
specification `Spec/Csv.lean`: a file is `render (header :: rows)` for rows of well-formed cells (`Table`), and the import
must produce `values rows` (the cell texts; blanks in front of a bare cell skipped), column by column, as indexed string
fields `fieldOf (column (values rows) c)` (offsets `[0, |e₀|, |e₀|+|e₁|, …]` and the concatenated bytes).

An `.ok` result means: every subscript of the compiled kernel was in bounds, no `raise` was reached, the kernel loop ended
within its fuel `len(source) + 1` (termination), and the driver ended within the given number of kernel calls.

Proved for all inputs: `fsm_whole_eq_spec`, `fsm_split_at_record_end`, `fsm_window_eq_spec`,
`import_single_window_eq_spec`, `include_exclude_selects`, and — including every run in which a staging buffer fills and
the driver re-enters the window with doubled buffers (any number of index-buffer and value-buffer regrowths) —
`fsm_any_buffers_eq_spec` (one kernel call with arbitrary buffers: no flag / indices full / values full, and what it reports),
`window_chunking_unobservable`, `regrowth_unobservable`, `chunk_size_unobservable`, `read_csv_eq_spec`, each with an explicit
bound on the number of kernel calls (`records + 2 + regrowthBound`, `regrowth_count_logarithmic`).
The earlier `…_partial` forms (two explicit no-regrowth hypotheses, call bound `records + 2`) are kept.
-/
namespace Exetera.Props.C05
open Exetera Exetera.Csv Exetera.Csv.Spec

/-- the staging buffers as the driver allocates them: `ncols` index rows of `maxrow + 1` zeros, `column_vals` of
    `column_offsets[-1]` zeros; `column_offsets` has `ncols + 1` non-decreasing entries starting at 0 -/
structure Buffers (ncols maxrow : Nat) (offs : List Nat) : Prop where
  len : offs.length = ncols + 1
  zero : offAt offs 0 = 0
  mono : ∀ c, c < ncols → offAt offs c ≤ offAt offs (c + 1)

/-- every column's bytes fit strictly into its budget `column_offsets[c+1] - column_offsets[c]` (no regrowth needed) -/
def Fits (ncols : Nat) (offs : List Nat) (rows : List (List Cell)) : Prop :=
  ∀ c, c < ncols → offAt offs c + (column (values rows) c).flatten.length < offAt offs (c + 1)

/-- **fsm_whole_eq_spec.** One call of `fast_csv_reader` on the text of a header line and a table, entered at byte 0 with
    fresh buffers that are large enough: it returns `next_pos = len(source)`, `written_row_count = number of records`,
    no full flag, and what `import_part` then reads from the staging buffers for column `c` is exactly column `c` of the
    table's values. -/
theorem fsm_whole_eq_spec {ncols maxrow : Nat} {offs : List Nat} (hrow : List Cell) (rows : List (List Cell))
    (hhdr : hrow.length = ncols ∧ ∀ c ∈ hrow, c.WF) (htab : Table ncols rows) (hbuf : Buffers ncols maxrow offs)
    (hfit : Fits ncols offs rows) (hrows : rows.length < maxrow) :
    ∃ o, fastCsvReader (render (hrow :: rows)) 0 (zeros2 ncols (maxrow + 1)) (List.replicate (offs.getLastD 0) 0) offs true
          = .ok o ∧
      o.nextPos = (render (hrow :: rows)).length ∧ o.written = rows.length ∧ o.indsFull = false ∧ o.valsFull = false ∧
      o.vfc = none ∧
      ∀ c, c < ncols →
        Imp.importPart { kind := .indexed } o.inds o.vals offs c rows.length = .ok (fieldOf (column (values rows) c)) := by
  obtain ⟨hnc, htab'⟩ := htab
  have hsh := shape_zeros (maxrow := maxrow) hbuf.len hbuf.zero hbuf.mono
  have hcap : RowsCap offs (fun _ => []) rows :=
    rowsCap_of_final offs ncols rows _ (fun r hr => (htab' r hr).1) (by simpa [Fits] using hfit)
  obtain ⟨o, hker, hok⟩ :=
    kernel_records (src := render (hrow :: rows)) (offs := offs) true hrow rows [] (by simp [render]) (fun _ => hhdr) htab' hnc
      hsh (by omega) (fun c hc => zeros_first c hc) hcap hrows (Or.inl rfl)
  refine ⟨o, by simpa using hker, hok.nextPos, hok.written, hok.indsFull, hok.valsFull, hok.vfc, ?_⟩
  intro c hc
  have hE : stageRows (fun _ => []) rows c = column (values rows) c := by rw [stageRows_col]; rfl
  have hlen : (column (values rows) c).length = rows.length := by
    rw [column_length]
    · simp [values]
    · intro r hr
      simp only [values, List.mem_map] at hr
      obtain ⟨r', hr', rfl⟩ := hr
      simp [(htab' r' hr').1, hc]
  have h := importPart_indexed (hok.cols c hc) (offs_get hbuf.len (by omega))
  rw [hE, hlen] at h
  exact h

/-- **fsm_split_at_record_end.** The state of the FSM at a record end is its initial state: a call entered at the end of
    the records `rowsA` (at byte `|pre|`, whatever text `pre` lies in front) on a window that continues with the records
    `rowsB` yields exactly `rowsB` — its result does not depend on `pre` — and resumes at the end of the window. Together
    with `render_append` / `column_append` this is how parsing splits at record boundaries. -/
theorem fsm_split_at_record_end {ncols maxrow : Nat} {offs : List Nat} (pre : List Nat) (rowsB : List (List Cell))
    (htab : Table ncols rowsB) (hne : rowsB ≠ []) (hbuf : Buffers ncols maxrow offs) (hfit : Fits ncols offs rowsB)
    (hrows : rowsB.length < maxrow) :
    ∃ o, fastCsvReader (pre ++ render rowsB) pre.length (zeros2 ncols (maxrow + 1)) (List.replicate (offs.getLastD 0) 0)
          offs false = .ok o ∧
      o.nextPos = (pre ++ render rowsB).length ∧ o.written = rowsB.length ∧ o.indsFull = false ∧ o.valsFull = false ∧
      ∀ c, c < ncols →
        Imp.importPart { kind := .indexed } o.inds o.vals offs c rowsB.length = .ok (fieldOf (column (values rowsB) c)) := by
  obtain ⟨hnc, htab'⟩ := htab
  have hsh := shape_zeros (maxrow := maxrow) hbuf.len hbuf.zero hbuf.mono
  have hcap : RowsCap offs (fun _ => []) rowsB :=
    rowsCap_of_final offs ncols rowsB _ (fun r hr => (htab' r hr).1) (by simpa [Fits] using hfit)
  obtain ⟨o, hker, hok⟩ :=
    kernel_records (src := pre ++ render rowsB) (offs := offs) false [] rowsB pre (by simp) (fun h => by cases h) htab' hnc
      hsh (by omega) (fun c hc => zeros_first c hc) hcap hrows (Or.inr hne)
  refine ⟨o, hker, hok.nextPos, hok.written, hok.indsFull, hok.valsFull, ?_⟩
  intro c hc
  have hE : stageRows (fun _ => []) rowsB c = column (values rowsB) c := by rw [stageRows_col]; rfl
  have hlen : (column (values rowsB) c).length = rowsB.length := by
    rw [column_length]
    · simp [values]
    · intro r hr
      simp only [values, List.mem_map] at hr
      obtain ⟨r', hr', rfl⟩ := hr
      simp [(htab' r' hr').1, hc]
  have h := importPart_indexed (hok.cols c hc) (offs_get hbuf.len (by omega))
  rw [hE, hlen] at h
  exact h

/-- **fsm_window_eq_spec** (the kernel half of `window_chunking_unobservable`). One call of `fast_csv_reader` on *any* window of
    the supported regime — entered at a record boundary `|pre|` (at byte 0 with the header line, or behind arbitrary text
    `pre` without it), holding the complete records `rowsA` and then only the first `m` bytes of the next record `r`, cut
    anywhere: inside a quoted cell, between the two quotes of an escaped quote, right behind a closing quote, inside the
    skipped blanks, at the record end (`m = 0`): the call reports exactly the records `rowsA`, `next_pos` is the start of
    `r` (so the driver re-reads `r` with the next window), no flag is raised, and nothing of the unfinished record is
    observable through `import_part`. Buffers need room for `rowsA` and `r` (`Fits`), and `rowsA` must not fill the index
    buffer. -/
theorem fsm_window_eq_spec {ncols maxrow : Nat} {offs : List Nat} (hh : Bool) (hrow : List Cell) (rowsA : List (List Cell))
    (r : List Cell) (m : Nat) (pre : List Nat)
    (hhdr : hh = true → hrow.length = ncols ∧ ∀ c ∈ hrow, c.WF) (htab : Table ncols (rowsA ++ [r]))
    (hm : m < (renderCells r).length) (hbuf : Buffers ncols maxrow offs) (hfit : Fits ncols offs (rowsA ++ [r]))
    (hrows : rowsA.length < maxrow) (hne : hh = true ∨ rowsA ≠ []) :
    ∃ o, fastCsvReader (pre ++ (((if hh then renderCells hrow else []) ++ render rowsA) ++ (renderCells r).take m)) pre.length
          (zeros2 ncols (maxrow + 1)) (List.replicate (offs.getLastD 0) 0) offs hh = .ok o ∧
      o.nextPos = (pre ++ ((if hh then renderCells hrow else []) ++ render rowsA)).length ∧ o.written = rowsA.length ∧
      o.indsFull = false ∧ o.valsFull = false ∧ o.vfc = none ∧
      ∀ c, c < ncols →
        Imp.importPart { kind := .indexed } o.inds o.vals offs c rowsA.length = .ok (fieldOf (column (values rowsA) c)) := by
  obtain ⟨hnc, htab'⟩ := htab
  have htabA : ∀ x ∈ rowsA, x.length = ncols ∧ ∀ c ∈ x, c.WF := fun x hx => htab' x (by simp [hx])
  have hr := htab' r (by simp)
  have hsh := shape_zeros (maxrow := maxrow) hbuf.len hbuf.zero hbuf.mono
  have hcap : RowsCap offs (fun _ => []) (rowsA ++ [r]) :=
    rowsCap_of_final offs ncols (rowsA ++ [r]) _ (fun x hx => (htab' x hx).1) (by simpa [Fits] using hfit)
  obtain ⟨o, hker, hok⟩ :=
    kernel_window (offs := offs) hh hrow rowsA r m pre rfl hm hr hhdr htabA hnc hsh (by omega)
      (fun c hc => zeros_first c hc) hcap hrows hne
  refine ⟨o, hker, hok.nextPos, hok.written, hok.indsFull, hok.valsFull, hok.vfc, ?_⟩
  intro c hc
  have hE : stageRows (fun _ => []) rowsA c = column (values rowsA) c := by rw [stageRows_col]; rfl
  have hlen : (column (values rowsA) c).length = rowsA.length := by
    rw [column_length]
    · simp [values]
    · intro x hx
      simp only [values, List.mem_map] at hx
      obtain ⟨x', hx', rfl⟩ := hx
      simp [(htabA x' hx').1, hc]
  have h := importPart_indexed (hok.cols c hc) (offs_get hbuf.len (by omega))
  rw [hE, hlen] at h
  exact h

/-- the text and the values of a table split at every record boundary -/
theorem render_append (a b : List (List Cell)) : render (a ++ b) = render a ++ render b := by
  induction a with
  | nil => rfl
  | cons r rs ih => simp [render, ih]

theorem column_append (a b : List (List Cell)) (c : Nat) :
    column (values (a ++ b)) c = column (values a) c ++ column (values b) c := by
  simp [column, values]

/-- **import_single_window_eq_spec.** `read_file_using_fast_csv_reader` on a well-formed file (with or without the final
    line break) whose bytes fit in one window (`len ≤ 2·chunk_row_size·columns`), whose columns fit their value budgets and
    whose records fit the index buffer (`rows < 2·chunk_row_size`): one kernel call, and the destination field of every
    column of `index_map` is exactly that column of the table, in file order; the row count is the number of records. -/
theorem import_single_window_eq_spec {file : List Nat} {crs ncols : Nat} {offs : List Nat} (hrow : List Cell)
    (rows : List (List Cell)) (im : List Nat) (fuel : Nat)
    (hfile : file = render (hrow :: rows) ∨ (file ++ [Csv.NL] = render (hrow :: rows) ∧ file.getLast? ≠ some Csv.NL))
    (hne : file ≠ []) (hhdr : hrow.length = ncols ∧ ∀ c ∈ hrow, c.WF) (htab : Table ncols rows) (hcrs : 0 < crs)
    (hwin : file.length ≤ crs * Gen.Csv.CHUNK_ROW_FACTOR * ncols)
    (hbuf : Buffers ncols (crs * Gen.Csv.CHUNK_ROW_FACTOR) offs) (hfit : Fits ncols offs rows)
    (hrows : rows.length < crs * Gen.Csv.CHUNK_ROW_FACTOR) (him : ∀ c ∈ im, c < ncols) (hfuel : 0 < fuel) :
    readFile file crs ncols offs im (im.map (fun _ => ({ kind := .indexed } : Imp))) fuel =
      .ok ⟨rows.length, im.map (fun c => fieldOf (column (values rows) c)), [(rows.length : Int)]⟩ :=
  readFile_single_window hrow rows im fuel hfile hne hhdr htab.2 htab.1 hcrs hwin hbuf.len hbuf.zero hbuf.mono hfit hrows
    him hfuel

/-- The supported regime of the property and the two no-regrowth conditions, for a file `file` that is the text of the header
    line `hrow` and the table `rows` (with or without the final line break), read with `chunk_row_size = crs`:
    * `reg`: every line (header line, every record, with its line break) fits the byte window `2·crs·ncols`
      — the regime stated in the property;
    * `min`: no line consists of empty cells only (such a line has exactly `ncols` bytes) — then a window never holds
      `2·crs` records and the index buffer never fills;
    * `fit`: every column's bytes fit its value budget — the value buffer never fills. -/
structure Supported (file : List Nat) (crs ncols : Nat) (offs : List Nat) (hrow : List Cell) (rows : List (List Cell)) :
    Prop where
  isFile : file = render (hrow :: rows) ∨ (file ++ [Csv.NL] = render (hrow :: rows) ∧ file.getLast? ≠ some Csv.NL)
  nonempty : file ≠ []
  hdr : hrow.length = ncols ∧ ∀ c ∈ hrow, c.WF
  tab : Table ncols rows
  crsPos : 0 < crs
  reg : ∀ l ∈ hrow :: rows, (renderCells l).length ≤ crs * Gen.Csv.CHUNK_ROW_FACTOR * ncols
  min : ∀ l ∈ hrow :: rows, ncols < (renderCells l).length
  buf : Buffers ncols (crs * Gen.Csv.CHUNK_ROW_FACTOR) offs
  fit : Fits ncols offs rows

/-- **window_chunking_unobservable_partial.** For *every* `chunk_row_size` in the supported regime — any number of windows,
    window boundaries anywhere (inside quoted cells, between the quotes of an escaped quote, at record ends) — the driver
    `read_file_using_fast_csv_reader` terminates within `rows + 2` kernel calls and the destination fields are exactly the
    columns of the table: the same result as reading the file in one window (`import_single_window_eq_spec`).
    Partial: the hypotheses `min` and `fit` exclude the runs in which a staging buffer fills (regrowth). -/
theorem window_chunking_unobservable_partial {file : List Nat} {crs ncols : Nat} {offs : List Nat} {hrow : List Cell}
    {rows : List (List Cell)} (h : Supported file crs ncols offs hrow rows) (im : List Nat) (him : ∀ c ∈ im, c < ncols)
    (fuel : Nat) (hfuel : rows.length + 2 ≤ fuel) :
    ∃ calls, readFile file crs ncols offs im (im.map (fun _ => ({ kind := .indexed } : Imp))) fuel =
      .ok ⟨rows.length, im.map (fun c => fieldOf (column (values rows) c)), calls⟩ :=
  readFile_windows
    { isFile := h.isFile, hdr := h.hdr, tab := h.tab.2, nc := h.tab.1, crsPos := h.crsPos, reg := h.reg, min := h.min,
      offsLen := h.buf.len, offs0 := h.buf.zero, mono := h.buf.mono, fit := h.fit, imOk := him }
    h.nonempty fuel hfuel

/-- **chunk_size_unobservable_partial.** Two imports of the same file with different `chunk_row_size` (and the budgets
    that go with them), both in the supported regime without regrowth, produce the same row count and the same fields. -/
theorem chunk_size_unobservable_partial {file : List Nat} {crs₁ crs₂ ncols : Nat} {offs₁ offs₂ : List Nat} {hrow : List Cell}
    {rows : List (List Cell)} (h₁ : Supported file crs₁ ncols offs₁ hrow rows) (h₂ : Supported file crs₂ ncols offs₂ hrow rows)
    (im : List Nat) (him : ∀ c ∈ im, c < ncols) (fuel : Nat) (hfuel : rows.length + 2 ≤ fuel) :
    ∃ o₁ o₂, readFile file crs₁ ncols offs₁ im (im.map (fun _ => ({ kind := .indexed } : Imp))) fuel = .ok o₁ ∧
      readFile file crs₂ ncols offs₂ im (im.map (fun _ => ({ kind := .indexed } : Imp))) fuel = .ok o₂ ∧
      o₁.rows = o₂.rows ∧ o₁.imps = o₂.imps := by
  obtain ⟨c1, e1⟩ := window_chunking_unobservable_partial h₁ im him fuel hfuel
  obtain ⟨c2, e2⟩ := window_chunking_unobservable_partial h₂ im him fuel hfuel
  exact ⟨_, _, e1, e2, rfl, rfl⟩

/-- **read_csv_eq_spec_partial.** The public entry point `read_csv_with_schema_dict` on a file whose columns are all imported
    as indexed strings (`String()` in the schema, or missing from it), for any include / exclude lists of known names and
    every `chunk_row_size` in the supported regime (no regrowth: every column holds fewer than
    `INDEXED_STRING_FIELD_SIZE · chunk_row_size` bytes, no record of empty cells only): the destination frame holds exactly
    the selected columns (`fieldsToUse`, in file order), each with exactly the records' cell values, and `rows` (the length
    of `j_valid_from`) is the number of records. -/
theorem read_csv_eq_spec_partial {file : List Nat} {crs ncols : Nat} {hrow : List Cell} {rows : List (List Cell)}
    (names : List String) (schema : List (String × FieldKind)) (incl excl : Option (List String))
    (hall : ∀ k ∈ names, kindOf schema k = .indexed) (hnames : names.length = ncols)
    (hincl : ∀ l, incl = some l → ∀ k ∈ l, k ∈ names) (hexcl : ∀ l, excl = some l → ∀ k ∈ l, k ∈ names)
    (hfile : file = render (hrow :: rows) ∨ (file ++ [Csv.NL] = render (hrow :: rows) ∧ file.getLast? ≠ some Csv.NL))
    (hne : file ≠ []) (hhdr : hrow.length = ncols ∧ ∀ c ∈ hrow, c.WF) (htab : Table ncols rows) (hcrs : 0 < crs)
    (hreg : ∀ l ∈ hrow :: rows, (renderCells l).length ≤ crs * Gen.Csv.CHUNK_ROW_FACTOR * ncols)
    (hmin : ∀ l ∈ hrow :: rows, ncols < (renderCells l).length)
    (hfit : ∀ c, c < ncols → (column (values rows) c).flatten.length < Gen.Csv.INDEXED_STRING_FIELD_SIZE * crs)
    (fuel : Nat) (hfuel : rows.length + 2 ≤ fuel) :
    readCsv file names schema incl excl crs fuel =
      .ok ⟨rows.length, (fieldsToUse names incl excl).map
        (fun k => ⟨k, fieldOf (column (values rows) (names.idxOf k))⟩)⟩ :=
  readCsv_windows names schema incl excl hall hnames hincl hexcl hfile hne hhdr htab.2 htab.1 hcrs hreg hmin hfit fuel hfuel

theorem fieldsToUse_sublist (names : List String) (incl excl : Option (List String)) :
    (fieldsToUse names incl excl).Sublist names := by
  unfold fieldsToUse
  cases incl <;> cases excl <;> simp only
  · exact List.Sublist.refl _
  · exact List.filter_sublist
  · exact List.filter_sublist
  · exact List.Sublist.trans List.filter_sublist List.filter_sublist

/-- **include_exclude_selects.** include / exclude lists select exactly the named columns, in file order, and
    `index_map` points at them. -/
theorem include_exclude_selects (names : List String) (incl excl : Option (List String)) :
    (fieldsToUse names incl excl).Sublist names ∧
    (∀ k, k ∈ fieldsToUse names incl excl ↔
      k ∈ names ∧ (∀ i, incl = some i → k ∈ i) ∧ (∀ e, excl = some e → k ∉ e)) ∧
    (∀ k ∈ fieldsToUse names incl excl, names[names.idxOf k]? = some k) := by
  refine ⟨fieldsToUse_sublist names incl excl, ?_, ?_⟩
  · intro k
    unfold fieldsToUse
    cases incl <;> cases excl <;> simp [List.mem_filter]
    intro _; exact And.comm
  · intro k hk
    have hmem : k ∈ names := (fieldsToUse_sublist names incl excl).subset hk
    have hlt : names.idxOf k < names.length := List.idxOf_lt_length_of_mem hmem
    rw [List.getElem?_eq_getElem hlt]
    simp [List.getElem_idxOf hlt]

/-! ### non-vacuity: a concrete file with a quoted separator, a doubled quote, a quoted line break and a blank-led cell -/

/-- header `a,b`; records `x,"p,q"` / ` y,"r""s"` / `,"t⏎u"` -/
def exHeader : List Cell := [⟨false, [97]⟩, ⟨false, [98]⟩]
def exRows : List (List Cell) :=
  [[⟨false, [120]⟩, ⟨true, [112, 44, 113]⟩], [⟨false, [32, 121]⟩, ⟨true, [114, 34, 115]⟩], [⟨false, []⟩, ⟨true, [116, 10, 117]⟩]]

example : Table 2 exRows := by
  refine ⟨by decide, ?_⟩
  intro r hr
  simp only [exRows, List.mem_cons, List.not_mem_nil, or_false] at hr
  rcases hr with h | h | h <;> subst h <;> refine ⟨rfl, ?_⟩ <;> intro c hc <;>
    simp only [List.mem_cons, List.not_mem_nil, or_false] at hc <;> rcases hc with h | h <;> subst h <;>
    simp [Cell.WF] <;> decide

example : Buffers 2 4 [0, 20, 40] := by
  refine ⟨rfl, rfl, ?_⟩
  intro c hc
  have : c = 0 ∨ c = 1 := by omega
  rcases this with rfl | rfl <;> decide
example : Fits 2 [0, 20, 40] exRows := by
  intro c hc
  have : c = 0 ∨ c = 1 := by omega
  rcases this with rfl | rfl <;> decide

/-- the model evaluated on that file (read in one window, `chunk_row_size = 10`): 3 records, `" y"` stored as `"y"` -/
example : (match readFile (render (exHeader :: exRows)) 10 2 [0, 100, 200] [0, 1]
                   [{ kind := .indexed }, { kind := .indexed }] 5 with
           | .ok o => decide (o = ⟨3, [fieldOf [[120], [121], []], fieldOf [[112, 44, 113], [114, 34, 115], [116, 10, 117]]], [3]⟩)
           | .error _ => false) = true := by
  decide +kernel

/-- a window cut between the two quotes of the doubled quote of the second record: one record reported, resume at byte 12 -/
example : (match fastCsvReader (render [exHeader, [⟨false, [120]⟩, ⟨true, [112, 44, 113]⟩]] ++
                 (renderCells [⟨false, [32, 121]⟩, ⟨true, [114, 34, 115]⟩]).take 6) 0 (zeros2 2 5) (List.replicate 40 0)
                 [0, 20, 40] true with
           | .ok o => decide (o.nextPos = 12 ∧ o.written = 1 ∧ o.indsFull = false ∧ o.valsFull = false)
           | .error _ => false) = true := by
  decide +kernel

example : Table 2 ([[⟨false, [120]⟩, ⟨true, [112, 44, 113]⟩]] ++ [[⟨false, [32, 121]⟩, ⟨true, [114, 34, 115]⟩]]) ∧
    6 < (renderCells [⟨false, [32, 121]⟩, ⟨true, [114, 34, 115]⟩]).length := by
  refine ⟨⟨by decide, ?_⟩, by decide⟩
  intro r hr
  simp only [List.cons_append, List.nil_append, List.mem_cons, List.not_mem_nil, or_false] at hr
  rcases hr with h | h <;> subst h <;> refine ⟨rfl, ?_⟩ <;> intro c hc <;>
    simp only [List.mem_cons, List.not_mem_nil, or_false] at hc <;> rcases hc with h | h <;> subst h <;>
    simp [Cell.WF] <;> decide

/-- the example file read with `chunk_row_size = 3` (windows of 12 bytes: three kernel calls) is in the supported regime -/
example : Supported (render (exHeader :: exRows)) 3 2 [0, 100, 200] exHeader exRows := by
  refine ⟨Or.inl rfl, by decide, ⟨rfl, ?_⟩, ⟨by decide, ?_⟩, by decide, ?_, ?_, ⟨rfl, rfl, ?_⟩, ?_⟩
  · intro c hc
    simp only [exHeader, List.mem_cons, List.not_mem_nil, or_false] at hc
    rcases hc with h | h <;> subst h <;> simp [Cell.WF] <;> decide
  · intro r hr
    simp only [exRows, List.mem_cons, List.not_mem_nil, or_false] at hr
    rcases hr with h | h | h <;> subst h <;> refine ⟨rfl, ?_⟩ <;> intro c hc <;>
      simp only [List.mem_cons, List.not_mem_nil, or_false] at hc <;> rcases hc with h | h <;> subst h <;>
      simp [Cell.WF] <;> decide
  · intro l hl
    simp only [exHeader, exRows, List.mem_cons, List.not_mem_nil, or_false] at hl
    rcases hl with h | h | h | h <;> subst h <;> decide
  · intro l hl
    simp only [exHeader, exRows, List.mem_cons, List.not_mem_nil, or_false] at hl
    rcases hl with h | h | h | h <;> subst h <;> decide
  · intro c hc
    have : c = 0 ∨ c = 1 := by omega
    rcases this with rfl | rfl <;> decide
  · intro c hc
    have : c = 0 ∨ c = 1 := by omega
    rcases this with rfl | rfl <;> decide

example : (match readFile (render (exHeader :: exRows)) 3 2 [0, 100, 200] [0, 1]
                   [{ kind := .indexed }, { kind := .indexed }] 6 with
           | .ok o => decide (o = ⟨3, [fieldOf [[120], [121], []], fieldOf [[112, 44, 113], [114, 34, 115], [116, 10, 117]]],
                                   [1, 1, 1]⟩)
           | .error _ => false) = true := by
  decide +kernel

/-- the public path on the example file: `include=["b","a"]`, `exclude=["a"]`, `chunk_row_size = 3` selects column `b` -/
example : (match readCsv (render (exHeader :: exRows)) ["a", "b"] [("a", .indexed)] (some ["b", "a"]) (some ["a"]) 3 6 with
           | .ok o => decide (o = ⟨3, [⟨"b", fieldOf [[112, 44, 113], [114, 34, 115], [116, 10, 117]]⟩]⟩)
           | .error _ => false) = true := by
  decide +kernel

example : values exRows = [[[120], [112, 44, 113]], [[121], [114, 34, 115]], [[], [116, 10, 117]]] := by decide
example : fieldsToUse ["a", "b", "c"] (some ["c", "a"]) (some ["a"]) = ["c"] := by decide

/-! ### the full statements: any number of buffer regrowths -/

/-- `column_offsets` as the driver needs them: `ncols + 1` entries starting at 0, every column's value budget
    `column_offsets[c+1] - column_offsets[c]` at least one byte (`read_csv_with_schema_dict` guarantees it: fix NC05b) -/
structure Budgets (ncols : Nat) (offs : List Nat) : Prop where
  len : offs.length = ncols + 1
  zero : offAt offs 0 = 0
  pos : ∀ c, c < ncols → offAt offs c < offAt offs (c + 1)

/-- **fsm_any_buffers_eq_spec** (what one call of `fast_csv_reader` does when a staging buffer may fill). The window holds,
    from the record boundary `|pre|` on, (the header line,) the complete records `rowsW` and then what `nxt` says: nothing, or
    the first `m` bytes of one more record. Index buffer of `maxrow ≥ 1` rows, value budgets ≥ 1, stale contents allowed
    (`Shape`, first index entry 0). The call returns `.ok` (no subscript out of bounds, loop terminates), reports some number
    `a ≤ |rowsW|` of records — *exactly the first `a` records*, column by column, through `import_part` — resumes at the end
    of record `a`, and one of three things holds: no flag and `a = |rowsW|`; `is_column_inds_full` only and `a = maxrow`;
    `is_column_vals_full` only, `val_full_col_idx = j < ncols`, and the budget of column `j` is at most the bytes of
    column `j` in the first `a + 1` records (so doubling it is progress). -/
theorem fsm_any_buffers_eq_spec {ncols maxrow : Nat} {offs : List Nat} {inds : List (List Nat)} {vals : List Nat}
    (hh : Bool) (hrow : List Cell) (rowsW : List (List Cell)) (nxt : Option (List Cell × Nat)) (pre : List Nat)
    (hnxt : ∀ r m, nxt = some (r, m) → m < (renderCells r).length ∧ r.length = ncols ∧ ∀ c ∈ r, c.WF)
    (hhdr : hh = true → hrow.length = ncols ∧ ∀ c ∈ hrow, c.WF) (htab : Table ncols rowsW)
    (hbuf : Budgets ncols offs) (hsh : Shape ncols maxrow offs inds vals) (hmax : 0 < maxrow)
    (hz : ∀ c, c < ncols → ∃ r, inds[c]? = some r ∧ r[0]? = some 0) :
    ∃ o a, fastCsvReader (pre ++ (((if hh then renderCells hrow else []) ++ render rowsW) ++ tailText nxt)) pre.length inds vals
          offs hh = .ok o ∧
      a ≤ rowsW.length ∧ o.written = (a : Int) ∧
      o.nextPos = (pre ++ ((if hh then renderCells hrow else []) ++ render (rowsW.take a))).length ∧
      (∀ c, c < ncols →
        Imp.importPart { kind := .indexed } o.inds o.vals offs c a = .ok (fieldOf (column (values (rowsW.take a)) c))) ∧
      ((o.indsFull = false ∧ o.valsFull = false ∧ o.vfc = none ∧ a = rowsW.length)
       ∨ (o.indsFull = true ∧ o.valsFull = false ∧ o.vfc = none ∧ a = maxrow)
       ∨ (o.indsFull = false ∧ o.valsFull = true ∧ ∃ j, j < ncols ∧ o.vfc = some j ∧
            offAt offs (j + 1) - offAt offs j ≤
              (column (values ((rowsW ++ tailRows nxt).take (a + 1))) j).flatten.length)) := by
  obtain ⟨hnc, htab'⟩ := htab
  obtain ⟨o, a, hker, hale, hres, hout⟩ :=
    kernel_general (offs := offs) hh hrow rowsW nxt pre rfl hnxt hhdr htab' hnc hsh hmax hz hbuf.pos
  refine ⟨o, a, hker, hale, hres.written, hres.nextPos, ?_, ?_⟩
  · intro c hc
    have htabA : ∀ x ∈ rowsW.take a, x.length = ncols ∧ ∀ c ∈ x, c.WF := fun x hx => htab' x (List.mem_of_mem_take hx)
    have hE : stageRows (fun _ => []) (rowsW.take a) c = column (values (rowsW.take a)) c := by rw [stageRows_col]; rfl
    have hlen : (column (values (rowsW.take a)) c).length = a := by
      rw [← hE, stageRows_length _ htabA c hc, List.length_take]; omega
    have h := importPart_indexed (hres.cols c hc) (offs_get hbuf.len (by omega))
    rw [hE, hlen] at h
    exact h
  · rcases hout with h | h | ⟨h1, h2, j, hj, h3, h4⟩
    · exact Or.inl h
    · exact Or.inr (Or.inl h)
    · exact Or.inr (Or.inr ⟨h1, h2, j, hj, h3, by omega⟩)

/-- The supported regime of the property — and nothing else — for a file `file` that is the text of the header line `hrow`
    and the table `rows` (RFC-4180 cells; with or without the final line break), read with `chunk_row_size = crs`:
    every line (the header line, every record, with its line break) fits the byte window `2·crs·ncols`. -/
structure Regime (file : List Nat) (crs ncols : Nat) (hrow : List Cell) (rows : List (List Cell)) : Prop where
  isFile : file = render (hrow :: rows) ∨ (file ++ [Csv.NL] = render (hrow :: rows) ∧ file.getLast? ≠ some Csv.NL)
  nonempty : file ≠ []
  hdr : hrow.length = ncols ∧ ∀ c ∈ hrow, c.WF
  tab : Table ncols rows
  crsPos : 0 < crs
  reg : ∀ l ∈ hrow :: rows, (renderCells l).length ≤ crs * Gen.Csv.CHUNK_ROW_FACTOR * ncols

/-- **regrowth_count_logarithmic.** `need b t` — the number of times a buffer of size `b` is enlarged (multiplied by the
    driver's `larger_factor`, regenerated from the source and checked to be ≥ 2) before it exceeds `t` — satisfies
    `b · 2^(need b t − 1) ≤ t`: at most `log₂ (t / b) + 1` regrowths. `regrowthBound rows ncols offs maxrow` is
    `need maxrow |rows|` (index buffer) plus, for every column `c`, `need (budget c) (bytes of column c)`. -/
theorem regrowth_count_logarithmic (b t : Nat) (h : 0 < need b t) : b * 2 ^ (need b t - 1) ≤ t :=
  need_pow t (t + 1 - b) b (Nat.le_refl _) h

/-- **window_chunking_unobservable** (full statement). For *every* `chunk_row_size` in the supported regime, *every* starting
    value budgets ≥ 1 and whatever regrowth they force — the index buffer filling (records of empty cells), a value budget
    filling (cells longer than the budget), any number of times, in any window, also in the window that holds the header —
    `read_file_using_fast_csv_reader` returns `.ok` within `records + 2 + regrowthBound` kernel calls, and the destination
    fields are exactly the columns of the table: the same result as reading the file in one window with ample buffers
    (`import_single_window_eq_spec`). -/
theorem window_chunking_unobservable {file : List Nat} {crs ncols : Nat} {offs : List Nat} {hrow : List Cell}
    {rows : List (List Cell)} (h : Regime file crs ncols hrow rows) (hb : Budgets ncols offs) (im : List Nat)
    (him : ∀ c ∈ im, c < ncols) (fuel : Nat)
    (hfuel : rows.length + 2 + regrowthBound rows ncols offs (crs * Gen.Csv.CHUNK_ROW_FACTOR) ≤ fuel) :
    ∃ calls, readFile file crs ncols offs im (im.map (fun _ => ({ kind := .indexed } : Imp))) fuel =
      .ok ⟨rows.length, im.map (fun c => fieldOf (column (values rows) c)), calls⟩ :=
  readFile_regrowth
    { isFile := h.isFile, hdr := h.hdr, tab := h.tab.2, nc := h.tab.1, crsPos := h.crsPos, reg := h.reg, imOk := him }
    h.nonempty hb.len hb.zero hb.pos fuel hfuel

/-- **regrowth_unobservable.** Two imports of the same file with the same `chunk_row_size` and different starting budgets
    (each ≥ 1 byte per column; e.g. one that never fills and one that fills in every window) produce the same row count and
    the same fields: how the internal buffers had to grow is not observable. -/
theorem regrowth_unobservable {file : List Nat} {crs ncols : Nat} {offs₁ offs₂ : List Nat} {hrow : List Cell}
    {rows : List (List Cell)} (h : Regime file crs ncols hrow rows) (hb₁ : Budgets ncols offs₁) (hb₂ : Budgets ncols offs₂)
    (im : List Nat) (him : ∀ c ∈ im, c < ncols) (fuel : Nat)
    (hfuel₁ : rows.length + 2 + regrowthBound rows ncols offs₁ (crs * Gen.Csv.CHUNK_ROW_FACTOR) ≤ fuel)
    (hfuel₂ : rows.length + 2 + regrowthBound rows ncols offs₂ (crs * Gen.Csv.CHUNK_ROW_FACTOR) ≤ fuel) :
    ∃ o₁ o₂, readFile file crs ncols offs₁ im (im.map (fun _ => ({ kind := .indexed } : Imp))) fuel = .ok o₁ ∧
      readFile file crs ncols offs₂ im (im.map (fun _ => ({ kind := .indexed } : Imp))) fuel = .ok o₂ ∧
      o₁.rows = o₂.rows ∧ o₁.imps = o₂.imps := by
  obtain ⟨c1, e1⟩ := window_chunking_unobservable h hb₁ im him fuel hfuel₁
  obtain ⟨c2, e2⟩ := window_chunking_unobservable h hb₂ im him fuel hfuel₂
  exact ⟨_, _, e1, e2, rfl, rfl⟩

/-- **chunk_size_unobservable** (full statement). Two imports of the same file with different `chunk_row_size` (both in the
    supported regime) and any starting budgets ≥ 1 produce the same row count and the same fields, whatever regrowth
    either of them goes through. -/
theorem chunk_size_unobservable {file : List Nat} {crs₁ crs₂ ncols : Nat} {offs₁ offs₂ : List Nat} {hrow : List Cell}
    {rows : List (List Cell)} (h₁ : Regime file crs₁ ncols hrow rows) (h₂ : Regime file crs₂ ncols hrow rows)
    (hb₁ : Budgets ncols offs₁) (hb₂ : Budgets ncols offs₂) (im : List Nat) (him : ∀ c ∈ im, c < ncols) (fuel : Nat)
    (hfuel₁ : rows.length + 2 + regrowthBound rows ncols offs₁ (crs₁ * Gen.Csv.CHUNK_ROW_FACTOR) ≤ fuel)
    (hfuel₂ : rows.length + 2 + regrowthBound rows ncols offs₂ (crs₂ * Gen.Csv.CHUNK_ROW_FACTOR) ≤ fuel) :
    ∃ o₁ o₂, readFile file crs₁ ncols offs₁ im (im.map (fun _ => ({ kind := .indexed } : Imp))) fuel = .ok o₁ ∧
      readFile file crs₂ ncols offs₂ im (im.map (fun _ => ({ kind := .indexed } : Imp))) fuel = .ok o₂ ∧
      o₁.rows = o₂.rows ∧ o₁.imps = o₂.imps := by
  obtain ⟨c1, e1⟩ := window_chunking_unobservable h₁ hb₁ im him fuel hfuel₁
  obtain ⟨c2, e2⟩ := window_chunking_unobservable h₂ hb₂ im him fuel hfuel₂
  exact ⟨_, _, e1, e2, rfl, rfl⟩

/-- **read_csv_eq_spec** (full statement). The public entry point `read_csv_with_schema_dict` on a well-formed file whose
    columns are imported as text (`String()` in the schema, or missing from it — typed conversion is C06), for any
    include / exclude lists of known names and *every* `chunk_row_size` in the supported regime, with the budgets the
    function itself computes (`INDEXED_STRING_FIELD_SIZE · chunk_row_size` bytes per column, `2 · chunk_row_size` index rows)
    and every regrowth they force: the destination frame holds exactly the selected columns (`fieldsToUse`, in file order),
    each with exactly the records' cell values, and `rows` (the length of `j_valid_from`) is the number of records. The
    number of kernel calls is at most `records + 2 + csvRegrowthBound`. -/
theorem read_csv_eq_spec {file : List Nat} {crs ncols : Nat} {hrow : List Cell} {rows : List (List Cell)}
    (names : List String) (schema : List (String × FieldKind)) (incl excl : Option (List String))
    (hall : ∀ k ∈ names, kindOf schema k = .indexed) (hnames : names.length = ncols)
    (hincl : ∀ l, incl = some l → ∀ k ∈ l, k ∈ names) (hexcl : ∀ l, excl = some l → ∀ k ∈ l, k ∈ names)
    (h : Regime file crs ncols hrow rows)
    (fuel : Nat) (hfuel : rows.length + 2 + csvRegrowthBound rows ncols crs ≤ fuel) :
    readCsv file names schema incl excl crs fuel =
      .ok ⟨rows.length, (fieldsToUse names incl excl).map
        (fun k => ⟨k, fieldOf (column (values rows) (names.idxOf k))⟩)⟩ :=
  readCsv_regrowth names schema incl excl hall hnames hincl hexcl h.isFile h.nonempty h.hdr h.tab.2 h.tab.1 h.crsPos h.reg
    fuel hfuel

/-! ### non-vacuity of the full statements: the example file with one-byte budgets (three regrowths in the first window) -/

example : Regime (render (exHeader :: exRows)) 3 2 exHeader exRows := by
  refine ⟨Or.inl rfl, by decide, ⟨rfl, ?_⟩, ⟨by decide, ?_⟩, by decide, ?_⟩
  · intro c hc
    simp only [exHeader, List.mem_cons, List.not_mem_nil, or_false] at hc
    rcases hc with h | h <;> subst h <;> simp [Cell.WF] <;> decide
  · intro r hr
    simp only [exRows, List.mem_cons, List.not_mem_nil, or_false] at hr
    rcases hr with h | h | h <;> subst h <;> refine ⟨rfl, ?_⟩ <;> intro c hc <;>
      simp only [List.mem_cons, List.not_mem_nil, or_false] at hc <;> rcases hc with h | h <;> subst h <;>
      simp [Cell.WF] <;> decide
  · intro l hl
    simp only [exHeader, exRows, List.mem_cons, List.not_mem_nil, or_false] at hl
    rcases hl with h | h | h | h <;> subst h <;> decide

example : Budgets 2 [0, 1, 2] := by
  refine ⟨rfl, rfl, ?_⟩
  intro c hc
  have : c = 0 ∨ c = 1 := by omega
  rcases this with rfl | rfl <;> decide

/-- the bound of `window_chunking_unobservable` for that run: at most `3 + 2 + 6` calls (with `larger_factor = 2` column `b`,
    9 bytes, goes 1 → 2 → 4 → 8 → 16 and column `a`, 2 bytes, 1 → 2 → 4) -/
example : regrowthBound exRows 2 [0, 1, 2] (3 * Gen.Csv.CHUNK_ROW_FACTOR) ≤ 6 := by decide +kernel

/-- the model on that run (with `larger_factor = 2`: six kernel calls `[0, 0, 0, 1, 1, 1]`, three of them ended by
    `is_column_vals_full` without a complete record) -/
example : (match readFile (render (exHeader :: exRows)) 3 2 [0, 1, 2] [0, 1]
                   [{ kind := .indexed }, { kind := .indexed }] 11 with
           | .ok o => decide (o.rows = 3 ∧ o.imps = [fieldOf [[120], [121], []],
                                fieldOf [[112, 44, 113], [114, 34, 115], [116, 10, 117]]] ∧ 3 < o.calls.length)
           | .error _ => false) = true := by
  decide +kernel

/-- eleven records of empty cells read with `chunk_row_size = 3` (windows of 12 bytes, 6 index rows): the second window holds
    exactly 6 records, the index buffer fills at its last byte, is doubled, and the resumed call finds nothing left -/
example : (match readFile (render (exHeader :: List.replicate 11 [⟨false, []⟩, ⟨false, []⟩])) 3 2 [0, 1, 2] [0]
                   [{ kind := .indexed }] 30 with
           | .ok o => decide (o.rows = 11 ∧ o.calls = [4, 6, 0, 1])
           | .error _ => false) = true := by
  decide +kernel

/-- a kernel call that ends with `is_column_vals_full`: one record reported (resume at byte 12), the budget of column 1
    (4 bytes) is used up inside record 2 -/
example : (match fastCsvReader (render (exHeader :: exRows)) 0 (zeros2 2 5) (List.replicate 7 0) [0, 3, 7] true with
           | .ok o => decide (o.nextPos = 12 ∧ o.written = 1 ∧ o.indsFull = false ∧ o.valsFull = true ∧ o.vfc = some 1)
           | .error _ => false) = true := by
  decide +kernel

/-- a kernel call that ends with `is_column_inds_full`: two index rows, two records of one empty cell reported -/
example : (match fastCsvReader (render ([⟨false, [97]⟩] :: List.replicate 5 [⟨false, []⟩])) 2 (zeros2 1 3) (List.replicate 1 0)
                 [0, 1] false with
           | .ok o => decide (o.nextPos = 4 ∧ o.written = 2 ∧ o.indsFull = true ∧ o.valsFull = false ∧ o.vfc = none)
           | .error _ => false) = true := by
  decide +kernel

example : csvRegrowthBound exRows 2 3 = 0 := by decide +kernel

/-- hypotheses of `fsm_any_buffers_eq_spec` for the call above: budgets 3 and 4, fresh buffers with 4 index rows -/
example : Budgets 2 [0, 3, 7] ∧ Shape 2 4 [0, 3, 7] (zeros2 2 5) (List.replicate ([0, 3, 7].getLastD 0) 0) ∧
    (∀ c, c < 2 → ∃ r, (zeros2 2 5)[c]? = some r ∧ r[0]? = some 0) := by
  have hb : Budgets 2 [0, 3, 7] := by
    refine ⟨rfl, rfl, ?_⟩
    intro c hc
    have : c = 0 ∨ c = 1 := by omega
    rcases this with rfl | rfl <;> decide
  exact ⟨hb, shape_zeros hb.len hb.zero (fun c hc => Nat.le_of_lt (hb.pos c hc)), fun c hc => zeros_first c hc⟩

/-- the public path with a regrowth: six columns, `chunk_row_size = 3` (window 36 bytes, budget 30 bytes per column), one record
    whose first cell has 30 bytes and fills the window exactly: the second kernel call ends with `is_column_vals_full`, the
    third one (budget 60) imports the record; `1 + 2 + csvRegrowthBound = 4` calls suffice -/
def exHeader6 : List Cell := [⟨false, [97]⟩, ⟨false, [98]⟩, ⟨false, [99]⟩, ⟨false, [100]⟩, ⟨false, [101]⟩, ⟨false, [102]⟩]
def exRows6 : List (List Cell) :=
  [[⟨false, List.replicate 30 120⟩, ⟨false, []⟩, ⟨false, []⟩, ⟨false, []⟩, ⟨false, []⟩, ⟨false, []⟩]]

example : Regime (render (exHeader6 :: exRows6)) 3 6 exHeader6 exRows6 := by
  refine ⟨Or.inl rfl, by decide, ⟨rfl, ?_⟩, ⟨by decide, ?_⟩, by decide, ?_⟩
  · intro c hc
    simp only [exHeader6, List.mem_cons, List.not_mem_nil, or_false] at hc
    rcases hc with h | h | h | h | h | h <;> subst h <;> simp [Cell.WF] <;> decide
  · intro r hr
    simp only [exRows6, List.mem_cons, List.not_mem_nil, or_false] at hr
    subst hr
    refine ⟨rfl, ?_⟩
    intro c hc
    simp only [List.mem_cons, List.not_mem_nil, or_false] at hc
    rcases hc with h | h | h | h | h | h <;> subst h <;> simp [Cell.WF] <;> decide
  · intro l hl
    simp only [exHeader6, exRows6, List.mem_cons, List.not_mem_nil, or_false] at hl
    rcases hl with h | h <;> subst h <;> decide

example : csvRegrowthBound exRows6 6 3 = 1 := by decide +kernel

example : (match readCsv (render (exHeader6 :: exRows6)) ["a", "b", "c", "d", "e", "f"] [] (some ["a"]) none 3 4 with
           | .ok o => decide (o = ⟨1, [⟨"a", fieldOf [List.replicate 30 120]⟩]⟩)
           | .error _ => false) = true := by
  decide +kernel

example : (match readFile (render (exHeader6 :: exRows6)) 3 6 [0, 30, 60, 90, 120, 150, 180] [0] [{ kind := .indexed }] 4 with
           | .ok o => decide (o.rows = 1 ∧ o.calls = [0, 0, 1])
           | .error _ => false) = true := by
  decide +kernel

end Exetera.Props.C05
