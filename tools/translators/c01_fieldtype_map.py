#!/usr/bin/env python3
"""Translator (tie T of DESIGN.md 1.2) for C01/C15: regenerates lean/Exetera/Gen/FieldTypeMap.lean from the SOURCE TEXT of
   exetera/core/session.py   (Session.get: the literal dict `fieldtype_map`)
   exetera/core/fields.py    (every *_field_constructor: the `fieldtype` attribute it writes; the dtype argument of the
                              categorical constructor's `key_values` dataset)
   exetera/core/dataframe.py (every HDF5DataFrame.create_*: which constructor it calls and which Field class it wraps)
Only `ast` is used; exetera is not imported. Exit code 1 (and no file written) when the source no longer has this shape."""
import argparse
import ast
import sys
import warnings
from pathlib import Path

warnings.simplefilter("ignore")          # SyntaxWarnings of the parsed sources are not ours

OUT = Path(__file__).resolve().parent.parent.parent / "lean" / "Exetera" / "Gen" / "FieldTypeMap.lean"


def fail(msg):
    print("c01_fieldtype_map: " + msg, file=sys.stderr)
    sys.exit(1)


def find_func(tree, name, cls=None):
    for node in ast.walk(tree):
        if cls is not None:
            if isinstance(node, ast.ClassDef) and node.name == cls:
                for f in node.body:
                    if isinstance(f, ast.FunctionDef) and f.name == name:
                        return f
        elif isinstance(node, ast.FunctionDef) and node.name == name:
            return node
    return None


def fieldtype_map(session_src):
    tree = ast.parse(session_src)
    get = find_func(tree, "get", "Session") or fail("Session.get not found")
    for node in ast.walk(get):
        if isinstance(node, ast.Assign) and any(isinstance(t, ast.Name) and t.id == "fieldtype_map" for t in node.targets):
            if not isinstance(node.value, ast.Dict):
                fail("fieldtype_map is not a literal dict")
            out = []
            for k, v in zip(node.value.keys, node.value.values):
                if not (isinstance(k, ast.Constant) and isinstance(k.value, str) and isinstance(v, ast.Attribute)):
                    fail("fieldtype_map entry is not 'str': fld.Class")
                out.append((k.value, v.attr))
            return out
    fail("no assignment to fieldtype_map in Session.get")


def constructors(fields_src):
    tree = ast.parse(fields_src)
    out, key_dtype = [], None
    for fn in tree.body:
        if not (isinstance(fn, ast.FunctionDef) and fn.name.endswith("_field_constructor")):
            continue
        fmt = None
        for node in ast.walk(fn):
            if isinstance(node, ast.Assign) and len(node.targets) == 1:
                t = node.targets[0]
                if (isinstance(t, ast.Subscript) and isinstance(t.value, ast.Attribute) and t.value.attr == "attrs"
                        and isinstance(t.slice, ast.Constant) and t.slice.value == "fieldtype"):
                    v = node.value
                    if isinstance(v, ast.Constant) and isinstance(v.value, str):
                        fmt = v.value
                    elif (isinstance(v, ast.Call) and isinstance(v.func, ast.Attribute) and v.func.attr == "format"
                          and isinstance(v.func.value, ast.Constant)):
                        fmt = v.func.value.value
                    else:
                        fail(f"{fn.name}: fieldtype attribute is not a string literal or 'literal'.format(...)")
            if (fn.name == "categorical_field_constructor" and isinstance(node, ast.Call)
                    and isinstance(node.func, ast.Attribute) and node.func.attr == "write" and len(node.args) >= 5
                    and isinstance(node.args[1], ast.Constant) and node.args[1].value == "key_values"):
                key_dtype = ast.unparse(node.args[4])
        if fmt is None:
            fail(f"{fn.name}: no fieldtype attribute assignment")
        out.append((fn.name, fmt.split(",")[0], fmt))
    if not out:
        fail("no *_field_constructor functions found")
    if key_dtype is None:
        fail("categorical_field_constructor: DataWriter.write(field, 'key_values', …, dtype) not found")
    return out, key_dtype


def create_methods(df_src):
    tree = ast.parse(df_src)
    out = []
    for node in ast.walk(tree):
        if isinstance(node, ast.ClassDef) and node.name == "HDF5DataFrame":
            for fn in node.body:
                if not (isinstance(fn, ast.FunctionDef) and fn.name.startswith("create_") and fn.name != "create_group"):
                    continue
                ctor = cls = None
                for c in ast.walk(fn):
                    if isinstance(c, ast.Call) and isinstance(c.func, ast.Attribute) and isinstance(c.func.value, ast.Name) \
                            and c.func.value.id == "fld":
                        if c.func.attr.endswith("_field_constructor"):
                            ctor = c.func.attr
                        elif c.func.attr.endswith("Field"):
                            cls = c.func.attr
                if ctor is None or cls is None:
                    fail(f"HDF5DataFrame.{fn.name}: constructor call / Field class not found")
                out.append((fn.name, ctor, cls))
    if not out:
        fail("no HDF5DataFrame.create_* methods found")
    return out


def lit(s):
    return '"' + s.replace("\\", "\\\\").replace('"', '\\"') + '"'


def main():
    ap = argparse.ArgumentParser()
    ap.add_argument("--repo", default="/repo")
    a = ap.parse_args()
    core = Path(a.repo) / "exetera" / "core"
    fmap = fieldtype_map((core / "session.py").read_text())
    ctors, key_dtype = constructors((core / "fields.py").read_text())
    creates = create_methods((core / "dataframe.py").read_text())
    L = ["-- GENERATED by tools/translators/c01_fieldtype_map.py from exetera/core/{session,fields,dataframe}.py — do not edit.",
         "namespace Exetera.Gen.FieldTypeMap", "",
         "/-- `Session.get`: the literal `fieldtype_map` (key ↦ name of the Field class) -/",
         "def fieldtypeMap : List (String × String) := ["]
    L.append(",\n".join(f"  ({lit(k)}, {lit(v)})" for k, v in fmap) + "]")
    L += ["", "/-- every `*_field_constructor`: (function, part of the `fieldtype` attribute before the first comma, format string) -/",
          "def constructorAttr : List (String × String × String) := ["]
    L.append(",\n".join(f"  ({lit(n)}, {lit(h)}, {lit(f)})" for n, h, f in ctors) + "]")
    L += ["", "/-- every `HDF5DataFrame.create_*`: (method, constructor it calls, Field class it wraps the new group in) -/",
          "def createMethods : List (String × String × String) := ["]
    L.append(",\n".join(f"  ({lit(m)}, {lit(c)}, {lit(k)})" for m, c, k in creates) + "]")
    L += ["", "/-- the dtype argument of `DataWriter.write(field, 'key_values', …)` in `categorical_field_constructor`, as source text -/",
          f"def keyValuesDtype : String := {lit(key_dtype)}", "", "end Exetera.Gen.FieldTypeMap", ""]
    OUT.parent.mkdir(parents=True, exist_ok=True)
    new = "\n".join(L)
    if not OUT.exists() or OUT.read_text() != new:      # keep the mtime when nothing changed (no needless rebuild)
        OUT.write_text(new)
    print(f"FieldTypeMap: {len(fmap)} map entries, {len(ctors)} constructors, {len(creates)} create methods, key_values dtype {key_dtype}")


if __name__ == "__main__":
    main()
