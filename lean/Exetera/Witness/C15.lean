import Exetera.Model.Catalogue
import Exetera.Spec.Catalogue
/-!
  C15 — what the code did before the fix commits (`Variant.asFound`), as kernel-checked facts about the model.
  The same histories are in `corpus/C15/defects.json` and run against the real code on every check.
-/
namespace Exetera.Witness.C15
open Exetera Exetera.Catalogue

def xab : List Op := [.createFrame 0 "x" none, .create 0 "x" "a" ⟨.numeric, 1⟩, .create 0 "x" "b" ⟨.numeric, 2⟩]

/-- D22: `rename({'a':'b','b':'b_'})` on columns {a,b} raised midway … -/
theorem d22_asFound_raises :
    (step .asFound (run .asFound State.init xab) (.rename 0 "x" [("a", "b"), ("b", "b_")])).isOk = false := by decide

/-- … leaving `_columns = [a, b]` while the file held `[b, b_]`: the invariant is broken. -/
theorem d22_asFound_splits :
    ¬ Inv (step .asFound (run .asFound State.init xab) (.rename 0 "x" [("a", "b"), ("b", "b_")])).state := by
  intro h
  have := (h.sameKeys (0, "a")).1 (by decide)
  revert this; decide

/-- the same call on the repaired code succeeds -/
theorem d22_repaired_ok :
    (step .repaired (run .repaired State.init xab) (.rename 0 "x" [("a", "b"), ("b", "b_")])).isOk = true := by decide

def xy : List Op := [.createFrame 0 "x" none, .create 0 "x" "a" ⟨.numeric, 1⟩, .createFrame 0 "y" none]

/-- D23: `ds['y'] = ds['x']` with `y` present raised after rewriting `_dataframes`: `keys()` lost `x`, the file kept both. -/
theorem d23_asFound_splits : ¬ Inv (step .asFound (run .asFound State.init xy) (.setFrame 0 "y" 0 "x")).state := by
  intro h
  have := (h.sameFrames ((0, "x"), 0)).2 (by decide)
  revert this; decide

theorem d23_repaired_unchanged :
    (step .repaired (run .repaired State.init xy) (.setFrame 0 "y" 0 "x")).state = run .repaired State.init xy := by decide

def xyi : List Op := [.createFrame 0 "x" none, .createFrame 0 "y" none, .create 0 "x" "a" ⟨.indexed, 1⟩]

/-- D24: moving an indexed string field to another frame copied it, raised AttributeError, kept the source and left the
    handle valid. -/
theorem d24_asFound :
    let r := step .asFound (run .asFound State.init xyi) (.moveField (.byHandle 0) 0 "y" "b")
    r.isOk = false ∧ (0, "a") ∈ keys r.state.cols ∧ (1, "b") ∈ keys r.state.cols ∧ viewHandle r.state 0 = .named "a" := by
  decide

theorem d24_repaired :
    let r := step .repaired (run .repaired State.init xyi) (.moveField (.byHandle 0) 0 "y" "b")
    r.isOk = true ∧ (0, "a") ∉ keys r.state.cols ∧ (1, "b") ∈ keys r.state.cols ∧ viewHandle r.state 0 = .invalid := by
  decide

def xyn : List Op := [.createFrame 0 "x" none, .createFrame 0 "y" none, .create 0 "x" "a" ⟨.numeric, 1⟩, .reopen 0]

/-- NC15a: after a reopen every loaded field had `dataframe = None`; a move across frames copied and raised … -/
theorem nc15a_asFound :
    let r := step .asFound (run .asFound State.init xyn) (.moveField (.byName 0 "x" "a") 0 "y" "a")
    r.isOk = false ∧ (0, "a") ∈ keys r.state.cols ∧ (1, "a") ∈ keys r.state.cols := by
  decide

theorem nc15a_repaired :
    let r := step .repaired (run .repaired State.init xyn) (.moveField (.byName 0 "x" "a") 0 "y" "a")
    r.isOk = true ∧ (0, "a") ∉ keys r.state.cols ∧ (1, "a") ∈ keys r.state.cols := by
  decide

/-! ### NC15c (open): a second wrapper object of a field is not told when the field is moved away through another object -/

/-- frames x, y; column x.b (field object 0); `w = ds['x']['b'].writeable()` (field object 1) -/
def xyw : List Op := [.createFrame 0 "x" none, .createFrame 0 "y" none, .create 0 "x" "b" ⟨.indexed, 2⟩, .view (.byHandle 0)]

/-- both objects wrap the same group; both are valid and report the name -/
theorem nc15c_view_aliases :
    let s := run .repaired State.init xyw
    (s.handles[1]?).map (·.oid) = (s.handles[0]?).map (·.oid) ∧ viewHandle s 0 = .named "b" ∧ viewHandle s 1 = .named "b" := by
  decide

/-- NC15c: `dataframe.move(ds['x']['b'], ds['y'], 'b')` flags the object it was handed (0) and nothing else: the view (1)
    keeps `_valid_reference = True` while its group is no longer linked — `w.valid` is True and `w.name` raises
    (`HandleView.unlinked`, the harness's "attribute_error"). The move itself is fine: the catalogue is consistent. -/
theorem nc15c_stale_view :
    let r := step .repaired (run .repaired State.init xyw) (.moveField (.byName 0 "x" "b") 0 "y" "b")
    r.isOk = true ∧ viewHandle r.state 0 = .invalid ∧
    (r.state.handles[1]?).map (·.valid) = some true ∧ viewHandle r.state 1 = .unlinked ∧
    (0, "b") ∉ keys r.state.cols ∧ (1, "b") ∈ keys r.state.cols := by
  decide

/-- … and the other way round: moved through the view, the view is flagged and the stored object is left valid and dangling. -/
theorem nc15c_stale_original :
    let r := step .repaired (run .repaired State.init xyw) (.moveField (.byHandle 1) 0 "y" "b")
    r.isOk = true ∧ viewHandle r.state 1 = .invalid ∧
    (r.state.handles[0]?).map (·.valid) = some true ∧ viewHandle r.state 0 = .unlinked := by
  decide

/-- a rename, by contrast, is seen by every wrapper: the name is read from the group -/
theorem views_follow_rename_example :
    let r := step .repaired (run .repaired State.init xyw) (.rename 0 "x" [("b", "a")])
    r.isOk = true ∧ viewHandle r.state 0 = .named "a" ∧ viewHandle r.state 1 = .named "a" := by
  decide

/-- NC15b (fixed 18216aa): the writeable view of a numeric field had `dataframe = None`; a move through it copied, then raised -/
def xyn2 : List Op := [.createFrame 0 "x" none, .createFrame 0 "y" none, .create 0 "x" "a" ⟨.numeric, 1⟩, .view (.byHandle 0)]

theorem nc15b_asFound :
    let r := step .asFound (run .asFound State.init xyn2) (.moveField (.byHandle 1) 0 "y" "ab")
    r.isOk = false ∧ (0, "a") ∈ keys r.state.cols ∧ (1, "ab") ∈ keys r.state.cols ∧ viewHandle r.state 1 = .named "a" := by
  decide

theorem nc15b_repaired :
    let r := step .repaired (run .repaired State.init xyn2) (.moveField (.byHandle 1) 0 "y" "ab")
    r.isOk = true ∧ (0, "a") ∉ keys r.state.cols ∧ (1, "ab") ∈ keys r.state.cols ∧ viewHandle r.state 1 = .invalid := by
  decide

end Exetera.Witness.C15
