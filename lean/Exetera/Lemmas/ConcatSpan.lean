import Exetera.Lemmas.ConcatEntry
/-! C16, span level: for a source column `entries` (indices = `offsets entries`, values = `entries.flatten`) the
    kernel's per-span work — count the non-empty entries, then the single-entry or the multi-entry branch — appends
    `Spec.CsvLine.spanOut` to the value buffer and one offset to the index buffer. -/
set_option linter.unusedSectionVars false
set_option linter.unusedSimpArgs false
namespace Exetera.Concat

open Exetera Exetera.Spec.CsvLine

variable {α : Type} [DecidableEq α]

/-! ### addressing the source column -/

theorem getE_offsets (entries : List (List α)) (e : Nat) (site : String) (he : e ≤ entries.length) :
    getE (offsets entries) e site = .ok ((entries.take e).flatten.length) := by
  simp [getE, offsets_getElem? entries e he]

theorem take_succ_flatten_length (entries : List (List α)) (e : Nat) (he : e < entries.length) :
    ((entries.take (e + 1)).flatten).length = ((entries.take e).flatten).length + entries[e].length := by
  rw [List.take_succ_eq_append_getElem he, List.flatten_append, List.length_append]
  simp

/-- `values = values[:indices[a]] ++ (entries[a:b] concatenated) ++ values[indices[b]:]` -/
theorem flatten_split (entries : List (List α)) (a b : Nat) (h : a ≤ b) :
    entries.flatten = (entries.take a).flatten ++ (slice entries a b).flatten ++ (entries.drop b).flatten := by
  conv => lhs; rw [take_slice_drop entries a b h]
  simp

theorem take_flatten_length_slice (entries : List (List α)) (a b : Nat) (h : a ≤ b) :
    ((entries.take b).flatten).length = ((entries.take a).flatten).length + ((slice entries a b).flatten).length := by
  rw [take_eq_take_append_slice entries a b h]
  simp

theorem flatten_split_entry (entries : List (List α)) (e : Nat) (he : e < entries.length) :
    entries.flatten = (entries.take e).flatten ++ entries[e] ++ (entries.drop (e + 1)).flatten := by
  have := flatten_split entries e (e + 1) (by omega)
  rw [slice_one entries e he] at this
  simpa using this

/-! ### counting the non-empty entries of a span -/

theorem countNonEmpty_spec (entries : List (List α)) :
    ∀ (n e acc : Nat), e + n ≤ entries.length →
      countNonEmpty (offsets entries) n e acc = .ok (acc + (nonEmpty (slice entries e (e + n))).length) := by
  intro n
  induction n with
  | zero => intro e acc _; simp [countNonEmpty, slice, nonEmpty]
  | succ n ih =>
    intro e acc h
    have he : e < entries.length := by omega
    have g1 := getE_offsets entries e "src_index[e]" (by omega)
    have g2 := getE_offsets entries (e + 1) "src_index[e+1]" (by omega)
    rw [take_succ_flatten_length entries e he] at g2
    have hs := slice_succ entries e n he
    have ih' := ih (e + 1)
    simp only [countNonEmpty, g1, g2]
    rw [hs]
    by_cases hx : entries[e] = []
    · have : ¬ ((entries.take e).flatten.length + entries[e].length > (entries.take e).flatten.length) := by
        simp [hx]
      rw [if_neg this, ih' acc (by omega), hx, nonEmpty_cons_nil]
    · have : (entries.take e).flatten.length + entries[e].length > (entries.take e).flatten.length := by
        have := List.length_pos_iff.mpr hx
        omega
      rw [if_pos this, ih' (acc + 1) (by omega), nonEmpty_cons_of_ne _ _ hx]
      simp only [List.length_cons]
      congr 1
      omega

/-! ### the multi-entry branch -/

/-- what the rest of a span contributes after the entries seen so far -/
def joinRest (sep delim : α) (prevEmpty : Bool) (ys : List (List α)) : List α :=
  if prevEmpty then joinCsv sep delim ys else sepTail sep delim ys

theorem multiLoop_spec (entries : List (List α)) (sep delim : α) (cap spCur : Nat) :
    ∀ (n e : Nat) (prevEmpty : Bool) (vb : List α),
      e + n ≤ entries.length → spCur ≤ e → (prevEmpty = true ∨ e > spCur) →
      vb.length + (joinRest sep delim prevEmpty (nonEmpty (slice entries e (e + n)))).length ≤ cap →
      multiLoop (offsets entries) entries.flatten sep delim cap spCur n e prevEmpty vb
        = .ok (vb ++ joinRest sep delim prevEmpty (nonEmpty (slice entries e (e + n)))) := by
  intro n
  induction n with
  | zero =>
    intro e pe vb _ _ _ _
    cases pe <;> simp [multiLoop, slice, nonEmpty, joinRest, joinCsv, joinWith, sepTail]
  | succ n ih =>
    intro e pe vb h hge hpe hcap
    have he : e < entries.length := by omega
    have g1 := getE_offsets entries e "src_index[e]" (by omega)
    have g2 := getE_offsets entries (e + 1) "src_index[e+1]" (by omega)
    rw [take_succ_flatten_length entries e he] at g2
    have hs := slice_succ entries e n he
    have hv := flatten_split_entry entries e he
    rw [hs] at hcap ⊢
    -- abbreviations
    generalize hA : (entries.take e).flatten.length = A at g1 g2
    have hsub : A + entries[e].length - A = entries[e].length := by omega
    obtain ⟨c', q', hscan, hflag⟩ := scanFlags_spec entries.flatten sep delim entries[e]
      (entries.take e).flatten (entries.drop (e + 1)).flatten false false hv
    rw [hA] at hscan
    simp only [Bool.false_or] at hflag
    simp only [multiLoop, g1, g2, hsub, hscan, hflag]
    by_cases hx : entries[e] = []
    · -- empty entry: nothing is written, `prev_empty` is kept
      have hcur : (A + entries[e].length == A) = true := by simp [hx]
      rw [nonEmpty_cons_of_nil' hx] at hcap ⊢
      have hq : needsQuote sep delim entries[e] = false := by simp [hx, needsQuote]
      have hemit := emitBody_spec entries.flatten sep delim cap entries[e] (entries.take e).flatten
        (entries.drop (e + 1)).flatten vb A (A + entries[e].length) hv hA.symm rfl
        (by simp [hx, field, needsQuote]; omega)
      simp only [hcur, Bool.not_true, Bool.and_false, Bool.false_and, Bool.false_eq_true, if_false, if_true, hemit]
      have := ih (e + 1) pe (vb ++ field sep delim entries[e]) (by omega) (by omega)
        (by rcases hpe with h | h; exact Or.inl h; exact Or.inr (by omega))
        (by simpa [hx, field, needsQuote] using hcap)
      rw [this]
      simp [hx, field, needsQuote]
    · -- non-empty entry
      have hcur : (A + entries[e].length == A) = false := by
        have := List.length_pos_iff.mpr hx
        simp; omega
      rw [nonEmpty_cons_of_ne _ _ hx] at hcap ⊢
      cases pe with
      | true =>
        -- first non-empty entry of the span: no separator
        simp only [joinRest, if_true, joinCsv_cons, List.length_append] at hcap
        have hemit := emitBody_spec entries.flatten sep delim cap entries[e] (entries.take e).flatten
          (entries.drop (e + 1)).flatten vb A (A + entries[e].length) hv hA.symm rfl (by omega)
        simp only [hcur, Bool.not_true, Bool.false_and, Bool.false_eq_true, if_false, hemit]
        have := ih (e + 1) false (vb ++ field sep delim entries[e]) (by omega) (by omega) (Or.inr (by omega))
          (by simp only [joinRest, Bool.false_eq_true, if_false, List.length_append]; omega)
        rw [this]
        simp [joinRest, joinCsv_cons]
      | false =>
        have hgt : e > spCur := by
          rcases hpe with h | h
          · exact absurd h (by simp)
          · exact h
        simp only [joinRest, Bool.false_eq_true, if_false, sepTail_cons, List.length_append, List.length_cons] at hcap
        have hpush : pushV cap vb sep "dest_values[sep]" = .ok (vb ++ [sep]) := pushV_ok _ _ _ _ (by omega)
        have hemit := emitBody_spec entries.flatten sep delim cap entries[e] (entries.take e).flatten
          (entries.drop (e + 1)).flatten (vb ++ [sep]) A (A + entries[e].length) hv hA.symm rfl
          (by simp; omega)
        simp only [hcur, Bool.not_false, Bool.true_and, hgt, decide_true, if_true, hpush, hemit,
          Bool.false_eq_true, if_false]
        have := ih (e + 1) false (vb ++ [sep] ++ field sep delim entries[e]) (by omega) (by omega)
          (Or.inr (by omega))
          (by simp only [joinRest, Bool.false_eq_true, if_false, List.length_append, List.length_cons,
                List.length_nil]; omega)
        rw [this]
        simp [joinRest, sepTail_cons]

end Exetera.Concat
