import Exetera.Props.C08
import Exetera.Lemmas.GenKernelsSpans
import Exetera.Lemmas.GenKernelsSpansMinMax
import Exetera.Lemmas.GenKernelsSpansIndex
import Exetera.Lemmas.GenKernelsSpansMerge
/-!
  C08 over the TRANSLATED kernels.  `Gen/Kernels.lean` is regenerated from exetera/core/operations.py by
  tools/translate_njit.py on every run; the theorems below are therefore re-checked against what the source says NOW.

  * `gen_<kernel>_refines`: the translated kernel and the hand-written model of `Model/Spans.lean` return the same array
    or fail with the same error class, for every span array of naturals and every source column (`GenK.Sim`).
  * `gen_<kernel>_eq`: the property statement of Props/C08 for the translated kernel itself — on well-formed spans it
    returns `.ok` (no subscript out of range or negative, every loop finishes) and the per-span reduction of the Spec.
-/
namespace Exetera.Props.C08Gen

open Exetera Exetera.Spans Exetera.Spec Exetera.GenK Exetera.Gen.Kernels

/-- span ends of a well-formed span array are positive -/
theorem wellformed_tail_pos {sp : List Nat} {n : Nat} (h : Wellformed sp n) : ∀ x ∈ sp.tail, 0 < x := by
  obtain ⟨hp, hh, _⟩ := h
  cases sp with
  | nil => simp
  | cons a t =>
    intro x hx
    have := (List.pairwise_cons.mp hp).1 x (by simpa using hx)
    omega

/-! ## apply_spans_count -/

theorem gen_apply_spans_count_refines (sp : List Nat) :
    Sim (apply_spans_count.run (ints sp) none) (applySpansCount sp) := apply_spans_count_refines sp

/-- count = number of rows of each span, computed by the translated kernel -/
theorem gen_apply_spans_count_eq (sp : List Nat) (src : List Int) (h : Wellformed sp src.length) :
    apply_spans_count.run (ints sp) none = .ok ((pairs sp).map (fun p => ((rowsOf src p).length : Int))) :=
  (apply_spans_count_refines sp).ok_right (C08.apply_spans_count_eq sp src h)

example : apply_spans_count.run [0, 2, 3] none = .ok [2, 1] := rfl
example : Wellformed [0, 2, 3] [7, 8, 9].length := ⟨by decide, rfl, rfl⟩

/-! ## apply_spans_first / apply_spans_last -/

theorem gen_apply_spans_first_refines (sp : List Nat) (src : List Int) :
    Sim (apply_spans_first.run (ints sp) src none) (applySpansFirst sp src) := apply_spans_first_refines sp src

/-- first = first row of each span (no out-of-bounds read), computed by the translated kernel -/
theorem gen_apply_spans_first_eq (sp : List Nat) (src : List Int) (h : Wellformed sp src.length) :
    ∃ r, apply_spans_first.run (ints sp) src none = .ok r ∧ r.map some = (pairs sp).map (fun p => (rowsOf src p).head?) := by
  obtain ⟨r, hr, hs⟩ := C08.apply_spans_first_eq sp src h
  exact ⟨r, (apply_spans_first_refines sp src).ok_right hr, hs⟩

example : apply_spans_first.run [0, 2, 3] [7, 8, 9] none = .ok [7, 9] := rfl

theorem gen_apply_spans_last_refines (sp : List Nat) (src : List Int) (hpos : ∀ x ∈ sp.tail, 0 < x) :
    Sim (apply_spans_last.run (ints sp) src none) (applySpansLast sp src) := apply_spans_last_refines sp src hpos

/-- last = last row of each span, computed by the translated kernel -/
theorem gen_apply_spans_last_eq (sp : List Nat) (src : List Int) (h : Wellformed sp src.length) :
    ∃ r, apply_spans_last.run (ints sp) src none = .ok r ∧ r.map some = (pairs sp).map (fun p => (rowsOf src p).getLast?) := by
  obtain ⟨r, hr, hs⟩ := C08.apply_spans_last_eq sp src h
  exact ⟨r, (apply_spans_last_refines sp src (wellformed_tail_pos h)).ok_right hr, hs⟩

example : apply_spans_last.run [0, 2, 3] [7, 8, 9] none = .ok [8, 9] := rfl
example : ∀ x ∈ ([0, 2, 3] : List Nat).tail, 0 < x := by decide


/-! ## apply_spans_min / apply_spans_max -/

theorem gen_apply_spans_min_refines (sp : List Nat) (src : List Int) :
    Sim (apply_spans_min.run (ints sp) src none) (applySpansMin sp src) := apply_spans_min_refines sp src

theorem gen_apply_spans_max_refines (sp : List Nat) (src : List Int) :
    Sim (apply_spans_max.run (ints sp) src none) (applySpansMax sp src) := apply_spans_max_refines sp src

/-- min / max = minimum / maximum over exactly the rows of each span, computed by the translated kernels (both loops
    finish, no subscript out of range) -/
theorem gen_apply_spans_min_eq (sp : List Nat) (src : List Int) (h : Wellformed sp src.length) :
    ∃ r, apply_spans_min.run (ints sp) src none = .ok r ∧ r.map some = (pairs sp).map (fun p => (rowsOf src p).min?) := by
  obtain ⟨r, hr, hs⟩ := C08.apply_spans_min_eq sp src h
  exact ⟨r, (apply_spans_min_refines sp src).ok_right hr, hs⟩

theorem gen_apply_spans_max_eq (sp : List Nat) (src : List Int) (h : Wellformed sp src.length) :
    ∃ r, apply_spans_max.run (ints sp) src none = .ok r ∧ r.map some = (pairs sp).map (fun p => (rowsOf src p).max?) := by
  obtain ⟨r, hr, hs⟩ := C08.apply_spans_max_eq sp src h
  exact ⟨r, (apply_spans_max_refines sp src).ok_right hr, hs⟩

example : apply_spans_min.run [0, 2, 5] [3, 1, 4, 1, 5] none = .ok [1, 1] ∧
    apply_spans_max.run [0, 2, 5] [3, 1, 4, 1, 5] none = .ok [3, 5] := ⟨rfl, rfl⟩
example : Wellformed [0, 2, 5] [3, 1, 4, 1, 5].length := ⟨by decide, rfl, rfl⟩

/-! ## apply_spans_index_of_first / _last / _min / _max -/

theorem gen_apply_spans_index_of_first_refines (sp : List Nat) :
    Sim (apply_spans_index_of_first.run (ints sp) none) (applySpansIndexOfFirst sp) := apply_spans_index_of_first_refines sp

theorem gen_apply_spans_index_of_last_refines (sp : List Nat) :
    Sim (apply_spans_index_of_last.run (ints sp) none) (applySpansIndexOfLast sp) := apply_spans_index_of_last_refines sp

theorem gen_apply_spans_index_of_min_refines (sp : List Nat) (src : List Int) :
    Sim (apply_spans_index_of_min.run (ints sp) src none) (applySpansIndexOfMin sp src) :=
  apply_spans_index_of_min_refines sp src

theorem gen_apply_spans_index_of_max_refines (sp : List Nat) (src : List Int) :
    Sim (apply_spans_index_of_max.run (ints sp) src none) (applySpansIndexOfMax sp src) :=
  apply_spans_index_of_max_refines sp src

/-- index_of_first / index_of_last = first / last row number of each span, computed by the translated kernels -/
theorem gen_apply_spans_index_of_first_eq (sp : List Nat) (hne : sp.isEmpty = false) :
    apply_spans_index_of_first.run (ints sp) none = .ok ((pairs sp).map (fun p => (p.1 : Int))) :=
  (apply_spans_index_of_first_refines sp).ok_right (C08.apply_spans_index_of_first_eq sp hne)

theorem gen_apply_spans_index_of_last_eq (sp : List Nat) (hne : sp.isEmpty = false) :
    apply_spans_index_of_last.run (ints sp) none = .ok ((pairs sp).map (fun p => (p.2 : Int) - 1)) :=
  (apply_spans_index_of_last_refines sp).ok_right (C08.apply_spans_index_of_last_eq sp hne)

example : apply_spans_index_of_first.run [0, 2, 3] none = .ok [0, 2] ∧
    apply_spans_index_of_last.run [0, 2, 3] none = .ok [1, 2] := ⟨rfl, rfl⟩

/-- index_of_min / index_of_max = row number of the FIRST minimal / maximal row of each span -/
theorem gen_apply_spans_index_of_min_eq (sp : List Nat) (src : List Int) (h : Wellformed sp src.length) :
    ∃ r, apply_spans_index_of_min.run (ints sp) src none = .ok r ∧
      r.map some = (pairs sp).map (fun p => (argminOf (rowsOf src p)).map (fun k => ((p.1 + k : Nat) : Int))) := by
  obtain ⟨r, hr, hs⟩ := C08.apply_spans_index_of_min_eq sp src h
  exact ⟨r, (apply_spans_index_of_min_refines sp src).ok_right hr, hs⟩

theorem gen_apply_spans_index_of_max_eq (sp : List Nat) (src : List Int) (h : Wellformed sp src.length) :
    ∃ r, apply_spans_index_of_max.run (ints sp) src none = .ok r ∧
      r.map some = (pairs sp).map (fun p => (argmaxOf (rowsOf src p)).map (fun k => ((p.1 + k : Nat) : Int))) := by
  obtain ⟨r, hr, hs⟩ := C08.apply_spans_index_of_max_eq sp src h
  exact ⟨r, (apply_spans_index_of_max_refines sp src).ok_right hr, hs⟩

example : apply_spans_index_of_min.run [0, 2, 5] [3, 1, 4, 1, 1] none = .ok [1, 3] ∧
    apply_spans_index_of_max.run [0, 2, 5] [3, 3, 4, 5, 5] none = .ok [0, 3] := ⟨rfl, rfl⟩


/-! ## _get_spans_for_2_fields_by_spans -/

/-- for every fuel ≥ len(span1) the translated merge kernel and the model agree (same array / same error class) -/
theorem gen_get_spans_by_spans_refines (s0 s1 : List Nat) (fuel : Nat) (hf : s1.length ≤ fuel) :
    Sim (_get_spans_for_2_fields_by_spans.run (ints s0) (ints s1) fuel) ((getSpansFor2FieldsBySpans s0 s1).map ints) :=
  get_spans_for_2_fields_by_spans_refines s0 s1 fuel hf

/-- the translated kernel merges the span arrays of two equal-length columns, in bounds and within `len(span1)`
    iterations of its inner loop per call, into the span array of the zipped column -/
theorem gen_get_spans_by_spans_eq_spec {α β} [BEq α] [BEq β] (a : List α) (b : List β) (hl : a.length = b.length)
    (fuel : Nat) (hf : (getSpansForField neq b).length ≤ fuel) :
    _get_spans_for_2_fields_by_spans.run (ints (getSpansForField neq a)) (ints (getSpansForField neq b)) fuel
      = .ok (ints (spans neq (a.zip b))) := by
  have h := get_spans_for_2_fields_by_spans_refines (getSpansForField neq a) (getSpansForField neq b) fuel hf
  rw [C08.get_spans_by_spans_eq_spec a b hl] at h
  exact h.ok_right rfl

/-- any two well-formed span arrays over the same row count: the translated kernel returns their sorted union -/
theorem gen_merge_spans_eq_union (s0 s1 : List Nat) (n : Nat) (h0 : Wellformed s0 n) (h1 : Wellformed s1 n)
    (fuel : Nat) (hf : s1.length ≤ fuel) :
    ∃ m, _get_spans_for_2_fields_by_spans.run (ints s0) (ints s1) fuel = .ok (ints m) ∧ Wellformed m n ∧
      ∀ z, z ∈ m ↔ z ∈ s0 ∨ z ∈ s1 := by
  obtain ⟨m, hm, hw, hmem⟩ := C08.merge_spans_eq_union s0 s1 n h0 h1
  have h := get_spans_for_2_fields_by_spans_refines s0 s1 fuel hf
  rw [hm] at h
  exact ⟨m, h.ok_right rfl, hw, hmem⟩

example : _get_spans_for_2_fields_by_spans.run [0, 2, 5] [0, 1, 2, 4, 5] 5 = .ok [0, 1, 2, 4, 5] := rfl
example : Wellformed [0, 2, 5] 5 ∧ Wellformed [0, 1, 2, 4, 5] 5 := ⟨⟨by decide, rfl, rfl⟩, ⟨by decide, rfl, rfl⟩⟩

end Exetera.Props.C08Gen
