import Exetera.Model.JoinOld
import Exetera.Lemmas.WhileFuel
/-! C12, the legacy re-slicing driver `generate_ordered_map_to_left_right_unique_streamed_old` (with D17 / NC19a repaired):
    it finishes normally on EVERY input for every chunk size ≥ 1 — no `ValueError` "got ahead of current chunk", no
    `StopIteration`, no out-of-bounds access, never out of fuel. -/
namespace Exetera.JoinOld.Term
open Exetera

theorem slice_drop' {α} (xs : List α) (a b k : Nat) : (slice xs a b).drop k = slice xs (a + k) b := by
  unfold slice
  rw [List.drop_take, List.drop_drop]
  congr 1
  omega

/-- one `_partial_old` call on views that fit the scratch array: it ends in `.ok`, having consumed one of the two views
    completely -/
theorem runPartialOld_ok (dj : Nat) (left right : List Int) (cap : Nat) (inv : Int) (hcap : left.length ≤ cap) :
    ∃ p, runPartialOld dj left right cap inv = .ok p ∧ p.i ≤ left.length ∧ p.j ≤ right.length ∧
      (p.i = left.length ∨ p.j = right.length) := by
  obtain ⟨p, hrun, ⟨h1, h2⟩, hg⟩ := whileE_rule (fun s : PO => s.i < left.length && s.j < right.length)
    (partialOldBody dj left right cap inv) (fun s => s.i ≤ left.length ∧ s.j ≤ right.length)
    (fun s => (left.length - s.i) + (right.length - s.j))
    (by
      intro s ⟨hi, hj⟩ hg
      simp only [Bool.and_eq_true, decide_eq_true_eq] at hg
      obtain ⟨gi, gj⟩ := hg
      have hic : s.i < cap := by omega
      by_cases hab : left[s.i] < right[s.j]
      · refine ⟨{ s with buf := s.buf ++ [inv], i := s.i + 1, unmapped := s.unmapped + 1 }, ?_, ⟨?_, hj⟩, ?_⟩
        · simp only [partialOldBody, getE_of_lt _ gi, getE_of_lt _ gj, hab, hic, if_true]
        · show s.i + 1 ≤ left.length
          omega
        · show (left.length - (s.i + 1)) + (right.length - s.j) < (left.length - s.i) + (right.length - s.j)
          omega
      · by_cases hba : left[s.i] > right[s.j]
        · refine ⟨{ s with j := s.j + 1 }, ?_, ⟨hi, ?_⟩, ?_⟩
          · simp only [partialOldBody, getE_of_lt _ gi, getE_of_lt _ gj, hab, hba, if_true, if_false]
          · show s.j + 1 ≤ right.length
            omega
          · show (left.length - s.i) + (right.length - (s.j + 1)) < (left.length - s.i) + (right.length - s.j)
            omega
        · refine ⟨{ s with buf := s.buf ++ [((s.j + dj : Nat) : Int)], i := s.i + 1 }, ?_, ⟨?_, hj⟩, ?_⟩
          · simp only [partialOldBody, getE_of_lt _ gi, getE_of_lt _ gj, hab, hba, hic, if_true, if_false]
          · show s.i + 1 ≤ left.length
            omega
          · show (left.length - (s.i + 1)) + (right.length - s.j) < (left.length - s.i) + (right.length - s.j)
            omega)
    (left.length + right.length) {} ⟨Nat.zero_le _, Nat.zero_le _⟩ (by simp)
  refine ⟨p, hrun, h1, h2, ?_⟩
  simp only [Bool.and_eq_false_iff, decide_eq_false_iff_not] at hg
  omega

/-- the chunk-view invariant of one side of the driver: `c = xs[i:hi]`, at most `cs` long, non-empty while rows remain,
    and the chunk generator stands at `hi` -/
structure View (xs : List Int) (cs i cur hi : Nat) (c : List Int) : Prop where
  le : i ≤ hi
  hi_le : hi ≤ xs.length
  view : c = slice xs i hi
  short : hi - i ≤ cs
  nonempty : i < xs.length → i < hi
  cur : cur = hi

theorem View.length {xs : List Int} {cs i cur hi : Nat} {c : List Int} (v : View xs cs i cur hi c) : c.length = hi - i := by
  rw [v.view, slice_length]
  have := v.hi_le
  omega

/-- the driver's refill: the consumed rows reach the end of the chunk and rows remain — the generator yields the next chunk -/
theorem View.refill {xs : List Int} {cs i cur hi : Nat} {c : List Int} (hcs : 1 ≤ cs) (v : View xs cs i cur hi c)
    (k : Nat) (he : i + k = hi) (hlt : i + k < xs.length) :
    nextRange cur xs.length cs = some (hi, min xs.length (hi + cs)) ∧
      View xs cs (i + k) (min xs.length (hi + cs)) (min xs.length (hi + cs)) (slice xs hi (min xs.length (hi + cs))) := by
  have hcur : cur < xs.length := by rw [v.cur]; omega
  have hh : hi < xs.length := by omega
  refine ⟨by simp only [nextRange, v.cur, hh, if_true], ⟨by omega, by omega, by rw [he], by omega, fun _ => by omega, rfl⟩⟩

/-- otherwise the view is re-sliced past the consumed rows -/
theorem View.keep {xs : List Int} {cs i cur hi : Nat} {c : List Int} (v : View xs cs i cur hi c)
    (k : Nat) (hk : i + k ≤ hi) (hc : ¬ (i + k = hi ∧ i + k < xs.length)) : View xs cs (i + k) cur hi (c.drop k) := by
  refine ⟨hk, v.hi_le, by rw [v.view, slice_drop'], by have := v.short; omega, ?_, v.cur⟩
  intro hlt
  rcases Nat.lt_or_ge (i + k) hi with h | h
  · exact h
  · exact absurd ⟨by omega, hlt⟩ hc

structure DInv (left right : List Int) (cs : Nat) (s : SO) : Prop where
  l : View left cs s.i s.lcur s.lhi s.lc
  r : View right cs s.j s.rcur s.rhi s.rc

/-- one iteration of the driver loop from an invariant state: `.ok`, the invariant again, and `i + j` strictly larger -/
theorem oldBody_step (left right : List Int) (cs : Nat) (inv : Int) (hcs : 1 ≤ cs) (s : SO) (hI : DInv left right cs s)
    (hi : s.i < left.length) (hj : s.j < right.length) :
    ∃ s', oldBody left right cs inv s = .ok s' ∧ DInv left right cs s' ∧
      (left.length - s'.i) + (right.length - s'.j) < (left.length - s.i) + (right.length - s.j) ∧
      s.out <+: s'.out := by
  have hll := hI.l.length
  have hrl := hI.r.length
  have hlne := hI.l.nonempty hi
  have hrne := hI.r.nonempty hj
  obtain ⟨p, hp, hpi, hpj, hdone⟩ := runPartialOld_ok s.j s.lc s.rc cs inv (by rw [hll]; exact hI.l.short)
  have h1 : ¬ (s.i + p.i > s.lhi) := by omega
  have h2 : ¬ (s.j + p.j > s.rhi) := by omega
  have hil := hI.l.hi_le
  have hir := hI.r.hi_le
  have hpre : ∀ (o : List Int), s.out <+: (if p.i > 0 then s.out ++ o else s.out) := by
    intro o; split
    · exact List.prefix_append _ _
    · exact List.prefix_refl _
  by_cases cl : s.i + p.i = s.lhi ∧ s.i + p.i < left.length
  · obtain ⟨nl, vl⟩ := hI.l.refill hcs p.i cl.1 cl.2
    have cl' : (s.i + p.i == s.lhi && decide (s.i + p.i < left.length)) = true := by
      simp only [Bool.and_eq_true, beq_iff_eq, decide_eq_true_eq]; exact cl
    by_cases cr : s.j + p.j = s.rhi ∧ s.j + p.j < right.length
    · obtain ⟨nr, vr⟩ := hI.r.refill hcs p.j cr.1 cr.2
      have cr' : (s.j + p.j == s.rhi && decide (s.j + p.j < right.length)) = true := by
        simp only [Bool.and_eq_true, beq_iff_eq, decide_eq_true_eq]; exact cr
      exact ⟨_, by simp only [oldBody, hp, h1, h2, if_false, cl', cr', if_true, nl, nr]; rfl, ⟨vl, vr⟩,
        by simp only []; omega, hpre _⟩
    · have vr := hI.r.keep p.j (by omega) cr
      have cr' : (s.j + p.j == s.rhi && decide (s.j + p.j < right.length)) = false := by
        simp only [Bool.and_eq_false_iff, beq_eq_false_iff_ne, decide_eq_false_iff_not]
        by_cases h : s.j + p.j = s.rhi
        · right; exact fun h' => cr ⟨h, h'⟩
        · left; exact h
      exact ⟨_, by simp only [oldBody, hp, h1, h2, if_false, cl', cr', if_true, nl, Bool.false_eq_true]; rfl, ⟨vl, vr⟩,
        by simp only []; omega, hpre _⟩
  · have vl := hI.l.keep p.i (by omega) cl
    have cl' : (s.i + p.i == s.lhi && decide (s.i + p.i < left.length)) = false := by
      simp only [Bool.and_eq_false_iff, beq_eq_false_iff_ne, decide_eq_false_iff_not]
      by_cases h : s.i + p.i = s.lhi
      · right; exact fun h' => cl ⟨h, h'⟩
      · left; exact h
    by_cases cr : s.j + p.j = s.rhi ∧ s.j + p.j < right.length
    · obtain ⟨nr, vr⟩ := hI.r.refill hcs p.j cr.1 cr.2
      have cr' : (s.j + p.j == s.rhi && decide (s.j + p.j < right.length)) = true := by
        simp only [Bool.and_eq_true, beq_iff_eq, decide_eq_true_eq]; exact cr
      exact ⟨_, by simp only [oldBody, hp, h1, h2, if_false, cl', cr', if_true, nr, Bool.false_eq_true]; rfl, ⟨vl, vr⟩,
        by simp only []; omega, hpre _⟩
    · have vr := hI.r.keep p.j (by omega) cr
      have cr' : (s.j + p.j == s.rhi && decide (s.j + p.j < right.length)) = false := by
        simp only [Bool.and_eq_false_iff, beq_eq_false_iff_ne, decide_eq_false_iff_not]
        by_cases h : s.j + p.j = s.rhi
        · right; exact fun h' => cr ⟨h, h'⟩
        · left; exact h
      exact ⟨_, by simp only [oldBody, hp, h1, h2, if_false, cl', cr', Bool.false_eq_true]; rfl, ⟨vl, vr⟩,
        by simp only []; omega, hpre _⟩

/-- **the legacy driver terminates normally on every input**, for every chunk size ≥ 1: within `|L| + |R|` iterations of
    the main loop and `|L|` of the tail loop (the model's budgets) -/
theorem streamedOld_ok (left right : List Int) (inv : Int) (cs : Nat) (hcs : 1 ≤ cs) :
    ∃ r, streamedOld left right inv cs = .ok r := by
  have hinit : ∀ (xs : List Int), View xs cs 0 ((nextRange 0 xs.length cs).getD (0, 0)).2
      ((nextRange 0 xs.length cs).getD (0, 0)).2
      (slice xs ((nextRange 0 xs.length cs).getD (0, 0)).1 ((nextRange 0 xs.length cs).getD (0, 0)).2) := by
    intro xs
    by_cases h : 0 < xs.length
    · simp only [nextRange, h, if_true, Option.getD_some]
      exact ⟨Nat.zero_le _, by omega, by simp, by omega, fun _ => by omega, rfl⟩
    · simp only [nextRange, h, if_false, Option.getD_none]
      exact ⟨Nat.le_refl _, Nat.zero_le _, rfl, by omega, fun h' => absurd h' h, rfl⟩
  obtain ⟨s1, hrun1, _, _⟩ := whileE_rule (fun s : SO => s.i < left.length && s.j < right.length)
    (oldBody left right cs inv) (DInv left right cs) (fun s => (left.length - s.i) + (right.length - s.j))
    (by
      intro s hI hg
      simp only [Bool.and_eq_true, decide_eq_true_eq] at hg
      obtain ⟨s', hb, hI', hlt, _⟩ := oldBody_step left right cs inv hcs s hI hg.1 hg.2
      exact ⟨s', hb, hI', hlt⟩)
    (left.length + right.length)
    { lcur := ((nextRange 0 left.length cs).getD (0, 0)).2, rcur := ((nextRange 0 right.length cs).getD (0, 0)).2,
      lhi := ((nextRange 0 left.length cs).getD (0, 0)).2, rhi := ((nextRange 0 right.length cs).getD (0, 0)).2,
      lc := slice left ((nextRange 0 left.length cs).getD (0, 0)).1 ((nextRange 0 left.length cs).getD (0, 0)).2,
      rc := slice right ((nextRange 0 right.length cs).getD (0, 0)).1 ((nextRange 0 right.length cs).getD (0, 0)).2 }
    ⟨hinit left, hinit right⟩ (by simp only []; omega)
  obtain ⟨s2, hrun2, _, _⟩ := whileE_rule (fun s : SO => decide (s.i < left.length)) (oldTailBody left cs inv)
    (fun _ => True) (fun s => left.length - s.i)
    (by
      intro s _ hg
      simp only [decide_eq_true_eq] at hg
      exact ⟨_, rfl, trivial, by simp only []; omega⟩)
    left.length s1 trivial (by omega)
  simp only [streamedOld, hrun1, hrun2]
  exact ⟨_, rfl⟩

end Exetera.JoinOld.Term
