import Exetera.Lemmas.FilterIndexSortFrame
import Exetera.Lemmas.SortKeysFrame
/-!
# C09 — filter, re-index and sort keep rows intact and leave the source untouched

All theorems are about `Exetera.FilterIndex.*` — the model the correspondence driver executes (`Driver/C09.lean`) — with
`Variant.repaired` = the code with the fix patches D8 / NC09b applied, and about the row-level `Exetera.Spec`
(`filterBy`, `gather`, `sortPerm`, `mapCols`). An `.ok` result of a kernel means: every subscript and slice of both
passes stayed inside its array and the buffers allocated from pass 1 were exactly filled.

Vocabulary: `offsetsF es` / `es.flatten` is how an indexed string field stores the entries `es`; `Encodes p c` says the
payload `p` stores the column `c`; `Holds fr cols` says the frame `fr` holds the columns `cols` (names, order, metadata,
content); `mapCols g cols` applies ONE row operation `g` to every column.
-/
namespace Exetera.Props.C09
open Exetera Exetera.FilterIndex Exetera.Spec

/-! ## the two compiled kernels (operations.py) -/

/-- `apply_filter_to_index_values`: for a filter with one flag per entry the two passes return exactly the encoding of
    the selected entries, in order — for the code as found and as repaired (the fix changes nothing on valid input). -/
theorem filter_indexed_eq (v : Variant) (es : List (List Nat)) (flt : List Bool) (h : flt.length = es.length) :
    applyFilterToIndexValues v flt (offsetsF es) es.flatten =
      .ok (offsetsF (filterBy flt es), (filterBy flt es).flatten) :=
  filter_kernel_eq v es flt h

example : applyFilterToIndexValues .repaired [true, false, true, true] (offsetsF [[97], [], [99, 99, 99], [100, 195, 169]])
    [97, 99, 99, 99, 100, 195, 169] = .ok ([0, 1, 4, 7], [97, 99, 99, 99, 100, 195, 169]) := by rfl

/-- with the fix D8, ANY other filter length is rejected with IndexError before anything is read -/
theorem filter_indexed_length_mismatch (flt : List Bool) (indices values : List Nat)
    (h : flt.length ≠ indices.length - 1) :
    applyFilterToIndexValues .repaired flt indices values = .error (.oob "len(index_filter) != len(indices) - 1") := by
  simp [applyFilterToIndexValues, h]

example : applyFilterToIndexValues .repaired [true, false] [0, 1, 1, 4, 7] [97, 99, 99, 99, 100, 195, 169] =
    .error (.oob "len(index_filter) != len(indices) - 1") := by rfl

/-- `apply_indices_to_index_values`: whenever every subscript addresses an entry (`-n ≤ i < n`, negative from the end),
    destination entry `j` is source entry `idx[j]` -/
theorem index_indexed_eq (v : Variant) (es : List (List Nat)) (idx : List Int) (rows : List (List Nat))
    (h : gather es idx = some rows) :
    applyIndicesToIndexValues v idx (offsetsF es) es.flatten = .ok (offsetsF rows, rows.flatten) :=
  index_kernel_eq v es idx rows h

example : gather [[97], [], [99, 99]] [2, -3, 1, 2] = some [[99, 99], [97], [], [99, 99]] := by decide
example : applyIndicesToIndexValues .repaired [2, -3, 1, 2] (offsetsF [[97], [], [99, 99]]) [97, 99, 99] =
    .ok ([0, 2, 3, 3, 5], [99, 99, 97, 99, 99]) := by rfl

/-- with the fix NC09b, a subscript outside `-n ≤ i < n` is rejected with IndexError during pass 1 -/
theorem index_indexed_out_of_range (es : List (List Nat)) (idx : List Int) (h : gather es idx = none) :
    ∃ site, applyIndicesToIndexValues .repaired idx (offsetsF es) es.flatten = .error (.oob site) :=
  index_kernel_err es idx h

example : gather [[97], [], [99, 99]] [0, 3] = none := by decide

/-! ## sorting (session.py `dataset_sort_index`) -/

/-- the iterated single-key stable argsorts (least significant key first) compute THE stable lexicographic sort
    permutation of the key tuples — started from `arange(n)` (as `sort_values` does) or from no index -/
theorem sort_index_eq (keys : List (List Int)) (n : Nat) (hne : keys ≠ []) (hk : ∀ k ∈ keys, k.length = n) :
    datasetSortIndex keys none = .ok (sortPerm keys n) ∧
    datasetSortIndex keys (some (List.range n)) = .ok (sortPerm keys n) :=
  datasetSortIndex_eq keys n hne hk

example : ∃ p, datasetSortIndex [[2, 1, 2, 1], [1, 1, 0, 1]] none = .ok p ∧ p = sortPerm [[2, 1, 2, 1], [1, 1, 0, 1]] 4 :=
  ⟨_, (sort_index_eq [[2, 1, 2, 1], [1, 1, 0, 1]] 4 (by simp) (by simp)).1, rfl⟩

/-- `sortPerm` without reference to an algorithm: it lists every row once, in non-decreasing order of key tuple, rows
    with equal tuples in their original order — and it is the only list that does -/
theorem sort_perm_characterised (keys : List (List Int)) (n : Nat) :
    IsStableSortPerm keys n (sortPerm keys n) ∧ ∀ p, IsStableSortPerm keys n p → p = sortPerm keys n := by
  refine ⟨⟨List.mergeSort_perm _ _, sortPerm_refines keys n⟩, ?_⟩
  intro p ⟨hperm, hpw⟩
  exact List.Perm.eq_of_pairwise (le := Refine (lexRowLE keys) (fun a b => a < b))
    (fun a b _ _ h1 h2 => by
      have := h1.2 h2.1
      have := h2.2 h1.1
      omega)
    hpw (sortPerm_refines keys n) (hperm.trans (List.mergeSort_perm _ _).symm)

/-- two key columns with ties in the first: rows 1 and 3 (key 1) come first, ordered by the second key (1 = 1: original
    order), then rows 2 and 0 (key 2) ordered by the second key (0 < 1) -/
example : sortPerm [[2, 1, 2, 1], [1, 1, 0, 1]] 4 = [1, 3, 2, 0] :=
  ((sort_perm_characterised _ _).2 _ ⟨by decide, by decide⟩).symm

/-! ## field level (fields.py `FieldDataOps.apply_*_to_*field`): the three write modes -/

/-- `apply_filter`: in place (clear + write), into a target (overwrite if same length, else clear + write), or into a fresh
    memory field — the same content is stored; in place keeps the field, the target keeps its own metadata, the fresh
    field gets the source's metadata. If the filter is rejected, all three modes raise the same error. -/
theorem filter_modes_agree (v : Variant) (src : Field) (bs : List Bool) :
    (∀ res, filterPayload v bs src.payload = .ok res →
      (src.writeEnabled = true → applyFilterField v src (.bool bs) none true = .ok { src with payload := res }) ∧
      (∀ t, applyFilterField v src (.bool bs) (some t) false = .ok { t with payload := res }) ∧
      applyFilterField v src (.bool bs) none false = .ok { info := src.info, payload := res, writeEnabled := true }) ∧
    (∀ e, filterPayload v bs src.payload = .error e →
      applyFilterField v src (.bool bs) none true = .error e ∧
      (∀ t, applyFilterField v src (.bool bs) (some t) false = .error e) ∧
      applyFilterField v src (.bool bs) none false = .error e) := by
  constructor
  · intro res hr
    refine ⟨fun hw => ?_, fun t => ?_, ?_⟩
    · simp [applyFilterField, validateFilter, hr, storeResult_inPlace src res hw, bind, Except.bind]
    · simp [applyFilterField, validateFilter, hr, storeResult_target src t res, bind, Except.bind]
    · simp [applyFilterField, validateFilter, hr, storeResult_fresh src res, bind, Except.bind]
  · intro e he
    refine ⟨?_, fun t => ?_, ?_⟩ <;> simp [applyFilterField, validateFilter, he, bind, Except.bind]

/-- the same for `apply_index` -/
theorem index_modes_agree (v : Variant) (src : Field) (idx : List Int) :
    (∀ res, indexPayload v idx src.payload = .ok res →
      (src.writeEnabled = true → applyIndexField v src idx none true = .ok { src with payload := res }) ∧
      (∀ t, applyIndexField v src idx (some t) false = .ok { t with payload := res }) ∧
      applyIndexField v src idx none false = .ok { info := src.info, payload := res, writeEnabled := true }) ∧
    (∀ e, indexPayload v idx src.payload = .error e →
      applyIndexField v src idx none true = .error e ∧
      (∀ t, applyIndexField v src idx (some t) false = .error e) ∧
      applyIndexField v src idx none false = .error e) := by
  constructor
  · intro res hr
    refine ⟨fun hw => ?_, fun t => ?_, ?_⟩
    · simp [applyIndexField, hr, storeResult_inPlace src res hw, bind, Except.bind]
    · simp [applyIndexField, hr, storeResult_target src t res, bind, Except.bind]
    · simp [applyIndexField, hr, storeResult_fresh src res, bind, Except.bind]
  · intro e he
    refine ⟨?_, fun t => ?_, ?_⟩ <;> simp [applyIndexField, he, bind, Except.bind]

/-- `validate_filter`: a numeric filter acts exactly as the boolean filter "entry ≠ 0", at field and at frame level -/
theorem numeric_filter_is_nonzero_test (v : Variant) (xs : List Int) :
    (∀ src t ip, applyFilterField v src (.num xs) t ip =
      applyFilterField v src (.bool (xs.map (fun x => x != 0))) t ip) ∧
    (∀ st src ddf, dfApplyFilter v st src (.num xs) ddf =
      dfApplyFilter v st src (.bool (xs.map (fun x => x != 0))) ddf) :=
  ⟨fun _ _ _ => rfl, fun _ _ _ => rfl⟩

example : validateFilter (.num [0, 2, 0, -1]) = .ok [false, true, false, true] := by rfl

/-- `Session.apply_filter` / `apply_index` with an array source (after fix NC09c): the spec result is returned and
    appended to `dest`; a filter of another length / a subscript out of range raises IndexError -/
theorem session_array_ops (src : List Int) (dest : Option (List Int)) :
    (∀ flt bs, validateFilter flt = .ok bs →
      sessionFilterArray flt src dest =
        if bs.length = src.length then .ok (filterBy bs src, dest.map (· ++ filterBy bs src))
        else .error (.oob "boolean index did not match indexed array")) ∧
    (∀ idx, sessionIndexArray idx src dest =
      match gather src idx with
      | some r => .ok (r, dest.map (· ++ r))
      | none => .error (.oob "data[index]")) := by
  constructor
  · intro flt bs hv
    by_cases hl : bs.length = src.length
    · simp [sessionFilterArray, hv, boolIndex, hl, boolSelect_eq, bind, Except.bind, pure, Except.pure]
    · simp [sessionFilterArray, hv, boolIndex, hl, bind, Except.bind]
  · intro idx
    cases hg : gather src idx with
    | some r => simp [sessionIndexArray, fancyIndex_ok src idx r hg, bind, Except.bind, pure, Except.pure]
    | none => simp [sessionIndexArray, fancyIndex_err src idx hg, bind, Except.bind]

example : sessionFilterArray (.num [0, 1, 0, 1]) [10, 20, 30, 40] (some [5]) = .ok ([20, 40], some [5, 20, 40]) := by rfl

/-- what is stored is the spec: a payload holding column `c` is filtered to a payload holding `c.filter bs`
    (numeric and indexed string fields alike), and a filter of the wrong length is rejected -/
theorem filter_payload_spec (p : Payload) (c : Column) (bs : List Bool) (h : Encodes p c) :
    (∀ c', c.filter bs = some c' → ∃ p', filterPayload .repaired bs p = .ok p' ∧ Encodes p' c') ∧
    (c.filter bs = none → ∃ site, filterPayload .repaired bs p = .error (.oob site)) :=
  ⟨fun c' hc => filterPayload_spec .repaired p c c' bs h hc, fun hc => filterPayload_err p c bs h hc⟩

theorem index_payload_spec (p : Payload) (c : Column) (idx : List Int) (h : Encodes p c) :
    (∀ c', c.gather idx = some c' → ∃ p', indexPayload .repaired idx p = .ok p' ∧ Encodes p' c') ∧
    (c.gather idx = none → ∃ site, indexPayload .repaired idx p = .error (.oob site)) :=
  ⟨fun c' hc => indexPayload_spec .repaired p c c' idx h hc, fun hc => indexPayload_err p c idx h hc⟩

/-- non-vacuity: an indexed string payload holding ["a", "", "cc"], filter [1,0,1] -/
example : Encodes (.indexed [0, 1, 1, 3] [97, 99, 99]) (.strs [[97], [], [99, 99]]) ∧
    (Column.strs [[97], [], [99, 99]]).filter [true, false, true] = some (.strs [[97], [99, 99]]) := by
  constructor
  · exact ⟨Or.inl rfl, rfl⟩
  · rfl

/-! ## frame level (dataframe.py): every column gets the same row operation; only the destination is written -/

/-- `df.apply_filter(flt)` in place on a frame holding `cols`, whenever the filter fits every column
    (`mapCols (Column.filter bs) cols = some cols'`): the frame then holds `cols'` — same names, order and metadata -/
theorem frame_filter_inplace (st : Store) (src : String) (sf : Frame) (cols cols' : List (ColSpec Meta))
    (flt : Filter) (bs : List Bool) (hs : st.lookup src = some sf) (hh : Holds sf cols) (hw : AllWriteable sf)
    (hv : validateFilter flt = .ok bs) (hm : mapCols (Column.filter bs) cols = some cols') :
    ∃ rf, dfApplyFilter .repaired st src flt none = .ok (st.put src rf) ∧ Holds rf cols' ∧ AllWriteable rf := by
  obtain ⟨rf, h, hr⟩ := frameOp_inPlace (opSpec_filter bs) st src sf cols cols' hs hh hw hm
  exact ⟨rf, by simp [dfApplyFilter, hv, h, bind, Except.bind], hr⟩

/-- `df.apply_filter(flt, ddf)`: the destination gains the filtered columns (created like the source's), appended -/
theorem frame_filter_into (st : Store) (src d : String) (sf df : Frame) (cols cols' : List (ColSpec Meta))
    (flt : Filter) (bs : List Bool) (hs : st.lookup src = some sf) (hd : st.lookup d = some df)
    (hh : Holds sf cols) (hf : Fresh sf df)
    (hv : validateFilter flt = .ok bs) (hm : mapCols (Column.filter bs) cols = some cols') :
    ∃ rf, dfApplyFilter .repaired st src flt (some d) = .ok (st.put d (df ++ rf)) ∧ Holds rf cols' ∧ AllWriteable rf := by
  obtain ⟨rf, h, hr⟩ := frameOp_into (opSpec_filter bs) st src d sf df cols cols' hs hd hh hf hm
  exact ⟨rf, by simp [dfApplyFilter, hv, h, bind, Except.bind], hr⟩

/-- non-vacuity: a two-column frame (indexed strings ["a","","cc"] and int32 [5,6,7]), numeric filter [1,0,2] -/
def exInfoS : Meta := { ftype := "indexedstring", nformat := "", strlen := 0, key := [] }
def exInfoN : Meta := { ftype := "numeric", nformat := "int32", strlen := 0, key := [] }
def exFrame : Frame :=
  [("s", { info := exInfoS, payload := .indexed [0, 1, 1, 3] [97, 99, 99], writeEnabled := true }),
   ("n", { info := exInfoN, payload := .plain [5, 6, 7], writeEnabled := true })]
def exCols : List (ColSpec Meta) :=
  [{ name := "s", info := exInfoS, content := .strs [[97], [], [99, 99]] },
   { name := "n", info := exInfoN, content := .nums [5, 6, 7] }]
def exCols' : List (ColSpec Meta) :=
  [{ name := "s", info := exInfoS, content := .strs [[97], [99, 99]] },
   { name := "n", info := exInfoN, content := .nums [5, 7] }]

theorem exHolds : Holds exFrame exCols := ⟨rfl, rfl, ⟨Or.inl rfl, rfl⟩, rfl, rfl, rfl, trivial⟩
theorem exWriteable : AllWriteable exFrame := by
  intro p hp
  simp only [exFrame, List.mem_cons, List.not_mem_nil, or_false] at hp
  rcases hp with rfl | rfl <;> rfl

example : ∃ rf, dfApplyFilter .repaired [("src", exFrame), ("d0", [])] "src" (.num [1, 0, 2]) none =
    .ok (Store.put [("src", exFrame), ("d0", [])] "src" rf) ∧ Holds rf exCols' ∧ AllWriteable rf :=
  frame_filter_inplace _ "src" exFrame exCols exCols' (.num [1, 0, 2]) [true, false, true] rfl exHolds exWriteable rfl rfl

example : ∃ rf, dfApplyFilter .repaired [("src", exFrame), ("d0", [])] "src" (.num [1, 0, 2]) (some "d0") =
    .ok (Store.put [("src", exFrame), ("d0", [])] "d0" ([] ++ rf)) ∧ Holds rf exCols' ∧ AllWriteable rf :=
  frame_filter_into _ "src" "d0" exFrame [] exCols exCols' (.num [1, 0, 2]) [true, false, true] rfl rfl exHolds
    ⟨by decide, by intro p _; rfl⟩ rfl rfl

/-- a filter that does not fit some column (D8 / NC09a) is rejected, in place and into a destination -/
theorem frame_filter_rejected (st : Store) (src : String) (ddf : Option String) (sf : Frame) (cols : List (ColSpec Meta))
    (flt : Filter) (bs : List Bool) (hs : st.lookup src = some sf) (hh : Holds sf cols)
    (hv : validateFilter flt = .ok bs) (hm : mapCols (Column.filter bs) cols = none) :
    ∃ e, dfApplyFilter .repaired st src flt ddf = .error e := by
  obtain ⟨e, h⟩ := frameOp_reject (opSpec_filter bs) st src ddf sf cols hs hh hm
  exact ⟨e, by simp [dfApplyFilter, hv, h, bind, Except.bind]⟩

/-- `df.apply_index(idx)` in place on a rectangular frame -/
theorem frame_index_inplace (st : Store) (src : String) (sf : Frame) (cols cols' : List (ColSpec Meta)) (n : Nat)
    (idx : List Int) (hs : st.lookup src = some sf) (hh : Holds sf cols) (hw : AllWriteable sf)
    (hrect : ∀ c ∈ cols, c.content.length = n) (hm : mapCols (Column.gather idx) cols = some cols') :
    ∃ rf, dfApplyIndex .repaired st src idx none = .ok (st.put src rf) ∧ Holds rf cols' ∧ AllWriteable rf := by
  obtain ⟨rf, h, hr⟩ := frameOp_inPlace (opSpec_index idx) st src sf cols cols' hs hh hw hm
  have hl := allSameLength_of_rect sf cols hh n hrect
  exact ⟨rf, by simp [dfApplyIndex, Store.frame_eq st src sf hs, hl, h, bind, Except.bind], hr⟩

/-- `df.apply_index(idx, ddf)` -/
theorem frame_index_into (st : Store) (src d : String) (sf df : Frame) (cols cols' : List (ColSpec Meta))
    (idx : List Int) (hs : st.lookup src = some sf) (hd : st.lookup d = some df)
    (hh : Holds sf cols) (hf : Fresh sf df) (hm : mapCols (Column.gather idx) cols = some cols') :
    ∃ rf, dfApplyIndex .repaired st src idx (some d) = .ok (st.put d (df ++ rf)) ∧ Holds rf cols' ∧ AllWriteable rf := by
  obtain ⟨rf, h, hr⟩ := frameOp_into (opSpec_index idx) st src d sf df cols cols' hs hd hh hf hm
  exact ⟨rf, by simp [dfApplyIndex, Store.frame_eq st src sf hs, h, bind, Except.bind], hr⟩

/-- an index array with a subscript outside some column (NC09b) is rejected -/
theorem frame_index_rejected (st : Store) (src : String) (ddf : Option String) (sf : Frame) (cols : List (ColSpec Meta))
    (idx : List Int) (hs : st.lookup src = some sf) (hh : Holds sf cols)
    (hm : mapCols (Column.gather idx) cols = none) :
    ∃ e, dfApplyIndex .repaired st src idx ddf = .error e := by
  obtain ⟨e, h⟩ := frameOp_reject (opSpec_index idx) st src ddf sf cols hs hh hm
  by_cases hg : ddf.isNone ∧ (!allSameLength sf) = true
  · exact ⟨_, by simp [dfApplyIndex, Store.frame_eq st src sf hs, hg, bind, Except.bind]; rfl⟩
  · exact ⟨e, by simp only [dfApplyIndex, Store.frame_eq st src sf hs, bind, Except.bind, hg, if_false, h]⟩

example : ∃ e, dfApplyFilter .repaired [("src", exFrame)] "src" (.bool [true, false]) none = .error e :=
  frame_filter_rejected _ "src" none exFrame exCols (.bool [true, false]) [true, false] rfl exHolds rfl rfl

example : ∃ rf, dfApplyIndex .repaired [("src", exFrame)] "src" [2, -3, 2] none =
    .ok (Store.put [("src", exFrame)] "src" rf) ∧
    Holds rf [{ name := "s", info := exInfoS, content := .strs [[99, 99], [97], [99, 99]] },
              { name := "n", info := exInfoN, content := .nums [7, 5, 7] }] ∧ AllWriteable rf :=
  frame_index_inplace _ "src" exFrame exCols _ 3 [2, -3, 2] rfl exHolds exWriteable
    (by intro c hc; simp only [exCols, List.mem_cons, List.not_mem_nil, or_false] at hc; rcases hc with rfl | rfl <;> rfl)
    rfl

example : ∃ e, dfApplyIndex .repaired [("src", exFrame)] "src" [0, 3] none = .error e :=
  frame_index_rejected _ "src" none exFrame exCols [0, 3] rfl exHolds rfl

/-- `df.sort_values(by, ddf)` on a rectangular frame of `n` rows whose key columns `by` hold numbers IS
    `df.apply_index(sortPerm keys n, ddf)` — so `frame_index_inplace` / `frame_index_into` apply with that index -/
theorem frame_sort_is_index (v : Variant) (st : Store) (src : String) (sf : Frame) (cols : List (ColSpec Meta))
    (hs : st.lookup src = some sf) (hh : Holds sf cols) (n : Nat) (hrect : ∀ c ∈ cols, c.content.length = n)
    (by_ : List String) (hne : by_ ≠ []) (keys : List (List Int)) (hk : keyCols cols by_ = some keys)
    (ddf : Option String) :
    dfSortValues v st src by_ ddf =
      dfApplyIndex v st src ((sortPerm keys n).map (fun (k : Nat) => (k : Int))) ddf :=
  dfSortValues_eq v st src sf cols hs hh n hrect by_ hne keys hk ddf

example : dfSortValues .repaired [("src", exFrame)] "src" ["n"] none =
    dfApplyIndex .repaired [("src", exFrame)] "src" ((sortPerm [[5, 6, 7]] 3).map (fun (k : Nat) => (k : Int))) none :=
  frame_sort_is_index .repaired _ "src" exFrame exCols rfl exHolds 3
    (by intro c hc; simp only [exCols, List.mem_cons, List.not_mem_nil, or_false] at hc; rcases hc with rfl | rfl <;> rfl)
    ["n"] (by simp) [[5, 6, 7]] rfl none

/-- source untouched: whatever `apply_filter` / `apply_index` / `sort_values` do, every frame of the store other than the
    one written (the destination, or the source itself when in place) is exactly what it was -/
theorem source_untouched (v : Variant) (st st' : Store) (src : String) (ddf : Option String) (k : String)
    (hk : k ≠ ddf.getD src) :
    (∀ flt, dfApplyFilter v st src flt ddf = .ok st' → st'.lookup k = st.lookup k) ∧
    (∀ idx, dfApplyIndex v st src idx ddf = .ok st' → st'.lookup k = st.lookup k) ∧
    (∀ by_, dfSortValues v st src by_ ddf = .ok st' → st'.lookup k = st.lookup k) := by
  have hidx : ∀ idx, dfApplyIndex v st src idx ddf = .ok st' → st'.lookup k = st.lookup k := by
    intro idx h
    unfold dfApplyIndex at h
    cases hs : st.frame src with
    | error e => simp [hs, bind, Except.bind] at h
    | ok sf =>
      simp only [hs, bind, Except.bind] at h
      split at h
      · simp [throw, throwThe, MonadExceptOf.throw] at h
      · exact frameOp_untouched st st' src ddf _ h k hk
  refine ⟨?_, hidx, ?_⟩
  · intro flt h
    unfold dfApplyFilter at h
    cases hv : validateFilter flt with
    | error e => simp [hv, bind, Except.bind] at h
    | ok bs =>
      simp only [hv, bind, Except.bind] at h
      exact frameOp_untouched st st' src ddf _ h k hk
  · intro by_ h
    unfold dfSortValues at h
    simp only [bind, Except.bind] at h
    repeat' (split at h <;> try (first | (simp [throw, throwThe, MonadExceptOf.throw, pure, Except.pure] at h; done) | skip))
    all_goals first | exact hidx _ h | simp_all

/-! ## rows: alignment and multisets -/

/-- metadata, names and order are preserved by construction of `mapCols` -/
theorem metadata_preserved {μ} (g : Column → Option Column) (cols cols' : List (ColSpec μ))
    (h : mapCols g cols = some cols') :
    cols'.map (fun c => (c.name, c.info)) = cols.map (fun c => (c.name, c.info)) := by
  induction cols generalizing cols' with
  | nil => simp [mapCols] at h; subst h; rfl
  | cons c cs ih =>
    simp only [mapCols] at h
    split at h
    · rename_i x r _ hr
      simp at h; subst h
      simp [ih r hr]
    · simp at h

/-- rows stay aligned: filtering two columns separately = filtering the column of pairs (so of rows) -/
theorem filter_rowwise {α β} (bs : List Bool) (xs : List α) (ys : List β) :
    filterBy bs (xs.zip ys) = (filterBy bs xs).zip (filterBy bs ys) := filterBy_zip bs xs ys

/-- rows stay aligned under re-indexing (hence under sorting) -/
theorem index_rowwise {α β} (xs : List α) (ys : List β) (h : xs.length = ys.length) (idx : List Int) :
    gather (xs.zip ys) idx = match gather xs idx, gather ys idx with
      | some r, some s => some (r.zip s)
      | _, _ => none := gather_zip xs ys h idx

/-- a filter keeps a sub-list of the rows (order preserved, nothing invented) -/
theorem filter_subset {α} (bs : List Bool) (xs : List α) : (filterBy bs xs).Sublist xs := filterBy_sublist bs xs

/-- re-indexing by a permutation of the row numbers — in particular sorting — is defined and preserves the multiset of rows -/
theorem permutation_preserves_rows {α} (xs : List α) (p : List Nat) (hp : p.Perm (List.range xs.length)) :
    ∃ r, gather xs (p.map (fun (k : Nat) => (k : Int))) = some r ∧ r.Perm xs := gather_nat_perm xs p hp

theorem sort_preserves_rows {α} (xs : List α) (keys : List (List Int)) :
    ∃ r, gather xs ((sortPerm keys xs.length).map (fun (k : Nat) => (k : Int))) = some r ∧ r.Perm xs :=
  gather_nat_perm xs _ (List.mergeSort_perm _ _)

example : ∃ r, gather [10, 20, 30] (([2, 0, 1] : List Nat).map (fun (k : Nat) => (k : Int))) = some r ∧ r.Perm [10, 20, 30] :=
  permutation_preserves_rows [10, 20, 30] [2, 0, 1] (by decide)

/-! ## sorting by ANY mix of key columns (numeric / categorical / timestamp / fixed string hold numbers; indexed strings)

  The code sorts an indexed-string key as `np.asarray(list_of_str)` with `np.argsort(kind='stable')`: a `<U` array, compared
  code point by code point. ASSUMPTIONS (runtime behaviour, exercised by the correspondence, not proved): numpy compares `<U`
  entries by code point and its stable argsort is stable; for valid UTF-8 the code-point order is the bytewise order of the
  encodings (`strLt`). One thing numpy does NOT do is keep trailing NUL characters: a `<U` array is NUL padded and `'a\x00'`
  compares equal to `'a'` (NC09g, same root as NC14a) — the model mirrors that (`trimNul` in `keyColumns`), the full-strength
  theorem below is therefore stated for the key columns as numpy sees them (`KeyCol.numpyView`), and the statement for the
  bytewise order of the stored strings carries the hypothesis that no string key ends in NUL (`…_partial`). The model
  replaces a string column by its rank column (`rankKeys`); `rank_is_order_embedding` is why that is faithful. -/

/-- Rank encoding of a string column is an order embedding: for entries `e1`, `e2` of the column, the ranks (number of
    strictly smaller entries) compare exactly as the strings do bytewise — smaller string ⇔ smaller rank, equal string ⇔ equal
    rank — and `rankKeys` is the column of these ranks. -/
theorem rank_is_order_embedding (es : List (List Nat)) :
    rankKeys es = es.map (fun e => (rankOf es e : Int)) ∧
    ∀ e1 ∈ es, ∀ e2 ∈ es, (rankOf es e1 < rankOf es e2 ↔ strLt e1 e2 = true) ∧ (rankOf es e1 = rankOf es e2 ↔ e1 = e2) :=
  ⟨rankKeys_eq es, fun e1 h1 e2 h2 => rankOf_lt_iff es e1 e2 h1 h2⟩

example : rankKeys [[98], [97], [98], [97, 0], []] = [3, 1, 3, 2, 0] := by decide

/-- On rows of a frame, comparing the integer tuples the model sorts (numbers as they are, strings by rank) is comparing the
    key tuples themselves (numbers as integers, strings bytewise), whatever the mix of column kinds. -/
theorem encoded_keys_compare_as_keys (n : Nat) (keys : List KeyCol) (hk : ∀ k ∈ keys, k.length = n) (a b : Nat)
    (ha : a < n) (hb : b < n) :
    lexLE (keyRow (keys.map encCol) a) (keyRow (keys.map encCol) b) = lexLEK (keyRowK keys a) (keyRowK keys b) :=
  lexLE_enc n keys hk a b ha hb

/-- `df.sort_values(by, ddf)` on a rectangular frame of `n` rows, `by` naming ANY mix of numeric, fixed-string (numbers) and
    indexed-string key columns, IS `df.apply_index(p, ddf)` for the one list `p` that holds every row once, in non-decreasing
    lexicographic order of the key tuples (as numpy sees them), rows with equal tuples in their original order — so
    `frame_index_inplace` / `frame_index_into` apply with that index: rows stay aligned, every column is permuted alike. -/
theorem frame_sort_is_index_all_keys (v : Variant) (st : Store) (src : String) (sf : Frame) (cols : List (ColSpec Meta))
    (hs : st.lookup src = some sf) (hh : Holds sf cols) (n : Nat) (hrect : ∀ c ∈ cols, c.content.length = n)
    (by_ : List String) (hne : by_ ≠ []) (keys : List KeyCol) (hk : keyColsAll cols by_ = some keys)
    (ddf : Option String) :
    ∃ p, dfSortValues v st src by_ ddf = dfApplyIndex v st src (p.map (fun (k : Nat) => (k : Int))) ddf ∧
      IsStableSortPermK (keys.map KeyCol.numpyView) n p ∧
      ∀ q, IsStableSortPermK (keys.map KeyCol.numpyView) n q → q = p :=
  dfSortValues_eq_all v st src sf cols hs hh n hrect by_ hne keys hk ddf

/-- The same for the bytewise order of the strings as stored, under the hypothesis that no string key ends in a NUL
    character. (Full statement — without `hnul` — is false for the code as found: `Witness.C09.nc09g_trailing_nul_key_ties`;
    open finding NC09g.) -/
theorem frame_sort_is_index_all_keys_partial (v : Variant) (st : Store) (src : String) (sf : Frame) (cols : List (ColSpec Meta))
    (hs : st.lookup src = some sf) (hh : Holds sf cols) (n : Nat) (hrect : ∀ c ∈ cols, c.content.length = n)
    (by_ : List String) (hne : by_ ≠ []) (keys : List KeyCol) (hk : keyColsAll cols by_ = some keys)
    (hnul : ∀ k ∈ keys, k.NoTrailingNul) (ddf : Option String) :
    ∃ p, dfSortValues v st src by_ ddf = dfApplyIndex v st src (p.map (fun (k : Nat) => (k : Int))) ddf ∧
      IsStableSortPermK keys n p ∧ ∀ q, IsStableSortPermK keys n q → q = p := by
  have h := frame_sort_is_index_all_keys v st src sf cols hs hh n hrect by_ hne keys hk ddf
  rw [numpyView_of_noTrailingNul keys hnul] at h
  exact h

/-- a frame sorted by its indexed-string column, then (ties) by its numeric column -/
example : ∃ p, dfSortValues .repaired [("src", exFrame)] "src" ["s", "n"] none =
      dfApplyIndex .repaired [("src", exFrame)] "src" (p.map (fun (k : Nat) => (k : Int))) none ∧
    IsStableSortPermK [.strs [[97], [], [99, 99]], .nums [5, 6, 7]] 3 p ∧
    ∀ q, IsStableSortPermK [.strs [[97], [], [99, 99]], .nums [5, 6, 7]] 3 q → q = p :=
  frame_sort_is_index_all_keys_partial .repaired _ "src" exFrame exCols rfl exHolds 3
    (by intro c hc; simp only [exCols, List.mem_cons, List.not_mem_nil, or_false] at hc; rcases hc with rfl | rfl <;> rfl)
    ["s", "n"] (by simp) _ rfl
    (by intro k hk; simp only [List.mem_cons, List.not_mem_nil, or_false] at hk
        rcases hk with rfl | rfl
        · intro e he; simp only [List.mem_cons, List.not_mem_nil, or_false] at he
          rcases he with rfl | rfl | rfl <;> decide
        · trivial) none

/-- three kinds mixed — a string key with ties, a numeric key, a fixed-string key (its big-endian number): the stable sort
    permutation is `[1, 3, 2, 0]` -/
example : IsStableSortPermK [.strs [[98], [97], [98], [97]], .nums [2, 1, 1, 1], .nums [24930, 25186, 24930, 25186]] 4 [1, 3, 2, 0] :=
  ⟨by decide, by decide⟩

/-- Stability: of two rows with EQUAL key tuples (whatever the mix of kinds) the one that was first in the frame is first
    after the sort. -/
theorem sort_all_keys_stable (keys : List KeyCol) (n : Nat) (p : List Nat) (hp : IsStableSortPermK keys n p)
    (i j : Nat) (hij : i < j) (hj : j < n) (heq : keyRowK keys i = keyRowK keys j) : [i, j].Sublist p :=
  stableK_keeps_ties keys n p hp i j hij hj heq

example : [1, 3].Sublist [1, 3, 2, 0] :=
  sort_all_keys_stable [.strs [[98], [97], [98], [97]], .nums [2, 1, 1, 1]] 4 [1, 3, 2, 0] ⟨by decide, by decide⟩ 1 3
    (by omega) (by omega) rfl

/-- `Session.dataset_sort_index` — the function `sort_values` and `Session.sort_on` both call — on key columns of any mix of
    kinds (as the arrays numpy sorts) returns THE stable sort permutation of the key tuples, started from `arange(n)` or from
    no index. -/
theorem sort_index_eq_all_keys (keys : List KeyCol) (n : Nat) (hne : keys ≠ []) (hk : ∀ k ∈ keys, k.length = n) :
    ∃ p, datasetSortIndex (keys.map encCol) none = .ok p ∧ datasetSortIndex (keys.map encCol) (some (List.range n)) = .ok p ∧
      IsStableSortPermK keys n p ∧ ∀ q, IsStableSortPermK keys n q → q = p :=
  datasetSortIndex_all keys n hne hk

example : ∃ p, datasetSortIndex ([KeyCol.strs [[98], [97], [98]], .nums [2, 1, 1]].map encCol) none = .ok p ∧ p = [1, 2, 0] := by
  obtain ⟨p, h1, _, _, hu⟩ := sort_index_eq_all_keys [KeyCol.strs [[98], [97], [98]], .nums [2, 1, 1]] 3 (by simp)
    (by intro k hk; simp only [List.mem_cons, List.not_mem_nil, or_false] at hk; rcases hk with rfl | rfl <;> rfl)
  exact ⟨p, h1, (hu [1, 2, 0] ⟨by decide, by decide⟩).symm⟩

end Exetera.Props.C09
