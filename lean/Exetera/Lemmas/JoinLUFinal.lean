import Exetera.Lemmas.JoinLUDriver
import Exetera.Lemmas.JoinGeneralFinal
import Exetera.Lemmas.JoinInnerSpec
/-!
  Whole-driver theorems for the two left-unique variants
  (`generate_ordered_map_to_left_left_unique_streamed`, `generate_ordered_map_to_inner_left_unique_streamed`).

  Hypotheses: `L` strictly sorted (`L.Pairwise (· < ·)`: sorted and duplicate-free; `LU.sorted_of_strict` gives `Sorted L`), `R` sorted (runs of equal keys allowed), chunk size ≥ 1.
  Every kernel iteration advances the left or the right row position, so `|L| + |R|` driver iterations always suffice.
-/
namespace Exetera.Join.LU
open Exetera Exetera.Spec Exetera.Join

variable {emit : Bool} {L R : List Int} {cs : Nat} {inv : Int}

/-- initial driver state -/
theorem init_inv (hcs : 0 < cs) :
    ∃ lch rch, fetchChunk (uvariant emit).ltrim L 0 cs = .ok lch ∧ fetchChunk (uvariant emit).rtrim R 0 cs = .ok rch ∧
      UMInv emit L R cs inv { lch := lch, rch := rch, k := {} } ∧
      ugmu L R { lch := lch, rch := rch, k := {} } ≤ L.length + R.length := by
  obtain ⟨lch, hl1, hl2, hl3, hl4⟩ := fetch_untrimmed L 0 cs hcs (Nat.zero_le _)
  obtain ⟨rch, hr1, hr2, hr3, hr4⟩ := fetchChunk_ok (uvariant emit).rtrim R 0 cs hcs (Nat.zero_le _)
  refine ⟨lch, rch, by rw [uvariant_ltrim]; exact hl1, hr1,
    ⟨⟨hl3, hr3, hl4, hr4 (uvariant_rtrim emit), Nat.zero_le _, Nat.zero_le _,
    rfl, Nat.zero_le _, ?_, ?_, ?_⟩, ?_, ?_, rfl⟩, ?_⟩
  · have : pendU L R 0 0 = leftJoin L R := by
      rw [pendU_fresh (fun a _ j b hj => by omega), rest_zero]
    simp [D.I, D.J, hl2, hr2, this]
  · have : pendU L R 0 0 = leftJoin L R := by
      rw [pendU_fresh (fun a _ j b hj => by omega), rest_zero]
    simp [D.I, D.J, hl2, hr2, this]
  · intro a _
    right
    intro j b hj; simp [D.J, hr2] at hj
  · intro h; have := hl3.nonempty; simp only [] at h ⊢; omega
  · intro h; have := hr3.nonempty; simp only [] at h ⊢; omega
  · simp only [ugmu, D.I, D.J]; omega

/-- what is known when the main loop stops: nothing of the current left row has been emitted, and if left rows remain
    then the right column is exhausted and all of it is below the current left key -/
theorem main_exit {d : D} (hm : UMInv emit L R cs inv d) (hg : mainGuard L R d = false) :
    pendU L R d.I d.J = rest L R d.I ∧ (d.I < L.length → AllBelow L R d.I) := by
  have hng : ¬ (d.k.i + d.lch.lo < L.length ∧ d.k.j + d.rch.lo < R.length) := by
    intro h
    have : mainGuard L R d = true := by simp [mainGuard, h.1, h.2]
    rw [this] at hg; cases hg
  by_cases hI : d.I < L.length
  · have hJ : R.length ≤ d.J := by
      simp only [D.I, D.J] at *
      apply Decidable.byContradiction
      intro hc
      apply hng; constructor <;> omega
    have hnone : R[d.J]? = none := List.getElem?_eq_none hJ
    have hfresh : ∀ a, L[d.I]? = some a → ∀ j b, j < d.J → R[j]? = some b → b < a := by
      intro a ha
      rcases hm.g.h1 a ha with h | h
      · rw [hnone] at h; cases h
      · exact h
    refine ⟨pendU_fresh hfresh, fun _ => ?_⟩
    intro j b a hj hb ha
    exact hfresh a ha j b (by omega) hb
  · refine ⟨pendU_fresh ?_, fun h => absurd h hI⟩
    intro a ha
    have := (List.getElem?_eq_some_iff.mp ha).1
    omega

/-- `generate_ordered_map_to_{left,inner}_left_unique_streamed` return the relational join for every chunk size -/
theorem unique_streamed (hcs : 0 < cs) (hLs : L.Pairwise (· < ·)) (hR : Sorted R) (fuel : Nat)
    (hfuel : L.length + R.length ≤ fuel) :
    ∃ calls, streamed (uvariant emit) fuel cs inv L R =
      .ok ⟨encL (sel emit (leftJoin L R)), encR inv (sel emit (leftJoin L R)), calls⟩ := by
  have hL := sorted_of_strict hLs
  obtain ⟨lch, rch, hf1, hf2, hm0, hg0⟩ := init_inv (emit := emit) (L := L) (R := R) (inv := inv) hcs
  -- main loop
  obtain ⟨d1, hw1, hm1, hgf1⟩ := whileE_rule (mainGuard L R) (mainBody (uvariant emit) L R cs inv)
    (UMInv emit L R cs inv) (ugmu L R)
    (fun d hm hg => main_step hcs hLs hR d hm hg) fuel _ hm0 (by omega)
  obtain ⟨hpend, hbelow⟩ := main_exit hm1 hgf1
  have hlb1 : d1.k.lb = [] := by
    have := hm1.g.blen; rw [hm1.flushed] at this; simpa using this
  cases emit with
  | false =>
    have hnil : sel false (pendU L R d1.I d1.J) = [] := by
      apply sel_false_eq_nil
      rw [hpend]
      exact rest_all_unmatched hL hR _ _ rfl hbelow
    have hoL := hm1.g.outL
    have hoR := hm1.g.outR
    rw [hnil, hlb1] at hoL
    rw [hnil, hm1.flushed] at hoR
    refine ⟨d1.calls, ?_⟩
    simp only [streamed, hf1, hf2, hw1, bind, Except.bind, pure, Except.pure]
    simp [uvariant, Variant.isLeft, Variant.hasL] at hoL hoR ⊢
    simp [encL, encR] at hoL hoR
    exact ⟨hoL, hoR⟩
  | true =>
    have ht1 : TTop L R cs inv d1 := by
      refine ⟨⟨hm1.g.lok.lo_le, hm1.g.lok.hi_le, hm1.g.ile, hm1.g.blen, hm1.g.bcap, ?_, ?_, hbelow⟩, hm1.li, hm1.flushed⟩
      · have := hm1.g.outL; simpa [hpend, sel] using this
      · have := hm1.g.outR; simpa [hpend, sel] using this
    obtain ⟨d2, hw2, ht2, hgf2⟩ := whileE_rule (tailGuard L) (tailBody L R cs inv)
      (TTop L R cs inv) (fun d => L.length - d.I)
      (fun d ht hg => tail_step hcs hL hR d ht hg) fuel _ ht1 (by omega)
    have hI2 : L.length ≤ d2.I := by
      simp only [tailGuard] at hgf2
      have := of_decide_eq_false hgf2
      simp only [D.I]; omega
    have hlb2 : d2.k.lb = [] := by
      have := ht2.t.blen; rw [ht2.flushed] at this; simpa using this
    have hoL := ht2.t.outL
    have hoR := ht2.t.outR
    rw [rest_of_ge L R hI2, hlb2] at hoL
    rw [rest_of_ge L R hI2, ht2.flushed] at hoR
    refine ⟨d2.calls, ?_⟩
    simp only [streamed, hf1, hf2, hw1, bind, Except.bind, pure, Except.pure]
    simp [uvariant, Variant.isLeft, Variant.hasL, hw2, sel] at hoL hoR ⊢
    simp [encL, encR] at hoL hoR
    exact ⟨hoL, hoR⟩

end Exetera.Join.LU

namespace Exetera.Join
open Exetera Exetera.Spec

/-- `generate_ordered_map_to_left_left_unique_streamed`: for a duplicate-free sorted left column and a sorted right column
    (equal-key runs allowed), every chunk size ≥ 1, every marker, the streamed maps are exactly the relational left join.
    `Variant.leftLU.hasL = true`: both `l_result` and `r_result` are written. -/
theorem leftLU_streamed {L R : List Int} {cs : Nat} (inv : Int) (hcs : 0 < cs) (hLu : L.Pairwise (· < ·))
    (hR : Sorted R) (fuel : Nat) (hfuel : L.length + R.length ≤ fuel) :
    ∃ calls, streamed .leftLU fuel cs inv L R = .ok ⟨encL (leftJoin L R), encR inv (leftJoin L R), calls⟩ := by
  have := LU.unique_streamed (emit := true) (inv := inv) hcs hLu hR fuel hfuel
  simpa [sel, LU.uvariant] using this

/-- `generate_ordered_map_to_inner_left_unique_streamed`: the streamed maps are exactly the matched rows of the relational
    left join, i.e. (`inner_eq_sel_left`) the relational inner join. -/
theorem innerLU_streamed {L R : List Int} {cs : Nat} (inv : Int) (hcs : 0 < cs) (hLu : L.Pairwise (· < ·))
    (hR : Sorted R) (fuel : Nat) (hfuel : L.length + R.length ≤ fuel) :
    ∃ calls, streamed .innerLU fuel cs inv L R =
      .ok ⟨encL (sel false (leftJoin L R)), encR inv (sel false (leftJoin L R)), calls⟩ := by
  exact LU.unique_streamed (emit := false) (inv := inv) hcs hLu hR fuel hfuel

/-- the same, phrased with the relational inner join -/
theorem innerLU_streamed_eq {L R : List Int} {cs : Nat} (inv : Int) (hcs : 0 < cs) (hLu : L.Pairwise (· < ·))
    (hR : Sorted R) (fuel : Nat) (hfuel : L.length + R.length ≤ fuel) :
    ∃ calls, streamed .innerLU fuel cs inv L R =
      .ok ⟨(encodeInner (innerJoin L R)).1, (encodeInner (innerJoin L R)).2, calls⟩ := by
  obtain ⟨calls, h⟩ := innerLU_streamed inv hcs hLu hR fuel hfuel
  refine ⟨calls, ?_⟩
  rw [h]
  have hspec := inner_eq_sel_left R L 0
  simp only [innerJoin, hspec, leftJoin]
  rw [encR_sel_false inv 0]

/-- the left-unique left join, phrased with `encodeLeft` -/
theorem leftLU_streamed_eq {L R : List Int} {cs : Nat} (inv : Int) (hcs : 0 < cs) (hLu : L.Pairwise (· < ·))
    (hR : Sorted R) (fuel : Nat) (hfuel : L.length + R.length ≤ fuel) :
    ∃ calls, streamed .leftLU fuel cs inv L R =
      .ok ⟨(encodeLeft inv (leftJoin L R)).1, (encodeLeft inv (leftJoin L R)).2, calls⟩ :=
  leftLU_streamed inv hcs hLu hR fuel hfuel

/-- `driverFuel`, the budget the executable driver uses, is always enough -/
theorem leftLU_driverFuel {L R : List Int} {cs : Nat} (inv : Int) (hcs : 0 < cs) (hLu : L.Pairwise (· < ·)) (hR : Sorted R)
    (n : Nat) :
    ∃ calls, streamed .leftLU (driverFuel L R n) cs inv L R = .ok ⟨encL (leftJoin L R), encR inv (leftJoin L R), calls⟩ :=
  leftLU_streamed inv hcs hLu hR _ (by simp only [driverFuel]; omega)

theorem innerLU_driverFuel {L R : List Int} {cs : Nat} (inv : Int) (hcs : 0 < cs) (hLu : L.Pairwise (· < ·)) (hR : Sorted R)
    (n : Nat) :
    ∃ calls, streamed .innerLU (driverFuel L R n) cs inv L R =
      .ok ⟨encL (sel false (leftJoin L R)), encR inv (sel false (leftJoin L R)), calls⟩ :=
  innerLU_streamed inv hcs hLu hR _ (by simp only [driverFuel]; omega)

-- non-vacuity: duplicate-free left column, right runs longer than the chunk (and than the result buffer)
example : ([1, 2, 4, 5] : List Int).Pairwise (· < ·) ∧ Sorted [0, 1, 1, 1, 3, 4, 4] ∧ 0 < 2 := by
  refine ⟨by decide, by simp [Sorted], by decide⟩
example : (streamed .leftLU 11 2 (-1) [1, 2, 4, 5] [0, 1, 1, 1, 3, 4, 4]).toOption.map (fun o => (o.lout, o.rout)) =
    some (encodeLeft (-1) (leftJoin [1, 2, 4, 5] [0, 1, 1, 1, 3, 4, 4])) := by decide
example : (streamed .innerLU 11 1 0 [1, 2, 4, 5] [0, 1, 1, 1, 3, 4, 4]).toOption.map (fun o => (o.lout, o.rout)) =
    some (encodeInner (innerJoin [1, 2, 4, 5] [0, 1, 1, 1, 3, 4, 4])) := by decide

end Exetera.Join
