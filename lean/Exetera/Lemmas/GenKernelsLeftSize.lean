import Exetera.Gen.Kernels
import Exetera.Model.JoinFlat
import Exetera.Lemmas.While
import Exetera.Lemmas.JoinKernel
import Exetera.Lemmas.GenKernels
import Exetera.Lemmas.GenKernelsJoin
import Exetera.Lemmas.GenKernelsJoinGeneral
/-!
  The TRANSLATED kernel `ordered_left_map_result_size(left, right)`.

  The kernel has NO caller in the library (only tests/ call it) and no hand model elsewhere: the theorems below are NOT
  obligations of any property (an edit to dead code must not raise a semantic alarm); they are re-checked by
  `lake build Exetera` only. The translation itself is validated differentially under C10 (checks/harness/genkernels.py).

  In the source the `return result_size` that should follow the outer `while` loop is indented one level too deep: it is the
  last statement of the loop BODY, so the function returns after the first iteration. `leftSizeAsWritten` is what it computes as
  written: 0 for an empty left column, len(left) for an empty right column, and otherwise the contribution of the first
  comparison only (1 when left[0] < right[0], 0 when left[0] > right[0], the product of the two leading run lengths when they are
  equal). `left_size_as_written_ok` / `left_size_as_written_eq`: the translated kernel returns exactly that on EVERY pair of
  arrays. It is NOT the number of rows of the left join (examples at the end): a defect of dead code, recorded in the report, no
  property speaks about it.
-/
namespace Exetera.GenK

open Exetera Exetera.PyRt Exetera.Gen.Kernels Exetera.Join Exetera.JoinFlat

/-- what `ordered_left_map_result_size` computes AS WRITTEN (the `return` sits inside the body of the outer `while`) -/
def leftSizeAsWritten (L R : List Int) : Except Err Nat :=
  match L, R with
  | [], _ => .ok 0
  | _ :: l, [] => .ok (l.length + 1)
  | a :: _, b :: _ =>
    if a < b then .ok 1
    else if a > b then .ok 0
    else
      match runCount L L.length L.length 0 1, runCount R R.length R.length 0 1 with
      | .ok n, .ok m => .ok (n * m)
      | .error e, _ => .error e
      | _, .error e => .error e

namespace LSZ

abbrev St := ordered_left_map_result_size.St

/-- the left run count: `while i + 1 < len(left) and left[i+1] == left[i]: cur_i_count += 1; i += 1` -/
theorem countL (xs : List Int) :
    ∀ (f F k c c' : Nat) (s : St), s.p0 = xs → s.v0 = (k : Int) → s.v3 = (c : Int) →
      xs.length - (k + 1) ≤ f → xs.length - (k + 1) ≤ F → runCount xs xs.length f k c = .ok c' →
      c ≤ c' ∧ whileG ordered_left_map_result_size.guardE_L2 ordered_left_map_result_size.body_L2 F s
        = .ok { s with v0 := ((k + (c' - c) : Nat) : Int), v3 := (c' : Int) } := by
  intro f
  induction f with
  | zero =>
    intro F k c c' s h0 hv0 hv3 hf _ h
    obtain ⟨q0, q1, w0, w1, w2, w3, w4, w5, w6⟩ := s
    simp only at h0 hv0 hv3
    subst h0 hv0 hv3
    simp only [runCount, Except.ok.injEq] at h
    subst h
    have hg : ordered_left_map_result_size.guardE_L2 ⟨q0, q1, (k : Int), w1, w2, (c : Int), w4, w5, w6⟩ = .ok false := by
      have : decide ((k : Int) + 1 < pyLen q0) = false := decide_eq_false (by simp only [pyLen]; omega)
      simp only [ordered_left_map_result_size.guardE_L2, this, Bool.false_eq_true, if_false]
    refine ⟨Nat.le_refl _, ?_⟩
    simp only [Nat.sub_self, Nat.add_zero]
    cases F <;> simp [whileG, hg]
  | succ f ih =>
    intro F k c c' s h0 hv0 hv3 hf hF h
    obtain ⟨q0, q1, w0, w1, w2, w3, w4, w5, w6⟩ := s
    simp only at h0 hv0 hv3
    subst h0 hv0 hv3
    simp only [runCount] at h
    by_cases hk : k + 1 < q0.length
    · simp only [hk, if_true] at h
      have hlt : decide (((k + 1 : Nat) : Int) < pyLen q0) = true := decide_eq_true (by simp only [pyLen]; omega)
      have hc1 : ((k : Int) + 1) = ((k + 1 : Nat) : Int) := by omega
      cases ha : getE q0 (k + 1) "run[k+1]" with
      | error e => simp [ha] at h
      | ok a =>
        cases hb : getE q0 k "run[k]" with
        | error e => simp [ha, hb] at h
        | ok b =>
          simp only [ha, hb] at h
          by_cases hab : a = b
          · subst hab
            simp only [beq_self_eq_true, if_true] at h
            have hg : ordered_left_map_result_size.guardE_L2 ⟨q0, q1, (k : Int), w1, w2, (c : Int), w4, w5, w6⟩ = .ok true := by
              simp only [ordered_left_map_result_size.guardE_L2, hc1, hlt, if_true, idxE_nat,
                Gen.getE_site "p0[v0 + 1]" ha, Gen.getE_site "p0[v0]" hb, bindE_ok, beq_self_eq_true]
            obtain ⟨F', rfl⟩ : ∃ F', F = F' + 1 := ⟨F - 1, by omega⟩
            have e1 : (c : Int) + 1 = ((c + 1 : Nat) : Int) := by omega
            have hbody : ordered_left_map_result_size.body_L2 ⟨q0, q1, (k : Int), w1, w2, (c : Int), w4, w5, w6⟩
                = .ok ⟨q0, q1, ((k + 1 : Nat) : Int), w1, w2, ((c + 1 : Nat) : Int), w4, w5, w6⟩ := by
              simp only [ordered_left_map_result_size.body_L2, hc1, e1]
            obtain ⟨hle, hw⟩ := ih F' (k + 1) (c + 1) c' ⟨q0, q1, ((k + 1 : Nat) : Int), w1, w2, ((c + 1 : Nat) : Int), w4, w5, w6⟩
              rfl rfl rfl (by omega) (by omega) h
            refine ⟨by omega, ?_⟩
            simp only [whileG, hg, if_true, hbody]
            rw [hw]
            have : k + 1 + (c' - (c + 1)) = k + (c' - c) := by omega
            simp only [this]
          · have hne : (a == b) = false := by simp [hab]
            simp only [hne, Bool.false_eq_true, if_false, Except.ok.injEq] at h
            subst h
            have hg : ordered_left_map_result_size.guardE_L2 ⟨q0, q1, (k : Int), w1, w2, (c : Int), w4, w5, w6⟩ = .ok false := by
              simp only [ordered_left_map_result_size.guardE_L2, hc1, hlt, if_true, idxE_nat,
                Gen.getE_site "p0[v0 + 1]" ha, Gen.getE_site "p0[v0]" hb, bindE_ok, hne]
            refine ⟨Nat.le_refl _, ?_⟩
            simp only [Nat.sub_self, Nat.add_zero]
            cases F <;> simp [whileG, hg]
    · simp only [hk, if_false, Except.ok.injEq] at h
      subst h
      have hg : ordered_left_map_result_size.guardE_L2 ⟨q0, q1, (k : Int), w1, w2, (c : Int), w4, w5, w6⟩ = .ok false := by
        have : decide ((k : Int) + 1 < pyLen q0) = false := decide_eq_false (by simp only [pyLen]; omega)
        simp only [ordered_left_map_result_size.guardE_L2, this, Bool.false_eq_true, if_false]
      refine ⟨Nat.le_refl _, ?_⟩
      simp only [Nat.sub_self, Nat.add_zero]
      cases F <;> simp [whileG, hg]

/-- the right run count -/
theorem countR (xs : List Int) :
    ∀ (f F k c c' : Nat) (s : St), s.p1 = xs → s.v1 = (k : Int) → s.v4 = (c : Int) →
      xs.length - (k + 1) ≤ f → xs.length - (k + 1) ≤ F → runCount xs xs.length f k c = .ok c' →
      c ≤ c' ∧ whileG ordered_left_map_result_size.guardE_L3 ordered_left_map_result_size.body_L3 F s
        = .ok { s with v1 := ((k + (c' - c) : Nat) : Int), v4 := (c' : Int) } := by
  intro f
  induction f with
  | zero =>
    intro F k c c' s h0 hv0 hv3 hf _ h
    obtain ⟨q0, q1, w0, w1, w2, w3, w4, w5, w6⟩ := s
    simp only at h0 hv0 hv3
    subst h0 hv0 hv3
    simp only [runCount, Except.ok.injEq] at h
    subst h
    have hg : ordered_left_map_result_size.guardE_L3 ⟨q0, q1, w0, (k : Int), w2, w3, (c : Int), w5, w6⟩ = .ok false := by
      have : decide ((k : Int) + 1 < pyLen q1) = false := decide_eq_false (by simp only [pyLen]; omega)
      simp only [ordered_left_map_result_size.guardE_L3, this, Bool.false_eq_true, if_false]
    refine ⟨Nat.le_refl _, ?_⟩
    simp only [Nat.sub_self, Nat.add_zero]
    cases F <;> simp [whileG, hg]
  | succ f ih =>
    intro F k c c' s h0 hv0 hv3 hf hF h
    obtain ⟨q0, q1, w0, w1, w2, w3, w4, w5, w6⟩ := s
    simp only at h0 hv0 hv3
    subst h0 hv0 hv3
    simp only [runCount] at h
    by_cases hk : k + 1 < q1.length
    · simp only [hk, if_true] at h
      have hlt : decide (((k + 1 : Nat) : Int) < pyLen q1) = true := decide_eq_true (by simp only [pyLen]; omega)
      have hc1 : ((k : Int) + 1) = ((k + 1 : Nat) : Int) := by omega
      cases ha : getE q1 (k + 1) "run[k+1]" with
      | error e => simp [ha] at h
      | ok a =>
        cases hb : getE q1 k "run[k]" with
        | error e => simp [ha, hb] at h
        | ok b =>
          simp only [ha, hb] at h
          by_cases hab : a = b
          · subst hab
            simp only [beq_self_eq_true, if_true] at h
            have hg : ordered_left_map_result_size.guardE_L3 ⟨q0, q1, w0, (k : Int), w2, w3, (c : Int), w5, w6⟩ = .ok true := by
              simp only [ordered_left_map_result_size.guardE_L3, hc1, hlt, if_true, idxE_nat,
                Gen.getE_site "p1[v1 + 1]" ha, Gen.getE_site "p1[v1]" hb, bindE_ok, beq_self_eq_true]
            obtain ⟨F', rfl⟩ : ∃ F', F = F' + 1 := ⟨F - 1, by omega⟩
            have e1 : (c : Int) + 1 = ((c + 1 : Nat) : Int) := by omega
            have hbody : ordered_left_map_result_size.body_L3 ⟨q0, q1, w0, (k : Int), w2, w3, (c : Int), w5, w6⟩
                = .ok ⟨q0, q1, w0, ((k + 1 : Nat) : Int), w2, w3, ((c + 1 : Nat) : Int), w5, w6⟩ := by
              simp only [ordered_left_map_result_size.body_L3, hc1, e1]
            obtain ⟨hle, hw⟩ := ih F' (k + 1) (c + 1) c' ⟨q0, q1, w0, ((k + 1 : Nat) : Int), w2, w3, ((c + 1 : Nat) : Int), w5, w6⟩
              rfl rfl rfl (by omega) (by omega) h
            refine ⟨by omega, ?_⟩
            simp only [whileG, hg, if_true, hbody]
            rw [hw]
            have : k + 1 + (c' - (c + 1)) = k + (c' - c) := by omega
            simp only [this]
          · have hne : (a == b) = false := by simp [hab]
            simp only [hne, Bool.false_eq_true, if_false, Except.ok.injEq] at h
            subst h
            have hg : ordered_left_map_result_size.guardE_L3 ⟨q0, q1, w0, (k : Int), w2, w3, (c : Int), w5, w6⟩ = .ok false := by
              simp only [ordered_left_map_result_size.guardE_L3, hc1, hlt, if_true, idxE_nat,
                Gen.getE_site "p1[v1 + 1]" ha, Gen.getE_site "p1[v1]" hb, bindE_ok, hne]
            refine ⟨Nat.le_refl _, ?_⟩
            simp only [Nat.sub_self, Nat.add_zero]
            cases F <;> simp [whileG, hg]
    · simp only [hk, if_false, Except.ok.injEq] at h
      subst h
      have hg : ordered_left_map_result_size.guardE_L3 ⟨q0, q1, w0, (k : Int), w2, w3, (c : Int), w5, w6⟩ = .ok false := by
        have : decide ((k : Int) + 1 < pyLen q1) = false := decide_eq_false (by simp only [pyLen]; omega)
        simp only [ordered_left_map_result_size.guardE_L3, this, Bool.false_eq_true, if_false]
      refine ⟨Nat.le_refl _, ?_⟩
      simp only [Nat.sub_self, Nat.add_zero]
      cases F <;> simp [whileG, hg]


theorem while_ret (F G : Nat) (s : St) (h : s.ret = true) :
    whileE ordered_left_map_result_size.guard_L1 (ordered_left_map_result_size.body_L1 G) F s = .ok s := by
  cases F <;> simp [whileE, ordered_left_map_result_size.guard_L1, h]

end LSZ

/-- every `.ok` value of `leftSizeAsWritten` is what the translated kernel returns, for every fuel ≥ len(left) + len(right) -/
theorem left_size_as_written_ok (L R : List Int) (n fuel : Nat) (hf : L.length + R.length ≤ fuel)
    (h : leftSizeAsWritten L R = .ok n) : ordered_left_map_result_size.run L R fuel = .ok (n : Int) := by
  unfold ordered_left_map_result_size.run
  cases L with
  | nil =>
    simp only [leftSizeAsWritten, Except.ok.injEq] at h
    subst h
    have hg : ordered_left_map_result_size.guard_L1 ⟨[], R, 0, 0, 0, 0, 0, false, 0⟩ = false := by
      simp [ordered_left_map_result_size.guard_L1, pyLen]
    cases fuel <;> simp [whileE, hg, pyLen]
  | cons a l =>
    cases R with
    | nil =>
      simp only [leftSizeAsWritten, Except.ok.injEq] at h
      subst h
      have hg : ordered_left_map_result_size.guard_L1 ⟨a :: l, [], 0, 0, 0, 0, 0, false, 0⟩ = false := by
        simp [ordered_left_map_result_size.guard_L1, pyLen]
      cases fuel <;> simp [whileE, hg, pyLen]
    | cons b r =>
      obtain ⟨F, rfl⟩ : ∃ F, fuel = F + 1 := ⟨fuel - 1, by simp only [List.length_cons] at hf; omega⟩
      have hg : ordered_left_map_result_size.guard_L1 ⟨a :: l, b :: r, 0, 0, 0, 0, 0, false, 0⟩ = true := by
        simp [ordered_left_map_result_size.guard_L1, pyLen]
      simp only [leftSizeAsWritten] at h
      have ha : idxE (a :: l) 0 "p0[v0]" = .ok a := rfl
      have hb : idxE (b :: r) 0 "p1[v1]" = .ok b := rfl
      have hstep : ∀ s', ordered_left_map_result_size.body_L1 (F + 1) ⟨a :: l, b :: r, 0, 0, 0, 0, 0, false, 0⟩ = .ok s' →
          s'.ret = true →
          whileE ordered_left_map_result_size.guard_L1 (ordered_left_map_result_size.body_L1 (F + 1)) (F + 1)
            ⟨a :: l, b :: r, 0, 0, 0, 0, 0, false, 0⟩ = .ok s' := by
        intro s' hb' hr'
        rw [whileE, hg, if_pos rfl, hb']
        exact LSZ.while_ret F (F + 1) s' hr'
      by_cases hlt : a < b
      · simp only [hlt, if_true, Except.ok.injEq] at h
        subst h
        have hbody : ordered_left_map_result_size.body_L1 (F + 1) ⟨a :: l, b :: r, 0, 0, 0, 0, 0, false, 0⟩
            = .ok ⟨a :: l, b :: r, 1, 0, 1, 0, 0, true, 1⟩ := by
          simp [ordered_left_map_result_size.body_L1, ha, hb, hlt]
        have hw := hstep _ hbody rfl
        simp only [hw, bindE_ok]
        simp
      · simp only [hlt, if_false] at h
        by_cases hgt : a > b
        · simp only [hgt, if_true, Except.ok.injEq] at h
          subst h
          have hbody : ordered_left_map_result_size.body_L1 (F + 1) ⟨a :: l, b :: r, 0, 0, 0, 0, 0, false, 0⟩
              = .ok ⟨a :: l, b :: r, 0, 1, 0, 0, 0, true, 0⟩ := by
            simp [ordered_left_map_result_size.body_L1, ha, hb, hlt, hgt]
          have hw := hstep _ hbody rfl
          simp only [hw, bindE_ok]
          simp
        · simp only [hgt, if_false] at h
          cases hn : runCount (a :: l) (a :: l).length (a :: l).length 0 1 with
          | error e => rw [hn] at h; simp at h
          | ok cn =>
            cases hm : runCount (b :: r) (b :: r).length (b :: r).length 0 1 with
            | error e => rw [hn, hm] at h; simp at h
            | ok cm =>
              rw [hn, hm] at h
              simp only [Except.ok.injEq] at h
              subst h
              obtain ⟨hn1, hwL⟩ := LSZ.countL (a :: l) (a :: l).length (F + 1) 0 1 cn
                ⟨a :: l, b :: r, ((0 : Nat) : Int), 0, 0, ((1 : Nat) : Int), 0, false, 0⟩ rfl rfl rfl (by omega)
                (by simp only [List.length_cons] at hf ⊢; omega) hn
              obtain ⟨hm1, hwR⟩ := LSZ.countR (b :: r) (b :: r).length (F + 1) 0 1 cm
                ⟨a :: l, b :: r, ((0 + (cn - 1) : Nat) : Int), ((0 : Nat) : Int), 0, (cn : Int), ((1 : Nat) : Int), false, 0⟩ rfl rfl rfl
                (by omega) (by simp only [List.length_cons] at hf ⊢; omega) hm
              have hbody : ordered_left_map_result_size.body_L1 (F + 1) ⟨a :: l, b :: r, 0, 0, 0, 0, 0, false, 0⟩
                  = .ok ⟨a :: l, b :: r, ((0 + (cn - 1) : Nat) : Int) + 1, ((0 + (cm - 1) : Nat) : Int) + 1, 0 + (cn : Int) * (cm : Int),
                      (cn : Int), (cm : Int), true, 0 + (cn : Int) * (cm : Int)⟩ := by
                simp only [ordered_left_map_result_size.body_L1, ha, hb, bindE_ok, hlt, hgt, decide_false, Bool.false_eq_true,
                  if_false]
                simp only [Int.natCast_zero, Int.natCast_one] at hwL hwR
                rw [hwL]
                simp only [bindE_ok]
                rw [hwR]
                rfl
              have hw := hstep _ hbody rfl
              simp only [hw, bindE_ok]
              simp

/-- `leftSizeAsWritten` is total: the run counts stay inside their arrays -/
theorem leftSizeAsWritten_total (L R : List Int) : ∃ n, leftSizeAsWritten L R = .ok n := by
  cases L with
  | nil => exact ⟨0, rfl⟩
  | cons a l =>
    cases R with
    | nil => exact ⟨l.length + 1, rfl⟩
    | cons b r =>
      simp only [leftSizeAsWritten]
      by_cases hlt : a < b
      · exact ⟨1, by simp [hlt]⟩
      · by_cases hgt : a > b
        · exact ⟨0, by simp [hlt, hgt]⟩
        · obtain ⟨e1, h1, _⟩ := runCount_spec (a :: l) (a :: l).length (Nat.le_refl _) (a :: l).length 0 1 (by simp) (by omega)
          obtain ⟨e2, h2, _⟩ := runCount_spec (b :: r) (b :: r).length (Nat.le_refl _) (b :: r).length 0 1 (by simp) (by omega)
          exact ⟨(1 + e1) * (1 + e2), by simp only [hlt, hgt, if_false, h1, h2]⟩

/-- on EVERY pair of arrays the translated kernel returns normally, with the value `leftSizeAsWritten` -/
theorem left_size_as_written_eq (L R : List Int) (fuel : Nat) (hf : L.length + R.length ≤ fuel) :
    ∃ n : Nat, leftSizeAsWritten L R = .ok n ∧ ordered_left_map_result_size.run L R fuel = .ok (n : Int) := by
  obtain ⟨n, hn⟩ := leftSizeAsWritten_total L R
  exact ⟨n, hn, left_size_as_written_ok L R n fuel hf hn⟩

-- the left join of [1, 2] with [1] has 2 rows, of [1, 1, 3] with [1, 1, 2] has 5; the function returns after the first iteration
example : ordered_left_map_result_size.run [1, 2] [1] 3 = .ok 1 := rfl
example : ordered_left_map_result_size.run [1, 1, 3] [1, 1, 2] 6 = .ok 4 := rfl
example : leftSizeAsWritten [1, 1, 3] [1, 1, 2] = .ok 4 := rfl

end Exetera.GenK
