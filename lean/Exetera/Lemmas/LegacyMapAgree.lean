import Exetera.Lemmas.LegacyMapFix
import Exetera.Lemmas.C19MapStreamDriver
/-! C12 / NC12a: in the regime of C19's theorem (in-range map with non-decreasing valid entries, marker outside the source's
    row numbers) the test added by the repair never fires, so the repaired legacy mapper is the as-found one and returns
    `Spec.mapSpec`. -/
namespace Exetera.JoinOld.Term
open Exetera Exetera.Spec Exetera.MapValid

/-- the fields of the next state the progress argument looks at -/
theorem mapOldBody_fields {α} {data : List α} {map_ : List Int} {inv : Int} {cs : Nat} {zero : α} {s s' : MO α}
    {buf : List α} {dd : Int} (hp : partialOldMap s.dlo s.dfc s.mfc inv zero cs = .ok (buf, dd))
    (h : mapOldBody data map_ inv cs zero s = .ok s') :
    s'.m = s.m + buf.length ∧
      ((decide (dd ≥ (s.dhi : Int)) && decide (dd < (data.length : Int))) = false → s'.dhi = s.dhi) := by
  simp only [mapOldBody, hp] at h
  split at h
  · rename_i a b _ hd
    simp only [Except.ok.injEq] at h
    subst h
    refine ⟨rfl, ?_⟩
    intro hf
    simp only [hf, Bool.false_eq_true, if_false, Except.ok.injEq] at hd
    subst hd
    rfl
  · cases h
  · cases h

theorem mapOldBodyR_eq_of_inv {α} {data : List α} {map_ : List Int} {inv : Int} {cs : Nat} {zero : α} {s : MO α}
    (hcs : 1 ≤ cs) (hr : InRange data.length map_ inv) (hmono : ValidMonotone map_ inv)
    (hinv : inv < 0 ∨ (data.length : Int) ≤ inv) (hS : MInv data map_ inv cs zero s)
    (hg : decide (s.m < map_.length) = true) :
    mapOldBodyR data map_ inv cs zero s = mapOldBody data map_ inv cs zero s := by
  obtain ⟨s', hb, _, hlt⟩ := mapOldBody_step hcs hr hmono hinv hS hg
  unfold mapOldBodyR
  cases hp : partialOldMap s.dlo s.dfc s.mfc inv zero cs with
  | error e => simp only [mapOldBody, hp]
  | ok r =>
    obtain ⟨buf, dd⟩ := r
    simp only []
    split
    · rename_i hno
      exfalso
      simp only [Bool.and_eq_true, beq_iff_eq, Bool.not_eq_true'] at hno
      obtain ⟨h0, hnf⟩ := hno
      obtain ⟨hm, hd⟩ := mapOldBody_fields hp hb
      have hd' := hd hnf
      simp only [mmu, hm, hd', h0] at hlt
      omega
    · rfl

/-- **in C19's regime the repaired legacy mapper is the as-found one** and returns the specified column -/
theorem mapValidStreamOldR_eq {α} (data : List α) (map_ : List Int) (inv : Int) {cs : Nat} (zero : α) (hcs : 1 ≤ cs)
    (hr : InRange data.length map_ inv) (hmono : ValidMonotone map_ inv)
    (hinv : inv < 0 ∨ (data.length : Int) ≤ inv) :
    mapValidStreamOldR data map_ inv cs zero = mapValidStreamOld data map_ inv cs zero ∧
      ∃ out, mapValidStreamOldR data map_ inv cs zero = .ok out ∧ mapSpec data inv zero map_ = some out := by
  have hfirst : ∀ n : Nat, (nextRange 0 n cs).getD (0, 0) = (0, min n cs) := by
    intro n
    by_cases h : 0 < n
    · simp [nextRange, h]
    · have : n = 0 := by omega
      subst this
      simp [nextRange]
  have h0 : MInv data map_ inv cs zero
      { dcur := min data.length cs, dlo := 0, dhi := min data.length cs, mcur := min map_.length cs,
        mhi := min map_.length cs, dfc := slice data 0 (min data.length cs), mfc := slice map_ 0 (min map_.length cs) } :=
    ⟨Nat.zero_le _, by simp only []; omega, rfl, rfl, by simp only []; omega, by simp only []; omega,
     Nat.zero_le _, by simp only []; omega, rfl, rfl, by simp [mapSpec],
     fun p k _ hk hki => by simpa using (hr p k hk hki).1⟩
  have hloop := whileE_congr_inv (fun s : MO α => decide (s.m < map_.length)) (mapOldBody data map_ inv cs zero)
    (mapOldBodyR data map_ inv cs zero) (MInv data map_ inv cs zero)
    (fun s hS hg => mapOldBodyR_eq_of_inv hcs hr hmono hinv hS hg)
    (fun s s' hS hg hb => by
      obtain ⟨s'', hb', hS', _⟩ := mapOldBody_step hcs hr hmono hinv hS hg
      rw [hb] at hb'; cases hb'; exact hS')
    (map_.length + data.length + 1) _ h0
  have heq : mapValidStreamOldR data map_ inv cs zero = mapValidStreamOld data map_ inv cs zero := by
    simp only [mapValidStreamOldR, mapValidStreamOld, hfirst, hloop]
    rfl
  refine ⟨heq, ?_⟩
  rw [heq]
  exact mapValidStreamOld_eq data map_ inv zero hcs hr hmono hinv

end Exetera.JoinOld.Term
