import Exetera.Lemmas.DatesDays
import Exetera.Lemmas.DatesPeriods
import Exetera.Lemmas.DatesMap
import Exetera.Lemmas.DatesPipeline
/-!
# C20 — date helpers bucket timestamps into the day and the period that contain them

All theorems are about `Exetera.Dates.*` (lean/Exetera/Model/Dates.lean), the model the correspondence driver executes
(`Driver/C20.lean`), over exact integer seconds, for all inputs (no size bounds). The vocabulary (`IsDayOf`, `IsOrigin`,
`inRangeFlag`, `boundaries`, `InPeriod`) is in lean/Exetera/Spec/Dates.lean. An `.ok` result means: no numpy/datetime error
point of the code is reached (no IndexError, ValueError, OverflowError) and the stepping loop terminated.
-/
namespace Exetera.Props.C20
open Exetera Exetera.Dates Exetera.Spec.Dates

/-! ## get_days -/

/-- `get_days_floor` + `origin_is_min_unfiltered`: whatever `get_days` returns, there is an origin `o` — the explicit
    `start_date`, else the least timestamp among the rows passing the filter — such that every row's day number `d` satisfies
    `o + 86400·d ≤ t < o + 86400·(d+1)`. -/
theorem get_days_floor {ts : List Int} {filt : Option (List Int)} {start end_ : Option Int} {out : DaysOut}
    (h : getDays ts filt start end_ = .ok out) :
    ∃ o, IsOrigin ts filt start o ∧ out.days.length = ts.length ∧
      ∀ (i : Nat) (t : Int), ts[i]? = some t → ∃ d, out.days[i]? = some d ∧ IsDayOf o t d := by
  obtain ⟨o, ho, hd, _, _⟩ := getDays_spec h
  refine ⟨o, ho, by simp [hd], ?_⟩
  intro i t ht
  exact ⟨floorDays o t, by simp [hd, ht], floorDays_isDayOf o t⟩

example : getDays [172805, 5, 518405] (some [0, 0, 2]) none none = .ok ⟨[-4, -6, 0], some [false, false, true]⟩ := by rfl

/-- `origin_is_min_unfiltered`, spelled out: without a `start_date` the origin is a timestamp of a row that passes the filter,
    no row passing the filter is earlier, and the day numbers are `⌊(t − o)/86400⌋`. -/
theorem origin_is_min_unfiltered {ts : List Int} {filt : Option (List Int)} {end_ : Option Int} {out : DaysOut}
    (h : getDays ts filt none end_ = .ok out) :
    ∃ o, (∃ i : Nat, ts[i]? = some o ∧ passes filt i = true) ∧
      (∀ (i : Nat) (t : Int), ts[i]? = some t → passes filt i = true → o ≤ t) ∧
      out.days = ts.map (fun t => (t - o) / 86400) := by
  obtain ⟨o, ho, hd, _, _⟩ := getDays_spec h
  exact ⟨o, ho.1, ho.2, by rw [hd]; rfl⟩

example : getDays [172805, 5, 518405] (some [1, 0, 1]) none (some 200000) = .ok ⟨[0, -2, 4], some [true, false, false]⟩ := by
  rfl

/-- the day number is unique: `IsDayOf o t` determines `d`. -/
theorem day_unique {o t d d' : Int} (h : IsDayOf o t d) (h' : IsDayOf o t d') : d = d' := isDayOf_unique h h'

example : IsDayOf 5 172805 2 := by unfold IsDayOf; omega

/-- `in_range_iff`: the flag of a row is true iff the row passes the filter (`bool`, or `int8` non-zero) and its timestamp lies
    in `[start, end)` (each bound only if given); no flags are returned exactly when neither filter nor bounds were given. -/
theorem in_range_iff {ts : List Int} {filt : Option (List Int)} {start end_ : Option Int} {out : DaysOut}
    (h : getDays ts filt start end_ = .ok out) :
    ((filt = none ∧ start = none ∧ end_ = none) → out.inRange = none) ∧
    (¬(filt = none ∧ start = none ∧ end_ = none) → ∃ fl, out.inRange = some fl ∧ fl.length = ts.length ∧
      ∀ (i : Nat) (t : Int), ts[i]? = some t → fl[i]? = some (inRangeFlag filt start end_ i t)) := by
  obtain ⟨_, _, _, h1, h2⟩ := getDays_spec h
  exact ⟨h1, h2⟩

example : getDays [172805, 5, 518405] (some [2, 0, 1]) (some 6) (some 518405) =
    .ok ⟨[1, -1, 5], some [true, false, false]⟩ := by rfl

/-- `get_days` is total where the property is defined: if the filter (when given) has one element per row and an origin exists
    (a `start_date`, or at least one row passing the filter), the call returns. -/
theorem get_days_ok {ts : List Int} {filt : Option (List Int)} (start end_ : Option Int)
    (hlen : ∀ f, filt = some f → f.length = ts.length)
    (horg : start = none → ∃ i, i < ts.length ∧ passes filt i = true) :
    ∃ out, getDays ts filt start end_ = .ok out :=
  getDays_ok_of_origin start end_ hlen horg

example : ∃ i, i < [172805, 5, 518405].length ∧ passes (some [0, 0, 2]) i = true := ⟨2, by decide, by decide⟩

/-- … and the origin hypothesis is exactly what is needed: without a `start_date` and without a passing row the call raises
    numpy's `ValueError` (empty minimum). -/
theorem get_days_no_origin {ts : List Int} {filt : Option (List Int)} (end_ : Option Int)
    (hlen : ∀ f, filt = some f → f.length = ts.length)
    (hno : ¬ ∃ i, i < ts.length ∧ passes filt i = true) :
    ∃ msg, getDays ts filt none end_ = .error (.valueError msg) :=
  ⟨_, getDays_error_of_no_origin end_ hlen hno⟩

example : ¬ ∃ i, i < [5, 7].length ∧ passes (some [0, 0]) i = true := by decide

/-- an `.ok` result implies the filter had one element per row (a mismatch is an error, never a silent truncation). -/
theorem get_days_ok_lengths {ts : List Int} {filt : Option (List Int)} {start end_ : Option Int} {out : DaysOut}
    (h : getDays ts filt start end_ = .ok out) : ∀ f, filt = some f → f.length = ts.length :=
  getDays_ok_len h

example : getDays [5, 7, 9] (some [1, 0]) (some 0) none = .error (.valueError "operands could not be broadcast together") := by
  rfl

/-! ## get_periods

`start`, `end_` are seconds since `datetime.min`; `0 … DT_MAX` is the representable range. `u` is the unit in days (1 or 7), the
step is `delta·u·86400` seconds. A valid call: known unit, `delta ≠ 0`, `start ≤ end` for a positive and `end ≤ start` for a
negative `delta`, and a step that `timedelta` can represent (`|delta·u| ≤ 999999999` days). -/

/-- functional correctness and termination of the stepping loop: on every valid call `get_periods` returns — no
    `OverflowError` even when the range touches `datetime.min`/`datetime.max` — exactly the list
    `start, start+step, …, start+n·step` with `n = ⌊|end−start| / |step|⌋`. -/
theorem get_periods_eq {start end_ : Int} {period : String} {delta u : Int} (hu : unitDays period = some u)
    (hdelta : delta ≠ 0) (hdir : (0 < delta → start ≤ end_) ∧ (delta < 0 → end_ ≤ start))
    (htd : (delta * u).natAbs ≤ TD_MAX_DAYS)
    (hs : 0 ≤ start ∧ start ≤ DT_MAX) (he : 0 ≤ end_ ∧ end_ ≤ DT_MAX) :
    getPeriods start end_ period delta =
      .ok (boundaries start (delta * u * 86400) ((end_ - start).natAbs / (delta * u * 86400).natAbs)) :=
  getPeriods_eq hu hdelta hdir htd hs he

example : getPeriods 315535305600 315537897599 "week" 1 =
    .ok [315535305600, 315535910400, 315536515200, 315537120000, 315537724800] := by rfl
example : getPeriods 1814400 100 "weeks" (-1) = .ok [1814400, 1209600, 604800] := by rfl

/-- `periods_equally_spaced`: the result has `n+1 = ⌊|end−start|/|step|⌋+1` entries, entry `k` is `start + k·step` (so the
    first is `start` and consecutive entries differ by `step`, which has the sign of `delta`), every entry lies in the closed
    range between `start` and `end`, and the list is maximal: one more step would leave that range. -/
theorem periods_equally_spaced {start end_ : Int} {period : String} {delta u : Int} (hu : unitDays period = some u)
    (hdelta : delta ≠ 0) (hdir : (0 < delta → start ≤ end_) ∧ (delta < 0 → end_ ≤ start))
    (htd : (delta * u).natAbs ≤ TD_MAX_DAYS)
    (hs : 0 ≤ start ∧ start ≤ DT_MAX) (he : 0 ≤ end_ ∧ end_ ≤ DT_MAX) :
    ∃ ps n, getPeriods start end_ period delta = .ok ps ∧
      n = (end_ - start).natAbs / (delta * u * 86400).natAbs ∧ ps.length = n + 1 ∧
      (∀ k : Nat, k ≤ n → ps[k]? = some (start + (k : Int) * (delta * u * 86400))) ∧
      (∀ p ∈ ps, min start end_ ≤ p ∧ p ≤ max start end_) ∧
      ¬(min start end_ ≤ start + ((n + 1 : Nat) : Int) * (delta * u * 86400) ∧
        start + ((n + 1 : Nat) : Int) * (delta * u * 86400) ≤ max start end_) := by
  have hstep : delta * u * 86400 ≠ 0 ∧ (0 < delta * u * 86400 → 0 < delta) ∧ (delta * u * 86400 < 0 → delta < 0) := by
    rcases unitDays_cases hu with rfl | rfl <;> omega
  have hd := dir_of start end_ (delta * u * 86400) hstep.1
    ⟨fun h => hdir.1 (hstep.2.1 h), fun h => hdir.2 (hstep.2.2 h)⟩
  have hS : 0 < (delta * u * 86400).natAbs := by have := hstep.1; omega
  refine ⟨_, _, getPeriods_eq hu hdelta hdir htd hs he, rfl, boundaries_length _ _ _,
    fun k hk => boundaries_get _ _ _ k hk, ?_, boundary_maximal hd hS⟩
  intro p hp
  obtain ⟨k, hk, rfl⟩ := mem_boundaries hp
  exact boundary_within hd hS k hk

example : unitDays "week" = some 7 ∧ ((1 : Int) * 7).natAbs ≤ TD_MAX_DAYS ∧ (315535305600 : Int) ≤ DT_MAX := by decide

/-- the argument checks: an unknown unit, `delta = 0` or a range pointing against the sign of `delta` is a `ValueError`. -/
theorem get_periods_invalid {start end_ : Int} {period : String} {delta : Int}
    (h : unitDays period = none ∨ delta = 0 ∨ (delta < 0 ∧ start < end_) ∨ (0 < delta ∧ end_ < start)) :
    ∃ msg, getPeriods start end_ period delta = .error (.valueError msg) :=
  getPeriods_invalid h

example : unitDays "month" = none := by decide

/-! ## generate_period_offset_map -/

/-- `offset_map_halfopen`: for ascending period boundaries `ps` (any number ≥ 1, repeated boundaries allowed) the map has one
    entry per whole day between the first and the last boundary, and the entry of day `d` is the index `k` of *the* period whose
    half-open interval of day offsets `[⌊(ps[k]−ps[0])/86400⌋, ⌊(ps[k+1]−ps[0])/86400⌋)` contains `d` (it exists and is unique). -/
theorem offset_map_halfopen {ps : List Int} (hne : ps ≠ []) (hasc : Ascending ps) :
    ∃ m first last, ps.head? = some first ∧ ps.getLast? = some last ∧ offsetMap ps = .ok m ∧
      (m.length : Int) = (last - first) / 86400 ∧
      ∀ d : Nat, d < m.length → ∃ k : Nat, m[d]? = some (k : Int) ∧
        InPeriod (ps.map (fun p => (p - first) / 86400)) k d ∧
        ∀ k', InPeriod (ps.map (fun p => (p - first) / 86400)) k' d → k' = k := by
  cases ps with
  | nil => exact absurd rfl hne
  | cons p0 rest =>
    obtain ⟨m, l, hl, hm, hlen, hget⟩ := offsetMap_spec p0 rest hasc
    refine ⟨m, p0, l, rfl, hl, hm, hlen, ?_⟩
    intro d hd
    obtain ⟨k, hk, hin⟩ := hget d hd
    have hpd : periodDeltas (p0 :: rest) = (p0 :: rest).map (fun p => (p - p0) / 86400) := rfl
    rw [hpd] at hin
    refine ⟨k, hk, hin, fun k' hk' => ?_⟩
    have hasc' := periodDeltas_ascending hasc
    rw [hpd] at hasc'
    exact inPeriod_unique hasc' hk' hin

example : offsetMap [432000, 1036800, 1641600, 2246400] =
    .ok [0, 0, 0, 0, 0, 0, 0, 1, 1, 1, 1, 1, 1, 1, 2, 2, 2, 2, 2, 2, 2] := by rfl
example : Ascending [432000, 1036800, 1641600, 2246400] := by unfold Ascending; decide

/-- for ascending boundaries a value lies in at most one half-open period, so "the period containing it" is well defined
    (used for day offsets above and for timestamps below). -/
theorem period_unique {bs : List Int} (hasc : Ascending bs) {k k' : Nat} {x : Int}
    (h : InPeriod bs k x) (h' : InPeriod bs k' x) : k = k' :=
  inPeriod_unique hasc h h'

example : InPeriod [0, 7, 7, 14] 2 9 := ⟨7, 14, rfl, rfl, by decide, by decide⟩

/-! ## get_period_offsets -/

/-- `period_offsets_eq`: with an `in_range` array (`bool`, or `int8` where non-zero means in range) of the right length, if every
    in-range day lies inside the map then the call returns, and row `i` gets the map entry of its day when it is in range and
    −1 when it is not. (No condition at all is put on the out-of-range rows or on the map: it may be empty.) -/
theorem period_offsets_eq (pbd days inr : List Int) (hlen : inr.length = days.length)
    (hin : ∀ (i : Nat) (d : Int), days[i]? = some d → keeps inr[i]? = true → 0 ≤ d ∧ d < pbd.length) :
    ∃ out, getPeriodOffsets pbd days (some inr) = .ok out ∧ out.length = days.length ∧
      ∀ (i : Nat) (d : Int), days[i]? = some d →
        out[i]? = if keeps inr[i]? = true then pbd[d.toNat]? else some (-1) := by
  have hk : ∀ i : Nat, (inr.map (fun v => v != 0))[i]? = some true ↔ keeps inr[i]? = true := fun i => mask_true_iff inr i
  obtain ⟨out, ho, hl, hg⟩ := lookupMasked_spec pbd days (inr.map (fun v => v != 0)) (by simpa using hlen)
    (fun i d h1 h2 => hin i d h1 ((hk i).mp h2))
  refine ⟨out, ho, hl, ?_⟩
  intro i d hd
  rw [hg i d hd]
  by_cases h : keeps inr[i]? = true
  · rw [if_pos h, if_pos ((hk i).mpr h)]
  · rw [if_neg h, if_neg (fun h' => h ((hk i).mp h'))]

example : getPeriodOffsets [] [3, 5] (some [0, 0]) = .ok [-1, -1] := by rfl
example : getPeriodOffsets [0, 0, 0, 1, 1, 1, 2] [0, 3, 6, 7, -1] (some [1, 2, 1, 0, 0]) = .ok [0, 1, 2, -1, -1] := by rfl

/-- without `in_range`: if every day lies inside the map, row `i` gets the map entry of its day. -/
theorem period_offsets_all (pbd days : List Int)
    (hin : ∀ (i : Nat) (d : Int), days[i]? = some d → 0 ≤ d ∧ d < pbd.length) :
    ∃ out, getPeriodOffsets pbd days none = .ok out ∧ out.length = days.length ∧
      ∀ (i : Nat) (d : Int), days[i]? = some d → out[i]? = pbd[d.toNat]? :=
  lookupAll_spec pbd days hin

example : getPeriodOffsets [0, 0, 0, 1, 1, 1, 2] [3, 6, 0] none = .ok [1, 2, 0] := by rfl

/-! ## the four helpers together

`bucket ts filt ps` is the documented use: `days, in_range = get_days(ts, filter, ps[0], ps[-1])` followed by
`get_period_offsets(generate_period_offset_map(ps), days, in_range)`; `pipeline` first obtains `ps` from `get_periods`
(reversing a backwards-generated list into ascending order). Timestamps and boundaries live on one integer time axis. -/

/-- C20 end to end, for any ascending boundaries that are whole days apart: the call returns one offset per row; a row that
    passes the filter and whose timestamp lies in the half-open period `[ps[k], ps[k+1])` gets `k`; a row that is filtered out,
    or whose timestamp lies in no period, gets −1. -/
theorem bucket_correct {ts : List Int} {filt : Option (List Int)} {ps : List Int} (hne : ps ≠ [])
    (hasc : Ascending ps) (hal : DayAligned ps) (hlen : ∀ f, filt = some f → f.length = ts.length) :
    ∃ out, bucket ts filt ps = .ok out ∧ out.length = ts.length ∧
      ∀ (i : Nat) (t : Int), ts[i]? = some t →
        (∀ k : Nat, passes filt i = true → InPeriod ps k t → out[i]? = some (k : Int)) ∧
        ((passes filt i = false ∨ ∀ k, ¬ InPeriod ps k t) → out[i]? = some (-1)) :=
  bucket_spec hne hasc hal hlen

example : bucket [5, 86400, 700000, 1209599, 1209600, -1] (some [1, 1, 1, 0, 1, 1]) [0, 604800, 1209600] =
    .ok [0, 0, 1, -1, -1, -1] := by rfl
example : Ascending [0, 604800, 1209600] ∧ DayAligned [0, 604800, 1209600] := by
  refine ⟨by unfold Ascending; decide, ?_⟩
  intro first h p hp
  simp only [List.head?_cons, Option.some.injEq] at h
  subst h
  simp only [List.mem_cons, List.not_mem_nil, or_false] at hp
  rcases hp with rfl | rfl | rfl <;> decide

/-- the `DayAligned` hypothesis cannot be dropped: the map is per whole day, so with a boundary 1.5 days after the first one a
    timestamp 28 hours in (period 0) is put into period 1 — same as the real code. `get_periods` only produces aligned lists. -/
example : bucket [100800] none [0, 129600, 259200] = .ok [1] ∧ InPeriod [0, 129600, 259200] 0 100800 :=
  ⟨by rfl, 0, 129600, rfl, rfl, by decide, by decide⟩

/-- … and with the boundaries coming from `get_periods` (either sign of `delta`, days or weeks, any valid range including one
    shorter than a period or touching `datetime.min`/`datetime.max`): every step of the pipeline returns, and each row gets the
    index of the generated period that contains its timestamp, or −1. `ascBoundaries start step n` is
    `start, start+step, …, start+n·step` put into ascending order. -/
theorem pipeline_correct {ts : List Int} {filt : Option (List Int)} {start end_ : Int} {period : String} {delta u : Int}
    (hu : unitDays period = some u) (hdelta : delta ≠ 0)
    (hdir : (0 < delta → start ≤ end_) ∧ (delta < 0 → end_ ≤ start))
    (htd : (delta * u).natAbs ≤ TD_MAX_DAYS)
    (hs : 0 ≤ start ∧ start ≤ DT_MAX) (he : 0 ≤ end_ ∧ end_ ≤ DT_MAX)
    (hlen : ∀ f, filt = some f → f.length = ts.length) :
    ∃ out, pipeline ts filt start end_ period delta = .ok out ∧ out.length = ts.length ∧
      ∀ (i : Nat) (t : Int), ts[i]? = some t →
        (∀ k : Nat, passes filt i = true →
          InPeriod (ascBoundaries start (delta * u * 86400) ((end_ - start).natAbs / (delta * u * 86400).natAbs)) k t →
          out[i]? = some (k : Int)) ∧
        ((passes filt i = false ∨ ∀ k,
          ¬ InPeriod (ascBoundaries start (delta * u * 86400) ((end_ - start).natAbs / (delta * u * 86400).natAbs)) k t) →
          out[i]? = some (-1)) :=
  pipeline_spec hu hdelta hdir htd hs he hlen

example : pipeline [5, 86400, 700000, 1209599, 1209600, -1] none 1209600 0 "week" (-1) = .ok [0, 0, 1, 1, -1, -1] := by rfl
example : ascBoundaries 1209600 (-1 * 7 * 86400) ((0 - 1209600 : Int).natAbs / (-1 * 7 * 86400 : Int).natAbs) =
    [0, 604800, 1209600] := by rfl
example : pipeline [7, 8] none 1000 1000 "day" 1 = .ok [-1, -1] := by rfl

end Exetera.Props.C20
