import Exetera.Lemmas.CsvCellFull
/-! The last cell of a record, including the line break (C05). -/
namespace Exetera.Csv
open Exetera Spec

/-- a cell that is followed by the line break of its record -/
theorem cell_nl {src : Bytes} {offs : List Nat} {maxrow ncols : Nat} (c : Cell) (hwf : c.WF) (A B : Bytes) (s : KS)
    (j : Nat) (hdr : Bool) (k np : Nat) (E : Nat → List Bytes)
    (hcs : CellStart src offs maxrow ncols s A j hdr k np E)
    (hsrc : src = A ++ (body c ++ NL :: B)) (hj : j + 1 = ncols)
    (hcap : hdr = false → offAt offs j + (E j).flatten.length + c.value.length < offAt offs (j + 1))
    (hrows : hdr = false → k + 1 < maxrow) :
    ∃ n s', KSteps src offs maxrow n s s' ∧
      CellStart src offs maxrow ncols s' (A ++ (body c ++ NL :: B.takeWhile (fun b => b == WS))) 0 false
        (if hdr then 0 else k + 1) (A.length + (body c).length + 1) (stage hdr E j c.value) := by
  have hd0 : s.done = false := by
    rw [hcs.done, hcs.index, hsrc]; simp
  obtain ⟨n, s1, hsteps, hi1, he1, hc1, hctx1, hd1, heff⟩ :=
    cell_content (offs := offs) (maxrow := maxrow) c hwf A B NL s hsrc (Or.inr rfl) hcs.index hcs.ics hd0
      hcs.indsFull hcs.valsFull hcs.esc hcs.cand (cell_room hcs _ hcap)
  obtain ⟨hnp1, hcol1, hh1, hrow1, hvfc1, hcst1, hics1, hif1, hvf1, hco1, hcc1, hinds1⟩ := ctx_eq hctx1
  have hsh := hcs.shape
  have hsrc' : src = (A ++ body c) ++ (NL :: B) := by simp [hsrc]
  have hi1' : s1.index = (A ++ body c).length := by simp [hi1]
  have hcb : src[s1.index]? = some NL := by rw [hsrc', hi1', getElem?_append_len0]; simp
  have hskip : skipAfter src s1.index = A.length + (body c).length + leadWs B := by
    rw [hi1, hsrc]; exact skipAfter_at A (body c) NL B
  have hnc : 0 < ncols := by have := hcs.jlt; omega
  have ho := offs_get hsh.offsLen (c := 0) (by omega)
  have ho1 := offs_get hsh.offsLen (c := 1) (by omega)
  obtain ⟨⟨rj, hrj, _⟩, _⟩ := hcs.cols j hcs.jlt
  obtain ⟨⟨r0, hr0, hr0k⟩, _⟩ := hcs.cols 0 hnc
  have hr0len := hsh.rowLen _ _ hr0
  have hrjlen := hsh.rowLen _ _ hrj
  have hidx : (A ++ (body c ++ NL :: B.takeWhile (fun b => b == WS))).length = skipAfter src s1.index + 1 := by
    rw [hskip]; simp [leadWs]; omega
  have hmp := hcs.maxrow_pos
  cases hdr with
  | true =>
    have hh1' : s1.hdr = true := by rw [hh1, hcs.hdr_]
    rw [hcs.hdr_] at heff
    simp only [if_true] at heff
    obtain ⟨hEnil, hk0⟩ := hcs.hdrE rfl
    have hx : r0[0]? = some 0 := by
      have := hr0k 0 (by omega)
      simpa [endOf] using this
    obtain ⟨s2, hstep, hi2, hics2, he2, hc2, hd2, hnp2, hcol2, hh2, hrow2, hcst2, hcnt2, hif2, hco2, hcc2, hinds2, hctx2⟩ :=
      step_nl (offs := offs) (maxrow := maxrow) (inds' := s1.inds) (o := offAt offs 0) (o1 := offAt offs 1)
        (cs := 0) hcb (by rw [he1, hc1]; exact lex_nl _ _ _) (by rw [hif1, hcs.indsFull]) (by rw [hvf1, hcs.valsFull])
        (by simp [hh1']) ho ho1
        (by rw [hh1', hinds1]; exact get2_eq _ hr0 hx)
    have hctx2' : s2.vfc = s1.vfc ∧ s2.valsFull = s1.valsFull ∧ s2.vals = s1.vals := by
      simpa [KS.ctx2, Prod.ext_iff] using hctx2
    have hfull : ((if s1.hdr = true then 0 else s1.row + 1) == maxrow) = false := by
      rw [hh1']; simp; omega
    refine ⟨n + 1, s2, StepsN.trans hsteps (StepsN.one (g := kguard) (by simp [kguard, hd1]) hstep), ?_⟩
    have hE : stage true E j c.value = E := rfl
    rw [hE]
    exact {
      index := by rw [hi2, hidx]
      ics := by rw [hics2, hidx]
      col := hcol2
      hdr_ := hh2
      row := by rw [hrow2, hh1']; rfl
      np := by rw [hnp2, hi1]
      esc := he2
      cand := hc2
      count := hcnt2
      vfc := by rw [hctx2'.1, hvfc1, hcs.vfc]
      indsFull := by rw [hif2, hfull]
      valsFull := by rw [hctx2'.2.1, hvf1, hcs.valsFull]
      done := by rw [hd2, hfull, hi2]; simp
      colOff := hco2
      colCnt := hcc2
      cstart := by intro _; rw [hcst2, hEnil 0]; rfl
      shape := by rw [hinds2, hctx2'.2.2, heff.2, hinds1]; exact hsh
      cols := by rw [hinds2, hctx2'.2.2, heff.2, hinds1]; exact hcs.cols
      caps := hcs.caps
      jlt := hnc
      lens := by
        intro _
        refine ⟨fun c' h => by omega, fun c' _ _ => by rw [hEnil c']; rfl⟩
      hdrE := by intro h; cases h
      krow := fun _ => by simpa using hmp
      maxrow_pos := hmp }
  | false =>
    have hh1' : s1.hdr = false := by rw [hh1, hcs.hdr_]
    rw [hcs.hdr_] at heff
    simp only [Bool.false_eq_true, if_false] at heff
    obtain ⟨hcnt1, hw⟩ := heff
    have hkrow := hcs.krow rfl
    have hrows' := hrows rfl
    obtain ⟨hlens1, hlens2⟩ := hcs.lens rfl
    have hEj : (E j).length = k := hlens2 j (Nat.le_refl _) hcs.jlt
    have hp : s.colOff + s.cstart + s.count = offAt offs j + (E j).flatten.length := by
      rw [hcs.colOff, hcs.cstart rfl, hcs.count]; omega
    rw [hp] at hw
    have hval : s1.cstart + s1.count = (E j).flatten.length + c.value.length := by
      rw [hcst1, hcs.cstart rfl, hcnt1, hcs.count]; omega
    have hx : (s.inds.set j (rj.set (k + 1) ((E j).flatten.length + c.value.length)))[0]? = some
        (if j = 0 then rj.set (k + 1) ((E j).flatten.length + c.value.length) else r0) := by
      by_cases hj0 : j = 0
      · subst hj0
        rw [List.getElem?_set_self (lt_len_of_get hrj)]; simp
      · rw [List.getElem?_set_ne hj0, hr0]; simp [hj0]
    have hcsv : (if j = 0 then rj.set (k + 1) ((E j).flatten.length + c.value.length) else r0)[k + 1]? =
        some (upd E j c.value 0).flatten.length := by
      by_cases hj0 : j = 0
      · subst hj0
        simp only [if_true]
        rw [List.getElem?_set_self (by omega), upd_flat_self]
      · simp only [hj0, if_false]
        have h0 : (E 0).length = k + 1 := hlens1 0 (by omega)
        have := hr0k (k + 1) (by omega)
        rw [this, ← h0, endOf_all, upd_ne _ _ (Ne.symm hj0)]
    obtain ⟨s2, hstep, hi2, hics2, he2, hc2, hd2, hnp2, hcol2, hh2, hrow2, hcst2, hcnt2, hif2, hco2, hcc2, hinds2, hctx2⟩ :=
      step_nl (offs := offs) (maxrow := maxrow)
        (inds' := s.inds.set j (rj.set (k + 1) ((E j).flatten.length + c.value.length)))
        (o := offAt offs 0) (o1 := offAt offs 1) (cs := (upd E j c.value 0).flatten.length)
        hcb (by rw [he1, hc1]; exact lex_nl _ _ _) (by rw [hif1, hcs.indsFull]) (by rw [hvf1, hcs.valsFull])
        (by
          rw [hh1', hinds1, hcol1, hcs.col, hrow1, hcs.row, hval]
          simp only [Bool.false_eq_true, if_false]
          exact set2_eq _ _ hrj (by omega))
        ho ho1
        (by
          rw [hh1', hrow1, hcs.row]
          simp only [Bool.false_eq_true, if_false]
          exact get2_eq _ hx hcsv)
    have hctx2' : s2.vfc = s1.vfc ∧ s2.valsFull = s1.valsFull ∧ s2.vals = s1.vals := by
      simpa [KS.ctx2, Prod.ext_iff] using hctx2
    have hfull : ((if s1.hdr = true then 0 else s1.row + 1) == maxrow) = false := by
      rw [hh1', hrow1, hcs.row]; simp; omega
    refine ⟨n + 1, s2, StepsN.trans hsteps (StepsN.one (g := kguard) (by simp [kguard, hd1]) hstep), ?_⟩
    have hE : stage false E j c.value = upd E j c.value := rfl
    rw [hE]
    have hcapj := hcap rfl
    exact {
      index := by rw [hi2, hidx]
      ics := by rw [hics2, hidx]
      col := hcol2
      hdr_ := hh2
      row := by rw [hrow2, hh1', hrow1, hcs.row]
      np := by rw [hnp2, hi1]
      esc := he2
      cand := hc2
      count := hcnt2
      vfc := by rw [hctx2'.1, hvfc1, hcs.vfc]
      indsFull := by rw [hif2, hfull]
      valsFull := by rw [hctx2'.2.1, hvf1, hcs.valsFull]
      done := by rw [hd2, hfull, hi2]; simp
      colOff := hco2
      colCnt := hcc2
      cstart := fun _ => hcst2
      shape := by rw [hinds2, hctx2'.2.2]; exact shape_set hsh hrj hw.len
      cols := by
        intro c' hc'
        rw [hinds2, hctx2'.2.2]
        by_cases hcj : c' = j
        · subst hcj
          have := (hcs.cols c' hc').snoc hrj (by rw [hEj]; omega) hw
          rw [hEj] at this
          simpa [upd] using this
        · have h0 := hcs.cols c' hc'
          have hdis : offAt offs c' + (E c').flatten.length ≤ offAt offs j + (E j).flatten.length ∨
              offAt offs j + (E j).flatten.length + c.value.length ≤ offAt offs c' := by
            left
            have := hcs.caps c' hc'
            have := hsh.mono_le j (c' + 1) (by omega) (by omega)
            omega
          have := (h0.of_wrote hw hdis).of_set_other (rj.set (k + 1) ((E j).flatten.length + c.value.length))
            (Ne.symm hcj)
          simpa [upd, hcj] using this
      caps := by
        intro c' hc'
        by_cases hcj : c' = j
        · rw [hcj, upd_flat_self]; omega
        · rw [upd_ne _ _ hcj]; exact hcs.caps c' hc'
      jlt := hnc
      lens := by
        intro _
        refine ⟨fun c' h => by omega, ?_⟩
        intro c' _ h2
        by_cases hcj : c' = j
        · rw [hcj, upd_self]; simp [hEj]
        · rw [upd_ne _ _ hcj]; simpa using hlens1 c' (by omega)
      hdrE := by intro h; cases h
      krow := fun _ => by simpa using hrows'
      maxrow_pos := hmp }

end Exetera.Csv
