/-!
  C10 — path conditions of the array subscripts of the `isin` / `unique` kernels of indexed strings that `Model/Unique.lean` models (owning property C14), frozen from the source the model
  was written against. `Props/C10/Unique.lean` (`access_paths_covered_unique`) proves that the table regenerated from the CURRENT
  source (`Gen/KernelPaths.lean`) is this one: a test that dominates a subscript cannot be dropped, weakened or moved in the
  source without breaking the build.

  Each entry is (site, path condition): the tests passed on the way to that occurrence of the subscript, outermost first —
  `for …` / `while …` = an enclosing loop guard (the same strings as in `KernelSitesUnique`), a bare test = the `if` / `elif`
  branch taken or an `and` operand to the left of the subscript, `not (…)` = an `else` branch, the code after an early exit
  `if …: break | continue | return | raise`, or an `or` operand to the left. A condition is the text of a test that held
  when it was passed (a syntactic path, not an invariant). A site reached on several paths has one entry per path.
  Regenerate with `python3 tools/translate_kernels.py --paths /repo <kernel> …`.

  Which conjunct of the path condition the model's checked accessor relies on (accessor names as in `KernelSitesUnique`):
  * `compare_arrays`: `a[i]`, `b[i]` = the two `getE` of `compareLoop`: rely on `for i in range(min(a.size, b.size))`; the
    second pair of reads (`elif a[i] > b[i]`) is on the path `not (a[i] < b[i])`.
  * `isin_indexed_string_speedup`: `indices[i]`, `indices[i + 1]`, `result[i]` rely on `for i in range(len(indices) - 1)`;
    `test_elements[mid]` = `bsBody` relies on `while start <= end` (with `start ≥ 0`, `end < len(test_elements)` kept by the
    bisection: `no_oob_isin_row`).
  * `get_indexed_string_unique`: `unique_counts[j]` is reached only on `unique_counts is not None` inside
    `for (j, unique_v) in enumerate(unique_result)` after `np.array_equal(v, unique_v)`: `j` indexes `unique_result`, and
    `unique_counts` has one entry per unique value (`uniqueStep` appends to both) — the model's `getE c j`.
-/
namespace Exetera.KernelPaths

/-- the isin / unique kernels of indexed strings (C14): path condition of every subscript occurrence -/
def uniquePaths : List (String × List (String × List String)) := [
  ("get_indexed_string_unique", [
    ("R indices[i + 1]", ["for i in range(0, len(indices) - 1)"]),
    ("R indices[i]", ["for i in range(0, len(indices) - 1)"]),
    ("R values[indices[i]:indices[i + 1]]", ["for i in range(0, len(indices) - 1)"]),
    ("W unique_counts[j]", ["for i in range(0, len(indices) - 1)", "not (length not in lengths_seen)", "for (j, unique_v) in enumerate(unique_result)", "np.array_equal(v, unique_v)", "unique_counts is not None"])]),
  ("isin_indexed_string_speedup", [
    ("R indices[i + 1]", ["for i in range(len(indices) - 1)"]),
    ("R indices[i]", ["for i in range(len(indices) - 1)"]),
    ("R test_elements[mid]", ["for i in range(len(indices) - 1)", "while start <= end"]),
    ("R values[indices[i]:indices[i + 1]]", ["for i in range(len(indices) - 1)"]),
    ("W result[i]", ["for i in range(len(indices) - 1)"])]),
  ("compare_arrays", [
    ("R a[i]", ["for i in range(min(a.size, b.size))"]),
    ("R a[i]", ["for i in range(min(a.size, b.size))", "not (a[i] < b[i])"]),
    ("R b[i]", ["for i in range(min(a.size, b.size))"]),
    ("R b[i]", ["for i in range(min(a.size, b.size))", "not (a[i] < b[i])"])])
]

end Exetera.KernelPaths
