import Exetera.Model.FilterIndex
import Exetera.Spec.SortKeys
/-! Rank encoding of a string column (`FilterIndex.rankKeys`) is an order embedding for the bytewise order. -/
namespace Exetera.FilterIndex
open Exetera Exetera.Spec

theorem bytesLt_eq_strLt : ∀ (a b : List Nat), bytesLt a b = strLt a b
  | [], [] => rfl
  | [], _ :: _ => rfl
  | _ :: _, [] => rfl
  | a :: as, b :: bs => by simp only [bytesLt, strLt, bytesLt_eq_strLt as bs]

theorem trimNul_eq_stripNul (e : List Nat) : trimNul e = stripNul e := rfl

theorem strLt_irrefl : ∀ (a : List Nat), strLt a a = false
  | [] => rfl
  | a :: as => by simp [strLt, strLt_irrefl as]

theorem strLt_trans : ∀ (a b c : List Nat), strLt a b = true → strLt b c = true → strLt a c = true
  | [], [], _, h, _ => by simp [strLt] at h
  | [], _ :: _, [], _, h => by simp [strLt] at h
  | [], _ :: _, _ :: _, _, _ => rfl
  | _ :: _, [], _, h, _ => by simp [strLt] at h
  | _ :: _, _ :: _, [], _, h => by simp [strLt] at h
  | a :: as, b :: bs, c :: cs, h1, h2 => by
    simp only [strLt, Bool.or_eq_true, decide_eq_true_eq, Bool.and_eq_true, beq_iff_eq] at h1 h2 ⊢
    rcases h1 with h1 | ⟨e1, h1⟩
    · rcases h2 with h2 | ⟨e2, _⟩
      · exact Or.inl (by omega)
      · exact Or.inl (by omega)
    · rcases h2 with h2 | ⟨e2, h2⟩
      · exact Or.inl (by omega)
      · exact Or.inr ⟨by omega, strLt_trans as bs cs h1 h2⟩

theorem strLt_tri : ∀ (a b : List Nat), strLt a b = true ∨ a = b ∨ strLt b a = true
  | [], [] => Or.inr (Or.inl rfl)
  | [], _ :: _ => Or.inl rfl
  | _ :: _, [] => Or.inr (Or.inr rfl)
  | a :: as, b :: bs => by
    simp only [strLt, Bool.or_eq_true, decide_eq_true_eq, Bool.and_eq_true, beq_iff_eq, List.cons.injEq]
    rcases Nat.lt_trichotomy a b with h | h | h
    · exact Or.inl (Or.inl h)
    · rcases strLt_tri as bs with h' | h' | h'
      · exact Or.inl (Or.inr ⟨h, h'⟩)
      · exact Or.inr (Or.inl ⟨h, h'⟩)
      · exact Or.inr (Or.inr (Or.inr ⟨h.symm, h'⟩))
    · exact Or.inr (Or.inr (Or.inl h))

theorem strLt_asymm (a b : List Nat) (h : strLt a b = true) : strLt b a = false := by
  cases h' : strLt b a with
  | false => rfl
  | true => have := strLt_trans a b a h h'; rw [strLt_irrefl] at this; cases this

/-- the number of entries strictly below `e` -/
def rankOf (es : List (List Nat)) (e : List Nat) : Nat := (es.filter (fun d => strLt d e)).length

theorem filter_length_le_of_imp {α} (p q : α → Bool) (h : ∀ x, p x = true → q x = true) (l : List α) :
    (l.filter p).length ≤ (l.filter q).length := by
  induction l with
  | nil => simp
  | cons x l ih =>
    simp only [List.filter_cons]
    cases hp : p x with
    | true => rw [h x hp]; simp; exact ih
    | false => cases hq : q x <;> simp <;> omega

theorem filter_length_lt_of_imp {α} (p q : α → Bool) (h : ∀ x, p x = true → q x = true) (l : List α)
    (x : α) (hx : x ∈ l) (hq : q x = true) (hp : p x = false) : (l.filter p).length < (l.filter q).length := by
  induction l with
  | nil => simp at hx
  | cons y l ih =>
    simp only [List.filter_cons]
    rcases List.mem_cons.mp hx with rfl | hx
    · rw [hq, hp]
      have := filter_length_le_of_imp p q h l
      simp; omega
    · have := ih hx
      cases hpy : p y with
      | true => rw [h y hpy]; simp; exact this
      | false => cases hqy : q y <;> simp <;> omega

theorem rankOf_lt (es : List (List Nat)) (e1 e2 : List Nat) (hm : e1 ∈ es) (h : strLt e1 e2 = true) :
    rankOf es e1 < rankOf es e2 :=
  filter_length_lt_of_imp _ _ (fun d hd => strLt_trans d e1 e2 hd h) es e1 hm h (strLt_irrefl e1)

/-- rank encoding is an order embedding on the entries of the column: ranks compare exactly as the strings do -/
theorem rankOf_lt_iff (es : List (List Nat)) (e1 e2 : List Nat) (h1 : e1 ∈ es) (h2 : e2 ∈ es) :
    (rankOf es e1 < rankOf es e2 ↔ strLt e1 e2 = true) ∧ (rankOf es e1 = rankOf es e2 ↔ e1 = e2) := by
  rcases strLt_tri e1 e2 with h | h | h
  · have := rankOf_lt es e1 e2 h1 h
    refine ⟨⟨fun _ => h, fun _ => this⟩, ⟨fun he => by omega, fun he => ?_⟩⟩
    subst he; rw [strLt_irrefl] at h
  · subst h
    exact ⟨⟨fun hl => by omega, fun hl => by rw [strLt_irrefl] at hl; cases hl⟩, ⟨fun _ => rfl, fun _ => rfl⟩⟩
  · have := rankOf_lt es e2 e1 h2 h
    refine ⟨⟨fun hl => by omega, fun hl => ?_⟩, ⟨fun he => by omega, fun he => ?_⟩⟩
    · rw [strLt_asymm e2 e1 h] at hl; cases hl
    · subst he; rw [strLt_irrefl] at h

theorem rankKeys_eq (es : List (List Nat)) : rankKeys es = es.map (fun e => (rankOf es e : Int)) := by
  simp only [rankKeys, rankOf, bytesLt_eq_strLt]

theorem rankKeys_length (es : List (List Nat)) : (rankKeys es).length = es.length := by simp [rankKeys]

theorem rankKeys_getElem? (es : List (List Nat)) (i : Nat) (h : i < es.length) :
    (rankKeys es)[i]? = some (rankOf es es[i] : Int) := by
  simp [rankKeys_eq, List.getElem?_eq_getElem h]

end Exetera.FilterIndex
