import Exetera.Spec.Catalogue
/-! Facts about the abstract catalogue alone (no model): what a call leaves untouched; a decidable check for `HistLinked`. -/
namespace Exetera.Catalogue

theorem Cat.col_setCol_ne (A : Cat) {d : Nat} {fn n : Name} {x : Option Content} {p : Src} (h : p ≠ ⟨d, fn, n⟩) :
    (A.setCol d fn n x).col p = A.col p := by
  obtain ⟨pd, pf, pc⟩ := p
  simp only [Cat.col, Cat.setCol]
  by_cases hk : (pd, pf) = (d, fn)
  · obtain ⟨rfl, rfl⟩ := Prod.mk.inj hk
    have hc : pc ≠ n := fun e => h (by rw [e])
    simp only [if_true]
    cases A pd pf with
    | none => rfl
    | some F => simp [hc]
  · simp only [hk, if_false]

theorem Cat.col_setFrame_ne (A : Cat) {d : Nat} {fn : Name} {F : Option Frame} {p : Src} (h : (p.d, p.frame) ≠ (d, fn)) :
    (A.setFrame d fn F).col p = A.col p := by
  simp only [Cat.col, Cat.setFrame, h, if_false]

theorem renFrame_untouched (dict : List (Name × Name)) (F : Frame) {n : Name} (h1 : n ∉ dict.map (·.1)) (h2 : n ∉ dict.map (·.2)) :
    renFrame dict F n = F n := by
  unfold renFrame
  have : dict.find? (fun p => p.2 == n) = none := by
    rw [List.find?_eq_none]
    intro p hp hpn
    exact h2 (List.mem_map.2 ⟨p, hp, by simpa using hpn⟩)
  simp only [this, h1, if_false]

theorem Cat.col_rename (A : Cat) {d : Nat} {fn : Name} (dict : List (Name × Name)) {p : Src}
    (h : ¬ (p.d = d ∧ p.frame = fn ∧ (p.col ∈ dict.map (·.1) ∨ p.col ∈ dict.map (·.2)))) :
    (A.setFrame d fn ((A d fn).map (renFrame dict))).col p = A.col p := by
  by_cases hk : (p.d, p.frame) = (d, fn)
  · obtain ⟨h1, h2⟩ := Prod.mk.inj hk
    have hc : ¬ (p.col ∈ dict.map (·.1) ∨ p.col ∈ dict.map (·.2)) := fun e => h ⟨h1, h2, e⟩
    simp only [not_or] at hc
    simp only [Cat.col, Cat.setFrame, hk, if_true, h1, h2]
    cases A d fn with
    | none => rfl
    | some F => simp only [Option.map_some, Option.bind_some, renFrame_untouched dict F hc.1 hc.2]
  · exact Cat.col_setFrame_ne A hk

/-- Untouched fields keep their data: a call changes the abstract catalogue only at the places it names. -/
theorem specStep_untouched (src : Option Src) (A : Cat) (op : Op) (p : Src) (h : ¬ op.touches src p) :
    (specStep src A op).col p = A.col p := by
  cases op with
  | create d fn n c => exact Cat.col_setCol_ne A h
  | setItem d fn n r =>
    simp only [specStep]
    cases src with
    | none => rfl
    | some q => exact Cat.col_setCol_ne A h
  | copyField r d fn n =>
    simp only [specStep]
    cases src with
    | none => rfl
    | some q => exact Cat.col_setCol_ne A h
  | add d fn r =>
    simp only [specStep]
    cases src with
    | none => rfl
    | some q => exact Cat.col_setCol_ne A (fun e => h ⟨q, rfl, e⟩)
  | delItem d fn n => exact Cat.col_setCol_ne A h
  | drop d fn n => exact Cat.col_setCol_ne A h
  | deleteField d fn r =>
    simp only [specStep]
    cases src with
    | none => rfl
    | some q => exact Cat.col_setCol_ne A (fun e => h ⟨q, rfl, e⟩)
  | rename d fn dict => exact Cat.col_rename A dict h
  | moveField r d fn n =>
    cases src with
    | none => rfl
    | some q =>
      simp only [Op.touches, not_or, Option.some.injEq] at h
      simp only [specStep]
      by_cases hk : (q.d, q.frame) = (d, fn)
      · rw [if_pos hk]
        obtain ⟨h1, h2⟩ := Prod.mk.inj hk
        apply Cat.col_rename A [(q.col, n)]
        rintro ⟨e1, e2, e3⟩
        simp only [List.map_cons, List.map_nil, List.mem_singleton] at e3
        rcases e3 with e3 | e3
        · exact h.2 (by obtain ⟨qd, qf, qc⟩ := q; obtain ⟨pd, pf, pc⟩ := p; simp only at *; subst h1 h2 e1 e2 e3; rfl)
        · exact h.1 (by obtain ⟨pd, pf, pc⟩ := p; simp only at *; subst e1 e2 e3; rfl)
      · rw [if_neg hk, Cat.col_setCol_ne _ (fun e => h.2 (by rw [e])), Cat.col_setCol_ne A h.1]
  | createFrame d fn src' =>
    cases src' with
    | none => exact Cat.col_setFrame_ne A h
    | some sr => obtain ⟨sd, sfn⟩ := sr; exact Cat.col_setFrame_ne A h
  | requireFrame d fn =>
    simp only [specStep]
    split
    · rfl
    · exact Cat.col_setFrame_ne A h
  | copyFrame sd sfn d fn => exact Cat.col_setFrame_ne A h
  | setFrame d fn sd sfn =>
    simp only [Op.touches, not_or, not_and] at h
    simp only [specStep]
    split
    · next hsd => rw [Cat.col_setFrame_ne _ h.1, Cat.col_setFrame_ne A (h.2 hsd)]
    · exact Cat.col_setFrame_ne A h.1
  | delFrame d fn => exact Cat.col_setFrame_ne A h
  | dropFrame d fn => exact Cat.col_setFrame_ne A h
  | deleteFrame d sd sfn => exact Cat.col_setFrame_ne A h
  | moveFrame sd sfn d fn =>
    simp only [Op.touches, not_or] at h
    simp only [specStep]
    rw [Cat.col_setFrame_ne _ h.2, Cat.col_setFrame_ne A h.1]
  | reopen d => rfl
  | view r => rfl

/-! ### a decidable check for `HistLinked` (used by the examples) -/

def refsLinkedB (s : State) (op : Op) : Bool :=
  match op.ref with
  | none => true
  | some r =>
    match getField s r with
    | .error _ => true
    | .ok h =>
      match ensureValid s h with
      | .error _ => true
      | .ok _ => match fieldName s h with | .ok _ => true | .error _ => false

theorem refsLinked_of_check {s : State} {op : Op} (h : refsLinkedB s op = true) : op.refsLinked s := by
  unfold refsLinkedB at h
  unfold Op.refsLinked
  split
  · next r hr =>
    rw [hr] at h
    intro hh hg hd hv
    simp only [hg, hv] at h
    split at h
    · next k hk => exact ⟨k, hk⟩
    · cases h
  · trivial

def histLinkedB (v : Variant) : State → List Op → Bool
  | _, [] => true
  | s, op :: ops => refsLinkedB s op && histLinkedB v (step v s op).state ops

theorem histLinked_of_check {v : Variant} {s : State} {ops : List Op} (h : histLinkedB v s ops = true) : HistLinked v s ops := by
  induction ops generalizing s with
  | nil => trivial
  | cons op ops ih =>
    simp only [histLinkedB, Bool.and_eq_true] at h
    exact ⟨refsLinked_of_check h.1, ih h.2⟩

end Exetera.Catalogue
