import Exetera.Lemmas.CatalogueViews
/-! All-or-nothing: under the invariant a call that raises leaves the state as it was. -/
namespace Exetera.Catalogue

theorem ErrKeeps.void {α} {s : State} {r : Res α} (h : ErrKeeps s r) : ErrKeeps s r.void := by
  intro e s' he
  cases r with
  | ok a s1 => cases he
  | err e1 s1 => simp only [Res.void, Res.err.injEq] at he; have := h e1 s1 rfl; rw [← he.2]; exact this

theorem errKeeps_err {α} (s : State) (e : Err) : ErrKeeps s (Res.err e s : Res α) := by
  intro e' s' h; cases h; rfl

theorem errKeeps_ok {α} (s : State) (a : α) (s1 : State) : ErrKeeps s (Res.ok a s1) := by
  intro e' s' h; cases h

theorem addField_errKeeps (v : Variant) (s : State) (g : Nat) (n : Name) (c : Content) : ErrKeeps s (addField v s g n c) := by
  unfold addField
  split
  · exact errKeeps_err _ _
  split
  · exact errKeeps_err _ _
  · exact errKeeps_ok _ _ _

theorem copyField_errKeeps (v : Variant) (s : State) (h g : Nat) (n : Name) : ErrKeeps s (copyField v s h g n) := by
  unfold copyField
  split
  · exact errKeeps_err _ _
  · exact addField_errKeeps _ _ _ _ _

theorem addCopy_errKeeps (v : Variant) (s : State) (g h : Nat) : ErrKeeps s (addCopy v s g h) := by
  unfold addCopy
  split
  · exact errKeeps_err _ _
  · exact copyField_errKeeps _ _ _ _ _

theorem delItem_errKeeps (s : State) (g : Nat) (n : Name) : ErrKeeps s (delItem s g n) := by
  unfold delItem
  split
  · exact errKeeps_err _ _
  split
  · exact errKeeps_err _ _
  · exact errKeeps_ok _ _ _

theorem deleteField_errKeeps (s : State) (g h : Nat) : ErrKeeps s (deleteField s g h) := by
  unfold deleteField
  split
  · exact errKeeps_err _ _
  split
  · exact errKeeps_err _ _
  split
  · exact errKeeps_err _ _
  · exact delItem_errKeeps _ _ _

theorem dropField_errKeeps {s : State} (hI : InvCore s) (g : Nat) (n : Name) : ErrKeeps s (dropField s g n) := by
  by_cases h : (g, n) ∈ keys s.cols
  · rw [dropField_ok hI h]; exact errKeeps_ok _ _ _
  · unfold dropField; simp only [h, not_false_eq_true, if_true]; exact errKeeps_err _ _

theorem renameFields_errKeeps {s : State} (hI : InvCore s) (g : Nat) (dict : List (Name × Name)) (hkn : (dict.map (·.1)).Nodup) :
    ErrKeeps s (renameFields .repaired s g dict) := by
  by_cases hok : RenameOk dict ((ownedBy s.cols g).map (·.1))
  · rw [renameFields_ok hI g dict hok]; exact errKeeps_ok _ _ _
  · obtain ⟨e, he⟩ := renameFields_fail .repaired s g dict hkn hok
    rw [he]; exact errKeeps_err _ _

theorem moveField_errKeeps {s : State} (hI : InvCore s) (h g : Nat) (n : Name) (hg : g ∈ s.file.map (·.2)) (hz : Linked s h) :
    ErrKeeps s (moveField .repaired s h g n) := by
  unfold moveField
  split
  · exact errKeeps_err _ _
  · next hd hv =>
    obtain ⟨k, hk⟩ := hz hd hv
    split
    · rw [hk]; exact renameFields_errKeeps hI g _ (by simp)
    · next hne =>
      have hck := copyField_errKeeps .repaired s h g n
      cases hc : copyField .repaired s h g n with
      | err e s1 =>
        rw [hc] at hck
        simp only [Res.andThen]
        intro e' s' he
        cases he
        exact hck e s1 rfl
      | ok a s1 =>
        -- after the copy the source is still linked under the same name, so the drop goes through
        have hI1 : InvCore s1 := by have := copyField_inv hI h g n hg; rw [hc] at this; exact this
        obtain ⟨hd0, g0, hh0, ho0, hlk0⟩ := fieldName_ok hI hk
        have hshape : (∀ e, e ∈ s.cols → e ∈ s1.cols) ∧ (∀ e, e ∈ s.links → e ∈ s1.links) ∧
            (∀ (j : Nat) (x : Handle), s.handles[j]? = some x → s1.handles[j]? = some x) := by
          unfold copyField at hc
          split at hc
          · cases hc
          · have := addField_ok_shape hc
            exact ⟨this.2.2.2.2.2.2.1, this.2.2.2.2.2.1, this.2.2.2.2.1⟩
        obtain ⟨hh, hcl, hvv⟩ := ensureValid_ok hv
        rw [hh] at hh0; cases hh0
        have hlk1 := hshape.2.1 _ hlk0
        have h11 := hshape.2.2 h hd hh
        have hfn1 : fieldName s1 h = .ok k := by
          unfold fieldName ensureValid
          simp only [h11, hcl, hvv, Bool.false_eq_true, if_false, if_true]
          rw [(nameOfVal_eq_some hI1.oidInj).2 ⟨g0, hlk1⟩]
        simp only [Res.andThen, ho0, hfn1]
        rw [dropField_ok hI1 ((hI1.sameKeys _).2 (mem_keys_of_mem hlk1))]
        exact errKeeps_ok _ _ _

theorem viewField_errKeeps (v : Variant) (s : State) (h : Nat) : ErrKeeps s (viewField v s h) := by
  unfold viewField
  split
  · exact errKeeps_err _ _
  · exact errKeeps_ok _ _ _

theorem field_ops_errKeeps {s : State} (hI : Inv s) (op : Op) (hf : op.fieldLevel = true) (hz : op.srcLinked s) :
    ErrKeeps s (step .repaired s op) := by
  cases op with
  | create d fn n c =>
    simp only [step, withFrame]; split
    · exact errKeeps_err _ _
    · exact (addField_errKeeps _ _ _ _ _).void
  | setItem d fn n r =>
    simp only [step, withField, withFrame]; split
    · exact errKeeps_err _ _
    · split
      · exact errKeeps_err _ _
      · exact (copyField_errKeeps _ _ _ _ _).void
  | add d fn r =>
    simp only [step, withField, withFrame]; split
    · exact errKeeps_err _ _
    · split
      · exact errKeeps_err _ _
      · exact (addCopy_errKeeps _ _ _ _).void
  | delItem d fn n =>
    simp only [step, withFrame]; split
    · exact errKeeps_err _ _
    · exact delItem_errKeeps _ _ _
  | drop d fn n =>
    simp only [step, withFrame]; split
    · exact errKeeps_err _ _
    · exact dropField_errKeeps hI.toInvCore _ _
  | deleteField d fn r =>
    simp only [step, withField, withFrame]; split
    · exact errKeeps_err _ _
    · split
      · exact errKeeps_err _ _
      · exact deleteField_errKeeps _ _ _
  | rename d fn dict =>
    simp only [step, withFrame]; split
    · exact errKeeps_err _ _
    · next hn =>
      split
      · exact errKeeps_err _ _
      · exact renameFields_errKeeps hI.toInvCore _ dict (Decidable.not_not.1 hn)
  | copyField r d fn n =>
    simp only [step, withField, withFrame]; split
    · exact errKeeps_err _ _
    · split
      · exact errKeeps_err _ _
      · exact (copyField_errKeeps _ _ _ _ _).void
  | moveField r d fn n =>
    simp only [step, withField, withFrame]; split
    · exact errKeeps_err _ _
    · next h hh =>
      split
      · exact errKeeps_err _ _
      · next g hg => exact moveField_errKeeps hI.toInvCore h g n (getFrame_ok hI hg).2 (hz h hh)
  | createFrame d fn src => simp [Op.fieldLevel] at hf
  | requireFrame d fn => simp [Op.fieldLevel] at hf
  | copyFrame a b c d => simp [Op.fieldLevel] at hf
  | setFrame a b c d => simp [Op.fieldLevel] at hf
  | delFrame a b => simp [Op.fieldLevel] at hf
  | dropFrame a b => simp [Op.fieldLevel] at hf
  | deleteFrame a b c => simp [Op.fieldLevel] at hf
  | moveFrame a b c d => simp [Op.fieldLevel] at hf
  | reopen a => simp [Op.fieldLevel] at hf
  | view r =>
    simp only [step, withField]; split
    · exact errKeeps_err _ _
    · exact (viewField_errKeeps _ _ _).void

/-! ### dataset-level calls -/

theorem newGroup_shape {s s1 : State} {d : Nat} {fn : Name} {g : Nat} (hn : newGroup s d fn = .ok g s1) :
    (d, fn) ∉ keys s.file ∧ g = s.fname.length ∧ s1.file = s.file ++ [((d, fn), g)] ∧ s1.dfs = s.dfs ∧ s1.cols = s.cols := by
  unfold newGroup at hn; split at hn
  · cases hn
  · next hf => simp only [Res.ok.injEq] at hn; obtain ⟨rfl, rfl⟩ := hn; exact ⟨hf, rfl, rfl, rfl, rfl⟩

theorem newGroup_errKeeps (s : State) (d : Nat) (fn : Name) : ErrKeeps s (newGroup s d fn) := by
  unfold newGroup; split
  · exact errKeeps_err _ _
  · exact errKeeps_ok _ _ _

/-- a frame id that is not yet allocated owns no column -/
theorem fresh_frame_empty {s : State} (hI : Inv s) {k : Key} {h : Nat} (hk : (k, h) ∈ s.cols) : k.1 ≠ s.fname.length := by
  intro heq
  obtain ⟨o, ho⟩ := mem_keys.1 ((hI.sameKeys k).1 (mem_keys_of_mem hk))
  have := hI.linkFrame k o ho
  simp only [List.mem_map] at this
  obtain ⟨e, he, hee⟩ := this
  have := (List.getElem?_eq_some_iff.1 (hI.frameName e.1 e.2 he)).1
  omega

/-- filling a freshly created frame cannot fail -/
theorem fillFrame_ok {s s1 : State} (hI : Inv s) {d : Nat} {fn : Name} {g : Nat} (src : Option Nat)
    (hn : newGroup s d fn = .ok g s1) : ∃ s2, fillFrame .repaired g src s1 = .ok () s2 := by
  have hng := newGroup_core hI.toInvCore d fn
  rw [hn] at hng
  simp only [Res.state] at hng
  obtain ⟨_, hgdef, hfile, _, hcols⟩ := newGroup_shape hn
  have hg1 : g ∈ s1.file.map (·.2) := by rw [hfile]; simp
  cases src with
  | none => exact ⟨s1, rfl⟩
  | some sg =>
    simp only [fillFrame]
    exact copyAll_ok g sg (ownedBy s1.cols sg) s1 hng hg1
      (by intro e he; exact mem_ownedBy.1 he) (ownedBy_keys_nodup hng.colsNodup sg)
      (by intro n _ hmem
          rw [hcols] at hmem
          obtain ⟨h, hh⟩ := mem_keys.1 hmem
          exact fresh_frame_empty hI hh (by rw [← hgdef]))

theorem createFrame_errKeeps {s : State} (hI : Inv s) (d : Nat) (fn : Name) (src : Option Nat) :
    ErrKeeps s (createFrame .repaired s d fn src) := by
  unfold createFrame
  cases hn : newGroup s d fn with
  | err e s1 =>
    have := newGroup_errKeeps s d fn e s1 hn
    subst this
    exact errKeeps_err _ _
  | ok g s1 =>
    obtain ⟨s2, hs2⟩ := fillFrame_ok hI src hn
    simp only [Res.andThen, hs2]
    exact errKeeps_ok _ _ _

/-- what a successful `create_dataframe(name)` (no source) leaves behind -/
theorem createFrame_none_shape {s s1 : State} (hI : Inv s) {d : Nat} {fn : Name} {g : Nat}
    (hc : createFrame .repaired s d fn none = .ok g s1) :
    g = s.fname.length ∧ s1.cols = s.cols ∧ s1.file = s.file ++ [((d, fn), g)] ∧ s1.dfs = s.dfs ++ [((d, fn), g)] ∧
    s1.fname = s.fname ++ [fn] := by
  unfold createFrame at hc
  cases hn : newGroup s d fn with
  | err e s' => rw [hn] at hc; cases hc
  | ok g' s' =>
    rw [hn] at hc
    simp only [Res.andThen, fillFrame, Res.ok.injEq] at hc
    obtain ⟨rfl, rfl⟩ := hc
    obtain ⟨hfresh, hg, hfile, hdfs, hcols⟩ := newGroup_shape hn
    have hk : (d, fn) ∉ keys s'.dfs := by
      rw [hdfs]; intro hm
      obtain ⟨v, hv⟩ := mem_keys.1 hm
      exact hfresh (mem_keys_of_mem ((hI.sameFrames _).1 hv))
    have hfn : s'.fname = s.fname ++ [fn] := by
      unfold newGroup at hn; split at hn
      · cases hn
      · simp only [Res.ok.injEq] at hn; obtain ⟨_, rfl⟩ := hn; rfl
    refine ⟨hg, hcols, hfile, ?_, hfn⟩
    show dictSet s'.dfs (d, fn) g' = _
    rw [dictSet_fresh _ hk, hdfs]

theorem copyFrame_errKeeps {s : State} (hI : Inv s) (sg d : Nat) (fn : Name) : ErrKeeps s (copyFrame .repaired s sg d fn) := by
  unfold copyFrame
  split
  · exact errKeeps_err _ _
  · have hck := createFrame_errKeeps hI d fn none
    cases hc : createFrame .repaired s d fn none with
    | err e s1 =>
      rw [hc] at hck
      have := hck e s1 rfl; subst this
      exact errKeeps_err _ _
    | ok g s1 =>
      have hI1 : Inv s1 := by have := createFrame_inv hI d fn none; rw [hc] at this; exact this
      obtain ⟨hg, hcols, hfile, hdfs, _⟩ := createFrame_none_shape hI hc
      have hg1 : g ∈ s1.file.map (·.2) := by rw [hfile]; simp
      obtain ⟨s2, hs2⟩ := copyAll_ok g sg (ownedBy s1.cols sg) s1 hI1.toInvCore hg1
        (by intro e he; exact mem_ownedBy.1 he) (ownedBy_keys_nodup hI1.colsNodup sg)
        (by intro n _ hmem
            rw [hcols] at hmem
            obtain ⟨h, hh⟩ := mem_keys.1 hmem
            exact fresh_frame_empty hI hh (by rw [← hg]))
      simp only [Res.andThen, hs2]
      exact errKeeps_ok _ _ _

theorem unlink_ok {s : State} (hI : Inv s) {d : Nat} {fn : Name} (hk : (d, fn) ∈ keys s.dfs) :
    ∃ s', unlinkGroup { s with dfs := erase s.dfs (d, fn) } d fn = .ok () s' := by
  obtain ⟨g, hg⟩ := mem_keys.1 hk
  have hf := (hI.sameFrames _).1 hg
  unfold unlinkGroup
  simp only [(look_eq_some hI.fileNodup).2 hf]
  exact ⟨_, rfl⟩

theorem dropFrame_errKeeps {s : State} (hI : Inv s) (d : Nat) (fn : Name) : ErrKeeps s (dropFrame s d fn) := by
  unfold dropFrame
  split
  · exact errKeeps_err _ _
  · next h =>
    obtain ⟨s', hs'⟩ := unlink_ok hI (Decidable.not_not.1 h)
    rw [hs']; exact errKeeps_ok _ _ _

theorem delFrame_errKeeps {s : State} (hI : Inv s) (d : Nat) (fn : Name) : ErrKeeps s (delFrame s d fn) := by
  unfold delFrame
  split
  · exact errKeeps_err _ _
  · next h =>
    obtain ⟨s', hs'⟩ := unlink_ok hI (Decidable.not_not.1 h)
    rw [hs']; exact errKeeps_ok _ _ _

theorem setFrame_errKeeps {s : State} (hI : Inv s) (d : Nat) (fn : Name) (sd sg : Nat) (sfn : Name)
    (hsg : ((sd, sfn), sg) ∈ s.dfs) : ErrKeeps s (setFrame .repaired s d fn sd sg) := by
  unfold setFrame
  split
  · next hsd =>
    subst hsd
    have hf := (hI.sameFrames _).1 hsg
    have hname : nameOfVal s.file sg = some sfn := (nameOfVal_eq_some hI.frameInj).2 ⟨sd, hf⟩
    simp only [moveGroup, hname]
    split
    · exact errKeeps_err _ _
    · simp only [Res.andThen, renameEntry, hI.frameName _ _ hf]
      have hk : (sd, sfn) ∈ keys s.dfs := mem_keys_of_mem hsg
      simp only [hk, not_true_eq_false, if_false]
      exact errKeeps_ok _ _ _
  · exact copyFrame_errKeeps hI sg d fn


/-- what a successful dataset-level copy leaves of the old dataset tables -/
theorem copyFrame_ok_shape {s s' : State} (hI : Inv s) {sg d : Nat} {fn : Name} (hc : copyFrame .repaired s sg d fn = .ok () s') :
    (∀ e, e ∈ s.dfs → e ∈ s'.dfs) ∧ (∃ x, s'.fname = s.fname ++ x) := by
  unfold copyFrame at hc
  split at hc
  · cases hc
  next hguard =>
    cases hcf : createFrame .repaired s d fn none with
    | err e s1 => rw [hcf] at hc; cases hc
    | ok g s1 =>
      rw [hcf] at hc
      simp only [Res.andThen] at hc
      obtain ⟨_, _, _, hdfs, hfn⟩ := createFrame_none_shape hI hcf
      have hfr := copyAll_frames .repaired g (ownedBy s1.cols sg) s1
      cases hca : copyAll .repaired g (ownedBy s1.cols sg) s1 with
      | err e s2 => rw [hca] at hc; cases hc
      | ok u s2 =>
        rw [hca] at hc hfr
        simp only [Res.ok.injEq, true_and] at hc
        subst hc
        simp only [Res.state] at hfr
        constructor
        · intro e he
          have he1 : e ∈ s2.dfs := by rw [hfr.1, hdfs]; exact List.mem_append_left _ he
          show e ∈ dictSet s2.dfs (d, fn) g
          unfold dictSet
          split
          · simp only [List.mem_map]
            by_cases hk : e.1 = (d, fn)
            · exact absurd (by rw [← hk]; exact mem_keys_of_mem he) hguard
            · exact ⟨e, he1, by simp [hk]⟩
          · exact List.mem_append_left _ he1
        · exact ⟨[fn], by show s2.fname = _; rw [hfr.2.2.1, hfn]⟩

theorem moveFrame_errKeeps {s : State} (hI : Inv s) (sd sg d : Nat) (fn sfn : Name) (hsg : ((sd, sfn), sg) ∈ s.dfs) :
    ErrKeeps s (moveFrame .repaired s sd sg d fn) := by
  unfold moveFrame
  have hck := copyFrame_errKeeps hI sg d fn
  cases hc : copyFrame .repaired s sg d fn with
  | err e s1 =>
    rw [hc] at hck
    have := hck e s1 rfl; subst this
    exact errKeeps_err _ _
  | ok u s1 =>
    have hI1 : Inv s1 := by have := copyFrame_inv hI sg d fn; rw [hc] at this; exact this
    obtain ⟨hdfs, x, hfn⟩ := copyFrame_ok_shape hI hc
    have hname : s.fname[sg]? = some sfn := hI.frameName _ _ ((hI.sameFrames _).1 hsg)
    have hname1 : s1.fname[sg]? = some sfn := by
      rw [hfn, List.getElem?_append_left (List.getElem?_eq_some_iff.1 hname).1]; exact hname
    simp only [Res.andThen, hname1]
    have hk : (sd, sfn) ∈ keys s1.dfs := mem_keys_of_mem (hdfs _ hsg)
    unfold dropFrame
    simp only [hk, not_true_eq_false, if_false]
    obtain ⟨s', hs'⟩ := unlink_ok hI1 hk
    rw [hs']; exact errKeeps_ok _ _ _

/-- every call is all-or-nothing under the invariant -/
theorem step_errKeeps {s : State} (hI : Inv s) (op : Op) (hz : op.srcLinked s) : ErrKeeps s (step .repaired s op) := by
  by_cases hf : op.fieldLevel = true
  · exact field_ops_errKeeps hI op hf hz
  · cases op with
    | create d fn n c => simp [Op.fieldLevel] at hf
    | setItem d fn n r => simp [Op.fieldLevel] at hf
    | add d fn r => simp [Op.fieldLevel] at hf
    | delItem d fn n => simp [Op.fieldLevel] at hf
    | drop d fn n => simp [Op.fieldLevel] at hf
    | deleteField d fn r => simp [Op.fieldLevel] at hf
    | rename d fn dict => simp [Op.fieldLevel] at hf
    | copyField r d fn n => simp [Op.fieldLevel] at hf
    | moveField r d fn n => simp [Op.fieldLevel] at hf
    | createFrame d fn src =>
      cases src with
      | none => simp only [step]; exact (createFrame_errKeeps hI d fn none).void
      | some sr =>
        obtain ⟨sd, sfn⟩ := sr
        simp only [step, withFrame]
        split
        · exact errKeeps_err _ _
        · exact (createFrame_errKeeps hI d fn _).void
    | requireFrame d fn =>
      simp only [step]
      split
      · exact errKeeps_ok _ _ _
      · exact (createFrame_errKeeps hI d fn none).void
    | copyFrame sd sfn d fn =>
      simp only [step, withFrame]
      split
      · exact errKeeps_err _ _
      · exact copyFrame_errKeeps hI _ d fn
    | setFrame d fn sd sfn =>
      simp only [step, withFrame]
      split
      · exact errKeeps_err _ _
      · next sg hg => exact setFrame_errKeeps hI d fn sd sg sfn (getFrame_ok hI hg).1
    | delFrame d fn => exact delFrame_errKeeps hI d fn
    | dropFrame d fn => exact dropFrame_errKeeps hI d fn
    | deleteFrame d sd sfn =>
      simp only [step, withFrame]
      split
      · exact errKeeps_err _ _
      · split
        · exact errKeeps_err _ _
        · exact delFrame_errKeeps hI d _
    | moveFrame sd sfn d fn =>
      simp only [step, withFrame]
      split
      · exact errKeeps_err _ _
      · next sg hg => exact moveFrame_errKeeps hI sd sg d fn sfn (getFrame_ok hI hg).1
    | reopen d => simp only [step]; exact errKeeps_ok _ _ _
    | view r => simp [Op.fieldLevel] at hf

end Exetera.Catalogue
