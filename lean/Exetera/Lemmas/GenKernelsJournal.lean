import Exetera.Gen.Kernels
import Exetera.Model.Journal
import Exetera.Lemmas.GenKernels
/-!
  The TRANSLATED journalling kernels (C17) against the models of `Model/Journal.lean`:

    compare_rows_for_journalling   ~  compareRows     (transfer: every `.ok` run of the model is a run of the translated kernel,
                                                       provided no map entry is below -1 — the model wraps a negative subscript
                                                       around once (`getI`), the translation makes it an error branch)
-/
namespace Exetera.GenK

open Exetera Exetera.PyRt Exetera.Journal Exetera.Gen.Kernels

/-- a translated `for i in range(n)` loop follows every successful run of the model's `forE` -/
theorem forRange_forE_ok {σ τ} (R : τ → σ → Prop) (bm : Nat → τ → Except Err τ) (bg : Int → σ → Except Err σ)
    (hstep : ∀ (i : Nat) (t t' : τ) (s : σ), R t s → bm i t = .ok t' → ∃ s', bg (i : Int) s = .ok s' ∧ R t' s') :
    ∀ (n i : Nat) (t t' : τ) (s : σ), R t s → forE bm n i t = .ok t' →
      ∃ s', forRangeAux (fun _ => false) bg n (i : Int) s = .ok s' ∧ R t' s' := by
  intro n
  induction n with
  | zero =>
    intro i t t' s hR h
    simp only [forE, Except.ok.injEq] at h
    subst h
    exact ⟨s, rfl, hR⟩
  | succ n ih =>
    intro i t t' s hR h
    simp only [forE] at h
    cases hb : bm i t with
    | error e => rw [hb] at h; simp at h
    | ok t1 =>
      rw [hb] at h
      obtain ⟨s1, hs1, hR1⟩ := hstep i t t1 s hR hb
      obtain ⟨s', hs', hR'⟩ := ih (i + 1) t1 t' s1 hR1 h
      have hcast : ((i : Int) + 1) = ((i + 1 : Nat) : Int) := by omega
      exact ⟨s', by simp only [forRangeAux, hs1, Bool.false_eq_true, if_false, hcast, hs'], hR'⟩

theorem getE_site_j {α} {xs : List α} {i : Nat} {s1 : String} {v : α} (s2 : String) (h : getE xs i s1 = .ok v) :
    getE xs i s2 = .ok v := by
  simp only [getE] at h ⊢
  cases hx : xs[i]? <;> simp_all

theorem getI_nonneg_j {α} (xs : List α) (k : Int) (site : String) (h : 0 ≤ k) : getI xs k site = getE xs k.toNat site := by
  simp [getI, h]

namespace CR

abbrev St := compare_rows_for_journalling.St

theorem step (om nm oldF newF : List Int) (hom : ∀ x ∈ om, -1 ≤ x) (hnm : ∀ x ∈ nm, -1 ≤ x)
    (i : Nat) (tk tk' : List Bool) (s : St)
    (hR : s.p0 = om ∧ s.p1 = nm ∧ s.p2 = oldF ∧ s.p3 = newF ∧ s.p4 = tk)
    (h : compareBody om nm (numDiffers oldF newF) i tk = .ok tk') :
    ∃ s', compare_rows_for_journalling.body_L1 { s with v0 := (i : Int) } = .ok s' ∧
      (s'.p0 = om ∧ s'.p1 = nm ∧ s'.p2 = oldF ∧ s'.p3 = newF ∧ s'.p4 = tk') := by
  obtain ⟨h0, h1, h2, h3, h4⟩ := hR
  simp only [compareBody, bind, Except.bind, pure, Except.pure] at h
  simp only [compare_rows_for_journalling.body_L1, h0, h1, h2, h3, h4, idxE_nat]
  cases ht : getE tk i "to_keep[i]" with
  | error e => rw [ht] at h; simp at h
  | ok t =>
    rw [ht] at h
    simp only [] at h
    rw [getE_site_j "p4[v0]" ht]
    simp only [bindE_ok]
    cases t with
    | true =>
      simp only [Bool.true_eq_false, Bool.false_eq_true, if_false, beq_iff_eq, Except.ok.injEq] at h ⊢
      subst h
      exact ⟨_, rfl, rfl, rfl, rfl, rfl, rfl⟩
    | false =>
      simp only [beq_self_eq_true, if_true] at h ⊢
      cases ho : getE om i "old_map[i]" with
      | error e => rw [ho] at h; simp at h
      | ok o =>
        rw [ho] at h
        simp only [] at h
        rw [getE_site_j "p0[v0]" ho]
        simp only [bindE_ok]
        by_cases ho1 : o = -1
        · subst ho1
          simp only [beq_self_eq_true, if_true, setTk] at h ⊢
          rw [setIdxE_nat]
          simp only [setE] at h ⊢
          split at h
          · rename_i hlt
            simp only [Except.ok.injEq] at h
            subst h
            simp only [hlt, if_true, bindE_ok]
            exact ⟨_, rfl, rfl, rfl, rfl, rfl, rfl⟩
          · simp at h
        · have ho1' : (o == -1) = false := by simp [ho1]
          simp only [ho1', Bool.false_eq_true, if_false] at h ⊢
          cases hn : getE nm i "new_map[i]" with
          | error e => rw [hn] at h; simp at h
          | ok n =>
            rw [hn] at h
            simp only [] at h
            rw [getE_site_j "p1[v0]" hn]
            simp only [bindE_ok]
            by_cases hn1 : n = -1
            · subst hn1
              simp only [beq_self_eq_true, if_true, setTk] at h ⊢
              rw [setIdxE_nat]
              simp only [setE] at h ⊢
              split at h
              · rename_i hlt
                simp only [Except.ok.injEq] at h
                subst h
                simp only [hlt, if_true, bindE_ok]
                exact ⟨_, rfl, rfl, rfl, rfl, rfl, rfl⟩
              · simp at h
            · have hn1' : (n == -1) = false := by simp [hn1]
              simp only [hn1', Bool.false_eq_true, if_false, numDiffers, bind, Except.bind, pure, Except.pure] at h ⊢
              have ho0 : 0 ≤ o := by
                have := hom o (List.mem_of_getElem? (getE_eq_ok.mp ho)); omega
              have hn0 : 0 ≤ n := by
                have := hnm n (List.mem_of_getElem? (getE_eq_ok.mp hn)); omega
              rw [getI_nonneg_j _ _ _ ho0, getI_nonneg_j _ _ _ hn0] at h
              cases ha : getE oldF o.toNat "old_field[old_map[i]]" with
              | error e => rw [ha] at h; simp at h
              | ok a =>
                rw [ha] at h
                simp only [] at h
                cases hb : getE newF n.toNat "new_field[new_map[i]]" with
                | error e => rw [hb] at h; simp at h
                | ok b =>
                  rw [hb] at h
                  simp only [setTk] at h
                  have hoe : idxE oldF o "p2[p0[v0]]" = .ok a := by
                    simp only [idxE, ho0, if_true]; exact getE_site_j _ ha
                  have hne : idxE newF n "p3[p1[v0]]" = .ok b := by
                    simp only [idxE, hn0, if_true]; exact getE_site_j _ hb
                  simp only [hoe, hne, bindE_ok]
                  have hval : (!((a == b) || ((a != a) && (b != b)))) = (a != b) := by
                    simp [bne]
                  rw [hval, setIdxE_nat]
                  simp only [setE] at h ⊢
                  split at h
                  · rename_i hlt
                    simp only [Except.ok.injEq] at h
                    subst h
                    simp only [hlt, if_true, bindE_ok]
                    exact ⟨_, rfl, rfl, rfl, rfl, rfl, rfl⟩
                  · simp at h

end CR

/-- every `.ok` run of the model's numeric compare kernel is a run of the translated kernel with the same `to_keep`, provided no map
    entry is below -1 (then no subscript is negative) -/
theorem compare_rows_ok (om nm oldF newF : List Int) (tk tk' : List Bool)
    (hom : ∀ x ∈ om, -1 ≤ x) (hnm : ∀ x ∈ nm, -1 ≤ x) (h : compareRows om nm oldF newF tk = .ok tk') :
    compare_rows_for_journalling.run om nm oldF newF tk = .ok tk' := by
  unfold compareRows at h
  obtain ⟨s', hs, _, _, _, _, h4⟩ := forRange_forE_ok
    (fun (t : List Bool) (s : CR.St) => s.p0 = om ∧ s.p1 = nm ∧ s.p2 = oldF ∧ s.p3 = newF ∧ s.p4 = t)
    (compareBody om nm (numDiffers oldF newF)) (fun k s => compare_rows_for_journalling.body_L1 { s with v0 := k })
    (fun i t t' s hR hb => CR.step om nm oldF newF hom hnm i t t' s hR hb) om.length 0 tk tk'
    { p0 := om, p1 := nm, p2 := oldF, p3 := newF, p4 := tk, v0 := 0, v1 := 0, v2 := 0 } ⟨rfl, rfl, rfl, rfl, rfl⟩ h
  unfold compare_rows_for_journalling.run forRangeE
  have hn : (pyLen om - 0).toNat = om.length := by simp [pyLen]
  simp only [hn]
  have hs' : forRangeAux (fun _ => false) (fun k s => compare_rows_for_journalling.body_L1 { s with v0 := k }) om.length 0
      { p0 := om, p1 := nm, p2 := oldF, p3 := newF, p4 := tk, v0 := 0, v1 := 0, v2 := 0 } = .ok s' := hs
  simp only [hs', bindE_ok, h4]

end Exetera.GenK
