import Driver.Util
import Exetera.Model.Spans
open Lean Exetera Exetera.Spans
namespace Driver.C08

def variantOf (j : Json) : Variant :=
  match j.getObjValAs? String "variant" with
  | .ok "asFound" => .asFound
  | _ => .repaired

def bools (bs : List Bool) : Json := Json.arr (bs.map Json.bool).toArray

def spansOut (dt : Option IdxT) (r : Except Err (List Nat)) : Json :=
  Driver.outE (fun (sp : List Nat) =>
    Json.mkObj [("spans", Driver.nats sp), ("dtype", match dt with | some d => Json.str d.name | none => Json.null)]) r

def getColumn (j : Json) : Except String Column := do
  let kind ← Driver.get? String j "kind"
  match kind with
  | "numeric" => return .numeric (← Driver.get? (List Int) j "data")
  | "fixed" => return .fixed (← Driver.get? (List (List Nat)) j "data")
  | "indexed" => return .indexed (← Driver.get? (List Nat) j "indices") (← Driver.get? (List Nat) j "values")
  | k => throw s!"bad column kind {k}"

def columnLen : Column → Nat
  | .numeric xs => xs.length
  | .fixed xs => xs.length
  | .indexed i _ => i.length - 1

def handle : Driver.Handler := fun op j =>
  match op with
  | "int64_index_length" => some (pure (Driver.okJson (toJson INT64_INDEX_LENGTH)))
  | "spans_field" => some do
    let col ← getColumn j
    let thr ← Driver.get? Nat j "thr"
    let dt := match col with
      | .indexed _ _ => none
      | c => some (spanDtypeField thr (columnLen c))
    pure (spansOut dt (columnSpans (variantOf j) col))
  | "spans_2arrays" => some do
    let a ← Driver.get? (List Int) j "a"
    let b ← Driver.get? (List Int) j "b"
    let thr ← Driver.get? Nat j "thr"
    pure (spansOut (some (spanDtype2 thr a.length b.length)) (getSpansFor2Fields (variantOf j) a b))
  | "spans_session_arrays" => some do
    let cols ← Driver.get? (List (List Int)) j "cols"
    let thr ← Driver.get? Nat j "thr"
    -- two arrays: the two-array kernel's buffer dtype; one array (repaired): `get_spans_for_field`'s; otherwise the fold
    -- returns the python list of `_get_spans_for_2_fields_by_spans` (no dtype). As found, ≥ 2 arrays took the kernel.
    let dt := match cols, variantOf j with
      | [a, b], _ => some (spanDtype2 thr a.length b.length)
      | a :: b :: _, .asFound => some (spanDtype2 thr a.length b.length)
      | [a], .repaired => some (spanDtypeField thr a.length)
      | _, _ => none
    pure (spansOut dt (sessionGetSpansArrays (variantOf j) cols))
  | "spans_session_fields" => some do
    let cj ← Driver.get? (List Json) j "cols"
    let cols ← cj.mapM getColumn
    -- a single Field (repaired): the result is that field's own `get_spans()` (an ndarray for non-indexed fields)
    let dt := match cols, variantOf j, j.getObjValAs? Nat "thr" with
      | [.indexed _ _], _, _ => none
      | [c], .repaired, .ok thr => some (spanDtypeField thr (columnLen c))
      | _, _, _ => none
    pure (spansOut dt (sessionGetSpansFields (variantOf j) cols))
  | "spans_by_spans" => some do
    let s0 ← Driver.get? (List Nat) j "span0"
    let s1 ← Driver.get? (List Nat) j "span1"
    pure (spansOut none (getSpansFor2FieldsBySpans s0 s1))
  | "spans_multi" => some do
    let cols ← Driver.get? (List (List Int)) j "cols"
    let thr ← Driver.get? Nat j "thr"
    let n := match cols with
      | f0 :: _ => f0.length
      | [] => 0
    pure (spansOut (some (spanDtypeMulti thr n)) (getSpansForMultiFields (variantOf j) cols))
  | "spans_indexed_raw" => some do
    let i ← Driver.get? (List Nat) j "indices"
    let v ← Driver.get? (List Nat) j "values"
    pure (spansOut none (getSpansForIndexStringField (variantOf j) i v))
  | "apply" => some do
    let fn ← Driver.get? String j "fn"
    let level ← Driver.get? String j "level"
    let spans ← Driver.get? (List Nat) j "spans"
    let src := (Driver.get? (List Int) j "src").toOption.getD []
    let indices := (Driver.get? (List Nat) j "indices").toOption.getD []
    let values := (Driver.get? (List Nat) j "values").toOption.getD []
    let v := variantOf j
    let withSrc (k : List Nat → List Int → Except Err (List Int)) : Except String (Except Err (List Int)) :=
      match level with
      | "ops" => pure (k spans src)
      | "session" => pure (sessionApplySpansSrc k spans src)
      | "field" => pure (fieldApplySpans k spans src)
      | l => throw s!"bad level {l}"
    let noSrc (k : List Nat → Except Err (List Int)) : Except String (Except Err (List Int)) :=
      match level with
      | "ops" | "session" => pure (k spans)
      | "field" => pure (fieldApplySpansIndexed k spans)
      | l => throw s!"bad level {l}"
    let r ← match fn with
      | "count" => noSrc applySpansCount
      | "index_of_first" => noSrc applySpansIndexOfFirst
      | "index_of_last" => noSrc applySpansIndexOfLast
      | "first" => withSrc applySpansFirst
      | "last" => withSrc applySpansLast
      | "min" => withSrc applySpansMin
      | "max" => withSrc applySpansMax
      | "index_of_min" => withSrc applySpansIndexOfMin
      | "index_of_max" => withSrc applySpansIndexOfMax
      | "index_of_min_indexed" => noSrc (fun sp => applySpansIndexOfMinIndexed v sp indices values)
      | "index_of_max_indexed" => noSrc (fun sp => applySpansIndexOfMaxIndexed sp indices values)
      | f => throw s!"bad fn {f}"
    pure (Driver.outE Driver.ints r)
  | "apply_filter" => some do
    let fn ← Driver.get? String j "fn"
    let spans ← Driver.get? (List Nat) j "spans"
    let src := (Driver.get? (List Int) j "src").toOption.getD []
    let dest ← Driver.get? (List Int) j "dest"
    let filt ← Driver.get? (List Bool) j "filt"
    let r ← match fn with
      | "index_of_min" => pure (applySpansIndexOfMinFilter spans src dest filt)
      | "index_of_max" => pure (applySpansIndexOfMaxFilter spans src dest filt)
      | "index_of_first" => pure (applySpansIndexOfFirstFilter spans dest filt)
      | "index_of_last" => pure (applySpansIndexOfLastFilter spans dest filt)
      | f => throw s!"bad fn {f}"
    pure (Driver.outE (fun (p : List Int × List Bool) => Json.mkObj [("dest", Driver.ints p.1), ("filt", bools p.2)]) r)
  | _ => none

end Driver.C08
