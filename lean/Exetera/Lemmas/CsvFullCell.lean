import Exetera.Lemmas.CsvTailRow
/-! The value buffer fills inside a cell (C05, regrowth): the kernel stops right after the byte that makes column `j` full,
    reports the complete records only and resumes at the end of the last complete record. -/
namespace Exetera.Csv
open Exetera Spec

/-- a written byte that fills the budget of the current column: the call ends with `is_column_vals_full` -/
theorem step_write_full {src : Bytes} {offs : List Nat} {maxrow : Nat} {s : KS} {c : Nat} {e' c' : Bool}
    (hc : src[s.index]? = some c)
    (hlex : lexByte src[s.index + 1]? (s.index == s.ics) s.escaped s.cand c = .ok ⟨.write, e', c'⟩)
    (hif : s.indsFull = false) (hh : s.hdr = false)
    (hb : s.colOff + s.cstart + s.count < s.vals.length) (hfull : s.colCnt ≤ s.cstart + s.count + 1) :
    ∃ s', step src offs maxrow s = .ok s' ∧ s'.done = true ∧ s'.valsFull = true ∧ s'.vfc = some s.col ∧
      s'.indsFull = false ∧ s'.nextPos = s.nextPos ∧ s'.hdr = false ∧ s'.row = s.row ∧ s'.inds = s.inds ∧
      s'.vals = s.vals.set (s.colOff + s.cstart + s.count) c := by
  have hfull' : decide (s.colCnt ≤ s.cstart + s.count + 1) = true := by simpa using hfull
  refine ⟨_, by simp only [step, getE, hc, hlex, writeChar, hh, setE, hb, if_true, hfull']; rfl, ?_⟩
  simp [hif, hh]

/-- the loop has stopped because the value budget of column `j` is used up, inside record `k`: the resume position is the
    end of the last complete record and the staging buffers still hold the complete records' entries `E` -/
structure FullEnd (offs : List Nat) (maxrow ncols : Nat) (s' : KS) (k np : Nat) (E : Nat → List Bytes) (j : Nat) :
    Prop where
  done : s'.done = true
  np : s'.nextPos = np
  hdr : s'.hdr = false
  row : s'.row = k
  indsFull : s'.indsFull = false
  valsFull : s'.valsFull = true
  vfc : s'.vfc = some j
  jlt : j < ncols
  shape : Shape ncols maxrow offs s'.inds s'.vals
  cols : ∀ c, c < ncols → ColOK offs s'.inds s'.vals c (E c)

/-- bytes written behind the entries of column `j` (within its budget) leave every complete entry intact -/
theorem cols_of_wrote {src : Bytes} {offs : List Nat} {maxrow ncols : Nat} {s : KS} {A : Bytes} {j k np : Nat}
    {E E' : Nat → List Bytes} {v' : List Nat} {w : Bytes}
    (hcs : CellStart src offs maxrow ncols s A j false k np E') (hext : Ext E E')
    (hw : Wrote s.vals v' (offAt offs j + (E' j).flatten.length) w)
    (hcap : offAt offs j + (E' j).flatten.length + w.length ≤ offAt offs (j + 1)) :
    Shape ncols maxrow offs s.inds v' ∧ ∀ c, c < ncols → ColOK offs s.inds v' c (E c) := by
  have hsh := hcs.shape
  refine ⟨⟨hsh.indsLen, hsh.rowLen, hsh.offsLen, hsh.offs0, hsh.mono, by rw [hw.len]; exact hsh.last⟩, ?_⟩
  intro c hc
  have h0 := hcs.cols c hc
  have hdis : offAt offs c + (E' c).flatten.length ≤ offAt offs j + (E' j).flatten.length ∨
      offAt offs j + (E' j).flatten.length + w.length ≤ offAt offs c := by
    rcases Nat.lt_trichotomy c j with hlt | heq | hgt
    · left
      have := hcs.caps c hc
      have := hsh.mono_le j (c + 1) (by omega) (by have := hcs.jlt; omega)
      omega
    · left; subst heq; exact Nat.le_refl _
    · right
      have := hsh.mono_le c (j + 1) (by omega) (by omega)
      omega
  have h1 := h0.of_wrote hw hdis
  obtain ⟨t, ht⟩ := hext c
  rw [ht] at h1
  exact h1.of_append

theorem escape_append (a b : Bytes) : escape (a ++ b) = escape a ++ escape b := by
  induction a with
  | nil => rfl
  | cons x xs ih =>
    by_cases hx : x = QUOTE
    · simp [escape, hx, ih]
    · simp [escape, hx, ih]

theorem split_at {α} (w : List α) (r : Nat) (h : r < w.length) : w = w.take r ++ w[r] :: w.drop (r + 1) := by
  have h1 : w.drop r = w[r] :: w.drop (r + 1) := List.drop_eq_getElem_cons h
  rw [← h1, List.take_append_drop]

/-- wrap-up: the run `w` of the current cell was written with room to spare, then the byte `b` filled the budget -/
theorem fullEnd_of_run {src : Bytes} {offs : List Nat} {maxrow ncols : Nat} {s s1 s2 : KS} {A : Bytes} {j k np : Nat}
    {E E' : Nat → List Bytes} {w : Bytes} {b : Nat}
    (hcs : CellStart src offs maxrow ncols s A j false k np E') (hext : Ext E E') (heff : RunEff s s1 w)
    (hfill : offAt offs j + (E' j).flatten.length + w.length + 1 = offAt offs (j + 1))
    (hd : s2.done = true) (hvf : s2.valsFull = true) (hvfc : s2.vfc = some s1.col) (hif : s2.indsFull = false)
    (hnp : s2.nextPos = s1.nextPos) (hh : s2.hdr = false) (hrow : s2.row = s1.row) (hinds : s2.inds = s1.inds)
    (hvals : s2.vals = s1.vals.set (s1.colOff + s1.cstart + s1.count) b) :
    FullEnd offs maxrow ncols s2 k np E j := by
  obtain ⟨hctx, hrun⟩ := heff
  obtain ⟨hnp1, hcol1, hh1, hrow1, hvfc1, hcst1, hics1, hif1, hvf1, hco1, hcc1, hinds1⟩ := ctx_eq hctx
  rw [hcs.hdr_] at hrun
  simp only [Bool.false_eq_true, if_false] at hrun
  obtain ⟨hcnt, hw⟩ := hrun
  have hp : s.colOff + s.cstart + s.count = offAt offs j + (E' j).flatten.length := by
    rw [hcs.colOff, hcs.cstart rfl, hcs.count]; omega
  rw [hp] at hw
  have hsh := hcs.shape
  have hlast : offAt offs (j + 1) ≤ s.vals.length :=
    Nat.le_trans (hsh.mono_le ncols (j + 1) (by have := hcs.jlt; omega) (Nat.le_refl _)) hsh.last
  have hp1 : s1.colOff + s1.cstart + s1.count = offAt offs j + (E' j).flatten.length + w.length := by
    rw [hco1, hcst1, hcnt, hcs.colOff, hcs.cstart rfl, hcs.count]; omega
  have hw2 : Wrote s.vals s2.vals (offAt offs j + (E' j).flatten.length) (w ++ [b]) := by
    rw [hvals, hp1]
    exact hw.snoc (by omega)
  obtain ⟨hshape, hcols⟩ := cols_of_wrote hcs hext hw2 (by simp only [List.length_append, List.length_cons, List.length_nil]; omega)
  exact {
    done := hd
    np := by rw [hnp, hnp1, hcs.np]
    hdr := hh
    row := by rw [hrow, hrow1, hcs.row]
    indsFull := hif
    valsFull := hvf
    vfc := by rw [hvfc, hcol1, hcs.col]
    jlt := hcs.jlt
    shape := by rw [hinds, hinds1]; exact hshape
    cols := by rw [hinds, hinds1]; exact hcols }

/-- the value budget of column `j` is used up inside a bare cell (or inside what the window holds of it) -/
theorem cell_full_bare {src : Bytes} {offs : List Nat} {maxrow ncols : Nat} {s : KS} {A w R : Bytes} {j k np : Nat}
    {E E' : Nat → List Bytes} (hcs : CellStart src offs maxrow ncols s A j false k np E') (hext : Ext E E')
    (hsrc : src = A ++ (w ++ R)) (hplain : ∀ b ∈ w, b ≠ QUOTE ∧ b ≠ SEP ∧ b ≠ NL)
    (hstrict : offAt offs j + (E' j).flatten.length < offAt offs (j + 1))
    (hover : offAt offs (j + 1) ≤ offAt offs j + (E' j).flatten.length + w.length) :
    ∃ n s', KSteps src offs maxrow n s s' ∧ FullEnd offs maxrow ncols s' k np E j := by
  obtain ⟨r, hr⟩ : ∃ r, offAt offs j + (E' j).flatten.length + r + 1 = offAt offs (j + 1) :=
    ⟨offAt offs (j + 1) - offAt offs j - (E' j).flatten.length - 1, by omega⟩
  have hrw : r < w.length := by omega
  have hsplit := split_at w r hrw
  have hlen1 : (w.take r).length = r := by simp; omega
  have hsrc1 : src = A ++ (w.take r ++ (w[r] :: w.drop (r + 1) ++ R)) := by
    rw [hsrc]; congr 1; rw [← List.append_assoc, ← hsplit]
  obtain ⟨n, s1, hsteps, hi1, he1, hc1, hd1, heff⟩ :=
    run_plain_g (offs := offs) (maxrow := maxrow) (w.take r) A (w[r] :: w.drop (r + 1) ++ R) s hsrc1 hcs.index hcs.done
      hcs.indsFull hcs.valsFull (fun b hb => hplain b (List.mem_of_mem_take hb))
      (cell_room hcs _ (fun _ => by rw [hlen1]; omega))
  have hctx := heff.1
  obtain ⟨hnp1, hcol1, hh1, hrow1, hvfc1, hcst1, hics1, hif1, hvf1, hco1, hcc1, hinds1⟩ := ctx_eq hctx
  have hrun := heff.2
  rw [hcs.hdr_] at hrun
  simp only [Bool.false_eq_true, if_false] at hrun
  obtain ⟨hcnt, hw⟩ := hrun
  have hb := hplain w[r] (List.getElem_mem hrw)
  have hsrc2 : src = (A ++ w.take r) ++ (w[r] :: (w.drop (r + 1) ++ R)) := by
    rw [hsrc1]; simp only [List.append_assoc, List.cons_append]
  have hi1' : s1.index = (A ++ w.take r).length := by rw [hi1]; simp
  have hcb : src[s1.index]? = some w[r] := by rw [hsrc2, hi1', getElem?_append_len0]; simp
  have hd10 : s1.done = false := by rw [hd1, hi1', hsrc2]; simp
  have hsh := hcs.shape
  have hlast : offAt offs (j + 1) ≤ s.vals.length :=
    Nat.le_trans (hsh.mono_le ncols (j + 1) (by have := hcs.jlt; omega) (Nat.le_refl _)) hsh.last
  obtain ⟨s2, hstep, hd2, hvf2, hvfc2, hif2, hnp2, hh2, hrow2, hinds2, hvals2⟩ :=
    step_write_full (offs := offs) (maxrow := maxrow) hcb (lex_plain hb.2.1 hb.2.2 hb.1) (by rw [hif1, hcs.indsFull])
      (by rw [hh1, hcs.hdr_])
      (by rw [hco1, hcst1, hcnt, hcs.colOff, hcs.cstart rfl, hcs.count, hw.len, hlen1]; omega)
      (by rw [hcc1, hcst1, hcnt, hcs.colCnt, hcs.cstart rfl, hcs.count, hlen1]; omega)
  refine ⟨n + 1, s2, StepsN.trans hsteps (StepsN.one (g := kguard) (by simp [kguard, hd10]) hstep), ?_⟩
  exact fullEnd_of_run hcs hext heff (by rw [hlen1]; omega) hd2 hvf2 hvfc2 hif2 hnp2 hh2 hrow2 hinds2 hvals2

/-- the value budget of column `j` is used up inside a quoted cell: after the opening quote, within the content `u` -/
theorem cell_full_quoted {src : Bytes} {offs : List Nat} {maxrow ncols : Nat} {s : KS} {A u R : Bytes} {j k np : Nat}
    {E E' : Nat → List Bytes} (hcs : CellStart src offs maxrow ncols s A j false k np E') (hext : Ext E E')
    (hsrc : src = A ++ (QUOTE :: (escape u ++ R)))
    (hstrict : offAt offs j + (E' j).flatten.length < offAt offs (j + 1))
    (hover : offAt offs (j + 1) ≤ offAt offs j + (E' j).flatten.length + u.length) :
    ∃ n s', KSteps src offs maxrow n s s' ∧ FullEnd offs maxrow ncols s' k np E j := by
  obtain ⟨r, hr⟩ : ∃ r, offAt offs j + (E' j).flatten.length + r + 1 = offAt offs (j + 1) :=
    ⟨offAt offs (j + 1) - offAt offs j - (E' j).flatten.length - 1, by omega⟩
  have hru : r < u.length := by omega
  have hsplit := split_at u r hru
  have hlen1 : (u.take r).length = r := by simp; omega
  have hroom := cell_room hcs (u.take r).length (fun _ => by rw [hlen1]; omega)
  have hesc : escape u = escape (u.take r) ++ escape (u[r] :: u.drop (r + 1)) := by
    rw [← escape_append, ← hsplit]
  -- opening quote
  have hc0 : src[s.index]? = some QUOTE := by rw [hsrc, hcs.index, getElem?_append_len0]; simp
  have hd0 : s.done = false := by rw [hcs.done, hcs.index, hsrc]; simp
  obtain ⟨s1, hstep1, hi1, he1, hc1, hd1, hctx1, hcnt1, hv1⟩ :=
    step_skip_any (offs := offs) (maxrow := maxrow) hc0
      (by rw [hcs.esc, hcs.cand, hcs.index, hcs.ics]; simpa using lex_open _ false) hcs.indsFull hcs.valsFull
  obtain ⟨_, _, _, _, _, _, _, hif1, hvf1, _, _, _⟩ := ctx_eq hctx1
  -- the content that still fits
  have hsrc1 : src = (A ++ [QUOTE]) ++ (escape (u.take r) ++ (escape (u[r] :: u.drop (r + 1)) ++ R)) := by
    rw [hsrc, hesc]; simp only [List.append_assoc, List.cons_append, List.nil_append]
  obtain ⟨n, s2, hsteps2, hi2, he2, hc2, hd2, heff2⟩ :=
    run_quoted_g (offs := offs) (maxrow := maxrow) (u.take r) (A ++ [QUOTE]) (escape (u[r] :: u.drop (r + 1)) ++ R) s1 hsrc1
      (by simp [hi1, hcs.index]) (by rw [hd1, hi1]) (by rw [hif1, hcs.indsFull]) (by rw [hvf1, hcs.valsFull]) he1 hc1
      (room_of_ctx hctx1 hcnt1 hv1 hroom)
  have h12 := StepsN.trans (StepsN.one (g := kguard) (by simp [kguard, hd0]) hstep1) hsteps2
  have heff12 : RunEff s s2 (u.take r) := runEff_skip_left hctx1 hcnt1 hv1 heff2
  obtain ⟨hnp2, hcol2, hh2, hrow2, hvfc2, hcst2, hics2, hif2, hvf2, hco2, hcc2, hinds2⟩ := ctx_eq heff12.1
  have hrun := heff12.2
  rw [hcs.hdr_] at hrun
  simp only [Bool.false_eq_true, if_false] at hrun
  obtain ⟨hcnt2, hw2⟩ := hrun
  have hsh := hcs.shape
  have hlast : offAt offs (j + 1) ≤ s.vals.length :=
    Nat.le_trans (hsh.mono_le ncols (j + 1) (by have := hcs.jlt; omega) (Nat.le_refl _)) hsh.last
  have hi2' : s2.index = (A ++ [QUOTE] ++ escape (u.take r)).length := by rw [hi2]; simp; omega
  by_cases hb : u[r] = QUOTE
  · -- the byte that fills the budget is a doubled quote: the first one only sets the candidate flag
    have hsrc2 : src = (A ++ [QUOTE] ++ escape (u.take r)) ++ (QUOTE :: QUOTE :: (escape (u.drop (r + 1)) ++ R)) := by
      rw [hsrc1]; simp [escape, hb]
    have hc3 : src[s2.index]? = some QUOTE := by rw [hsrc2, hi2', getElem?_append_len0]; simp
    have hnx3 : src[s2.index + 1]? = some QUOTE := by rw [hsrc2, hi2', getElem?_append_len]; simp
    have hd20 : s2.done = false := by rw [hd2, hi2', hsrc2]; simp
    obtain ⟨s3, hstep3, hi3, he3, hc3', hd3, hctx3, hcnt3, hv3⟩ :=
      step_skip_any (offs := offs) (maxrow := maxrow) hc3 (by rw [hnx3, he2, hc2]; exact lex_pair1 _)
        (by rw [hif2, hcs.indsFull]) (by rw [hvf2, hcs.valsFull])
    obtain ⟨_, hcol3, hh3, _, _, hcst3, _, hif3, _, hco3, hcc3, _⟩ := ctx_eq hctx3
    have heff13 : RunEff s s3 (u.take r) := runEff_skip_right heff12 hctx3 hcnt3 hv3
    have hc4 : src[s3.index]? = some QUOTE := by rw [hi3, hnx3]
    have hd30 : s3.done = false := by rw [hd3, hi2', hsrc2]; simp; omega
    obtain ⟨s4, hstep4, hd4, hvf4, hvfc4, hif4, hnp4, hh4, hrow4, hinds4, hvals4⟩ :=
      step_write_full (offs := offs) (maxrow := maxrow) hc4 (by rw [he3, hc3']; exact lex_pair2 _ _)
        (by rw [hif3, hif2, hcs.indsFull]) (by rw [hh3, hh2, hcs.hdr_])
        (by rw [hco3, hcst3, hcnt3, hv3, hco2, hcst2, hcnt2, hcs.colOff, hcs.cstart rfl, hcs.count, hw2.len, hlen1]; omega)
        (by rw [hcc3, hcst3, hcnt3, hcc2, hcst2, hcnt2, hcs.colCnt, hcs.cstart rfl, hcs.count, hlen1]; omega)
    refine ⟨1 + n + 1 + 1, s4, StepsN.trans (StepsN.trans h12 (StepsN.one (g := kguard) (by simp [kguard, hd20]) hstep3))
      (StepsN.one (g := kguard) (by simp [kguard, hd30]) hstep4), ?_⟩
    exact fullEnd_of_run hcs hext heff13 (by rw [hlen1]; omega) hd4 hvf4 hvfc4 hif4 hnp4 hh4 hrow4 hinds4 hvals4
  · have hsrc2 : src = (A ++ [QUOTE] ++ escape (u.take r)) ++ (u[r] :: (escape (u.drop (r + 1)) ++ R)) := by
      rw [hsrc1]; simp [escape, hb]
    have hc3 : src[s2.index]? = some u[r] := by rw [hsrc2, hi2', getElem?_append_len0]; simp
    have hd20 : s2.done = false := by rw [hd2, hi2', hsrc2]; simp
    obtain ⟨s3, hstep3, hd3, hvf3, hvfc3, hif3, hnp3, hh3, hrow3, hinds3, hvals3⟩ :=
      step_write_full (offs := offs) (maxrow := maxrow) hc3 (by rw [he2]; exact lex_esc_nonquote hb)
        (by rw [hif2, hcs.indsFull]) (by rw [hh2, hcs.hdr_])
        (by rw [hco2, hcst2, hcnt2, hcs.colOff, hcs.cstart rfl, hcs.count, hw2.len, hlen1]; omega)
        (by rw [hcc2, hcst2, hcnt2, hcs.colCnt, hcs.cstart rfl, hcs.count, hlen1]; omega)
    refine ⟨1 + n + 1, s3, StepsN.trans h12 (StepsN.one (g := kguard) (by simp [kguard, hd20]) hstep3), ?_⟩
    exact fullEnd_of_run hcs hext heff12 (by rw [hlen1]; omega) hd3 hvf3 hvfc3 hif3 hnp3 hh3 hrow3 hinds3 hvals3

end Exetera.Csv
