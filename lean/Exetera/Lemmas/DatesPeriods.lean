import Exetera.Model.Dates
import Exetera.Spec.Dates
import Exetera.Lemmas.While
/-! Lemmas about `Dates.getPeriods` (C20): the stepping loop returns exactly the equally spaced boundaries. Core Lean only. -/
namespace Exetera.Dates
open Exetera Exetera.Spec.Dates

theorem boundaries_length (start step : Int) (n : Nat) : (boundaries start step n).length = n + 1 := by
  simp [boundaries]

theorem boundaries_get (start step : Int) (n k : Nat) (hk : k ≤ n) :
    (boundaries start step n)[k]? = some (start + (k : Int) * step) := by
  have : k < n + 1 := by omega
  simp [boundaries, List.getElem?_range this]

theorem boundaries_get_none (start step : Int) (n k : Nat) (hk : n < k) : (boundaries start step n)[k]? = none := by
  simp [boundaries]; omega

theorem boundaries_succ (start step : Int) (k : Nat) :
    boundaries start step (k + 1) = boundaries start step k ++ [start + ((k + 1 : Nat) : Int) * step] := by
  simp [boundaries, List.range_succ]

theorem boundaries_zero (start step : Int) : boundaries start step 0 = [start] := by
  simp [boundaries]

/-- the direction of a valid call, with `S = |step|` and `D = |end - start|` -/
def Dir (start end_ step : Int) (S D : Nat) : Prop :=
  (0 < step ∧ step = (S : Int) ∧ end_ - start = (D : Int)) ∨ (step < 0 ∧ step = -(S : Int) ∧ end_ - start = -(D : Int))

theorem dir_of (start end_ step : Int) (hstep : step ≠ 0)
    (hdir : (0 < step → start ≤ end_) ∧ (step < 0 → end_ ≤ start)) :
    Dir start end_ step step.natAbs (end_ - start).natAbs := by
  unfold Dir
  rcases Int.lt_or_gt_of_ne hstep with h | h
  · right; have := hdir.2 h; omega
  · left; have := hdir.1 h; omega

theorem mul_step_pos {step : Int} {S : Nat} (h : step = (S : Int)) (k : Nat) :
    (k : Int) * step = ((k * S : Nat) : Int) := by
  subst h; simp

theorem mul_step_neg {step : Int} {S : Nat} (h : step = -(S : Int)) (k : Nat) :
    (k : Int) * step = -((k * S : Nat) : Int) := by
  subst h; simp [Int.mul_neg]

/-- loop invariant: `k` boundaries have been appended -/
def PInv (start step : Int) (n : Nat) (s : PState) : Prop :=
  ∃ k, k ≤ n ∧ s.dates = boundaries start step k ∧ s.last = start + (k : Int) * step

theorem pGuard_iff {start end_ step : Int} {S D : Nat} (hd : Dir start end_ step S D) {s : PState} {k : Nat}
    (hl : s.last = start + (k : Int) * step) :
    pGuard end_ step s = true ↔ (k + 1) * S ≤ D := by
  have hsucc : (k + 1) * S = k * S + S := Nat.succ_mul k S
  unfold pGuard
  rcases hd with ⟨hpos, hS, hD⟩ | ⟨hneg, hS, hD⟩
  · have hk := mul_step_pos hS k
    rw [if_pos hpos, decide_eq_true_iff]
    omega
  · have hk := mul_step_neg hS k
    rw [if_neg (by omega), decide_eq_true_iff]
    omega

theorem pBody_step {start end_ step : Int} {S D : Nat} (hd : Dir start end_ step S D) (hS : 0 < S)
    (hs : 0 ≤ start ∧ start ≤ DT_MAX) (he : 0 ≤ end_ ∧ end_ ≤ DT_MAX) :
    ∀ s, PInv start step (D / S) s → pGuard end_ step s = true →
      ∃ s', pBody step s = .ok s' ∧ PInv start step (D / S) s' ∧
        (D / S + 1 - s'.dates.length) < (D / S + 1 - s.dates.length) := by
  intro s ⟨k, hkn, hdates, hlast⟩ hg
  have hle : (k + 1) * S ≤ D := (pGuard_iff hd hlast).mp hg
  have hk1 : k + 1 ≤ D / S := (Nat.le_div_iff_mul_le hS).mpr hle
  have hsucc : (k + 1) * S = k * S + S := Nat.succ_mul k S
  have hnxt : s.last + step = start + ((k + 1 : Nat) : Int) * step := by
    rw [hlast]; simp [Int.add_mul, Int.add_assoc]
  have hrange : 0 ≤ s.last + step ∧ s.last + step ≤ DT_MAX := by
    rcases hd with ⟨_, hSe, hD⟩ | ⟨_, hSe, hD⟩
    · have := mul_step_pos hSe (k + 1); omega
    · have := mul_step_neg hSe (k + 1); omega
  refine ⟨⟨s.dates ++ [s.last + step], s.last + step⟩, ?_, ⟨k + 1, hk1, ?_, hnxt⟩, ?_⟩
  · simp only [pBody]
    rw [if_pos hrange]
  · simp only []
    rw [boundaries_succ, hdates, hnxt]
  · simp only [List.length_append, List.length_singleton, hdates, boundaries_length]
    omega

/-- total correctness of the stepping loop -/
theorem periods_loop {start end_ step : Int} {S D : Nat} (hd : Dir start end_ step S D) (hS : 0 < S)
    (hs : 0 ≤ start ∧ start ≤ DT_MAX) (he : 0 ≤ end_ ∧ end_ ≤ DT_MAX) :
    ∃ s', whileE (pGuard end_ step) (pBody step) (D / S) ⟨[start], start⟩ = .ok s' ∧
      s'.dates = boundaries start step (D / S) := by
  have hinit : PInv start step (D / S) ⟨[start], start⟩ := ⟨0, Nat.zero_le _, by simp [boundaries_zero], by simp⟩
  obtain ⟨s', hw, ⟨k, hkn, hdates, hlast⟩, hg⟩ :=
    whileE_rule (pGuard end_ step) (pBody step) (PInv start step (D / S)) (fun s => D / S + 1 - s.dates.length)
      (pBody_step hd hS hs he) (D / S) ⟨[start], start⟩ hinit (by simp)
  refine ⟨s', hw, ?_⟩
  have hnot : ¬ (k + 1) * S ≤ D := by
    intro hle
    have := (pGuard_iff hd hlast).mpr hle
    rw [hg] at this
    exact Bool.false_ne_true this
  have : ¬ k + 1 ≤ D / S := fun h => hnot ((Nat.le_div_iff_mul_le hS).mp h)
  have hk : k = D / S := by omega
  rw [hdates, hk]

/-- `D / S` is the number of whole steps that fit: the last boundary is within the range, the next one is not -/
theorem div_bounds (D S : Nat) (hS : 0 < S) : D / S * S ≤ D ∧ D < (D / S + 1) * S := by
  constructor
  · exact Nat.div_mul_le_self D S
  · have := Nat.lt_div_mul_add (a := D) hS
    rw [Nat.succ_mul]
    omega

theorem unitDays_cases {period : String} {u : Int} (h : unitDays period = some u) : u = 1 ∨ u = 7 := by
  unfold unitDays at h
  split at h
  · simp at h; omega
  · split at h
    · simp at h; omega
    · simp at h

theorem unitDays_none_iff (period : String) :
    unitDays period = none ↔ ¬(period = "day" ∨ period = "days" ∨ period = "week" ∨ period = "weeks") := by
  unfold unitDays
  by_cases h1 : period = "day" <;> by_cases h2 : period = "days" <;> by_cases h3 : period = "week" <;>
    by_cases h4 : period = "weeks" <;> simp [h1, h2, h3, h4]

/-- `get_periods` on a valid call: exactly the boundaries `start + k·step`, `k = 0 … ⌊|end-start| / |step|⌋` -/
theorem getPeriods_eq {start end_ : Int} {period : String} {delta u : Int} (hu : unitDays period = some u)
    (hdelta : delta ≠ 0) (hdir : (0 < delta → start ≤ end_) ∧ (delta < 0 → end_ ≤ start))
    (htd : (delta * u).natAbs ≤ TD_MAX_DAYS)
    (hs : 0 ≤ start ∧ start ≤ DT_MAX) (he : 0 ≤ end_ ∧ end_ ≤ DT_MAX) :
    getPeriods start end_ period delta =
      .ok (boundaries start (delta * u * 86400) ((end_ - start).natAbs / (delta * u * 86400).natAbs)) := by
  have hstep : delta * u * 86400 ≠ 0 ∧ (0 < delta * u * 86400 → 0 < delta) ∧ (delta * u * 86400 < 0 → delta < 0) := by
    rcases unitDays_cases hu with rfl | rfl <;> omega
  have hd := dir_of start end_ (delta * u * 86400) hstep.1
    ⟨fun h => hdir.1 (hstep.2.1 h), fun h => hdir.2 (hstep.2.2 h)⟩
  have hS : 0 < (delta * u * 86400).natAbs := by have := hstep.1; omega
  obtain ⟨s', hw, hdates⟩ := periods_loop hd hS hs he
  simp only [getPeriods, hu]
  rw [if_neg hdelta, if_neg (by omega), if_neg (by omega), if_neg (by omega), hw]
  simp only [hdates]

/-- the argument checks of `get_periods`: every invalid call is a `ValueError` -/
theorem getPeriods_invalid {start end_ : Int} {period : String} {delta : Int}
    (h : unitDays period = none ∨ delta = 0 ∨ (delta < 0 ∧ start < end_) ∨ (0 < delta ∧ end_ < start)) :
    ∃ msg, getPeriods start end_ period delta = .error (.valueError msg) := by
  unfold getPeriods
  cases hu : unitDays period with
  | none => exact ⟨_, rfl⟩
  | some u =>
    simp only []
    by_cases h0 : delta = 0
    · exact ⟨_, by rw [if_pos h0]⟩
    · rw [if_neg h0]
      by_cases h1 : delta < 0 ∧ start < end_
      · exact ⟨_, by rw [if_pos h1]⟩
      · rw [if_neg h1]
        by_cases h2 : 0 < delta ∧ end_ < start
        · exact ⟨_, by rw [if_pos h2]⟩
        · rcases h with h | h | h | h
          · rw [hu] at h; simp at h
          · exact absurd h h0
          · exact absurd h h1
          · exact absurd h h2

/-- every boundary lies in the closed range between `start` and `end` -/
theorem boundary_within {start end_ step : Int} {S D : Nat} (hd : Dir start end_ step S D) (hS : 0 < S)
    (k : Nat) (hk : k ≤ D / S) :
    min start end_ ≤ start + (k : Int) * step ∧ start + (k : Int) * step ≤ max start end_ := by
  have h1 : k * S ≤ D / S * S := Nat.mul_le_mul_right S hk
  have h2 := (div_bounds D S hS).1
  rcases hd with ⟨_, hSe, hD⟩ | ⟨_, hSe, hD⟩
  · have := mul_step_pos hSe k; omega
  · have := mul_step_neg hSe k; omega

/-- … and the next one would leave it -/
theorem boundary_maximal {start end_ step : Int} {S D : Nat} (hd : Dir start end_ step S D) (hS : 0 < S) :
    ¬(min start end_ ≤ start + ((D / S + 1 : Nat) : Int) * step ∧
      start + ((D / S + 1 : Nat) : Int) * step ≤ max start end_) := by
  have h2 := (div_bounds D S hS).2
  rcases hd with ⟨_, hSe, hD⟩ | ⟨_, hSe, hD⟩
  · have := mul_step_pos hSe (D / S + 1); omega
  · have := mul_step_neg hSe (D / S + 1); omega

theorem mem_boundaries {start step : Int} {n : Nat} {p : Int} (h : p ∈ boundaries start step n) :
    ∃ k, k ≤ n ∧ p = start + (k : Int) * step := by
  simp only [boundaries, List.mem_map, List.mem_range] at h
  obtain ⟨k, hk, rfl⟩ := h
  exact ⟨k, by omega, rfl⟩

end Exetera.Dates
