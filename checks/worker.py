"""Worker process: reads one JSON case per line on stdin, calls harness.<fn>(case) on the REAL ExeTera code,
writes one JSON result line per case. Started by lib.run_impl with the execution-mode environment already set."""
import importlib
import json
import os
import signal
import sys
import traceback

sys.path.insert(0, os.environ.get("EXETERA_REPO", "/repo"))
sys.path.insert(0, os.path.dirname(os.path.dirname(os.path.abspath(__file__))))


class CaseTimeout(Exception):
    pass


def _alarm(signum, frame):
    raise CaseTimeout()


ERRMAP = [(IndexError, "index_error"), (KeyError, "key_error"), (ValueError, "value_error"),
          (TypeError, "type_error"), (AttributeError, "attribute_error"), (OverflowError, "overflow_error"),
          (NotImplementedError, "not_implemented")]


def classify(e):
    for cls, tag in ERRMAP:
        if isinstance(e, cls):
            return tag
    return "other:" + type(e).__name__


def main():
    harness = importlib.import_module("checks.harness." + sys.argv[1])
    fn = getattr(harness, sys.argv[2])
    per_case = float(os.environ.get("VERIF_CASE_TIMEOUT", getattr(harness, "CASE_TIMEOUT", 60)))
    signal.signal(signal.SIGALRM, _alarm)
    out = sys.stdout
    for line in sys.stdin:
        line = line.strip()
        if not line:
            continue
        case = json.loads(line)
        res = None
        for attempt in (1, 2):
            try:
                signal.setitimer(signal.ITIMER_REAL, per_case * attempt * attempt)
                res = fn(case)
                signal.setitimer(signal.ITIMER_REAL, 0)
                break
            except CaseTimeout:
                res = {"err": "hang"}          # retried once with 4x the budget (first call may be numba compiling)
            except BaseException as e:          # noqa
                signal.setitimer(signal.ITIMER_REAL, 0)
                if isinstance(e, (KeyboardInterrupt, SystemExit)):
                    raise
                res = {"err": classify(e), "msg": (str(e) or "")[:200]}
                if os.environ.get("VERIF_TRACE"):
                    res["trace"] = traceback.format_exc()[-1500:]
                break
        out.write(json.dumps(res, separators=(",", ":"), default=str) + "\n")
        out.flush()


if __name__ == "__main__":
    main()
