import Exetera.Model.Basic
/-!
  Runtime prelude of the TRANSLATED kernels (`Gen/Kernels.lean`, written by `tools/translate_njit.py`).

  Every Python / numpy primitive the translator may emit is defined here, once, by hand (core Lean only: this file is
  linked into the driver).  It is the semantic part of the translator's trusted base (tools/translate_njit.md):
  the generated file contains nothing but applications of these combinators, structure updates, `if`, `match` on an
  optional parameter, and integer / boolean arithmetic.

  Conventions (DESIGN 1.4)
  * Python ints are unbounded `Int`; arrays are `List Int` / `List Bool`; fixed width is not modelled.
  * a subscript `a[i]` is in bounds iff `0 ≤ i < len(a)`.  A NEGATIVE index is an error branch (`Err.oob ("neg:" ++ site)`),
    not a wrap-around: the compiled kernels are never meant to be called that way, and a theorem `… = .ok r` therefore
    says that no subscript was negative either.  (Slices keep Python's clamping and negative-bound semantics: a slice
    never raises.)
  * errors are values: `bindE` sequences, `raise IndexError` is `.error (.oob …)`, `raise ValueError` is
    `.error (.valueError …)`, a failed `assert` is `.error (.other "AssertionError")`.
  * a CONSTANT negative subscript `a[-c]` is the element `len(a) - c` (`idxNegE`), checked like any other subscript.
-/
namespace Exetera.PyRt

open Exetera

/-- sequencing in `Except Err` (kept separate from the `Monad` instance so that proofs see a plain `match`) -/
@[inline] def bindE {α β} (x : Except Err α) (f : α → Except Err β) : Except Err β :=
  match x with
  | .ok a => f a
  | .error e => .error e

@[simp] theorem bindE_ok {α β} (a : α) (f : α → Except Err β) : bindE (.ok a) f = f a := rfl
@[simp] theorem bindE_error {α β} (e : Err) (f : α → Except Err β) : bindE (.error e : Except Err α) f = .error e := rfl

theorem bindE_eq_ok {α β} {x : Except Err α} {f : α → Except Err β} {b : β} :
    bindE x f = .ok b ↔ ∃ a, x = .ok a ∧ f a = .ok b := by
  cases x <;> simp [bindE]

/-- `len(xs)` -/
@[inline] def pyLen {α} (xs : List α) : Int := (xs.length : Int)

/-- `xs[i]` for a Python int `i` -/
def idxE {α} (xs : List α) (i : Int) (site : String) : Except Err α :=
  if 0 ≤ i then getE xs i.toNat site else .error (.oob ("neg:" ++ site))

/-- `xs[i] = v` -/
def setIdxE {α} (xs : List α) (i : Int) (v : α) (site : String) : Except Err (List α) :=
  if 0 ≤ i then setE xs i.toNat v site else .error (.oob ("neg:" ++ site))

theorem idxE_of_lt {α} {xs : List α} {i : Nat} (site : String) (h : i < xs.length) :
    idxE xs (i : Int) site = .ok xs[i] := by
  simp [idxE, getE_of_lt site h]

theorem setIdxE_of_lt {α} {xs : List α} {i : Nat} (v : α) (site : String) (h : i < xs.length) :
    setIdxE xs (i : Int) v site = .ok (xs.set i v) := by
  simp [setIdxE, setE, h]

/-- `xs[-c]` for a constant `c > 0`: the element `len(xs) - c` (IndexError when the array has fewer than `c` entries) -/
def idxNegE {α} (xs : List α) (c : Nat) (site : String) : Except Err α :=
  if c ≤ xs.length then getE xs (xs.length - c) site else .error (.oob site)

/-- `xs[-c] = v` for a constant `c > 0` -/
def setIdxNegE {α} (xs : List α) (c : Nat) (v : α) (site : String) : Except Err (List α) :=
  if c ≤ xs.length then setE xs (xs.length - c) v site else .error (.oob site)

/-- `xs[i]` with numpy's WRAP-AROUND of a negative index: `-len ≤ i < 0` is `xs[len + i]` (whitelist type `arr2w`; the one
    kernel that relies on it is `fast_csv_reader`, which reads `column_inds[col_index, -1]` while on the header line) -/
def idxWE {α} (xs : List α) (i : Int) (site : String) : Except Err α :=
  if 0 ≤ i then getE xs i.toNat site
  else if -i ≤ (xs.length : Int) then getE xs (xs.length - (-i).toNat) site else .error (.oob site)

/-- `xs[i] = v` with the same wrap-around -/
def setIdxWE {α} (xs : List α) (i : Int) (v : α) (site : String) : Except Err (List α) :=
  if 0 ≤ i then setE xs i.toNat v site
  else if -i ≤ (xs.length : Int) then setE xs (xs.length - (-i).toNat) v site else .error (.oob site)

/-- `a[i, j] = v` on a 2-D array given as the list of its rows: row `i`, then entry `j`, both checked -/
def setIdx2E {α} (a : List (List α)) (i j : Int) (v : α) (site : String) : Except Err (List (List α)) :=
  match idxE a i site with
  | .error e => .error e
  | .ok row =>
    match setIdxE row j v site with
    | .error e => .error e
    | .ok row' => setIdxE a i row' site

/-- `a[i, j] = v` with numpy's wrap-around of a negative index in both dimensions (`arr2w`) -/
def setIdx2WE {α} (a : List (List α)) (i j : Int) (v : α) (site : String) : Except Err (List (List α)) :=
  match idxWE a i site with
  | .error e => .error e
  | .ok row =>
    match setIdxWE row j v site with
    | .error e => .error e
    | .ok row' => setIdxWE a i row' site

/-- `a.shape[1]` of a 2-D array given as the list of its rows: the length of its rows.  An array WITHOUT rows does not carry
    its second dimension in this representation: an (IndexError-class) error, never a guess -/
def shape1E {α} (a : List (List α)) (site : String) : Except Err Int :=
  match a with
  | [] => .error (.oob site)
  | r :: _ => .ok (r.length : Int)

/-- read of a local that Python may not have bound yet (`UnboundLocalError`); `d` is the definedness flag -/
def readDefE {α} (d : Bool) (v : α) (_name : String) : Except Err α :=
  if d then .ok v else .error (.other "UnboundLocalError")

/-- value of an optional scalar parameter (`x=None`); using it while it is None is a TypeError -/
def readOptE {α} (present : Bool) (v : α) (_name : String) : Except Err α :=
  if present then .ok v else .error (.typeError "NoneType")

/-- `np.zeros(n, dtype)` (dtype is not modelled) -/
def npZeros (n : Int) : Except Err (List Int) :=
  if n < 0 then .error (.valueError "negative dimensions are not allowed") else .ok (List.replicate n.toNat 0)

/-- `np.zeros(n, dtype=bool)` -/
def npZerosB (n : Int) : Except Err (List Bool) :=
  if n < 0 then .error (.valueError "negative dimensions are not allowed") else .ok (List.replicate n.toNat false)

/-- `np.full(n, v, dtype)` -/
def npFull (n v : Int) : Except Err (List Int) :=
  if n < 0 then .error (.valueError "negative dimensions are not allowed") else .ok (List.replicate n.toNat v)

/-- a slice bound as Python normalises it against `len`: `None` ↦ default, negative ↦ `+ len` clamped at 0, large ↦ `len` -/
def normBound (len : Nat) (b : Option Int) (dflt : Nat) : Nat :=
  match b with
  | none => dflt
  | some i => if i < 0 then (i + len).toNat else min i.toNat len

/-- `xs[lo:hi]` (step 1); never raises -/
def pySlice {α} (xs : List α) (lo hi : Option Int) : List α :=
  slice xs (normBound xs.length lo 0) (normBound xs.length hi xs.length)

/-- numpy fancy indexing `src[idx]` with an integer array: every entry checked like a scalar subscript -/
def takeE {α} (src : List α) (site : String) : List Int → Except Err (List α)
  | [] => .ok []
  | i :: is =>
    match idxE src i site with
    | .error e => .error e
    | .ok v =>
      match takeE src site is with
      | .error e => .error e
      | .ok r => .ok (v :: r)

/-- numpy broadcasting of a 1-d right-hand side to length `n`: equal length, or a single element repeated -/
def broadcastTo {α} (n : Nat) (rhs : List α) : Except Err (List α) :=
  if rhs.length = n then .ok rhs
  else match rhs with
    | [v] => .ok (List.replicate n v)
    | _ => .error (.valueError "could not broadcast input array")

/-- `dest[lo:hi] = rhs` -/
def setSliceE {α} (dest : List α) (lo hi : Option Int) (rhs : List α) : Except Err (List α) :=
  let a := normBound dest.length lo 0
  let b := max a (normBound dest.length hi dest.length)
  match broadcastTo (b - a) rhs with
  | .error e => .error e
  | .ok r => .ok (dest.take a ++ r ++ dest.drop b)

/-- `a // b`, `a % b` (Python floor semantics) -/
def floorDivE (a b : Int) : Except Err Int :=
  if b = 0 then .error (.other "ZeroDivisionError") else .ok (Int.fdiv a b)

def floorModE (a b : Int) : Except Err Int :=
  if b = 0 then .error (.other "ZeroDivisionError") else .ok (Int.fmod a b)

/-- `np.int8(x)`: the value as a signed byte (two's complement wrap-around); the identity on -128 … 127 -/
def pyInt8 (x : Int) : Int := Int.fmod (x + 128) 256 - 128

/-- `a.argmin()` / `a.argmax()`: position of the FIRST minimum / maximum; ValueError on an empty array -/
def argBestFrom (better : Int → Int → Bool) : List Int → (i : Nat) → (best : Int) → (bestIdx : Nat) → Nat
  | [], _, _, bi => bi
  | x :: xs, i, best, bi => if better x best then argBestFrom better xs (i + 1) x i else argBestFrom better xs (i + 1) best bi

def argminE : List Int → Except Err Int
  | [] => .error (.valueError "attempt to get argmin of an empty sequence")
  | x :: xs => .ok (argBestFrom (fun a b => decide (a < b)) xs 1 x 0 : Nat)

def argmaxE : List Int → Except Err Int
  | [] => .error (.valueError "attempt to get argmax of an empty sequence")
  | x :: xs => .ok (argBestFrom (fun a b => decide (a > b)) xs 1 x 0 : Nat)

/-- `a in (c1, c2, …)` for an ARRAY `a` and a non-empty tuple of integer literals.  Python evaluates `bool(c1 == a) or
    bool(c2 == a) or …`: an array of exactly one element is compared as that element; the truth value of an array of any other
    length (empty included) is a ValueError — interpreted numpy and compiled numba alike (checked on the real
    `numeric_bool_transform`, both modes) -/
def arrInTupleE (a : List Int) (cs : List Int) : Except Err Bool :=
  match a with
  | [x] => .ok (cs.any (fun c => c == x))
  | _ => .error (.valueError "The truth value of an array with other than one element is ambiguous")

/-! ### loops -/

/-- `for k in range(lo, lo + n)`: `body k s`, stopping early when `stop` holds after an iteration (`break`) -/
def forRangeAux {σ} (stop : σ → Bool) (body : Int → σ → Except Err σ) : Nat → Int → σ → Except Err σ
  | 0, _, s => .ok s
  | n + 1, k, s =>
    match body k s with
    | .error e => .error e
    | .ok s' => if stop s' then .ok s' else forRangeAux stop body n (k + 1) s'

/-- `for k in range(lo, hi)` without `break` -/
def forRangeE {σ} (lo hi : Int) (body : Int → σ → Except Err σ) (s : σ) : Except Err σ :=
  forRangeAux (fun _ => false) body (hi - lo).toNat lo s

/-- `for k in range(lo, hi)` whose body may `break` (the body raises the flag `stop` reads) -/
def forRangeB {σ} (lo hi : Int) (stop : σ → Bool) (body : Int → σ → Except Err σ) (s : σ) : Except Err σ :=
  forRangeAux stop body (hi - lo).toNat lo s

/-- `for x in xs` (iteration over an array), with the same early exit -/
def forEachAux {α σ} (stop : σ → Bool) (body : α → σ → Except Err σ) : List α → σ → Except Err σ
  | [], s => .ok s
  | x :: xs, s =>
    match body x s with
    | .error e => .error e
    | .ok s' => if stop s' then .ok s' else forEachAux stop body xs s'

def forEachE {α σ} (xs : List α) (body : α → σ → Except Err σ) (s : σ) : Except Err σ :=
  forEachAux (fun _ => false) body xs s

def forEachB {α σ} (xs : List α) (stop : σ → Bool) (body : α → σ → Except Err σ) (s : σ) : Except Err σ :=
  forEachAux stop body xs s

/-- `while guard: body` for a guard that itself contains subscripts (it may raise) -/
def whileG {σ} (guard : σ → Except Err Bool) (body : σ → Except Err σ) : Nat → σ → Except Err σ
  | 0, s =>
    match guard s with
    | .error e => .error e
    | .ok g => if g then .error .outOfFuel else .ok s
  | n + 1, s =>
    match guard s with
    | .error e => .error e
    | .ok g =>
      if g then
        match body s with
        | .ok s' => whileG guard body n s'
        | .error e => .error e
      else .ok s

/-! ### values crossing the driver boundary (`Gen.Kernels.dispatch`) -/

inductive Val where
  | none
  | int (i : Int)
  | bool (b : Bool)
  | arr (a : List Int)
  | barr (a : List Bool)
  | arr2 (a : List (List Int))
  | tup (vs : List Val)
  | str (s : String)
  deriving Repr, Inhabited

def Val.asInt? : Val → Option Int
  | .int i => some i
  | _ => Option.none
def Val.asBool? : Val → Option Bool
  | .bool b => some b
  | _ => Option.none
def Val.asArr? : Val → Option (List Int)
  | .arr a => some a
  | _ => Option.none
def Val.asBArr? : Val → Option (List Bool)
  | .barr a => some a
  | _ => Option.none
def Val.asArr2? : Val → Option (List (List Int))
  | .arr2 a => some a
  | _ => Option.none
def Val.asStr? : Val → Option String
  | .str s => some s
  | _ => Option.none
def Val.asOptInt? : Val → Option (Option Int)
  | .int i => some (some i)
  | .none => some Option.none
  | _ => Option.none
def Val.asOptArr? : Val → Option (Option (List Int))
  | .arr a => some (some a)
  | .none => some Option.none
  | _ => Option.none

end Exetera.PyRt
