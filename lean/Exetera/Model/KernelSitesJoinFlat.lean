/-!
  C10 — access sites of the legacy (flat and "_old" streamed) join helpers that `Model/JoinFlat.lean` and
  `Model/JoinOld.lean` model (owning property C19), frozen from the source the models were written against.
  `Props/C10/JoinFlat.lean` proves that the shapes regenerated from the CURRENT source (`Gen/KernelShape.lean`) are these.

  Model ↔ site map:
  * `generate_ordered_map_to_left_right_unique` / `…_both_unique`: `first[i]`, `second[j]` = the two `getE` of
    `JoinFlat.leftBody`; `first[i + 1]` = `getE`, behind the mirrored test `i + 1 >= len(first)`; `result[i]` = the
    capacity check `s.i < cap` of `leftBody` / `leftTailBody`.
  * `ordered_inner_map_result_size`, `ordered_inner_map`, `ordered_inner_map_left_unique`,
    `ordered_inner_map_both_unique`: `left[i]`, `right[j]` = the two `getE` of `innerBody` / `sizeBody`;
    `left[cur_i + 1]`, `left[cur_i]`, `right[cur_j + 1]`, `right[cur_j]` (and `left[i + 1]`, … in the size kernel) =
    `Join.runCount` (through `runLen`), under the run guards listed below; `left_to_inner[cur_m]`,
    `right_to_inner[cur_m]` = the block capacity check `s.lo.length + n * m ≤ cap` of `innerBody`
    (`cap = min (len left_to_inner) (len right_to_inner)`; a cartesian block is written by consecutive `cur_m`).
  * `generate_ordered_map_to_left_right_unique_partial_old`: `left[i]`, `right[j]` = `getE` in `JoinOld.partialOldBody`;
    `left_to_right[i]` = its capacity check `s.i < cap`.
  * `ordered_map_valid_partial_old`: `map_field[i]` = structural recursion of `partialOldMapFrom` on the rest of
    `map_field` (the `[]` case of `partialOldMap` is the read of `map_field[0]` of an empty chunk: `.oob`);
    `data_field[val - d]` = `MapValid.getI`; `result[i]` = the capacity check `acc.length < cap`.
  * `chunks`: no subscript (`JoinOld.nextRange`).
  `Session.join`'s scatter (`JoinOld.scatter` / `setI`) is numpy fancy assignment, not a compiled kernel.
-/
namespace Exetera.KernelSites

/-- the legacy join helpers (C19) -/
def joinFlatSites : List (String × List String × List String) := [
  ("chunks",
    ["while cur < length"],
    []),
  ("ordered_map_valid_partial_old",
    ["while True"],
    ["R data_field[val - d]", "R map_field[i]", "W result[i]"]),
  ("generate_ordered_map_to_left_right_unique_partial_old",
    ["while i < len(left) and j < len(right)"],
    ["R left[i]", "R right[j]", "W left_to_right[i]"]),
  ("generate_ordered_map_to_left_right_unique",
    ["while i < len(first)", "while i < len(first) and j < len(second)"],
    ["R first[i + 1]", "R first[i]", "R second[j]", "W result[i]"]),
  ("generate_ordered_map_to_left_both_unique",
    ["while i < len(first)", "while i < len(first) and j < len(second)"],
    ["R first[i]", "R second[j]", "W result[i]"]),
  ("ordered_inner_map_result_size",
    ["while i + 1 < len(left) and left[i + 1] == left[i]", "while i < len(left) and j < len(right)", "while j + 1 < len(right) and right[j + 1] == right[j]"],
    ["R left[i + 1]", "R left[i]", "R right[j + 1]", "R right[j]"]),
  ("ordered_inner_map_both_unique",
    ["while i < len(left) and j < len(right)"],
    ["R left[i]", "R right[j]", "W left_to_inner[cur_m]", "W right_to_inner[cur_m]"]),
  ("ordered_inner_map_left_unique",
    ["for jj in range(j, cur_j + 1)", "while cur_j + 1 < len(right) and right[cur_j + 1] == right[cur_j]", "while i < len(left) and j < len(right)"],
    ["R left[i]", "R right[cur_j + 1]", "R right[cur_j]", "R right[j]", "W left_to_inner[cur_m]", "W right_to_inner[cur_m]"]),
  ("ordered_inner_map",
    ["for ii in range(i, cur_i + 1)", "for jj in range(j, cur_j + 1)", "while cur_i + 1 < len(left) and left[cur_i + 1] == left[cur_i]", "while cur_j + 1 < len(right) and right[cur_j + 1] == right[cur_j]", "while i < len(left) and j < len(right)"],
    ["R left[cur_i + 1]", "R left[cur_i]", "R left[i]", "R right[cur_j + 1]", "R right[cur_j]", "R right[j]", "W left_to_inner[cur_m]", "W right_to_inner[cur_m]"])
]


end Exetera.KernelSites
