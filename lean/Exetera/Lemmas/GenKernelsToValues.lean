import Exetera.Gen.Kernels
import Exetera.Model.Transforms
import Exetera.Lemmas.GenKernels
import Exetera.Lemmas.GenKernelsSpans
import Exetera.Lemmas.GenKernelsSpansIndex
import Exetera.Lemmas.GenKernelsSpansIdxMinIndexed
import Exetera.Lemmas.GenKernelsCategorical
/-!
  The TRANSLATED `transform_to_values` (`data.append(column_vals[col_offset + inds[r] : col_offset + inds[r+1]])` for every row
  written) against `Transforms.cellsE` / `cellsFrom` — transfer form. The model reads a cell with `sliceE`, which insists that the
  END of the slice lies inside `column_vals` (nothing about the start); the translation renders the Python slice, which clamps both
  bounds (`PyRt.pySlice`) and never raises. The two slices are always the same list (`pySlice_ints_nat`); the only difference is
  the model's range check: where the model reports an end beyond the buffer the translated kernel returns the (shortened) cell
  (no transfer is claimed there).
-/
namespace Exetera.GenK

open Exetera Exetera.PyRt Exetera.Transforms Exetera.Gen.Kernels

/-- the Python slice with natural bounds is the model's `slice` (`pySlice_nat`: clamping a bound to the length changes nothing),
    also through the `Int` view of the bytes -/
theorem pySlice_ints_nat (vals : List Nat) (a b : Nat) :
    pySlice (ints vals) (some (a : Int)) (some (b : Int)) = ints (slice vals a b) := by
  rw [pySlice_nat]
  simp only [slice, List.map_take, List.map_drop]

namespace TV

abbrev St := transform_to_values.St

abbrev loop1 (n : Nat) (k : Int) (s : St) : Except Err St :=
  forRangeAux (fun _ => false) (fun k s => transform_to_values.body_L1 { s with v2 := k }) n k s

/-- the row loop: `n` rows from row `i` on; whenever the model's `cellsFrom` succeeds the translated loop does, having appended the
    same cells (as `ints`) to `data` -/
theorem rows_sim (c : Chunk) (cinds : List (List Int)) (hinds : cinds[c.col]? = some (ints c.inds)) :
    ∀ (n i : Nat) (acc : List (List Int)) (s : St), s.p0 = cinds → s.p1 = ints c.vals → s.p3 = (c.col : Int) →
      s.v1 = (c.off : Int) → s.v0 = acc →
      match cellsFrom c n i with
      | .ok cells => ∃ s', loop1 n (i : Int) s = .ok s' ∧ s'.v0 = acc ++ cells.map ints
      | .error _ => True := by
  intro n
  induction n with
  | zero => intro i acc s _ _ _ _ h0; exact ⟨s, rfl, by simp [h0]⟩
  | succ n ih =>
    intro i acc s h0 h1 h3 hv1 hv0
    obtain ⟨q0, q1, q2, q3, q4, w0, w1, w2, w3, w4, w5⟩ := s
    simp only at h0 h1 h3 hv1 hv0
    subst h0 h1 h3 hv1 hv0
    have e3 : ((i : Int) + 1) = ((i + 1 : Nat) : Int) := by omega
    rw [loop1, forRangeAux_succ, e3]
    generalize hL : (fun s' : St => if (fun _ : St => false) s' = true then Except.ok s' else
      forRangeAux (fun _ => false) (fun k s => transform_to_values.body_L1 { s with v2 := k }) n
        ((i + 1 : Nat) : Int) s') = L
    simp only [cellsFrom, transform_to_values.body_L1, idxE_nat, getE, hinds, bindE_ok, e3]
    cases hs0 : c.inds[i]? with
    | none => simp
    | some s0 =>
      cases he0 : c.inds[i + 1]? with
      | none => simp
      | some e0 =>
        simp only [List.getElem?_map, hs0, he0, Option.map_some, bindE_ok, Int.ofNat_eq_natCast]
        have hst : ((c.off : Int) + (s0 : Int)) = ((c.off + s0 : Nat) : Int) := by omega
        have hen : ((c.off : Int) + (e0 : Int)) = ((c.off + e0 : Nat) : Int) := by omega
        rw [hst, hen]
        unfold sliceE
        by_cases hb : c.off + e0 ≤ c.vals.length
        · simp only [hb, if_true]
          rw [pySlice_ints_nat c.vals (c.off + s0) (c.off + e0)]
          have := ih (i + 1) (w0 ++ [ints (slice c.vals (c.off + s0) (c.off + e0))])
            ⟨q0, ints c.vals, q2, (c.col : Int), q4, w0 ++ [ints (slice c.vals (c.off + s0) (c.off + e0))], (c.off : Int),
              (i : Int), ((c.off + s0 : Nat) : Int), ((c.off + e0 : Nat) : Int), ints (slice c.vals (c.off + s0) (c.off + e0))⟩
            rfl rfl rfl rfl rfl
          subst hL
          simp only [Bool.false_eq_true, if_false]
          cases hc : cellsFrom c n (i + 1) with
          | error e => simp
          | ok rest =>
            rw [hc] at this
            obtain ⟨s', hrun, hv0'⟩ := this
            simp only [loop1] at hrun
            refine ⟨s', hrun, ?_⟩
            simp only [hv0', List.map_cons, List.append_assoc, List.singleton_append]
        · simp [hb]

end TV

/-- every `.ok` run of the model `cellsE` is a run of the translated `transform_to_values` on the staging arrays that hold the
    chunk's column (`Staged`), returning the same cells (bytes as `Int`s) -/
theorem transform_to_values_ok (c : Chunk) (cinds : List (List Int)) (coffs : List Int) (hst : Staged c cinds coffs)
    {cells : List Bytes} (h : cellsE c = .ok cells) :
    transform_to_values.run cinds (ints c.vals) coffs (c.col : Int) (c.rows : Int) = .ok (cells.map ints) := by
  unfold cellsE withCol at h
  split at h
  · simp at h
  · split at h
    · simp at h
    · have hrows := TV.rows_sim c cinds hst.hinds c.rows 0 []
        ⟨cinds, ints c.vals, coffs, (c.col : Int), (c.rows : Int), [], (c.off : Int), 0, 0, 0, []⟩ rfl rfl rfl rfl rfl
      rw [h] at hrows
      obtain ⟨s', hrun, hv0⟩ := hrows
      have z : ((0 : Nat) : Int) = 0 := rfl
      simp only [TV.loop1, z] at hrun
      unfold transform_to_values.run
      have hto : ((c.rows : Int) - 0).toNat = c.rows := by omega
      simp only [idxE_nat, getE, hst.hoff, bindE_ok, forRangeE, hto, hrun, hv0, List.nil_append]

end Exetera.GenK
