import Exetera.Lemmas.CsvTypedRead
import Exetera.Lemmas.CsvRaise
/-! C05 ∘ C06 when a cell is rejected: what each schema-typed importer raises on the first cell of a block that its validation
    mode rejects (`rejErr`, `impRej_typed`), and `read_csv_with_schema_dict` on a file that holds such a cell. -/
namespace Exetera.Csv
open Exetera Spec Exetera.Transforms Exetera.Spec.Transforms

/-- what `astype(data_type)` / the `relaxed` loop raise on a text they do not convert: `OverflowError` when the text is an
    integer outside the dtype, `ValueError` otherwise -/
def numErr {V} : Parsed V → Err
  | .overflow => .other "OverflowError"
  | _ => .valueError "cannot be converted"

/-- **what the importer of kind `k` raises on a cell it rejects** (`none`: the cell is acceptable, `cellOK`):
    * categorical (no free text): the `ValueError` of `CategoricalImporter.import_part` for a cell that equals no key (fix NC06d);
    * bool: the `Exception` of `raiseNumericException` (empty in strict mode, unparseable in strict / allow_empty mode);
    * int / float: what the conversion of the cell text raises — `ValueError` for an empty or unparseable text (strict; unparseable:
      allow_empty), `OverflowError` for an integer outside the dtype (every mode);
    * datetime / date: what the per-cell conversion raises (`ValueError`: unexpected format, field out of range). -/
def rejErr : FieldKind → Bytes → Option Err
  | .categorical cats, cell => if (lookup cats cell).isSome then none else some notACategory
  | .bool mode invalid, cell => if (numericCell mode invalid (boolClass cell)).isSome then none else some (.other "Exception")
  | .numeric p mode _ invalidVal, cell =>
    if (numericCell mode invalidVal (classOf p.parse (rstripNul cell))).isSome then none
    else some (numErr (p.parse (rstripNul cell)))
  | .datetime, cell => match datetimeCell cell with
    | .error e => some e
    | .ok _ => none
  | .date, cell => match dateCell cell with
    | .error e => some e
    | .ok _ => none
  | _, _ => none

theorem rejErr_none_iff (k : FieldKind) (cell : Bytes) : rejErr k cell = none ↔ cellOK k cell := by
  cases k with
  | bool mode invalid => simp only [rejErr, cellOK]; split <;> simp_all
  | numeric p mode it iv => simp only [rejErr, cellOK]; split <;> simp_all
  | datetime => simp only [rejErr, cellOK]; cases datetimeCell cell <;> simp [Except.toOption]
  | date => simp only [rejErr, cellOK]; cases dateCell cell <;> simp [Except.toOption]
  | indexed => simp [rejErr, cellOK]
  | fixed n => simp [rejErr, cellOK]
  | categorical cats => simp only [rejErr, cellOK]; split <;> simp_all
  | leaky cats => simp [rejErr, cellOK]

/-! ### the first text of a block that is not converted -/

theorem astypeAll_first_bad {V} (parse : Bytes → Parsed V) (pre : List Bytes) (t : Bytes) (post : List Bytes)
    (hpre : ∀ u ∈ pre, ∃ v, parse u = .val v) (ht : ∀ v, parse t ≠ .val v) :
    astypeAll parse (pre ++ t :: post) = .error (numErr (parse t)) := by
  induction pre with
  | nil =>
    rw [List.nil_append, astypeAll]
    cases hp : parse t with
    | val v => exact absurd hp (ht v)
    | bad => rfl
    | overflow => rfl
  | cons u pre ih =>
    obtain ⟨v, hv⟩ := hpre u (by simp)
    rw [List.cons_append, astypeAll, hv, ih (fun y hy => hpre y (by simp [hy]))]

theorem relaxedAll_first_bad {V} (parse : Bytes → Parsed V) (inv : V) (pre : List Bytes) (t : Bytes) (post : List Bytes)
    (hpre : ∀ u ∈ pre, parse u ≠ .overflow) (ht : parse t = .overflow) :
    relaxedAll parse inv (pre ++ t :: post) = .error (.other "OverflowError") := by
  induction pre with
  | nil => rw [List.nil_append, relaxedAll, ht]
  | cons u pre ih =>
    have hu := hpre u (by simp)
    rw [List.cons_append, relaxedAll, ih (fun y hy => hpre y (by simp [hy]))]
    cases hp : parse u with
    | overflow => exact absurd hp hu
    | val v => rfl
    | bad => rfl

theorem cellsMapE_first_bad {α} (f : Bytes → Except Err α) (pre : List Bytes) (x : Bytes) (post : List Bytes) (e : Err)
    (hpre : ∀ cell ∈ pre, (f cell).toOption.isSome) (hx : f x = .error e) :
    cellsMapE f (pre ++ x :: post) = .error e := by
  induction pre with
  | nil => simp [cellsMapE, hx]
  | cons c cs ih =>
    have hc := hpre c (by simp)
    cases hf : f c with
    | error e' => rw [hf] at hc; cases hc
    | ok a => simp [cellsMapE, hf, ih (fun y hy => hpre y (by simp [hy]))]

/-- `transform_int` / `transform_float` on a block whose first rejected cell is `x`: the conversion raises on `x` -/
theorem transformNum_first_bad {V} (parse : Bytes → Parsed V) (mode : Mode) (invalidText : Bytes) (invalid : V)
    (hblank : ∀ t, npNonEmpty t = false → parse t = .bad) (hinv : parse invalidText = .val invalid)
    (pre : List Bytes) (x : Bytes) (post : List Bytes)
    (hpre : ∀ cell ∈ pre, (numericCell mode invalid (classOf parse (rstripNul cell))).isSome)
    (hx : (numericCell mode invalid (classOf parse (rstripNul x))).isSome = false) :
    transformNum parse mode invalidText invalid (pre ++ x :: post) = .error (numErr (parse (rstripNul x))) := by
  cases mode with
  | strict =>
    have h1 : ∀ u ∈ pre.map rstripNul, ∃ v, parse u = .val v := by
      intro u hu
      obtain ⟨cell, hcell, rfl⟩ := List.mem_map.mp hu
      have := hpre cell hcell
      unfold classOf at this
      by_cases hn : npNonEmpty (rstripNul cell) = true
      · cases hp : parse (rstripNul cell) with
        | val v => exact ⟨v, rfl⟩
        | bad => simp [hn, hp, numericCell] at this
        | overflow => simp [hn, hp, numericCell] at this
      · simp [hn, numericCell] at this
    have h2 : ∀ v, parse (rstripNul x) ≠ .val v := by
      intro v hv
      unfold classOf at hx
      by_cases hn : npNonEmpty (rstripNul x) = true
      · simp [hn, hv, numericCell] at hx
      · have := hblank _ (by simpa using hn)
        rw [hv] at this
        cases this
    simp only [transformNum, List.map_append, List.map_cons, astypeAll_first_bad parse _ _ _ h1 h2]
  | allowEmpty =>
    have h1 : ∀ u ∈ (pre.map rstripNul).map (fun t => if npNonEmpty t then t else invalidText), ∃ v, parse u = .val v := by
      intro u hu
      obtain ⟨t, ht, rfl⟩ := List.mem_map.mp hu
      obtain ⟨cell, hcell, rfl⟩ := List.mem_map.mp ht
      have := hpre cell hcell
      unfold classOf at this
      by_cases hn : npNonEmpty (rstripNul cell) = true
      · simp only [hn, if_true] at this ⊢
        cases hp : parse (rstripNul cell) with
        | val v => exact ⟨v, rfl⟩
        | bad => simp [hp, numericCell] at this
        | overflow => simp [hp, numericCell] at this
      · simp only [hn]
        exact ⟨invalid, hinv⟩
    have hn : npNonEmpty (rstripNul x) = true := by
      unfold classOf at hx
      by_cases hn : npNonEmpty (rstripNul x) = true
      · exact hn
      · simp [hn, numericCell] at hx
    have h2 : ∀ v, parse (rstripNul x) ≠ .val v := by
      intro v hv
      unfold classOf at hx
      simp [hn, hv, numericCell] at hx
    have := astypeAll_first_bad parse _ (rstripNul x)
      ((post.map rstripNul).map (fun t => if npNonEmpty t then t else invalidText)) h1 h2
    simp only [transformNum, List.map_append, List.map_cons, hn, if_true, this]
  | relaxed =>
    have h1 : ∀ u ∈ pre.map rstripNul, parse u ≠ .overflow := by
      intro u hu hov
      obtain ⟨cell, hcell, rfl⟩ := List.mem_map.mp hu
      have := hpre cell hcell
      unfold classOf at this
      by_cases hn : npNonEmpty (rstripNul cell) = true
      · simp [hn, hov, numericCell] at this
      · have := hblank _ (by simpa using hn)
        rw [hov] at this
        cases this
    have h2 : parse (rstripNul x) = .overflow := by
      unfold classOf at hx
      by_cases hn : npNonEmpty (rstripNul x) = true
      · cases hp : parse (rstripNul x) with
        | overflow => rfl
        | val v => simp [hn, hp, numericCell] at hx
        | bad => simp [hn, hp, numericCell] at hx
      · simp [hn, numericCell] at hx
    simp only [transformNum, List.map_append, List.map_cons, relaxedAll_first_bad parse invalid _ _ _ h1 h2, h2, numErr]

/-- **every schema-typed importer raises on the first rejected cell of a block** what `rejErr` says -/
theorem impRej_typed (ncols : Nat) (kinds : Nat → FieldKind) (hkinds : ∀ c, c < ncols → KindOK (kinds c)) :
    ImpRej ncols (typedF kinds) (fun c => cellOK (kinds c)) (fun c x err => rejErr (kinds c) x = some err) := by
  intro offs inds vals maxrow c D pre x post hc hsh hcol hcaps hD hpre hx
  obtain ⟨r, hr⟩ : ∃ r, inds[c]? = some r := by obtain ⟨⟨r, hr, _⟩, _⟩ := hcol; exact ⟨r, hr⟩
  have hgo : getE offs c "column_offsets[col_idx]" = .ok (offAt offs c) :=
    getE_eq_ok.mpr (offs_get hsh.offsLen (by omega))
  have hle : offAt offs (c + 1) ≤ vals.length := Nat.le_trans (hsh.mono_le ncols (c + 1) (by omega) (Nat.le_refl _)) hsh.last
  have hencV := encodes_of_colOK hsh hc hcol hr hcaps vals.length (by omega)
  have hKind := hkinds c hc
  replace hD : ∀ cell ∈ D, cellOK (kinds c) cell := hD
  replace hpre : ∀ cell ∈ pre, cellOK (kinds c) cell := hpre
  replace hx : ¬ cellOK (kinds c) x := hx
  show ∃ err, rejErr (kinds c) x = some err ∧ _
  have hxE : x ∈ pre ++ x :: post := by simp
  generalize hEq : pre ++ x :: post = E at hcol hcaps hencV hxE ⊢
  unfold typedF
  generalize kinds c = k at hD hpre hx hKind ⊢
  cases k with
  | indexed => exact absurd trivial hx
  | fixed n => exact absurd trivial hx
  | categorical cats =>
    have hx' : (lookup cats x).isSome = false := by simpa [cellOK] using hx
    have hE : ¬ ∀ cell ∈ E, (lookup cats cell).isSome := by
      intro h; have := h x hxE; rw [hx'] at this; cases this
    refine ⟨notACategory, by simp [rejErr, hx'], ?_⟩
    simp [typedSpec, Imp.importPart, hr, hgo, Imp.typedPart, categoricalImportPart_spec cats hKind _ E hencV,
      catColumn_eq_map cats D hD, catColumn_eq_none cats E hE]
  | leaky cats => exact absurd trivial hx
  | bool mode invalid =>
    obtain ⟨rD, hrD⟩ := numericColumn_some_of_all mode invalid (D.map boolClass)
      (by intro y hy; obtain ⟨cell, hcell, rfl⟩ := List.mem_map.mp hy; exact hD cell hcell)
    have hbt := Exetera.Props.C06.bool_transform_spec
      (chunkOf r vals (offAt offs c) vals.length E.length c inds.length) mode invalid
      E.length E.length E hencV (Nat.le_refl _) (Nat.le_refl _)
    have hx' : (numericCell mode invalid (boolClass x)).isSome = false := by simpa [cellOK] using hx
    cases hrE : numericColumn mode invalid (E.map boolClass) with
    | some rE =>
      have := numericColumn_all_of_some _ _ _ rE hrE (boolClass x) (List.mem_map_of_mem hxE)
      rw [hx'] at this
      cases this
    | none =>
      rw [hrE] at hbt
      refine ⟨.other "Exception", by simp [rejErr, hx'], ?_⟩
      simp [typedSpec, hrD, Imp.importPart, hr, hgo, Imp.typedPart, chunkOf_rows, hbt]
  | numeric p mode it iv =>
    obtain ⟨rD, hrD⟩ := numericColumn_some_of_all mode iv ((D.map rstripNul).map (classOf p.parse))
      (by
        intro y hy
        obtain ⟨t, ht, rfl⟩ := List.mem_map.mp hy
        obtain ⟨cell, hcell, rfl⟩ := List.mem_map.mp ht
        exact hD cell hcell)
    have hcells := cellsE_spec _ E hencV
    have hx' : (numericCell mode iv (classOf p.parse (rstripNul x))).isSome = false := by simpa [cellOK] using hx
    have htn := transformNum_first_bad p.parse mode it iv hKind.1 hKind.2 pre x post hpre hx'
    rw [hEq] at htn
    refine ⟨numErr (p.parse (rstripNul x)), by simp [rejErr, hx'], ?_⟩
    simp only [typedSpec, hrD, Option.map_some, Option.getD_some, Imp.importPart, hr, hgo, Imp.typedPart, hcells, htn]
  | datetime =>
    obtain ⟨rsD, hrsD⟩ := cellsMapE_ok_of_all datetimeCell D hD
    have hcells := cellsE_spec _ E hencV
    cases hf : datetimeCell x with
    | ok v => exact absurd (by simp [cellOK, hf, Except.toOption]) hx
    | error e =>
      have hm := cellsMapE_first_bad datetimeCell pre x post e hpre hf
      rw [hEq] at hm
      refine ⟨e, by simp [rejErr, hf], ?_⟩
      simp [typedSpec, timeColumn, hrsD, Except.toOption, Imp.importPart, hr, hgo, Imp.typedPart, hcells, hm]
  | date =>
    obtain ⟨rsD, hrsD⟩ := cellsMapE_ok_of_all dateCell D hD
    have hcells := cellsE_spec _ E hencV
    cases hf : dateCell x with
    | ok v => exact absurd (by simp [cellOK, hf, Except.toOption]) hx
    | error e =>
      have hm := cellsMapE_first_bad dateCell pre x post e hpre hf
      rw [hEq] at hm
      refine ⟨e, by simp [rejErr, hf], ?_⟩
      simp [typedSpec, timeColumn, hrsD, Except.toOption, Imp.importPart, hr, hgo, Imp.typedPart, hcells, hm]

/-! ### the class of the error, per importer kind -/

/-- a Python `ValueError` (with any message) -/
def IsValueError (e : Err) : Prop := ∃ m, e = .valueError m

theorem mkTimestamp_err {Y M D h mi s us off : Int} {e : Err} (he : mkTimestamp Y M D h mi s us off = .error e) :
    IsValueError e := by
  unfold mkTimestamp at he
  repeat' split at he
  all_goals first | (cases he; exact ⟨_, rfl⟩) | cases he

theorem intAt_err {v : Bytes} {a b : Nat} {e : Err} (he : intAt v a b = .error e) : IsValueError e := by
  unfold intAt at he
  split at he
  · cases he
  · cases he; exact ⟨_, rfl⟩

theorem ymdhms_err {v : Bytes} {e : Err} (he : ymdhms v = .error e) : IsValueError e := by
  unfold ymdhms at he
  repeat' split at he
  all_goals first | (cases he; exact intAt_err (by assumption)) | cases he

theorem utcOffsetMin_err {v : Bytes} {e : Err} (he : utcOffsetMin v = .error e) : IsValueError e := by
  unfold utcOffsetMin at he
  simp only at he
  repeat' split at he
  all_goals first | (cases he; exact intAt_err (by assumption)) | (cases he; exact ⟨_, rfl⟩) | cases he

theorem stampWith_err {v : Bytes} {a b : Nat} {sc : Int} {off : Except Err Int} {e : Err}
    (hoff : ∀ e', off = .error e' → IsValueError e') (he : stampWith v a b sc off = .error e) : IsValueError e := by
  unfold stampWith at he
  split at he
  · cases he; exact ymdhms_err (by assumption)
  · split at he
    · rename_i e' hf
      cases he
      split at hf
      · cases hf
      · exact intAt_err hf
    · split at he
      · cases he; exact hoff _ rfl
      · exact mkTimestamp_err he

theorem parseTimestamp_err {v : Bytes} {e : Err} (he : parseTimestamp v = .error e) : IsValueError e := by
  unfold parseTimestamp at he
  simp only at he
  repeat' split at he
  all_goals first
    | exact stampWith_err (fun _ h => by cases h) he
    | exact stampWith_err (fun _ h => utcOffsetMin_err h) he
    | (cases he; exact ⟨_, rfl⟩)

theorem datetimeCell_err {cell : Bytes} {e : Err} (he : datetimeCell cell = .error e) : IsValueError e := by
  unfold datetimeCell at he
  simp only at he
  split at he
  · cases he
  · split at he
    · cases he; exact parseTimestamp_err (by assumption)
    · cases he

theorem dateCell_err {cell : Bytes} {e : Err} (he : dateCell cell = .error e) : IsValueError e := by
  unfold dateCell at he
  simp only at he
  split at he
  · cases he
  · split at he
    · cases he; exact ⟨_, rfl⟩
    · split at he
      · cases he; exact mkTimestamp_err (by assumption)
      · cases he

/-- **the error class per importer kind and cell class**: bool → `Exception`; int / float → `OverflowError` for an integer
    outside the dtype, `ValueError` for an empty or unparseable text; datetime / date → `ValueError`; categorical without free
    text → `ValueError` (fix NC06d) -/
theorem rejErr_class (k : FieldKind) (x : Bytes) (e : Err) (h : rejErr k x = some e) :
    (∀ mode invalid, k = .bool mode invalid → e = .other "Exception") ∧
    (∀ p mode it iv, k = .numeric p mode it iv →
      (classOf p.parse (rstripNul x) = .outOfRange → e = .other "OverflowError") ∧
      (KindOK k → classOf p.parse (rstripNul x) = .empty ∨ classOf p.parse (rstripNul x) = .garbage →
        e = .valueError "cannot be converted")) ∧
    (k = .datetime ∨ k = .date → IsValueError e) ∧
    (∀ cats, k = .categorical cats → e = .valueError "is not one of the categories") := by
  refine ⟨?_, ?_, ?_, ?_⟩
  rotate_left 3
  · rintro cats rfl
    simp only [rejErr] at h
    split at h
    · cases h
    · cases h; rfl
  · rintro mode invalid rfl
    simp only [rejErr] at h
    split at h
    · cases h
    · cases h; rfl
  · rintro p mode it iv rfl
    simp only [rejErr] at h
    split at h
    · cases h
    · cases h
      refine ⟨?_, ?_⟩
      · intro hc
        unfold classOf at hc
        split at hc
        · cases hp : p.parse (rstripNul x) <;> simp [hp] at hc
          rfl
        · cases hc
      · intro hk hc
        unfold classOf at hc
        split at hc
        · cases hp : p.parse (rstripNul x) <;> simp [hp] at hc
          rfl
        · rename_i hn
          rw [hk.1 _ (by simpa using hn)]
          rfl
  · rintro (rfl | rfl)
    · simp only [rejErr] at h
      split at h
      · cases h; exact datetimeCell_err (by assumption)
      · cases h
    · simp only [rejErr] at h
      split at h
      · cases h; exact dateCell_err (by assumption)
      · cases h

/-- `read_csv_with_schema_dict` on a file in which some selected cell is rejected by its importer: the call raises what the
    importer raises on the reported cell -/
theorem readCsv_typed_raise {file : Bytes} {crs ncols : Nat} {hrow : List Cell} {rows : List (List Cell)}
    (names : List String) (schema : List (String × FieldKind)) (incl excl : Option (List String))
    (hnames : names.length = ncols)
    (hincl : ∀ l, incl = some l → ∀ k ∈ l, k ∈ names) (hexcl : ∀ l, excl = some l → ∀ k ∈ l, k ∈ names)
    (hisFile : IsFile file (render (hrow :: rows))) (hfile : file ≠ [])
    (hhdr : hrow.length = ncols ∧ ∀ c ∈ hrow, c.WF) (htab : ∀ r ∈ rows, r.length = ncols ∧ ∀ c ∈ r, c.WF)
    (hnc : 0 < ncols) (hcrs : 0 < crs)
    (hreg : ∀ l ∈ hrow :: rows, (renderCells l).length ≤ crs * Gen.Csv.CHUNK_ROW_FACTOR * ncols)
    (hkinds : ∀ k ∈ names, KindOK (kindOf schema k))
    (hbad : ¬ ∀ k ∈ fieldsToUse names incl excl, ∀ cell ∈ column (values rows) (names.idxOf k),
      cellOK (kindOf schema k) cell)
    (fuel : Nat)
    (hfuel : rows.length + 2 +
      regrowthBound rows ncols (schemaOffsets names schema crs) (crs * Gen.Csv.CHUNK_ROW_FACTOR) ≤ fuel) :
    ∃ d a c x err,
      Reported rows ((fieldsToUse names incl excl).map (fun k => names.idxOf k)) (fun c => cellOK (kindAt names schema c))
        d a c x ∧
      rejErr (kindAt names schema c) x = some err ∧ readCsv file names schema incl excl crs fuel = .error err := by
  generalize hsz : names.map (fun k => (kindOf schema k).fieldSize) = sizes at hfuel
  have hszlen : sizes.length = ncols := by rw [← hsz]; simp [hnames]
  have hoffs : schemaOffsets names schema crs = offsRec crs 0 sizes := by
    unfold schemaOffsets; rw [hsz, columnOffsets_eq]
  rw [hoffs] at hfuel
  have hstep : ∀ c, c < ncols → offAt (offsRec crs 0 sizes) c < offAt (offsRec crs 0 sizes) (c + 1) := by
    intro c hc
    rw [offsRec_step crs sizes 0 c (by omega)]
    have : 0 < max (sizes.getD c 0) 1 * crs := Nat.mul_pos (by omega) hcrs
    omega
  have huse : ∀ k ∈ fieldsToUse names incl excl, k ∈ names := by
    intro k hk
    unfold fieldsToUse at hk
    cases incl <;> cases excl <;> simp [List.mem_filter] at hk <;> first | exact hk | exact hk.1 | exact hk.1.1
  have st : SettingR file crs ncols ((fieldsToUse names incl excl).map (fun k => names.idxOf k)) hrow rows :=
    { isFile := hisFile, hdr := hhdr, tab := htab, nc := hnc, crsPos := hcrs, reg := hreg
      imOk := by
        intro c hc
        simp only [List.mem_map] at hc
        obtain ⟨k, hk, rfl⟩ := hc
        rw [← hnames]
        exact List.idxOf_lt_length_of_mem (huse k hk) }
  have hkindsAt : ∀ c, c < ncols → KindOK (kindAt names schema c) := by
    intro c hc
    apply hkinds
    have hlt : c < names.length := by omega
    simp [List.getD, List.getElem?_eq_getElem hlt]
  have hhom := impHom_typed ncols (kindAt names schema) hkindsAt
  have hrej := impRej_typed ncols (kindAt names schema) hkindsAt
  have hbad' : ¬ ∀ c ∈ (fieldsToUse names incl excl).map (fun k => names.idxOf k),
      ∀ cell ∈ column (values rows) c, cellOK (kindAt names schema c) cell := by
    intro h
    apply hbad
    intro k hk cell hcell
    have := h (names.idxOf k) (List.mem_map_of_mem hk) cell hcell
    rwa [kindAt_idxOf names schema k (huse k hk)] at this
  obtain ⟨d, a, c, x, err, hrep, herrOf, hrf⟩ := readFile_raise (offs := offsRec crs 0 sizes) st hfile hhom hrej hbad'
    (by rw [offsRec_length, hszlen]) (offsRec_zero _ _ _) hstep fuel hfuel
  have himps : (fieldsToUse names incl excl).map (fun k => ({ kind := kindOf schema k } : Imp)) =
      ((fieldsToUse names incl excl).map (fun k => names.idxOf k)).map (fun c => typedF (kindAt names schema) c []) := by
    rw [List.map_map]
    apply List.map_congr_left
    intro k hk
    simp [typedF, typedSpec_nil, kindAt_idxOf names schema k (huse k hk)]
  have hbi : unknownName names incl = false := by
    cases incl with
    | none => rfl
    | some l => exact any_not_contains_false names l (hincl l rfl)
  have hbe : unknownName names excl = false := by
    cases excl with
    | none => rfl
    | some l => exact any_not_contains_false names l (hexcl l rfl)
  have hoffs' : columnOffsets (names.map (fun k => (kindOf schema k).fieldSize)) crs = offsRec crs 0 sizes := hoffs
  refine ⟨d, a, c, x, err, hrep, herrOf, ?_⟩
  unfold readCsv
  simp only [hbi, hbe, Bool.false_eq_true, if_false, hoffs', himps, hnames, hrf]

end Exetera.Csv
