import Exetera.Lemmas.JoinFlatRun
/-!
  The flat inner-map kernels `ordered_inner_map`, `ordered_inner_map_left_unique`, `ordered_inner_map_both_unique` and
  `ordered_inner_map_result_size` (C19): loop invariant, one-iteration lemma and the result — the two arrays list
  exactly the matching pairs in (left, right) order.
-/
namespace Exetera.JoinFlat
open Exetera Exetera.Spec Exetera.Join

theorem encL_append (a b : List (Nat × Option Nat)) : encL (a ++ b) = encL a ++ encL b := by simp [encL]
theorem encR_append (inv : Int) (a b : List (Nat × Option Nat)) : encR inv (a ++ b) = encR inv a ++ encR inv b := by
  simp [encR]

/-- the matched rows of the left rows from `I` on -/
def irest (L R : List Int) (I : Nat) : List (Nat × Option Nat) := sel false (rest L R I)

theorem irest_unmatched {L R : List Int} {I J : Nat} {a : Int} (hR : Sorted R) (h : Below L R I J)
    (ha : L[I]? = some a) (hJ : J ≤ R.length) (hgt : ∀ b, R[J]? = some b → a < b) :
    irest L R I = irest L R (I + 1) := by
  simp only [irest, rest_unmatched hR h ha hJ hgt, sel_cons_none]
  simp

theorem irest_run {L R : List Int} {I J n m : Nat} {a : Int} (hL : Sorted L) (hR : Sorted R) (h : Below L R I J)
    (hl : IsRun L I n a) (hr : IsRun R J m a) :
    irest L R I = blockRows I J m n ++ irest L R (I + n) := by
  simp only [irest, (rest_run hL hR h hl hr).1, sel_append, sel_blockRows]

structure IInv (L R : List Int) (s : IS) : Prop where
  ile : s.i ≤ L.length
  jle : s.j ≤ R.length
  llen : s.lo.length = s.ro.length
  outL : s.lo ++ encL (irest L R s.i) = encL (irest L R 0)
  outR : s.ro ++ encR 0 (irest L R s.i) = encR 0 (irest L R 0)
  below : Below L R s.i s.j

def imu (L R : List Int) (i j : Nat) : Nat := (L.length - i) + (R.length - j)

theorem innerBody_step {scanL scanR : Bool} {L R : List Int} {cap : Nat} {s : IS} (hL : Sorted L) (hR : Sorted R)
    (huL : scanL = false → L.Pairwise (· < ·)) (huR : scanR = false → R.Pairwise (· < ·))
    (hcap : (irest L R 0).length ≤ cap) (hinv : IInv L R s) (hg : innerGuard L R s = true) :
    ∃ s', innerBody scanL scanR L R cap s = .ok s' ∧ IInv L R s' ∧ imu L R s'.i s'.j < imu L R s.i s.j := by
  simp only [innerGuard, Bool.and_eq_true, decide_eq_true_eq] at hg
  obtain ⟨hi, hj⟩ := hg
  have ha := get?_some_of_lt hi
  have hb := get?_some_of_lt hj
  simp only [innerBody, getE_of_lt _ hi, getE_of_lt _ hj]
  by_cases hlt : L[s.i] < R[s.j]
  · simp only [hlt, if_true]
    have hr := irest_unmatched hR hinv.below ha (by omega) (fun b hb' => by rw [hb] at hb'; cases hb'; exact hlt)
    refine ⟨_, rfl, ⟨by simp only []; omega, hinv.jle, hinv.llen, ?_, ?_, Below.step_left hL hinv.below⟩,
      by simp only [imu]; omega⟩
    · simp only []; rw [← hr]; exact hinv.outL
    · simp only []; rw [← hr]; exact hinv.outR
  · simp only [hlt, if_false]
    by_cases hgt : L[s.i] > R[s.j]
    · simp only [hgt, if_true]
      refine ⟨_, rfl, ⟨hinv.ile, by simp only []; omega, hinv.llen, hinv.outL, hinv.outR, ?_⟩, by simp only [imu]; omega⟩
      apply Below.step_right hinv.below
      intro a b ha' hb'
      rw [ha] at ha'; rw [hb] at hb'; cases ha'; cases hb'; exact hgt
    · simp only [hgt, if_false]
      have heq : R[s.j] = L[s.i] := by omega
      have hb' : R[s.j]? = some L[s.i] := by rw [hb, heq]
      obtain ⟨n, hn, hln⟩ := runLen_isRun scanL hL huL ha
      obtain ⟨m, hm, hrm⟩ := runLen_isRun scanR hR huR hb'
      have hrun := irest_run hL hR hinv.below hln hrm
      have hbel := (rest_run hL hR hinv.below hln hrm).2
      have hoL := hinv.outL
      have hoR := hinv.outR
      rw [hrun, encL_append, encL_blockRows] at hoL
      rw [hrun, encR_append, encR_blockRows] at hoR
      have hlenL := congrArg List.length hinv.outL
      rw [hrun] at hlenL
      simp only [List.length_append, encL_length, blockRows_length] at hlenL
      have hfit : s.lo.length + n * m ≤ cap := by omega
      simp only [hn, hm, hfit, if_true]
      have hnp := hln.pos
      have hmp := hrm.pos
      have hnl := hln.le
      have hml := hrm.le
      refine ⟨_, rfl, ⟨by simp only []; omega, by simp only []; omega, ?_, ?_, ?_, hbel⟩, by simp only [imu]; omega⟩
      · have h1 := congrArg List.length hoL
        have h2 := congrArg List.length hoR
        have := hinv.llen
        simp only [List.length_append, encL_length, encR_length] at h1 h2 ⊢
        omega
      · simpa using hoL
      · simpa using hoR

/-- **the flat inner-map kernels list exactly the matching pairs, in (left, right) order** -/
theorem orderedInnerMap_eq (scanL scanR : Bool) {L R : List Int} (l2i r2i : List Int) (hL : Sorted L) (hR : Sorted R)
    (huL : scanL = false → L.Pairwise (· < ·)) (huR : scanR = false → R.Pairwise (· < ·))
    (hl : (innerJoin L R).length ≤ l2i.length) (hr : (innerJoin L R).length ≤ r2i.length) :
    orderedInnerMap scanL scanR L R l2i r2i =
      .ok ((encodeInner (innerJoin L R)).1 ++ l2i.drop (innerJoin L R).length,
           (encodeInner (innerJoin L R)).2 ++ r2i.drop (innerJoin L R).length) := by
  have hspec := inner_eq_sel_left R L 0
  simp only [encodeInner, Prod.mk.injEq] at hspec
  have hir : irest L R 0 = sel false (leftJoinFrom R L 0) := by simp [irest, rest]
  have hlen : (irest L R 0).length = (innerJoin L R).length := by
    have := congrArg List.length hspec.1
    simp only [List.length_map, encL_length] at this
    rw [hir]; exact this.symm
  have h0 : IInv L R ({} : IS) := ⟨by simp, by simp, rfl, by simp, by simp, Below.zero L R 0⟩
  obtain ⟨s1, hw1, hI1, hg1⟩ := whileE_rule (innerGuard L R) (innerBody scanL scanR L R (min l2i.length r2i.length))
    (IInv L R) (fun s => imu L R s.i s.j)
    (fun s hI hg => innerBody_step hL hR huL huR (by rw [hlen]; omega) hI hg) (L.length + R.length) {} h0 (by simp [imu])
  have hrest : irest L R s1.i = [] := by
    have h1 := hI1.ile
    have h2 := hI1.jle
    simp only [innerGuard, Bool.and_eq_false_iff, decide_eq_false_iff_not] at hg1
    by_cases hi : s1.i < L.length
    · -- the right column is exhausted: no remaining left row has a match
      have hj : s1.j = R.length := by omega
      have key : ∀ k I, I + k = L.length → Below L R I s1.j → irest L R I = [] := by
        intro k
        induction k with
        | zero => intro I hI _; simp [irest, rest_of_ge L R (by omega : L.length ≤ I), sel_nil]
        | succ k ih =>
          intro I hI hb
          have hIl : I < L.length := by omega
          rw [irest_unmatched hR hb (get?_some_of_lt hIl) (by omega) (fun b hb' => by
            have := (List.getElem?_eq_some_iff.mp hb').1; omega)]
          exact ih (I + 1) (by omega) (Below.step_left hL hb)
      exact key (L.length - s1.i) s1.i (by omega) hI1.below
    · simp [irest, rest_of_ge L R (by omega : L.length ≤ s1.i), sel_nil]
  have hoL := hI1.outL
  have hoR := hI1.outR
  rw [hrest] at hoL hoR
  simp only [encL, encR, List.map_nil, List.append_nil] at hoL hoR
  have eL : s1.lo = (innerJoin L R).map (fun p => (p.1 : Int)) := by
    rw [hoL, hir]; exact hspec.1.symm
  have eR : s1.ro = (innerJoin L R).map (fun p => (p.2 : Int)) := by
    rw [hoR, hir]; exact hspec.2.symm
  simp only [orderedInnerMap, hw1, encodeInner]
  rw [eL, eR]
  simp
