import Exetera.Model.JoinFlat
import Exetera.Model.MapValid
import Exetera.Spec.Join
/-!
  Model of the legacy ("_old") re-slicing streamed drivers of exetera/core/operations.py and of the `Session` entry
  points that still use them (C19):

    chunks, generate_ordered_map_to_left_right_unique_streamed_old + …_partial_old,
    ordered_map_valid_stream_old + ordered_map_valid_partial_old,
    Session.ordered_merge_left / ordered_merge_right / ordered_merge_inner (the `streamable` predicate, which kernel
    for which flags, the argument swap of `right`), _map_fields, _streaming_map_fields,
    Session.merge_left / merge_right / merge_inner (pandas.merge is a parameter), Session.get_index, Session.join.

  The code is modelled with the repairs D17 / NC19a / NC19b / NC19c applied (fixes/D17_*.patch, fixes/NC19*.patch).
  The "_old" drivers keep *views* `lc`, `rc` of the current chunks and re-slice them after every partial call
  (`lc = lc[ii:]`); the model keeps exactly those views.
-/
namespace Exetera.JoinOld
open Exetera Exetera.JoinFlat

/-- `INVALID_INDEX = 1 << 62` -/
def INVALID_INDEX : Int := 4611686018427387904

/-- `next(it, (0, 0))` on the generator `chunks(length, chunksize)` whose next chunk starts at `cur` -/
def nextRange (cur len cs : Nat) : Option (Nat × Nat) :=
  if cur < len then some (cur, min len (cur + cs)) else none

/-! ### `generate_ordered_map_to_left_right_unique_streamed_old` -/

/-- state of one `…_partial_old` call: local `i`, `j`, `unmapped`; `buf = left_to_right[0:i]` (the scratch array `ltri`) -/
structure PO where
  i : Nat := 0
  j : Nat := 0
  unmapped : Nat := 0
  buf : List Int := []
  deriving Repr, DecidableEq, Inhabited

/-- one iteration of `generate_ordered_map_to_left_right_unique_partial_old(d_j, left, right, left_to_right, invalid)`
    (D17 repaired: `j` stays on the matching right row) -/
def partialOldBody (dj : Nat) (left right : List Int) (cap : Nat) (inv : Int) (s : PO) : Except Err PO :=
  match getE left s.i "left[i]", getE right s.j "right[j]" with
  | .ok a, .ok b =>
    if a < b then
      if s.i < cap then .ok { s with buf := s.buf ++ [inv], i := s.i + 1, unmapped := s.unmapped + 1 }
      else .error (.oob "left_to_right[i]")
    else if a > b then .ok { s with j := s.j + 1 }
    else if s.i < cap then .ok { s with buf := s.buf ++ [((s.j + dj : Nat) : Int)], i := s.i + 1 }
    else .error (.oob "left_to_right[i]")
  | .error e, _ => .error e
  | _, .error e => .error e

def runPartialOld (dj : Nat) (left right : List Int) (cap : Nat) (inv : Int) : Except Err PO :=
  whileE (fun s : PO => s.i < left.length && s.j < right.length) (partialOldBody dj left right cap inv)
    (left.length + right.length) {}

/-- state of the driver: global `i`, `j`; the chunk generators' positions; `lc_range[1]`, `rc_range[1]`; the views
    `lc`, `rc`; what has been written to `left_to_right`; `unmapped` -/
structure SO where
  i : Nat := 0
  j : Nat := 0
  lcur : Nat
  rcur : Nat
  lhi : Nat
  rhi : Nat
  lc : List Int
  rc : List Int
  out : List Int := []
  unmapped : Nat := 0
  deriving Repr, DecidableEq, Inhabited

/-- one iteration of the driver loop `while i < len(left.data) and j < len(right.data)` -/
def oldBody (left right : List Int) (cs : Nat) (inv : Int) (s : SO) : Except Err SO :=
  match runPartialOld s.j s.lc s.rc cs inv with
  | .error e => .error e
  | .ok p =>
    let out := if p.i > 0 then s.out ++ p.buf else s.out
    let i := s.i + p.i
    let j := s.j + p.j
    if i > s.lhi then .error (.valueError "'i' has got ahead of current chunk")
    else if j > s.rhi then .error (.valueError "'j' has got ahead of current chunk")
    else
      let lnext : Except Err (Nat × Nat × List Int) :=
        if i == s.lhi && i < left.length then
          match nextRange s.lcur left.length cs with
          | some rg => .ok (rg.2, rg.2, slice left rg.1 rg.2)
          | none => .error (.other "StopIteration")
        else .ok (s.lcur, s.lhi, s.lc.drop p.i)
      let rnext : Except Err (Nat × Nat × List Int) :=
        if j == s.rhi && j < right.length then
          match nextRange s.rcur right.length cs with
          | some rg => .ok (rg.2, rg.2, slice right rg.1 rg.2)
          | none => .error (.other "StopIteration")
        else .ok (s.rcur, s.rhi, s.rc.drop p.j)
      match lnext, rnext with
      | .ok l, .ok r =>
        .ok { i := i, j := j, lcur := l.1, lhi := l.2.1, lc := l.2.2, rcur := r.1, rhi := r.2.1, rc := r.2.2,
              out := out, unmapped := s.unmapped + p.unmapped }
      | .error e, _ => .error e
      | _, .error e => .error e

/-- NC19a repaired: `while i < len(left.data): ii = min(chunksize, len - i); ltri[:ii] = invalid; write; i += ii` -/
def oldTailBody (left : List Int) (cs : Nat) (inv : Int) (s : SO) : Except Err SO :=
  let ii := min cs (left.length - s.i)
  .ok { s with out := s.out ++ List.replicate ii inv, i := s.i + ii, unmapped := s.unmapped + ii }

/-- `generate_ordered_map_to_left_right_unique_streamed_old(left, right, left_to_right, invalid, chunksize)`:
    returns (`unmapped > 0`, the contents of `left_to_right`) -/
def streamedOld (left right : List Int) (inv : Int) (cs : Nat) : Except Err (Bool × List Int) :=
  let lr := (nextRange 0 left.length cs).getD (0, 0)
  let rr := (nextRange 0 right.length cs).getD (0, 0)
  let s0 : SO := { lcur := lr.2, rcur := rr.2, lhi := lr.2, rhi := rr.2,
                   lc := slice left lr.1 lr.2, rc := slice right rr.1 rr.2 }
  match whileE (fun s : SO => s.i < left.length && s.j < right.length) (oldBody left right cs inv)
      (left.length + right.length) s0 with
  | .error e => .error e
  | .ok s1 =>
    match whileE (fun s : SO => decide (s.i < left.length)) (oldTailBody left cs inv) left.length s1 with
    | .error e => .error e
    | .ok s2 => .ok (decide (s2.unmapped > 0), s2.out)

/-! ### `ordered_map_valid_stream_old` -/

/-- `ordered_map_valid_partial_old(d, data_field, map_field, result, invalid)` scanning the rest `vs` of `map_field`
    from position `acc.length`; `acc = result[0:i]` (entries for marker rows stay the buffer's zero). Returns
    (`result[0:i]`, `val`). -/
def partialOldMapFrom {α} (d : Nat) (dfc : List α) (inv : Int) (zero : α) (cap : Nat) :
    List Int → List α → Int → Except Err (List α × Int)
  | [], acc, last => .ok (acc, last)
  | v :: vs, acc, _ =>
    if v != inv then
      if v ≥ ((d + dfc.length : Nat) : Int) then .ok (acc, v)
      else
        match MapValid.getI dfc (v - (d : Int)) "data_field[val - d]" with
        | .error e => .error e
        | .ok x =>
          if acc.length < cap then partialOldMapFrom d dfc inv zero cap vs (acc ++ [x]) v
          else .error (.oob "result[i]")
    else partialOldMapFrom d dfc inv zero cap vs (acc ++ [zero]) v

def partialOldMap {α} (d : Nat) (dfc : List α) (mfc : List Int) (inv : Int) (zero : α) (cap : Nat) :
    Except Err (List α × Int) :=
  match mfc with
  | [] => .error (.oob "map_field[i]")
  | v :: vs => partialOldMapFrom d dfc inv zero cap (v :: vs) [] v

structure MO (α : Type) where
  m : Nat := 0
  dcur : Nat
  dlo : Nat
  dhi : Nat
  mcur : Nat
  mhi : Nat
  dfc : List α
  mfc : List Int
  out : List α := []
  deriving Repr, DecidableEq, Inhabited

/-- one iteration of `while m < len(map_field.data)` -/
def mapOldBody {α} (data : List α) (map_ : List Int) (inv : Int) (cs : Nat) (zero : α) (s : MO α) : Except Err (MO α) :=
  match partialOldMap s.dlo s.dfc s.mfc inv zero cs with
  | .error e => .error e
  | .ok (buf, dd) =>
    let mm := buf.length
    let out := if mm > 0 then s.out ++ buf else s.out
    let m := s.m + mm
    let mnext : Except Err (Nat × Nat × List Int) :=
      if m == s.mhi && m < map_.length then
        match nextRange s.mcur map_.length cs with
        | some rg => .ok (rg.2, rg.2, slice map_ rg.1 rg.2)
        | none => .error (.other "StopIteration")
      else .ok (s.mcur, s.mhi, s.mfc.drop mm)
    let dnext : Except Err (Nat × Nat × Nat × List α) :=
      if dd ≥ (s.dhi : Int) && dd < (data.length : Int) then
        match nextRange s.dcur data.length cs with
        | some rg => .ok (rg.2, rg.1, rg.2, slice data rg.1 rg.2)
        | none => .error (.other "StopIteration")
      else .ok (s.dcur, s.dlo, s.dhi, s.dfc)
    match mnext, dnext with
    | .ok a, .ok b =>
      .ok { m := m, mcur := a.1, mhi := a.2.1, mfc := a.2.2, dcur := b.1, dlo := b.2.1, dhi := b.2.2.1, dfc := b.2.2.2,
            out := out }
    | .error e, _ => .error e
    | _, .error e => .error e

/-- `ordered_map_valid_stream_old(data_field, map_field, result_field, invalid, chunksize)`: what is written to
    `result_field` (NC19c repaired: an empty column is the single empty chunk) -/
def mapValidStreamOld {α} (data : List α) (map_ : List Int) (inv : Int) (cs : Nat) (zero : α) : Except Err (List α) :=
  let dr := (nextRange 0 data.length cs).getD (0, 0)
  let mr := (nextRange 0 map_.length cs).getD (0, 0)
  let s0 : MO α := { dcur := dr.2, dlo := dr.1, dhi := dr.2, mcur := mr.2, mhi := mr.2,
                     dfc := slice data dr.1 dr.2, mfc := slice map_ mr.1 mr.2 }
  match whileE (fun s : MO α => decide (s.m < map_.length)) (mapOldBody data map_ inv cs zero)
      (map_.length + data.length + 1) s0 with
  | .error e => .error e
  | .ok s => .ok s.out

/-! ### `Session.ordered_merge_left / right / inner` -/

/-- what the caller passes as `left_field_sinks`: nothing, fields (appended to), or ndarrays (written in place) -/
inductive Sinks where
  | none
  | fields
  | arrays (init : List (List Int))
  deriving Repr, DecidableEq, Inhabited

/-- the shape of the call (everything `streamable` looks at) -/
structure Cfg where
  keysAreFields : Bool
  sourcesAreFields : Bool
  sinks : Sinks
  mapGiven : Bool          -- `left_to_right_map` is a Field (not None)
  deriving Repr, DecidableEq, Inhabited

/-- `streamable = is_field(left_on) and is_field(right_on) and is_field(sources[0]) and sinks is not None and
    is_field(sinks[0]) and left_to_right_map is not None` -/
def streamable (c : Cfg) : Bool :=
  c.keysAreFields && c.sourcesAreFields && (c.sinks == .fields) && c.mapGiven

/-- a payload column: numeric values, or an indexed string field (offsets + bytes) -/
inductive Payload where
  | numeric (xs : List Int)
  | indexed (indices values : List Int)
  deriving Repr, DecidableEq, Inhabited

structure MergeOut where
  returned : Option (List (List Int))   -- the tuple returned when no sinks are given
  sinks : List (List Int)               -- contents of the sinks afterwards
  map : Option (List Int)               -- contents of the map field (streamed form only)
  deriving Repr, DecidableEq, Inhabited

/-- NC19d (open): `_map_fields` / `_streaming_map_fields` have no indexed-string path: `array_from_parameter` returns the
    pair `(indices, values)` and `map_valid` fails to type -/
def numericOf : Payload → Except Err (List Int)
  | .numeric xs => .ok xs
  | .indexed _ _ => .error (.other "TypingError")

def mapM' {α β} (f : α → Except Err β) : List α → Except Err (List β)
  | [] => .ok []
  | x :: xs =>
    match f x with
    | .error e => .error e
    | .ok y =>
      match mapM' f xs with
      | .error e => .error e
      | .ok ys => .ok (y :: ys)

/-- one payload through `ops.map_valid(src_, field_map, snk_, invalid)` -/
def mapValidPayload (fieldMap : List Int) (init : Option (List Int)) (inv : Int) (p : Payload) : Except Err (List Int) :=
  match numericOf p with
  | .error e => .error e
  | .ok xs => MapValid.mapValid xs fieldMap init inv 0

/-- `_map_fields(field_map, field_sources, field_sinks, invalid)` -/
def mapFields (fieldMap : List Int) (srcs : List Payload) (sinks : Sinks) (inv : Int) : Except Err MergeOut :=
  match sinks with
  | .none =>
    match mapM' (mapValidPayload fieldMap none inv) srcs with
    | .error e => .error e
    | .ok outs => .ok ⟨some outs, [], none⟩
  | .fields =>
    match mapM' (mapValidPayload fieldMap none inv) srcs with
    | .error e => .error e
    | .ok outs => .ok ⟨none, outs, none⟩
  | .arrays init =>
    match mapM' (fun (p : Payload × List Int) => mapValidPayload fieldMap (some p.2) inv p.1) (srcs.zip init) with
    | .error e => .error e
    | .ok outs => .ok ⟨none, outs, none⟩

/-- one payload through `ops.ordered_map_valid_stream_old(src_, map_, snk_, invalid)` -/
def streamPayload (fieldMap : List Int) (inv : Int) (cs : Nat) (p : Payload) : Except Err (List Int) :=
  match numericOf p with
  | .error e => .error e
  | .ok xs => mapValidStreamOld xs fieldMap inv cs 0

/-- `_streaming_map_fields(field_map, field_sources, field_sinks, invalid)` with the session's chunk size `cs` -/
def streamingMapFields (fieldMap : List Int) (srcs : List Payload) (inv : Int) (cs : Nat) : Except Err (List (List Int)) :=
  mapM' (streamPayload fieldMap inv cs) srcs

def Sinks.count : Sinks → Option Nat
  | .none => Option.none
  | .fields => Option.none          -- the harness passes as many sink fields as sources
  | .arrays init => some init.length

/-- `Session.ordered_merge_left(left_on, right_on, right_field_sources, left_field_sinks, left_to_right_map,
    left_unique, right_unique)`; `cs` is the chunk size of the streamed helpers (`1 << 20` in the code). -/
def orderedMergeLeft (cs : Nat) (c : Cfg) (leftUnique rightUnique : Bool) (leftOn rightOn : List Int)
    (srcs : List Payload) : Except Err MergeOut :=
  -- the message of this `raise ValueError(msg.format(a, b))` has four placeholders: `str.format` raises IndexError
  if c.sinks.count.any (· != srcs.length) then .error (.oob "msg.format")
  else if srcs.isEmpty then .error (.oob "fields[0]")     -- `val.all_same_basic_type(…, right_field_sources)`
  else if !rightUnique then .error (.valueError "Right key must not have duplicates")
  else
    let st := streamable c
    let mapE : Except Err (List Int) :=
      if !leftUnique && st then
        match streamedOld leftOn rightOn INVALID_INDEX cs with
        | .error e => .error e
        | .ok r => .ok r.2
      else
        match generateLeft leftUnique leftOn rightOn (List.replicate leftOn.length 0) INVALID_INDEX with
        | .error e => .error e
        | .ok r => .ok r.2
    match mapE with
    | .error e => .error e
    | .ok m =>
      if st then
        match streamingMapFields m srcs INVALID_INDEX cs with
        | .error e => .error e
        | .ok outs => .ok ⟨none, outs, some m⟩
      else mapFields m srcs c.sinks INVALID_INDEX

/-- `Session.ordered_merge_right(left_on, right_on, left_field_sources, right_field_sinks, right_to_left_map,
    left_unique, right_unique)` = `ordered_merge_left` with the two sides swapped -/
def orderedMergeRight (cs : Nat) (c : Cfg) (leftUnique rightUnique : Bool) (leftOn rightOn : List Int)
    (srcs : List Payload) : Except Err MergeOut :=
  orderedMergeLeft cs c rightUnique leftUnique rightOn leftOn srcs

structure InnerOut where
  left : MergeOut
  right : MergeOut
  deriving Repr, DecidableEq, Inhabited

/-- the two maps `Session.ordered_merge_inner` computes: (left_to_inner, right_to_inner) -/
def innerMaps (leftUnique rightUnique : Bool) (leftOn rightOn : List Int) : Except Err (List Int × List Int) :=
  match innerResultSize leftOn rightOn with
  | .error e => .error e
  | .ok n =>
    let z := List.replicate n (0 : Int)
    if !leftUnique then
      if !rightUnique then orderedInnerMap true true leftOn rightOn z z
      else
        -- `ops.ordered_inner_map_left_unique(right_data, left_data, right_to_inner, left_to_inner)`
        match orderedInnerMap false true rightOn leftOn z z with
        | .error e => .error e
        | .ok p => .ok (p.2, p.1)
    else
      if !rightUnique then orderedInnerMap false true leftOn rightOn z z
      else orderedInnerMap false false leftOn rightOn z z

/-- `Session.ordered_merge_inner(left_on, right_on, left_field_sources, left_field_sinks, right_field_sources,
    right_field_sinks, left_unique, right_unique)` -/
def orderedMergeInner (leftUnique rightUnique : Bool) (leftOn rightOn : List Int)
    (lsrcs : List Payload) (lsinks : Sinks) (rsrcs : List Payload) (rsinks : Sinks) : Except Err InnerOut :=
  if lsinks.count.any (· != lsrcs.length) then .error (.oob "msg.format")
  else if lsrcs.isEmpty then .error (.oob "fields[0]")
  else if rsinks.count.any (· != rsrcs.length) then .error (.oob "msg.format")
  else if rsrcs.isEmpty then .error (.oob "fields[0]")
  else
    match innerMaps leftUnique rightUnique leftOn rightOn with
    | .error e => .error e
    | .ok (l2i, r2i) =>
      match mapFields l2i lsrcs lsinks INVALID_INDEX, mapFields r2i rsrcs rsinks INVALID_INDEX with
      | .ok a, .ok b => .ok ⟨a, b⟩
      | .error e, _ => .error e
      | _, .error e => .error e

/-! ### `Session.merge_left / merge_right / merge_inner` (pandas.merge is the parameter `pd`) -/

/-- what `df['r_index'].to_numpy(dtype=int64)` holds for a NaN (never read: the filter is false there) -/
def NAN_AS_INT : Int := -9223372036854775808

inductive POut where
  | numeric (xs : List Int)
  | indexed (indices values : List Int)
  deriving Repr, DecidableEq, Inhabited

/-- one payload through `safe_map_values` / `safe_map_indexed_values` -/
def safeMapPayload (m : List Int) (filt : List Bool) : Payload → Except Err POut
  | .numeric xs =>
    match MapValid.safeMapValues xs m filt none 0 with
    | .error e => .error e
    | .ok o => .ok (.numeric o)
  | .indexed indices values =>
    match MapValid.safeMapIndexedValues indices values m filt [] with
    | .error e => .error e
    | .ok o => .ok (.indexed o.1 o.2)

/-- `Session.merge_left(left_on, right_on, right_fields, right_writers)`: the mapped right payloads (returned, or
    written to the writers — the same values either way). `pd l r` is `pandas.merge(how='left')` as row pairs. -/
def mergeLeft (pd : List Int → List Int → List (Nat × Option Nat)) (leftOn rightOn : List Int) (rfields : List Payload) :
    Except Err (List POut) :=
  let rows := pd leftOn rightOn
  let m := rows.map (fun p => Spec.encCell NAN_AS_INT p.2)
  let filt := rows.map (fun p => p.2.isSome)
  mapM' (safeMapPayload m filt) rfields

/-- `Session.merge_right`: `pandas.merge(left=r_df, right=l_df, how='left')` -/
def mergeRight (pd : List Int → List Int → List (Nat × Option Nat)) (leftOn rightOn : List Int) (lfields : List Payload) :
    Except Err (List POut) :=
  mergeLeft pd rightOn leftOn lfields

/-- `Session.merge_inner`; `pdi l r` is `pandas.merge(how='inner')` as row pairs -/
def mergeInner (pdi : List Int → List Int → List (Nat × Nat)) (leftOn rightOn : List Int)
    (lfields rfields : List Payload) : Except Err (List POut × List POut) :=
  let rows := pdi leftOn rightOn
  let lm := rows.map (fun p => (p.1 : Int))
  let rm := rows.map (fun p => (p.2 : Int))
  let filt := rows.map (fun _ => true)
  match mapM' (safeMapPayload lm filt) lfields, mapM' (safeMapPayload rm filt) rfields with
  | .ok a, .ok b => .ok (a, b)
  | .error e, _ => .error e
  | _, .error e => .error e

/-! ### `Session.get_index` -/

structure GI where
  dict : List (Int × Int)      -- `target_lookup`; a newer binding is consed in front
  cur : Int                    -- `current_invalid`
  out : List Int := []
  deriving Repr, DecidableEq, Inhabited

/-- `for i, v in enumerate(target_): target_lookup[v] = i` (the last occurrence wins) -/
def buildLookup : List Int → Nat → List (Int × Int) → List (Int × Int)
  | [], _, d => d
  | v :: vs, i, d => buildLookup vs (i + 1) ((v, (i : Int)) :: d)

/-- one iteration of the loop over the foreign keys -/
def getIndexStep (s : GI) (k : Int) : GI :=
  let index := (s.dict.lookup k).getD s.cur
  if index ≥ INVALID_INDEX then { dict := (k, index) :: s.dict, cur := s.cur + 1, out := s.out ++ [index] }
  else { s with out := s.out ++ [index] }

/-- `Session.get_index(target, foreign_key)` -/
def getIndex (target fk : List Int) : List Int :=
  (fk.foldl getIndexStep { dict := buildLookup target 0 [], cur := INVALID_INDEX }).out

/-! ### `Session.join` -/

/-- `get_spans(field=fkey)[:-1]`: the first row of every run of equal values -/
def runStartsFrom : Option Int → List Int → Nat → List Nat
  | _, [], _ => []
  | prev, x :: xs, i => if prev == some x then runStartsFrom (some x) xs (i + 1) else i :: runStartsFrom (some x) xs (i + 1)

def runStarts (xs : List Int) : List Nat := runStartsFrom none xs 0

/-- `dest[idx] = v` for computed `idx` (negative indices count from the end) -/
def setI (xs : List Int) (idx : Int) (v : Int) (site : String) : Except Err (List Int) :=
  if 0 ≤ idx then setE xs idx.toNat v site
  else if (-idx).toNat ≤ xs.length then setE xs (xs.length - (-idx).toNat) v site
  else .error (.oob site)

def scatter : List Int → List (Int × Int) → Except Err (List Int)
  | dest, [] => .ok dest
  | dest, (k, v) :: rest =>
    match setI dest k v "destination_space_values[safe_unique_fkey_indices]" with
    | .error e => .error e
    | .ok d => scatter d rest

/-- `Session.join(destination_pkey, fkey_indices, values_to_join)`: `values_to_join` has one entry per run of
    `fkey_indices`; returns the values in the space of the destination primary key (zero where nothing maps) -/
def join (destLen : Nat) (fkey values : List Int) : Except Err (List Int) :=
  match mapM' (fun s => getE fkey s "raw_fkey_indices[spans]") (runStarts fkey) with
  | .error e => .error e
  | .ok uniq =>
    if uniq.length != values.length then .error (.oob "raw_values_to_join[invalid_filter]")
    else
      let kept := (uniq.zip values).filter (fun p => p.1 < INVALID_INDEX)
      scatter (List.replicate destLen 0) kept

end Exetera.JoinOld
