import Exetera.Lemmas.GroupByIndexed
import Exetera.Lemmas.GroupByConservative
/-!
# C07 — group-by results equal the group-wise reference computation

The theorems are about the definitions of `Model/GroupBy.lean`, `Model/SortIndex.lean` and `Model/Spans.lean` that the
correspondence driver runs (`Driver/C07.lean`), with the `fix:` patches D18 / NC08b / D20 applied (`Variant.repaired`), and
about `Spec/GroupBy.lean`.  They hold for every number of rows (zero included), every number ≥ 1 of key columns, all
values and ANY mix of key kinds: a key column is a list of values compared in its own order (numbers of any dtype as
they are; fixed and indexed strings rank-coded in their bytewise order, which is all the code looks at).

* a key column is `(cast, data)`; `keyRows n cols` are the frame's key tuples, one per row;
* `.ok` results mean: no out-of-bounds access in any modelled kernel, no ValueError from a guard;
* `cast` is what stacking the key columns into one numpy array did to the column AS FOUND (finding D20): since fix D20
  (`groupby .repaired` = `groupbyCols`: every key column is compared in its own dtype) the code never applies it, and the
  full theorems `groupby_eq_spec`, `groupby_count_eq_spec`, `drop_duplicates_eq_spec`, `groupby_indexed_eq_spec`,
  `sorted_hint_irrelevant` carry NO hypothesis about it.
* `Faithful keys` — every column's stacking cast preserves `<` on the values that occur in that column — was the
  hypothesis of the `_partial` theorems while D20 was open (true for keys of one dtype, false for int64 beyond 2^53
  next to a float column and for integers next to strings). The `_partial` statements are kept (now corollaries);
  `stacked_eq_columnwise_on_faithful_keys` shows that on such keys the repair changes nothing; the as-found behaviour
  on the other keys is `Witness/C07.lean`.
-/
namespace Exetera.Props.C07
open Exetera Exetera.GroupBy Exetera.Spec Exetera.Spans

/-- a well-formed frame: at least one key column, every key column has `n` rows -/
def Frame (keys : List KeyCol) (n : Nat) : Prop := keys ≠ [] ∧ ∀ k ∈ keys, k.data.length = n

/-- the key columns' field data -/
def cols (keys : List KeyCol) : List (List Int) := keys.map (·.data)

/-- all key columns have the same dtype: stacking casts nothing -/
def SameDtype (keys : List KeyCol) : Prop := ∀ k ∈ keys, k.cast = id

theorem same_dtype_faithful {keys : List KeyCol} (h : SameDtype keys) : Faithful keys := by
  intro k hk a _ b _ hab; rw [h k hk]; exact hab

-- a mixed int64 / float64 key below 2^53 is faithful: the `_partial` theorems apply to it
example : Faithful [⟨castF64, [3, 1, 2, 1]⟩, ⟨id, [0, 0, 1, 1]⟩] := by
  unfold Faithful CastFaithfulOn; decide

private theorem frame_cases {keys : List KeyCol} {n : Nat} (h : Frame keys n) :
    ∃ k0 ks, keys = k0 :: ks ∧ Rect n ((k0 :: ks).map (·.data)) := by
  obtain ⟨hne, hl⟩ := h
  cases keys with
  | nil => exact absurd rfl hne
  | cons k0 ks =>
    refine ⟨k0, ks, rfl, ?_⟩
    intro c hc
    simp only [List.mem_map] at hc
    obtain ⟨k, hk, rfl⟩ := hc
    exact hl k hk

/-! ## the sort index -/

/-- **`Session.dataset_sort_index` is the stable lexicographic sort.** For `n`-row key columns and the start index
    `arange(n)` it returns — without an IndexError — a permutation `idx` of the row numbers along which the pair
    (key tuple, row number) strictly increases: key tuples are non-decreasing in lexicographic order (first key most
    significant) and rows with equal key tuples keep their original order. (`ltBy cs i j` :=
    `tupleLt (key i) (key j) ∨ (key i = key j ∧ i < j)`.) The only assumption on `np.argsort(kind='stable')` is that it
    is a stable sort; in the model it is `List.mergeSort`. -/
theorem lexsort_is_stable_lex_sort (c0 : List Int) (cs : List (List Int)) (n : Nat) (h : ∀ c ∈ c0 :: cs, c.length = n) :
    ∃ idx, SortIndex.datasetSortIndex (c0 :: cs) (List.range n) = .ok idx ∧ idx.Perm (List.range n) ∧
      idx.Pairwise (SortIndex.ltBy (c0 :: cs)) :=
  SortIndex.datasetSortIndex_spec c0 cs n h

example : SortIndex.datasetSortIndex [[1, 0, 1, 0], [5, 7, 3, 7]] (List.range 4) = .ok [1, 3, 2, 0] := by
  simp [SortIndex.datasetSortIndex, SortIndex.sortLoop, SortIndex.sortPass, SortIndex.gather, SortIndex.argsortStable, getE,
    List.mergeSort, List.zipIdx, List.range, List.range.loop, SortIndex.leKey, List.MergeSort.Internal.splitInTwo]

/-! ## min / max / first / last -/

/-- **`df.groupby(by, hint).min|max|first|last(target, ddf)` equals the group-wise reference** (numeric and fixed-string
    targets), sorted or not, with or without a truthful hint: the call succeeds; the written key columns are the columns
    of `outKeys`, the distinct key tuples of the frame in ascending order; the value column holds, for each of them, the
    minimum / maximum / first / last of the target values of that key's rows taken in ORIGINAL row order.
    No hypothesis on the dtypes of the key columns (fix D20). -/
theorem groupby_eq_spec (agg : Agg) (keys : List KeyCol) (hint : Bool) (target : List Int) (n : Nat)
    (hframe : Frame keys n) (htarget : target.length = n)
    (hhint : hint = true → RowsSorted (keyRows n (cols keys))) :
    ∃ kcols vals outKeys, groupbyAgg .repaired agg keys hint [.plain target] = .ok ⟨kcols, [.ints vals]⟩ ∧
      ColumnsOf kcols outKeys ∧ IsGroupBy (keyRows n (cols keys)) target (aggSpec agg) outKeys vals := by
  obtain ⟨k0, ks, rfl, hrect⟩ := frame_cases hframe
  have := groupbyAgg_spec agg k0 ks hint target n hrect htarget
    (fun h => sortedRows_of_rowsSorted _ n hrect (hhint h))
  rw [← keyRows_eq_rowsBy _ n hrect] at this
  exact this

/-- the statement registered while D20 was open (hypothesis `Faithful keys`); now a corollary of `groupby_eq_spec` -/
theorem groupby_eq_spec_partial (agg : Agg) (keys : List KeyCol) (hint : Bool) (target : List Int) (n : Nat)
    (hframe : Frame keys n) (htarget : target.length = n) (_hcast : Faithful keys)
    (hhint : hint = true → RowsSorted (keyRows n (cols keys))) :
    ∃ kcols vals outKeys, groupbyAgg .repaired agg keys hint [.plain target] = .ok ⟨kcols, [.ints vals]⟩ ∧
      ColumnsOf kcols outKeys ∧ IsGroupBy (keyRows n (cols keys)) target (aggSpec agg) outKeys vals :=
  groupby_eq_spec agg keys hint target n hframe htarget hhint

-- non-vacuity, D20's first witness: int64 keys 2^53+1, 2^53, 2^53+1 next to a float64 key column (`castF64` is what
-- stacking did to the first column): a well-formed frame, NOT faithful, and the repaired code returns the two groups
example : Frame [⟨castF64, [9007199254740993, 9007199254740992, 9007199254740993]⟩, ⟨id, [0, 0, 0]⟩] 3 ∧
    ¬ Faithful [⟨castF64, [9007199254740993, 9007199254740992, 9007199254740993]⟩, ⟨id, [0, 0, 0]⟩] := by
  refine ⟨⟨by simp, by simp⟩, fun h => ?_⟩
  have := h _ (List.mem_cons_self ..) 9007199254740992 (by simp) 9007199254740993 (by simp) (by decide)
  revert this; decide
private theorem ex_sort_d20 :
    SortIndex.datasetSortIndex [[9007199254740993, 9007199254740992, 9007199254740993], [0, 0, 0]] (List.range 3) = .ok [1, 0, 2] := by
  simp [SortIndex.datasetSortIndex, SortIndex.sortLoop, SortIndex.sortPass, SortIndex.gather, SortIndex.argsortStable, getE,
    List.mergeSort, List.zipIdx, List.range, List.range.loop, SortIndex.leKey, List.MergeSort.Internal.splitInTwo]
private theorem ex_g_d20 :
    groupby .repaired [⟨castF64, [9007199254740993, 9007199254740992, 9007199254740993]⟩, ⟨id, [0, 0, 0]⟩] false =
      .ok ⟨some [1, 0, 2], [0, 1, 3]⟩ := by
  have h2 : keysSorted [[9007199254740993, 9007199254740992, 9007199254740993], [0, 0, 0]] = false := by decide
  simp only [groupby, groupbyCols, readKeys, List.map, List.all, nrows, List.length, Nat.zero_add, Nat.reduceAdd, h2,
    BEq.rfl, Bool.and_self, if_true, Bool.or_self, Bool.false_eq_true, if_false, ex_sort_d20]
  rfl
example : groupbyAgg .repaired .max [⟨castF64, [9007199254740993, 9007199254740992, 9007199254740993]⟩, ⟨id, [0, 0, 0]⟩] false
    [.plain [5, 6, 7]] = .ok ⟨[[9007199254740992, 9007199254740993], [0, 0]], [.ints [6, 7]]⟩ := by
  simp only [groupbyAgg, ex_g_d20]
  rfl

/-- `min`, spelled out: value `j` is the minimum of the target over the rows whose key tuple is `outKeys[j]` -/
theorem groupby_min_eq_spec (keys : List KeyCol) (hint : Bool) (target : List Int) (n : Nat)
    (hframe : Frame keys n) (htarget : target.length = n)
    (hhint : hint = true → RowsSorted (keyRows n (cols keys))) :
    ∃ kcols vals outKeys, groupbyAgg .repaired .min keys hint [.plain target] = .ok ⟨kcols, [.ints vals]⟩ ∧
      ColumnsOf kcols outKeys ∧ DistinctAscending (keyRows n (cols keys)) outKeys ∧
      vals.map some = outKeys.map (fun k => (select (keyRows n (cols keys)) target k).min?) :=
  groupby_eq_spec .min keys hint target n hframe htarget hhint

/-- `last`, spelled out: value `j` is the target value of the LAST row (in original order) whose key tuple is `outKeys[j]` -/
theorem groupby_last_eq_spec (keys : List KeyCol) (hint : Bool) (target : List Int) (n : Nat)
    (hframe : Frame keys n) (htarget : target.length = n)
    (hhint : hint = true → RowsSorted (keyRows n (cols keys))) :
    ∃ kcols vals outKeys, groupbyAgg .repaired .last keys hint [.plain target] = .ok ⟨kcols, [.ints vals]⟩ ∧
      ColumnsOf kcols outKeys ∧ DistinctAscending (keyRows n (cols keys)) outKeys ∧
      vals.map some = outKeys.map (fun k => (select (keyRows n (cols keys)) target k).getLast?) :=
  groupby_eq_spec .last keys hint target n hframe htarget hhint

-- non-vacuity: an unsorted two-key frame with a repeated key tuple; hypotheses hold, and the model's answer is the reference
example : Frame [⟨id, [1, 0, 1, 0, 1]⟩, ⟨id, [5, 7, 5, 7, 3]⟩] 5 ∧ SameDtype [⟨id, [1, 0, 1, 0, 1]⟩, ⟨id, [5, 7, 5, 7, 3]⟩] :=
  ⟨⟨by simp, by simp⟩, by simp [SameDtype]⟩
private theorem ex_sort : SortIndex.datasetSortIndex [[1, 0, 1, 0, 1], [5, 7, 5, 7, 3]] (List.range 5) = .ok [1, 3, 4, 0, 2] := by
  simp [SortIndex.datasetSortIndex, SortIndex.sortLoop, SortIndex.sortPass, SortIndex.gather, SortIndex.argsortStable, getE,
    List.mergeSort, List.zipIdx, List.range, List.range.loop, SortIndex.leKey, List.MergeSort.Internal.splitInTwo]
private theorem ex_g_5 : groupby .repaired [⟨id, [1, 0, 1, 0, 1]⟩, ⟨id, [5, 7, 5, 7, 3]⟩] false = .ok ⟨some [1, 3, 4, 0, 2], [0, 2, 3, 5]⟩ := by
  have h2 : keysSorted [[1, 0, 1, 0, 1], [5, 7, 5, 7, 3]] = false := by decide
  simp only [groupby, groupbyCols, readKeys, List.map, List.all, nrows, List.length, Nat.zero_add, Nat.reduceAdd, h2,
    BEq.rfl, Bool.and_self, if_true, Bool.or_self, Bool.false_eq_true, if_false, ex_sort]
  rfl
example : groupbyAgg .repaired .last [⟨id, [1, 0, 1, 0, 1]⟩, ⟨id, [5, 7, 5, 7, 3]⟩] false [.plain [10, 20, 30, 40, 50]] =
    .ok ⟨[[0, 1, 1], [7, 3, 5]], [.ints [40, 50, 30]]⟩ := by
  simp only [groupbyAgg, ex_g_5]
  rfl
example : groupbyAgg .repaired .min [⟨id, [0, 0, 1, 1, 1]⟩] true [.plain [4, 2, 9, 7, 8]] =
    .ok ⟨[[0, 1]], [.ints [2, 7]]⟩ := rfl
example : RowsSorted (keyRows 5 (cols [⟨id, [0, 0, 1, 1, 1]⟩])) := by simp [RowsSorted, keyRows, cols, tupleLt]

/-! ## count, distinct / drop_duplicates -/

/-- **`df.groupby(by, hint).count(ddf)`**: one row per distinct key tuple, ascending, with the number of rows carrying
    that key; **the counts sum to the number of rows**. -/
theorem groupby_count_eq_spec (keys : List KeyCol) (hint : Bool) (n : Nat) (hframe : Frame keys n)
    (hhint : hint = true → RowsSorted (keyRows n (cols keys))) :
    ∃ kcols counts outKeys, groupbyCount .repaired keys hint = .ok ⟨kcols, [.ints counts]⟩ ∧
      ColumnsOf kcols outKeys ∧ IsGroupCount (keyRows n (cols keys)) outKeys counts ∧ counts.sum = n := by
  obtain ⟨k0, ks, rfl, hrect⟩ := frame_cases hframe
  have := groupbyCount_spec k0 ks hint n hrect (fun h => sortedRows_of_rowsSorted _ n hrect (hhint h))
  rw [← keyRows_eq_rowsBy _ n hrect] at this
  exact this

/-- the statement registered while D20 was open; now a corollary -/
theorem groupby_count_eq_spec_partial (keys : List KeyCol) (hint : Bool) (n : Nat) (hframe : Frame keys n)
    (_hcast : Faithful keys) (hhint : hint = true → RowsSorted (keyRows n (cols keys))) :
    ∃ kcols counts outKeys, groupbyCount .repaired keys hint = .ok ⟨kcols, [.ints counts]⟩ ∧
      ColumnsOf kcols outKeys ∧ IsGroupCount (keyRows n (cols keys)) outKeys counts ∧ counts.sum = n :=
  groupby_count_eq_spec keys hint n hframe hhint

-- D20's first witness: two groups, counts 1 and 2 (as found: ONE group of 3 rows, `Witness.C07.d20_float_collapses_groups`)
example : groupbyCount .repaired [⟨castF64, [9007199254740993, 9007199254740992, 9007199254740993]⟩, ⟨id, [0, 0, 0]⟩] false =
    .ok ⟨[[9007199254740992, 9007199254740993], [0, 0]], [.ints [1, 2]]⟩ := by
  simp only [groupbyCount, ex_g_d20]
  rfl

/-- `counts_sum_to_n` on its own -/
theorem counts_sum_to_n (keys : List KeyCol) (hint : Bool) (n : Nat) (hframe : Frame keys n)
    (hhint : hint = true → RowsSorted (keyRows n (cols keys))) :
    ∃ kcols counts, groupbyCount .repaired keys hint = .ok ⟨kcols, [.ints counts]⟩ ∧ counts.sum = n := by
  obtain ⟨kcols, counts, _, h, _, _, hs⟩ := groupby_count_eq_spec keys hint n hframe hhint
  exact ⟨kcols, counts, h, hs⟩

example : groupbyCount .repaired [⟨id, [1, 0, 1, 0, 1]⟩, ⟨id, [5, 7, 5, 7, 3]⟩] false =
    .ok ⟨[[0, 1, 1], [7, 3, 5]], [.ints [2, 1, 2]]⟩ := by
  simp only [groupbyCount, ex_g_5]
  rfl

/-- **`df.groupby(by, hint).distinct(ddf)` = `df.drop_duplicates(by, ddf, hint)`**: the distinct key tuples, ascending -/
theorem drop_duplicates_eq_spec (keys : List KeyCol) (hint : Bool) (n : Nat) (hframe : Frame keys n)
    (hhint : hint = true → RowsSorted (keyRows n (cols keys))) :
    ∃ kcols outKeys, groupbyDistinct .repaired keys hint = .ok ⟨kcols, []⟩ ∧
      ColumnsOf kcols outKeys ∧ DistinctAscending (keyRows n (cols keys)) outKeys := by
  obtain ⟨k0, ks, rfl, hrect⟩ := frame_cases hframe
  have := groupbyDistinct_spec k0 ks hint n hrect (fun h => sortedRows_of_rowsSorted _ n hrect (hhint h))
  rw [← keyRows_eq_rowsBy _ n hrect] at this
  exact this

/-- the statement registered while D20 was open; now a corollary -/
theorem drop_duplicates_eq_spec_partial (keys : List KeyCol) (hint : Bool) (n : Nat) (hframe : Frame keys n)
    (_hcast : Faithful keys) (hhint : hint = true → RowsSorted (keyRows n (cols keys))) :
    ∃ kcols outKeys, groupbyDistinct .repaired keys hint = .ok ⟨kcols, []⟩ ∧
      ColumnsOf kcols outKeys ∧ DistinctAscending (keyRows n (cols keys)) outKeys :=
  drop_duplicates_eq_spec keys hint n hframe hhint

-- D20's second witness: integer keys [10, 9] next to a string key column (`castDec`: "10" < "9" as text). The repaired
-- code finds the frame unsorted and returns the keys ascending: 9, 10 (as found: 10, 9, `Witness.C07.d20_text_order_not_ascending`)
private theorem ex_sort_dec : SortIndex.datasetSortIndex [[10, 9], [0, 0]] (List.range 2) = .ok [1, 0] := by
  simp [SortIndex.datasetSortIndex, SortIndex.sortLoop, SortIndex.sortPass, SortIndex.gather, SortIndex.argsortStable, getE,
    List.mergeSort, List.zipIdx, List.range, List.range.loop, SortIndex.leKey, List.MergeSort.Internal.splitInTwo]
example : groupbyDistinct .repaired [⟨castDec, [10, 9]⟩, ⟨id, [0, 0]⟩] false = .ok ⟨[[9, 10], [0, 0]], []⟩ := by
  have h2 : keysSorted [[10, 9], [0, 0]] = false := by decide
  simp only [groupbyDistinct, groupby, groupbyCols, readKeys, List.map, List.all, nrows, List.length, Nat.zero_add, Nat.reduceAdd, h2,
    BEq.rfl, Bool.and_self, if_true, Bool.or_self, Bool.false_eq_true, if_false, ex_sort_dec]
  rfl
example : Frame [⟨castDec, [10, 9]⟩, ⟨id, [0, 0]⟩] 2 ∧ ¬ Faithful [⟨castDec, [10, 9]⟩, ⟨id, [0, 0]⟩] := by
  refine ⟨⟨by simp, by simp⟩, fun h => ?_⟩
  have := h _ (List.mem_cons_self ..) 9 (by simp) 10 (by simp) (by decide)
  revert this; decide

example : groupbyDistinct .repaired [⟨id, [1, 0, 1, 0, 1]⟩, ⟨id, [5, 7, 5, 7, 3]⟩] false = .ok ⟨[[0, 1, 1], [7, 3, 5]], []⟩ := by
  simp only [groupbyDistinct, ex_g_5]
  rfl

/-! ## the hint -/

/-- **a truthful `hint_keys_is_sorted=True` is unobservable**: on a sorted frame `groupby` returns the same grouping
    with and without the hint (the sortedness test answers `True` itself), hence so do count / min / max / first / last /
    distinct. No hypothesis on the dtypes of the key columns (fix D20). -/
theorem sorted_hint_irrelevant (keys : List KeyCol) (n : Nat) (hframe : Frame keys n)
    (hsorted : RowsSorted (keyRows n (cols keys))) :
    groupby .repaired keys true = groupby .repaired keys false := by
  obtain ⟨k0, ks, rfl, hrect⟩ := frame_cases hframe
  exact groupbyCols_hint_irrelevant k0 ks n hrect (sortedRows_of_rowsSorted _ n hrect hsorted)

/-- the statement registered while D20 was open: for EVERY variant of the code (as found: the stacked key array and
    every variant of the span kernels) under `Faithful keys` -/
theorem sorted_hint_irrelevant_partial (v : Variant) (keys : List KeyCol) (n : Nat) (hframe : Frame keys n) (hcast : Faithful keys)
    (hsorted : RowsSorted (keyRows n (cols keys))) :
    groupby v keys true = groupby v keys false := by
  cases v with
  | repaired => exact sorted_hint_irrelevant keys n hframe hsorted
  | asFound =>
    obtain ⟨k0, ks, rfl, hrect⟩ := frame_cases hframe
    exact groupby_hint_irrelevant .asFound k0 ks n hrect hcast (sortedRows_of_rowsSorted _ n hrect hsorted)

theorem sorted_hint_irrelevant_agg (agg : Agg) (keys : List KeyCol) (targets : List Target) (n : Nat) (hframe : Frame keys n)
    (hsorted : RowsSorted (keyRows n (cols keys))) :
    groupbyAgg .repaired agg keys true targets = groupbyAgg .repaired agg keys false targets ∧
    groupbyCount .repaired keys true = groupbyCount .repaired keys false ∧
    groupbyDistinct .repaired keys true = groupbyDistinct .repaired keys false := by
  have h := sorted_hint_irrelevant keys n hframe hsorted
  simp only [groupbyAgg, groupbyCount, groupbyDistinct, h, and_self]

-- mixed dtypes, sorted in the columns' own order but NOT as text ("9" > "10"): the hint changes nothing
example : groupby .repaired [⟨castDec, [9, 10, 10]⟩, ⟨id, [1, 0, 0]⟩] true = groupby .repaired [⟨castDec, [9, 10, 10]⟩, ⟨id, [1, 0, 0]⟩] false := rfl
example : RowsSorted (keyRows 3 (cols [⟨castDec, [9, 10, 10]⟩, ⟨id, [1, 0, 0]⟩])) := by simp [RowsSorted, keyRows, cols, tupleLt]
example : groupby .repaired [⟨id, [0, 0, 1, 1, 1]⟩] true = groupby .repaired [⟨id, [0, 0, 1, 1, 1]⟩] false := rfl

/-! ## fix D20 changes nothing where the stacked code was right -/

/-- **the repair is conservative**: on key columns whose stacking casts are faithful the repaired `groupby` (every key
    column compared in its own dtype) hands to count / min / max / first / last / distinct exactly the grouping — the same
    sort index or `None`, the same span array — that the as-found stacked `groupby` handed to them, for every value of the
    hint (truthful or not); hence every aggregate, every written key column and every error is the same. -/
theorem stacked_eq_columnwise_on_faithful_keys (keys : List KeyCol) (hint : Bool) (n : Nat) (hframe : Frame keys n)
    (hcast : Faithful keys) :
    groupbyStacked .repaired keys hint = groupby .repaired keys hint := by
  obtain ⟨k0, ks, rfl, hrect⟩ := frame_cases hframe
  exact groupbyStacked_eq_groupbyCols k0 ks hint n hrect hcast

/-- in particular for a single key and for compound keys of ONE dtype (numpy promotes nothing: all casts are `id`) -/
theorem repair_unobservable_for_one_dtype (keys : List KeyCol) (hint : Bool) (n : Nat) (hframe : Frame keys n)
    (hdtype : SameDtype keys) :
    groupbyStacked .repaired keys hint = groupby .repaired keys hint :=
  stacked_eq_columnwise_on_faithful_keys keys hint n hframe (same_dtype_faithful hdtype)

-- an unsorted two-key frame of one dtype with an UNtruthful hint: both variants return the spans of the frame as it stands
example : groupbyStacked .repaired [⟨id, [1, 0, 1, 1]⟩, ⟨id, [5, 7, 7, 7]⟩] true = .ok ⟨none, [0, 1, 2, 4]⟩ ∧
    groupby .repaired [⟨id, [1, 0, 1, 1]⟩, ⟨id, [5, 7, 7, 7]⟩] true = .ok ⟨none, [0, 1, 2, 4]⟩ := ⟨rfl, rfl⟩
-- … and the hypothesis cannot be dropped: D20's witness (as found one span, repaired the frame is sorted first)
example : groupbyStacked .repaired [⟨castF64, [9007199254740993, 9007199254740992, 9007199254740993]⟩, ⟨id, [0, 0, 0]⟩] false =
    .ok ⟨none, [0, 3]⟩ := rfl

/-! ## the specification determines the result; Session.aggregate_* -/

/-- `IsGroupBy` has at most one solution: two results meeting the specification have the same keys and values -/
theorem spec_determines_result {rows : List (List Int)} {tgt : List Int} {agg : List Int → Option Int}
    {k₁ k₂ : List (List Int)} {v₁ v₂ : List Int} (h₁ : IsGroupBy rows tgt agg k₁ v₁) (h₂ : IsGroupBy rows tgt agg k₂ v₂) :
    k₁ = k₂ ∧ v₁ = v₂ :=
  isGroupBy_unique h₁ h₂

/-- **`Session.aggregate_min|max|first|last(index, target)` agrees with `groupby` on pre-grouped data**: for a numeric
    index in ascending order the session entry point succeeds (spans of the index, the `len(target) == spans[-1]` check,
    the kernel) and returns exactly the value column of `df.groupby(index).<agg>(target)`, hint or no hint. -/
theorem aggregate_agrees_on_pregrouped (agg : Agg) (index target : List Int) (hint : Bool)
    (htarget : target.length = index.length) (hsorted : index.Pairwise (· ≤ ·)) :
    ∃ kcols vals, groupbyAgg .repaired agg [⟨id, index⟩] hint [.plain target] = .ok ⟨kcols, [.ints vals]⟩ ∧
      aggregate .repaired agg (.numeric index) (some target) = .ok vals := by
  have hrect : Rect index.length [index] := by intro c hc; simp at hc; subst hc; rfl
  have hframe : Frame [⟨id, index⟩] index.length := ⟨by simp, by simp⟩
  obtain ⟨kcols, vals, outKeys, h1, _, hg1⟩ := groupby_eq_spec agg [⟨id, index⟩] hint target index.length hframe htarget
    (fun _ => rowsSorted_of_sortedRows [index] index.length hrect (sortedRows_single index hsorted))
  obtain ⟨vals', outKeys', h2, hg2⟩ := aggregate_spec agg index target htarget hsorted
  have hrows : keyRows index.length (cols [⟨id, index⟩]) = rowsBy [index] index.length := keyRows_eq_rowsBy [index] _ hrect
  rw [hrows] at hg1
  obtain ⟨_, hv⟩ := isGroupBy_unique hg1 hg2
  exact ⟨kcols, vals, h1, by rw [h2, hv]⟩

/-- `Session.aggregate_count(index)` agrees with `df.groupby(index).count()` on pre-grouped data -/
theorem aggregate_count_agrees_on_pregrouped (index : List Int) (hint : Bool) (hsorted : index.Pairwise (· ≤ ·)) :
    ∃ kcols counts, groupbyCount .repaired [⟨id, index⟩] hint = .ok ⟨kcols, [.ints counts]⟩ ∧
      aggregateCount .repaired (.numeric index) = .ok counts := by
  have hrect : Rect index.length [index] := by intro c hc; simp at hc; subst hc; rfl
  have hframe : Frame [⟨id, index⟩] index.length := ⟨by simp, by simp⟩
  obtain ⟨kcols, counts, outKeys, h1, _, hg1, _⟩ := groupby_count_eq_spec [⟨id, index⟩] hint index.length hframe
    (fun _ => rowsSorted_of_sortedRows [index] index.length hrect (sortedRows_single index hsorted))
  obtain ⟨counts', outKeys', h2, hg2⟩ := aggregateCount_spec index hsorted
  have hrows : keyRows index.length (cols [⟨id, index⟩]) = rowsBy [index] index.length := keyRows_eq_rowsBy [index] _ hrect
  rw [hrows] at hg1
  have hk := distinctAscending_unique hg1.1 hg2.1
  subst hk
  exact ⟨kcols, counts, h1, by rw [h2, hg2.2, hg1.2]⟩

example : aggregate .repaired .max (.numeric [1, 1, 2, 2, 2, 5]) (some [5, 6, 1, 9, 3, 4]) = .ok [6, 9, 4] ∧
    groupbyAgg .repaired .max [⟨id, [1, 1, 2, 2, 2, 5]⟩] false [.plain [5, 6, 1, 9, 3, 4]] = .ok ⟨[[1, 2, 5]], [.ints [6, 9, 4]]⟩ :=
  ⟨rfl, rfl⟩

/-! ## indexed-string targets, several targets -/

/-- **`df.groupby(by, hint).min|max|first|last(target, ddf)` for an indexed-string target** with a well-formed index
    (`decodeRows indices values` are its strings as byte lists): the call succeeds (no out-of-bounds read in
    `apply_indices_to_index_values`, `apply_spans_index_of_min/max_indexed` — with fix D18 —, `index_of_first/last`), and
    the value column holds for each distinct key tuple the first / last string of its rows in original order, resp. the
    smallest / largest string in bytewise lexicographic order (a proper prefix is smaller). -/
theorem groupby_indexed_eq_spec (agg : Agg) (keys : List KeyCol) (hint : Bool) (indices values : List Nat) (n : Nat)
    (hframe : Frame keys n) (hindex : ValidIndex indices values) (hrows : indices.length = n + 1)
    (hhint : hint = true → RowsSorted (keyRows n (cols keys))) :
    ∃ kcols out outKeys, groupbyAgg .repaired agg keys hint [.indexed indices values] = .ok ⟨kcols, [.strs out]⟩ ∧
      ColumnsOf kcols outKeys ∧
      IsGroupBy (keyRows n (cols keys)) (decodeRows indices values) (aggSpecStr agg) outKeys out := by
  obtain ⟨k0, ks, rfl, hrect⟩ := frame_cases hframe
  have := groupbyAgg_indexed_spec agg k0 ks hint indices values n hrect hindex hrows
    (fun h => sortedRows_of_rowsSorted _ n hrect (hhint h))
  rw [← keyRows_eq_rowsBy _ n hrect] at this
  exact this

/-- the statement registered while D20 was open; now a corollary -/
theorem groupby_indexed_eq_spec_partial (agg : Agg) (keys : List KeyCol) (hint : Bool) (indices values : List Nat) (n : Nat)
    (hframe : Frame keys n) (hindex : ValidIndex indices values) (hrows : indices.length = n + 1) (_hcast : Faithful keys)
    (hhint : hint = true → RowsSorted (keyRows n (cols keys))) :
    ∃ kcols out outKeys, groupbyAgg .repaired agg keys hint [.indexed indices values] = .ok ⟨kcols, [.strs out]⟩ ∧
      ColumnsOf kcols outKeys ∧
      IsGroupBy (keyRows n (cols keys)) (decodeRows indices values) (aggSpecStr agg) outKeys out :=
  groupby_indexed_eq_spec agg keys hint indices values n hframe hindex hrows hhint

-- mixed key dtypes (int64 beyond 2^53 next to a float64 column) with an indexed-string target "x", "yy", "z": last per group
example : groupbyAgg .repaired .last [⟨castF64, [9007199254740993, 9007199254740992, 9007199254740993]⟩, ⟨id, [0, 0, 0]⟩] false
    [.indexed [0, 1, 3, 4] [120, 121, 121, 122]] = .ok ⟨[[9007199254740992, 9007199254740993], [0, 0]], [.strs [[121, 121], [122]]]⟩ := by
  simp only [groupbyAgg, ex_g_d20]
  rfl

-- strings "b", "ab", "a" (D18's witness) in one group, "c", "" in another: min = "a", ""
example : groupbyAgg .repaired .min [⟨id, [0, 0, 0, 1, 1]⟩] false [.indexed [0, 1, 3, 4, 5, 5] [98, 97, 98, 97, 99]] =
    .ok ⟨[[0, 1]], [.strs [[97], []]]⟩ := rfl
example : ValidIndex [0, 1, 3, 4, 5, 5] [98, 97, 98, 97, 99] := by
  refine ⟨by decide, ?_⟩
  intro x hx; simp at hx; rcases hx with rfl | rfl | rfl | rfl | rfl <;> decide

/-- **targets are aggregated independently**: the result for a list of targets is the list of the results for each
    target alone, with the same key columns -/
theorem targets_independent (v : Variant) (agg : Agg) (keys : List KeyCol) (hint : Bool) (t : Target) (ts : List Target)
    (kcols : List (List Int)) (c : Col) (cs : List Col)
    (h1 : groupbyAgg v agg keys hint [t] = .ok ⟨kcols, [c]⟩) (h2 : groupbyAgg v agg keys hint ts = .ok ⟨kcols, cs⟩) :
    groupbyAgg v agg keys hint (t :: ts) = .ok ⟨kcols, c :: cs⟩ := by
  unfold groupbyAgg at *
  cases hg : groupby v keys hint with
  | error e => simp [hg] at h1
  | ok g =>
    simp only [hg, aggOf] at h1 h2 ⊢
    cases hw : writeKeys g (keys.map (·.data)) with
    | error e => simp [hw] at h1
    | ok ks =>
      simp only [hw] at h1 h2 ⊢
      cases ha : aggTarget v agg g t with
      | error e => simp [aggTargets, ha] at h1
      | ok c' =>
        cases hb : aggTargets v agg g ts with
        | error e => simp [hb] at h2
        | ok cs' =>
          simp only [aggTargets, ha, hb, SortIndex.consE_ok] at h1 h2 ⊢
          simp only [Except.ok.injEq, Out.mk.injEq, List.cons.injEq, and_true] at h1 h2
          rw [h1.2, h2.2, h1.1]

end Exetera.Props.C07
