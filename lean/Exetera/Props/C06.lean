import Exetera.Lemmas.TransformsLeaky
import Exetera.Lemmas.TransformsCatChecked
import Exetera.Lemmas.TransformsFixed
import Exetera.Lemmas.TransformsBoolKernel
import Exetera.Lemmas.TransformsNum
import Exetera.Lemmas.TransformsTime4
/-!
# C06 — schema-typed conversion on import stores the value the text denotes, or flags it

**Reading note on "fix NC06d".** NC06d (a strict categorical column stores code 0 for a cell that equals no category key) is an OPEN
finding: the repair exists only as a proposal (`fixes/proposed/NC06d_strict_categorical_rejects_unknown_text.patch`) and is NOT
applied to /repo. Wherever a statement below says "fix NC06d" / "checked" it describes the PROPOSED importer (the model variant
`catColumn` / `categoricalChecked`): for strict categorical columns it is a statement about that proposal, not about the code as
found. What holds of the code as found is `categorical_property_partial` (every cell that IS a key is stored as its code) and the
witness `Witness.C06.nc06d_unmatched_text_stored_as_zero`; the checks report the difference as KNOWN-FINDING NC06d. For every other
column kind (and for strict categorical cells that are keys) the two coincide.

All theorems are about the definitions of `Exetera/Model/Transforms.lean` that the driver runs, against
`Exetera/Spec/Transforms.lean`. `Encodes c cells` is the reader's guarantee (C05) that chunk `c` holds the cells `cells`;
a result `= .ok …` says in addition that no subscript of the kernel left its array and that every loop ended.
`EncodesAll chunks cellss` is an arbitrary chunking: the conclusions only mention `cellss.flatten`, so they are
independent of how the rows were cut into chunks (including empty chunks).
-/
namespace Exetera.Props.C06
open Exetera Exetera.Transforms Exetera.Spec.Transforms

/-! ## categorical columns -/

/-- `categorical_transform` over `get_byte_map`'s packed table, on any chunk: every row gets the value of the one key that
    equals the whole cell, `0` (the buffer's initial value) when there is none — finding NC06d. Keys that are a prefix or a
    suffix of the cell, or of which the cell is a prefix, never match. -/
theorem categorical_exact_match (cats : List (Bytes × Int)) (hnd : (cats.map (·.1)).Nodup) (c : Chunk)
    (cells : List Bytes) (h : Encodes c cells) :
    categoricalTransform (getByteMap cats) c = .ok (cells.map (catCode cats)) := by
  rw [getByteMap, categoricalTransform_packTable _ c cells h]
  congr 1
  apply List.map_congr_left
  intro cell _
  simp only [scanCode, catCode, scanCode_getByteMap cats hnd cell]

/-- the spec's `lookup` really is exact whole-string match: a listed pair is found … -/
theorem lookup_key (cats : List (Bytes × Int)) (hnd : (cats.map (·.1)).Nodup) (k : Bytes) (v : Int) (h : (k, v) ∈ cats) :
    lookup cats k = some v := (lookup_eq_some_iff hnd k v).mpr h

/-- … and any text that is not itself a key (for instance a proper prefix or extension of one) is not -/
theorem lookup_no_partial_match (cats : List (Bytes × Int)) (cell : Bytes) (h : cell ∉ cats.map (·.1)) :
    lookup cats cell = none := by
  rw [lookup_eq_none_iff]
  intro kv hk hc
  exact h (hc ▸ List.mem_map_of_mem hk)

/-- `CategoricalImporter` over any chunking -/
theorem categorical_import (cats : List (Bytes × Int)) (hnd : (cats.map (·.1)).Nodup) (chunks : List Chunk)
    (cellss : List (List Bytes)) (h : EncodesAll chunks cellss) (data : List Int) :
    categoricalImport cats chunks data = .ok (data ++ cellss.flatten.map (catCode cats)) := by
  induction h generalizing data with
  | nil => simp [categoricalImport]
  | cons hc _ ih =>
    rw [categoricalImport, categorical_exact_match cats hnd _ _ hc]
    simp only
    rw [ih]; simp

/- FULL STATEMENT (did not hold for the code as found, NC06d; holds since fix NC06d: `categorical_property` below): for
   every chunking, the import either raises or stores `cellss.flatten.map value` where every cell has a value; a cell that
   is no key is never stored silently. What was proved about the importer as found (`categoricalImport`), kept: -/
/-- when every cell is a category key, the column holds exactly the keys' values -/
theorem categorical_property_partial (cats : List (Bytes × Int)) (hnd : (cats.map (·.1)).Nodup) (chunks : List Chunk)
    (cellss : List (List Bytes)) (h : EncodesAll chunks cellss)
    (hkeys : ∀ cell ∈ cellss.flatten, cell ∈ cats.map (·.1)) :
    categoricalImport cats chunks [] = .ok (cellss.flatten.map (catCode cats)) ∧
      ∀ cell ∈ cellss.flatten, (cell, catCode cats cell) ∈ cats := by
  refine ⟨by simpa using categorical_import cats hnd chunks cellss h [], ?_⟩
  intro cell hc
  obtain ⟨kv, hk, he⟩ := List.mem_map.mp (hkeys cell hc)
  have := lookup_key cats hnd kv.1 kv.2 hk
  rw [he] at this
  simp only [catCode, this, Option.getD_some]
  rw [← he]; exact hk

/-! ### the importer with fix NC06d (`categoricalTransformChecked`, `categoricalImportPart`, `categoricalImportChecked`) -/

/-- `categorical_transform` with fix NC06d, on any chunk: the staging array is the one the kernel as found filled
    (`categorical_exact_match`), and the returned `first_unmatched` is the number of the FIRST row of the chunk whose text
    equals no key (`none` = `-1`: every row matched). -/
theorem categorical_transform_checked (cats : List (Bytes × Int)) (hnd : (cats.map (·.1)).Nodup) (c : Chunk)
    (cells : List Bytes) (h : Encodes c cells) :
    categoricalTransformChecked (getByteMap cats) c = .ok (cells.map (catCode cats), firstNoKey cats cells) ∧
      categoricalTransform (getByteMap cats) c = .ok (cells.map (catCode cats)) := by
  refine ⟨?_, categorical_exact_match cats hnd c cells h⟩
  rw [getByteMap, categoricalTransformChecked_packTable _ c cells h, firstUnmatched_getByteMap cats hnd]
  congr 2
  apply List.map_congr_left
  intro cell _
  simp only [scanCode, catCode, scanCode_getByteMap cats hnd cell]

/-- what `first_unmatched = some r` means: row `r` equals no key, every earlier row of the chunk equals one -/
theorem first_unmatched_is_first (cats : List (Bytes × Int)) (cells : List Bytes) :
    (firstNoKey cats cells = none ↔ ∀ cell ∈ cells, cell ∈ cats.map (·.1)) ∧
    ∀ r, firstNoKey cats cells = some r →
      ∃ pre x post, cells = pre ++ x :: post ∧ pre.length = r ∧ x ∉ cats.map (·.1) ∧ ∀ cell ∈ pre, cell ∈ cats.map (·.1) := by
  have key : ∀ cell, (lookup cats cell).isSome ↔ cell ∈ cats.map (·.1) := by
    intro cell
    constructor
    · intro hs
      apply Classical.byContradiction
      intro hn
      rw [lookup_no_partial_match cats cell hn] at hs
      cases hs
    · intro hm
      cases hl : lookup cats cell with
      | some v => rfl
      | none =>
        obtain ⟨kv, hk, he⟩ := List.mem_map.mp hm
        exact absurd he ((lookup_eq_none_iff cats cell).mp hl kv hk)
  refine ⟨?_, ?_⟩
  · rw [firstNoKey_eq_none_iff]
    exact ⟨fun h cell hc => (key cell).mp (h cell hc), fun h cell hc => (key cell).mpr (h cell hc)⟩
  · intro r hr
    obtain ⟨pre, x, post, he, hlen, hx, hpre⟩ := firstNoKey_eq_some cats cells r hr
    refine ⟨pre, x, post, he, hlen, ?_, fun cell hc => (key cell).mp (hpre cell hc)⟩
    intro hm
    have := (key x).mpr hm
    rw [hx] at this
    cases this

/-- the column specification `catColumn`: `some codes` exactly when every cell is a key, and then row `i` holds the value
    listed for the key that cell `i` equals; `none` exactly when some cell is no key -/
theorem catColumn_spec (cats : List (Bytes × Int)) (hnd : (cats.map (·.1)).Nodup) (cells : List Bytes) :
    (∀ codes, catColumn cats cells = some codes →
      codes.length = cells.length ∧ ∀ i (hi : i < cells.length) (hj : i < codes.length), (cells[i], codes[i]) ∈ cats) ∧
    (catColumn cats cells = none ↔ ∃ cell ∈ cells, cell ∉ cats.map (·.1)) := by
  have hfirst := (first_unmatched_is_first cats cells).1
  refine ⟨?_, ?_⟩
  · intro codes hc
    have hall : ∀ cell ∈ cells, (lookup cats cell).isSome := (catColumn_isSome_iff cats cells).mp (by rw [hc]; rfl)
    rw [catColumn_eq_map cats cells hall] at hc
    cases hc
    refine ⟨by simp, ?_⟩
    intro i hi hj
    have hs := hall cells[i] (List.getElem_mem hi)
    cases hl : lookup cats cells[i] with
    | none => rw [hl] at hs; cases hs
    | some v =>
      have := (lookup_eq_some_iff hnd cells[i] v).mp hl
      simpa [catCode, hl] using this
  · constructor
    · intro hn
      apply Classical.byContradiction
      intro hne
      have hall : ∀ cell ∈ cells, cell ∈ cats.map (·.1) := by
        intro cell hc
        apply Classical.byContradiction
        intro hm
        exact hne ⟨cell, hc, hm⟩
      have := catColumn_eq_map cats cells ((firstNoKey_eq_none_iff cats cells).mp (hfirst.mpr hall))
      rw [hn] at this
      cases this
    · rintro ⟨cell, hc, hm⟩
      apply catColumn_eq_none
      intro hall
      have := hall cell hc
      rw [lookup_no_partial_match cats cell hm] at this
      cases this

/-- `CategoricalImporter` with fix NC06d over any chunking, from any data already written: the chunks are imported up to
    the first one that holds a cell which is no key, and that `import_part` raises -/
theorem categorical_import_checked (cats : List (Bytes × Int)) (hnd : (cats.map (·.1)).Nodup) (chunks : List Chunk)
    (cellss : List (List Bytes)) (h : EncodesAll chunks cellss) (data : List Int) :
    categoricalImportChecked cats chunks data =
      match catColumn cats cellss.flatten with
      | some codes => .ok (data ++ codes)
      | none => .error notACategory := by
  induction h generalizing data with
  | nil => simp [categoricalImportChecked, catColumn]
  | @cons c cells cs cellss hc _ ih =>
    rw [categoricalImportChecked, categoricalImportPart_spec cats hnd c cells hc, List.flatten_cons, catColumn_append]
    cases h1 : catColumn cats cells with
    | none => rfl
    | some x =>
      simp only
      rw [ih]
      cases catColumn cats cellss.flatten with
      | none => rfl
      | some y => simp

/-- **categorical_property** (full strength since fix NC06d). A categorical column without free text, cut into chunks in
    any way: either EVERY cell is a category key and the column holds, row by row, the value listed for the key the cell
    equals (whole-string match: `(cell, code) ∈ cats`); or some cell is no key and the import raises `ValueError` — it
    never stores a code for text that is no category. Which of the two happens depends on the cells only, not on the
    chunking. (Which chunk raises: the first that holds such a cell, for its first such row — `categorical_import_checked`,
    `categorical_transform_checked`, `first_unmatched_is_first`.) -/
theorem categorical_property (cats : List (Bytes × Int)) (hnd : (cats.map (·.1)).Nodup) (chunks : List Chunk)
    (cellss : List (List Bytes)) (h : EncodesAll chunks cellss) :
    ((∀ cell ∈ cellss.flatten, cell ∈ cats.map (·.1)) →
      ∃ codes, categoricalImportChecked cats chunks [] = .ok codes ∧ codes.length = cellss.flatten.length ∧
        ∀ i (hi : i < cellss.flatten.length) (hj : i < codes.length), (cellss.flatten[i], codes[i]) ∈ cats) ∧
    ((∃ cell ∈ cellss.flatten, cell ∉ cats.map (·.1)) →
      categoricalImportChecked cats chunks [] = .error (.valueError "is not one of the categories")) := by
  have himp := categorical_import_checked cats hnd chunks cellss h []
  have hspec := catColumn_spec cats hnd cellss.flatten
  refine ⟨?_, ?_⟩
  · intro hall
    cases hc : catColumn cats cellss.flatten with
    | none =>
      obtain ⟨cell, hm, hn⟩ := hspec.2.mp hc
      exact absurd (hall cell hm) hn
    | some codes =>
      rw [hc] at himp
      exact ⟨codes, by simpa using himp, hspec.1 codes hc⟩
  · intro hbad
    rw [hspec.2.mpr hbad] at himp
    exact himp

/-- whether a categorical import raises does not depend on the chunking: two chunkings of the same cells give the same
    result -/
theorem categorical_chunking_unobservable (cats : List (Bytes × Int)) (hnd : (cats.map (·.1)).Nodup)
    (chunks₁ chunks₂ : List Chunk) (cellss₁ cellss₂ : List (List Bytes)) (h₁ : EncodesAll chunks₁ cellss₁)
    (h₂ : EncodesAll chunks₂ cellss₂) (hsame : cellss₁.flatten = cellss₂.flatten) :
    categoricalImportChecked cats chunks₁ [] = categoricalImportChecked cats chunks₂ [] := by
  rw [categorical_import_checked cats hnd chunks₁ cellss₁ h₁, categorical_import_checked cats hnd chunks₂ cellss₂ h₂, hsame]

/-! ## leaky categorical columns and their free-text companion -/

/-- `LeakyCategoricalImporter` over any chunking: code of the matching key or `-1`; the companion holds the text of
    exactly the unmatched cells, its offsets are the running sums over the whole column (`freetext_index_accumulated`
    carries across chunks), and `indices` has one more entry than `data` (companions aligned). -/
theorem leaky_freetext (cats : List (Bytes × Int)) (hnd : (cats.map (·.1)).Nodup) (chunks : List Chunk)
    (cellss : List (List Bytes)) (h : EncodesAll chunks cellss) :
    leakyImport cats chunks LeakyState.init = .ok (leakyColumn cats cellss.flatten) := by
  have key : ∀ cells, scanColumn (cats.mergeSort (fun a b => bytesLe a.1 b.1)) cells = leakyColumn cats cells := by
    intro cells
    have e1 : scanLeaky (cats.mergeSort (fun a b => bytesLe a.1 b.1)) = leakyCode cats := by
      funext cell; simp only [scanLeaky, leakyCode, scanCode_getByteMap cats hnd cell]
    have e2 : scanFree (cats.mergeSort (fun a b => bytesLe a.1 b.1)) = freeText cats := by
      funext cell; simp only [scanFree, freeText, scanCode_getByteMap cats hnd cell]
    simp only [scanColumn, leakyColumn, e1, e2]
  have gen : ∀ done, leakyImport cats chunks (leakyColumn cats done) = .ok (leakyColumn cats (done ++ cellss.flatten)) := by
    induction h with
    | nil => intro done; simp [leakyImport]
    | cons hc _ ih =>
      intro done
      rw [leakyImport, getByteMap, ← key done, leakyImportPart_spec _ done _ _ hc]
      simp only
      rw [key, ih]; simp
  have := gen []
  simpa [leakyColumn, LeakyState.init, offsets] using this

/-- one chunk of `leaky_categorical_transform` on its own: codes, offsets from 0, free-text bytes -/
theorem leaky_transform_chunk (cats : List (Bytes × Int)) (hnd : (cats.map (·.1)).Nodup) (c : Chunk)
    (cells : List Bytes) (h : Encodes c cells) :
    ∃ pad, leakyTransform (getByteMap cats) c = .ok
      { chunk := cells.map (leakyCode cats)
        ftIdx := offsets 0 (cells.map (fun x => (freeText cats x).length))
        ftVals := (cells.map (freeText cats)).flatten ++ List.replicate pad 0 } := by
  have e1 : scanLeaky (cats.mergeSort (fun a b => bytesLe a.1 b.1)) = leakyCode cats := by
    funext cell; simp only [scanLeaky, leakyCode, scanCode_getByteMap cats hnd cell]
  have e2 : scanFree (cats.mergeSort (fun a b => bytesLe a.1 b.1)) = freeText cats := by
    funext cell; simp only [scanFree, freeText, scanCode_getByteMap cats hnd cell]
  refine ⟨c.cap - ((cells.map (freeText cats)).map List.length).sum, ?_⟩
  rw [getByteMap, leakyTransform_packTable _ c cells h]
  simp only [e1, e2]

/-! ## fixed strings -/

/-- `fixed_string_transform`: each row of the `S<n>` buffer is the first `n` bytes of its cell, zero padded -/
theorem fixed_truncates_to_n (c : Chunk) (n : Nat) (cells : List Bytes) (h : Encodes c cells) :
    fixedStringTransform c n = .ok ((cells.map (fixedCell n)).flatten) :=
  fixedStringTransform_spec c n cells h

theorem fixed_import (n : Nat) (chunks : List Chunk) (cellss : List (List Bytes))
    (h : EncodesAll chunks cellss) (data : Bytes) :
    fixedImport n chunks data = .ok (data ++ (cellss.flatten.map (fixedCell n)).flatten) := by
  induction h generalizing data with
  | nil => simp [fixedImport]
  | cons hc _ ih =>
    rw [fixedImport, fixed_truncates_to_n _ n _ hc]
    simp only
    rw [ih]; simp

/-! ## bool columns -/

/-- over the literal table regenerated from `numeric_bool_transform` (`Gen.boolLiterals`): for every byte string, the
    kernel's `if actual_length == k: … val[j] in (…)` cascade accepts exactly the documented spellings
    `1/y/t/true/on/yes ↦ 1`, `0/n/f/false/off/no ↦ 0`, in any mix of upper and lower case, and nothing else -/
theorem bool_table_complete (val : Bytes) : boolLit val = boolValue val := boolLit_eq_boolValue val

/-- `numeric_bool_transform` on any chunk: every cell is blank-trimmed (no read outside the cell), looked up, and the
    validation mode decides between value, invalid value + false flag, and raising.
    `capE = len(elements)`, `capV = len(validity)` are the sizes of the two result arrays the caller hands in; the hypotheses
    `written_row_count ≤ capE, capV` are what the only caller establishes (`NumericImporter.import_part`:
    `elements = np.zeros(written_row_count, …)`, `validity = np.ones(written_row_count, …)`, field_importers.py) -/
theorem bool_transform_spec (c : Chunk) (mode : Mode) (invalid : Bool) (capE capV : Nat) (cells : List Bytes)
    (h : Encodes c cells) (hE : c.rows ≤ capE) (hV : c.rows ≤ capV) :
    boolTransform c mode invalid capE capV =
      match numericColumn mode invalid (cells.map boolClass) with
      | some r => .ok r
      | none => .error (.other "Exception") := boolTransform_spec c mode invalid capE capV cells h hE hV

theorem numericColumn_append {V} (mode : Mode) (inv : V) (a b : List (CellClass V)) :
    numericColumn mode inv (a ++ b) =
      match numericColumn mode inv a, numericColumn mode inv b with
      | some x, some y => some (x.1 ++ y.1, x.2 ++ y.2)
      | _, _ => none := by
  induction a with
  | nil => cases h : numericColumn mode inv b <;> simp [numericColumn, h]
  | cons k ks ih =>
    simp only [List.cons_append, numericColumn_cons, ih]
    cases numericCell mode inv k <;> cases numericColumn mode inv ks <;> cases numericColumn mode inv b <;>
      simp [consCell]

/-- a `bool` column over any chunking: values and `_valid` flags of the whole column, or the import raises; the two
    columns always have the same length -/
theorem bool_import (mode : Mode) (invalid : Bool) (chunks : List Chunk) (cellss : List (List Bytes))
    (h : EncodesAll chunks cellss) (st : List Bool × List Bool) :
    boolImport mode invalid chunks st =
      match numericColumn mode invalid (cellss.flatten.map boolClass) with
      | some r => .ok (st.1 ++ r.1, st.2 ++ r.2)
      | none => .error (.other "Exception") := by
  induction h generalizing st with
  | nil => simp [boolImport, numericColumn]
  | @cons c cells cs cellss hc _ ih =>
    rw [boolImport, bool_transform_spec c mode invalid c.rows c.rows cells hc (Nat.le_refl _) (Nat.le_refl _)]
    simp only [List.flatten_cons, List.map_append, numericColumn_append]
    cases h1 : numericColumn mode invalid (cells.map boolClass) with
    | none => simp
    | some r =>
      simp only [ih]
      cases numericColumn mode invalid (cellss.flatten.map boolClass) <;> simp

/-! ## integer and float columns: the validation-mode table -/

/-- the spec's table, stated outright: strict / allow_empty / relaxed × value / empty / garbage / out of range -/
theorem validation_mode_cells {V} (invalid v : V) :
    numericCell .strict invalid (.value v) = some (v, true) ∧ numericCell .strict invalid .empty = none ∧
    numericCell .strict invalid .garbage = none ∧
    numericCell .allowEmpty invalid (.value v) = some (v, true) ∧ numericCell .allowEmpty invalid .empty = some (invalid, false) ∧
    numericCell .allowEmpty invalid .garbage = none ∧
    numericCell .relaxed invalid (.value v) = some (v, true) ∧ numericCell .relaxed invalid .empty = some (invalid, false) ∧
    numericCell .relaxed invalid .garbage = some (invalid, false) ∧
    (∀ m, numericCell m invalid (CellClass.outOfRange : CellClass V) = none) := by
  refine ⟨rfl, rfl, rfl, rfl, rfl, rfl, rfl, rfl, rfl, fun m => by cases m <;> rfl⟩

/-- `transform_int` / `transform_float` for any text-to-number parser `parse` (Python `int()` / `float()` / numpy `astype`)
    that rejects blank text, and an invalid value whose text parses to itself: the result is a value exactly when the table
    says so, and then it is the table's column; `valids` is `None` in strict mode. -/
theorem validation_mode_table {V} (parse : Bytes → Parsed V) (mode : Mode) (invalidText : Bytes) (invalid : V)
    (hblank : ∀ t, npNonEmpty t = false → parse t = .bad) (hinv : parse invalidText = .val invalid) (cells : List Bytes) :
    (transformNum parse mode invalidText invalid cells).toOption =
      (numericColumn mode invalid ((cells.map rstripNul).map (classOf parse))).map
        (fun r => (r.1, if mode = .strict then none else some r.2)) := by
  cases mode with
  | strict =>
    have := strict_spec parse invalid hblank (cells.map rstripNul)
    simp only [transformNum]
    cases ha : astypeAll parse (cells.map rstripNul) with
    | error e => rw [ha] at this; simp only [Except.toOption] at this ⊢; rw [Option.map_eq_none_iff.mp this.symm]; rfl
    | ok vs =>
      rw [ha] at this
      cases hc : numericColumn Mode.strict invalid ((cells.map rstripNul).map (classOf parse)) with
      | none => rw [hc] at this; simp [Except.toOption] at this
      | some r => rw [hc] at this; simp [Except.toOption] at this ⊢; exact this
  | allowEmpty =>
    have := allowEmpty_spec parse invalidText invalid hinv (cells.map rstripNul)
    simp only [transformNum]
    rw [← this]
    cases astypeAll parse ((cells.map rstripNul).map (fun t => if npNonEmpty t then t else invalidText)) <;>
      simp [Except.toOption]
  | relaxed =>
    have := relaxed_spec parse invalid hblank (cells.map rstripNul)
    simp only [transformNum]
    rw [← this]
    cases relaxedAll parse invalid (cells.map rstripNul) <;> simp [Except.toOption]

/-- non-vacuity of the hypotheses for the executable integer parser the driver uses (`int()` on bytes, then the dtype's
    range): blank text is rejected, and `str(invalid_value)` parses to `invalid_value` -/
example : ∀ t, npNonEmpty t = false → parseIntRange (-128) 127 t = .bad := parseIntRange_blank (-128) 127
example : parseIntRange (-128) 127 [45, 53] = .val (-5) := by decide
example : (transformNum (parseIntRange (-128) 127) .allowEmpty [45, 53] (-5) [[49, 50], [32], [55]]).toOption
    = some ([12, -5, 7], some [true, false, true]) := by decide
example : (transformNum (parseIntRange (-128) 127) .relaxed [45, 53] (-5) [[49, 50], [120], [51, 48, 48]]).toOption = none := by
  decide

/-! ## timestamps: every accepted layout is stored as the UTC POSIX time of the written instant -/

/-- a real calendar date and time of day -/
structure ValidCivil (Y M D h mi s : Nat) : Prop where
  year : 1 ≤ Y ∧ Y ≤ 9999
  month : 1 ≤ M ∧ M ≤ 12
  day : 1 ≤ D ∧ (D : Int) ≤ daysInMonth Y M
  hour : h ≤ 23
  minute : mi ≤ 59
  second : s ≤ 59

theorem ValidCivil.bounds {Y M D h mi s : Nat} (v : ValidCivil Y M D h mi s) : FieldBounds Y M D h mi s := by
  have hd : daysInMonth Y M ≤ 31 := by unfold daysInMonth; split <;> (try split) <;> omega
  have := v.day.2
  exact ⟨by have := v.year; omega, by have := v.month; omega, by omega, by have := v.hour; omega,
    by have := v.minute; omega, by have := v.second; omega⟩

/-- CPython's proleptic Gregorian day number (`_ymd2ord`, as used by `datetime.timestamp()`) is the plain count of days:
    year by year (365 or 366) and month by month -/
theorem days_from_civil (y m d : Nat) (hy : 1 ≤ y) (h1 : 1 ≤ m) (h12 : m ≤ 12) :
    ymd2ord y m d - epochOrd = daysFromCivil y m d := ymd2ord_eq_count y m d hy h1 h12

/-- `parse_timestamp_bytes(text).timestamp()` for the seven accepted layouts, texts rendered with fixed-width decimals
    (`L19 = YYYY-MM-DD HH:MM:SS`): `86400·days + 3600·h + 60·m + s − 60·offset` seconds plus the written fraction, in µs.
    The two layouts with `±HH:MM` honour the written offset (D29 repaired). -/
theorem timestamp_utc (Y M D h mi s : Nat) (v : ValidCivil Y M D h mi s) :
    parseTimestamp (L19 Y M D h mi s) = .ok (utcMicros Y M D h mi s 0 0) ∧
    parseTimestamp (L19 Y M D h mi s ++ utcSuffix) = .ok (utcMicros Y M D h mi s 0 0) ∧
    (∀ f, f < 10 → parseTimestamp (L19 Y M D h mi s ++ (46 :: d1 f ++ utcSuffix)) = .ok (utcMicros Y M D h mi s (f * 100000) 0)) ∧
    (∀ f, f < 100 → parseTimestamp (L19 Y M D h mi s ++ (46 :: d2 f ++ utcSuffix)) = .ok (utcMicros Y M D h mi s (f * 10000) 0)) ∧
    (∀ f, f < 1000 → parseTimestamp (L19 Y M D h mi s ++ (46 :: d3 f ++ utcSuffix)) = .ok (utcMicros Y M D h mi s (f * 1000) 0)) ∧
    (∀ neg oh om, oh < 100 → om < 100 → oh * 60 + om < 1440 →
      parseTimestamp (L19 Y M D h mi s ++ offText neg oh om) = .ok (utcMicros Y M D h mi s 0 (offMinutes neg oh om))) ∧
    (∀ f neg oh om, f < 1000000 → oh < 100 → om < 100 → oh * 60 + om < 1440 →
      parseTimestamp (L19 Y M D h mi s ++ (46 :: d6 f ++ offText neg oh om))
        = .ok (utcMicros Y M D h mi s f (offMinutes neg oh om))) := by
  have hb := v.bounds
  have mk := fun (us : Nat) (off : Int) (hus : us ≤ 999999) =>
    mkTimestamp_valid Y M D h mi s us off v.year v.month v.day v.hour v.minute v.second hus
  refine ⟨?_, ?_, ?_, ?_, ?_, ?_, ?_⟩
  · rw [parse_plain Y M D h mi s hb]; exact mk 0 0 (by omega)
  · rw [parse_utc Y M D h mi s hb]; exact mk 0 0 (by omega)
  · intro f hf
    rw [parse_utc1 Y M D h mi s hb f hf]
    have e : (f : Int) * 100000 = ((f * 100000 : Nat) : Int) := by omega
    rw [e]; exact mk (f * 100000) 0 (by omega)
  · intro f hf
    rw [parse_utc2 Y M D h mi s hb f hf]
    have e : (f : Int) * 10000 = ((f * 10000 : Nat) : Int) := by omega
    rw [e]; exact mk (f * 10000) 0 (by omega)
  · intro f hf
    rw [parse_utc3 Y M D h mi s hb f hf]
    have e : (f : Int) * 1000 = ((f * 1000 : Nat) : Int) := by omega
    rw [e]; exact mk (f * 1000) 0 (by omega)
  · intro neg oh om hoh hom hlt
    rw [parse_offset Y M D h mi s hb neg oh om hoh hom hlt]; exact mk 0 _ (by omega)
  · intro f neg oh om hf hoh hom hlt
    rw [parse_frac_offset Y M D h mi s hb f hf neg oh om hoh hom hlt]; exact mk f _ (by omega)

/-- a date column cell `YYYY-MM-DD`: midnight UTC of that day; `_day` holds the text, `_set` is true -/
theorem date_cell_utc (Y M D : Nat) (hY : 1 ≤ Y ∧ Y ≤ 9999) (hM : 1 ≤ M ∧ M ≤ 12) (hD : 1 ≤ D ∧ (D : Int) ≤ daysInMonth Y M) :
    dateCell (L10 Y M D) = .ok (utcMicros Y M D 0 0 0 0 0, L10 Y M D, true) := by
  have hd : daysInMonth Y M ≤ 31 := by unfold daysInMonth; split <;> (try split) <;> omega
  have hne : (L10 Y M D).isEmpty = false := rfl
  have hpad : padTo 10 (L10 Y M D) = L10 Y M D := by
    have hl : (L10 Y M D).length = 10 := rfl
    simp [padTo, hl, List.take_of_length_le]
  unfold dateCell
  simp only [stripSpace_L10, hne, Bool.false_eq_true, if_false, strptimeYmd_L10 Y M D (by omega) hM ⟨hD.1, by omega⟩]
  have this : mkTimestamp Y M D 0 0 0 0 0 = .ok (utcMicros Y M D 0 0 0 0 0) :=
    mkTimestamp_valid Y M D 0 0 0 0 0 hY hM hD (by omega) (by omega) (by omega) (by omega)
  rw [this, hpad]

/-- an empty (or blank) cell of a datetime / date column: timestamp 0, empty day text, `_set` false -/
theorem time_cell_empty (cell : Bytes) (h : ∀ b ∈ cell, isSpaceByte b = true) :
    datetimeCell cell = .ok (0, List.replicate 10 0, false) ∧ dateCell cell = .ok (0, List.replicate 10 0, false) := by
  have hs : stripSpace cell = [] := by
    unfold stripSpace
    have : cell.dropWhile isSpaceByte = [] := by
      induction cell with
      | nil => rfl
      | cons a l ih =>
        simp only [List.dropWhile, h a (by simp)]
        exact ih (fun b hb => h b (by simp [hb]))
    rw [this]; rfl
  constructor
  · simp [datetimeCell, hs, padTo]
  · simp [dateCell, hs, padTo]

/-! ## companion columns stay row-aligned -/

theorem numericColumn_lengths {V} (mode : Mode) (inv : V) (ks : List (CellClass V)) (r : List V × List Bool)
    (h : numericColumn mode inv ks = some r) : r.1.length = ks.length ∧ r.2.length = ks.length := by
  induction ks generalizing r with
  | nil => simp [numericColumn] at h; subst h; simp
  | cons k ks ih =>
    rw [numericColumn_cons] at h
    cases h1 : numericCell mode inv k with
    | none => simp [h1, consCell] at h
    | some vf =>
      cases h2 : numericColumn mode inv ks with
      | none => simp [h1, h2, consCell] at h
      | some r' =>
        simp only [h1, h2, consCell, Option.some.injEq] at h
        subst h
        have := ih r' h2
        simp [this]

/-- `_freetext` of a leaky categorical column: one offset per row plus the leading 0, the last offset is the number of
    free-text bytes — for every chunking -/
theorem companions_aligned_leaky (cats : List (Bytes × Int)) (hnd : (cats.map (·.1)).Nodup) (chunks : List Chunk)
    (cellss : List (List Bytes)) (h : EncodesAll chunks cellss) :
    ∃ st, leakyImport cats chunks LeakyState.init = .ok st ∧ st.data.length = cellss.flatten.length ∧
      st.ftIndices.length = st.data.length + 1 ∧ st.ftIndices[st.data.length]? = some st.ftValues.length := by
  have hl := leaky_freetext cats hnd chunks cellss h
  generalize cellss.flatten = cells at hl
  refine ⟨_, hl, ?_, ?_, ?_⟩
  · simp only [leakyColumn, List.length_map]
  · simp only [leakyColumn, offsets_length, List.length_map]
  · simp only [leakyColumn, List.length_map]
    have := offsets_getLast 0 (cells.map (fun c => (freeText cats c).length))
    simp only [List.length_map, Nat.zero_add] at this
    rw [this, flatten_length_eq_sum]
    simp only [List.map_map, Function.comp_def]

/-- `_valid` of a `bool` column has exactly the rows of the column, for every chunking and mode -/
theorem companions_aligned_bool (mode : Mode) (invalid : Bool) (chunks : List Chunk) (cellss : List (List Bytes))
    (h : EncodesAll chunks cellss) (r : List Bool × List Bool) (hok : boolImport mode invalid chunks ([], []) = .ok r) :
    r.1.length = cellss.flatten.length ∧ r.2.length = r.1.length := by
  rw [bool_import mode invalid chunks cellss h] at hok
  generalize cellss.flatten = cells at hok ⊢
  cases hc : numericColumn mode invalid (cells.map boolClass) with
  | none => rw [hc] at hok; cases hok
  | some r' =>
    rw [hc] at hok
    simp only [List.nil_append, Except.ok.injEq] at hok
    have := numericColumn_lengths mode invalid _ r' hc
    simp only [List.length_map] at this
    subst hok
    simp only [this, and_self]

theorem astypeAll_length {V} (parse : Bytes → Parsed V) (ts : List Bytes) (vs : List V) (h : astypeAll parse ts = .ok vs) :
    vs.length = ts.length := by
  induction ts generalizing vs with
  | nil => simp [astypeAll] at h; subst h; rfl
  | cons t ts ih =>
    rw [astypeAll] at h
    cases hp : parse t with
    | bad => simp [hp] at h
    | overflow => simp [hp] at h
    | val v =>
      cases ha : astypeAll parse ts with
      | error e => simp [hp, ha] at h
      | ok vs' => simp [hp, ha] at h; subst h; simp [ih vs' ha]

theorem relaxedAll_length {V} (parse : Bytes → Parsed V) (inv : V) (ts : List Bytes) (r : List V × List Bool)
    (h : relaxedAll parse inv ts = .ok r) : r.1.length = ts.length ∧ r.2.length = ts.length := by
  induction ts generalizing r with
  | nil => simp [relaxedAll] at h; subst h; simp
  | cons t ts ih =>
    rw [relaxedAll] at h
    cases hr : relaxedAll parse inv ts with
    | error e => cases hp : parse t <;> simp [hp, hr] at h
    | ok r' =>
      have := ih r' hr
      cases hp : parse t <;> simp [hp, hr] at h <;> (subst h; simp [this])

/-- `_valid` of an integer / float column (modes with a flag column): as long as the column, for every chunking -/
theorem companions_aligned_numeric {V} (parse : Bytes → Parsed V) (mode : Mode) (hmode : mode ≠ .strict)
    (invalidText : Bytes) (invalid : V) (chunks : List Chunk) (st r : List V × List Bool)
    (hst : st.2.length = st.1.length) (hok : numImport parse mode invalidText invalid chunks st = .ok r) :
    r.2.length = r.1.length := by
  induction chunks generalizing st with
  | nil => simp [numImport] at hok; subst hok; exact hst
  | cons c cs ih =>
    rw [numImport] at hok
    cases hc : cellsE c with
    | error e => simp [hc] at hok
    | ok cells =>
      cases ht : transformNum parse mode invalidText invalid cells with
      | error e => simp [hc, ht] at hok
      | ok vf =>
        simp only [hc, ht] at hok
        refine ih _ ?_ hok
        cases mode with
        | strict => exact absurd rfl hmode
        | allowEmpty =>
          simp only [transformNum] at ht
          cases ha : astypeAll parse ((cells.map rstripNul).map (fun t => if npNonEmpty t then t else invalidText)) with
          | error e => rw [ha] at ht; cases ht
          | ok vs =>
            rw [ha] at ht
            simp only [Except.ok.injEq] at ht
            subst ht
            have := astypeAll_length parse _ vs ha
            simp [this, hst]
        | relaxed =>
          simp only [transformNum] at ht
          cases ha : relaxedAll parse invalid (cells.map rstripNul) with
          | error e => rw [ha] at ht; cases ht
          | ok r' =>
            rw [ha] at ht
            simp only [Except.ok.injEq] at ht
            subst ht
            have := relaxedAll_length parse invalid _ r' ha
            simp [this, hst]

theorem cellsMapE_length {α} (f : Bytes → Except Err α) (cells : List Bytes) (rs : List α) (h : cellsMapE f cells = .ok rs) :
    rs.length = cells.length := by
  induction cells generalizing rs with
  | nil => simp [cellsMapE] at h; subst h; rfl
  | cons c cs ih =>
    rw [cellsMapE] at h
    cases hf : f c with
    | error e => simp [hf] at h
    | ok a =>
      cases hr : cellsMapE f cs with
      | error e => simp [hf, hr] at h
      | ok as => simp [hf, hr] at h; subst h; simp [ih as hr]

/-- `_day` and `_set` of a datetime / date column: as long as the column, for every chunking -/
theorem companions_aligned_time (f : Bytes → Except Err (Int × Bytes × Bool)) (chunks : List Chunk)
    (st r : List Int × List Bytes × List Bool) (hst : st.2.1.length = st.1.length ∧ st.2.2.length = st.1.length)
    (hok : timeImport f chunks st = .ok r) : r.2.1.length = r.1.length ∧ r.2.2.length = r.1.length := by
  induction chunks generalizing st with
  | nil => simp [timeImport] at hok; subst hok; exact hst
  | cons c cs ih =>
    rw [timeImport] at hok
    cases hc : cellsE c with
    | error e => simp [hc] at hok
    | ok cells =>
      cases hm : cellsMapE f cells with
      | error e => simp [hc, hm] at hok
      | ok rs =>
        simp only [hc, hm] at hok
        exact ih _ (by simp [hst]) hok

/-! ## non-vacuity -/

/-- a chunk as the reader lays it out: the column starts at byte 2 of `column_vals`, three rows `ab`, ``, `abc`, one stale
    index entry, spare capacity -/
def demoChunk : Chunk :=
  { inds := [0, 2, 2, 5, 9], vals := [88, 88, 97, 98, 97, 98, 99, 88, 88], off := 2, cap := 7, rows := 3, col := 1, ncols := 2 }

theorem demo_encodes : Encodes demoChunk [[97, 98], [], [97, 98, 99]] := by
  refine ⟨rfl, ⟨0, ?_, by decide⟩, by decide⟩
  simp [EncFrom, demoChunk, slice]

/-- the column-subscript check is real: `col_idx = number of columns` passes `column_offsets[col_idx]` (one entry more) and
    fails at the first dimension of `column_inds`; beyond that already `column_offsets[col_idx]` fails -/
example : fixedStringTransform { demoChunk with col := 2 } 2 = .error (.oob "column_inds[col_idx,i]") ∧
    fixedStringTransform { demoChunk with col := 3 } 2 = .error (.oob "column_offsets[col_idx]") ∧
    fixedStringTransform { demoChunk with col := 2, rows := 0 } 2 = .ok [] := ⟨by rfl, by rfl, by rfl⟩

def demoCats : List (Bytes × Int) := [([97, 98, 99], 3), ([97], 1), ([97, 98], 2)]

example : (demoCats.map (·.1)).Nodup := by decide
example : categoricalTransform (getByteMap demoCats) demoChunk = .ok [2, 0, 3] := by
  rw [categorical_exact_match demoCats (by decide) demoChunk _ demo_encodes]; rfl
example : categoricalTransformChecked (getByteMap demoCats) demoChunk = .ok ([2, 0, 3], some 1) := by
  rw [(categorical_transform_checked demoCats (by decide) demoChunk _ demo_encodes).1]; rfl
example : categoricalImportChecked demoCats [demoChunk, demoChunk] [] = .error (.valueError "is not one of the categories") :=
  (categorical_property demoCats (by decide) _ _ (.cons demo_encodes (.cons demo_encodes .nil))).2 ⟨[], by decide, by decide⟩
example : categoricalImportChecked (([], 9) :: demoCats) [demoChunk, demoChunk] [] = .ok [2, 9, 3, 2, 9, 3] := by
  rw [categorical_import_checked (([], 9) :: demoCats) (by decide) _ _ (.cons demo_encodes (.cons demo_encodes .nil))]; rfl
-- `firstNoKey`: in `ab`, ``, `abc` against `demoCats` the empty cell (row 1) is the first that is no key
example : firstNoKey demoCats [[97, 98], [], [97, 98, 99]] = some 1 ∧ firstNoKey (([], 9) :: demoCats) [[97, 98], [], [97, 98, 99]] = none := by
  decide
example : ∃ pre x post, [[97, 98], [], [97, 98, 99]] = pre ++ x :: post ∧ pre.length = 1 ∧ x ∉ demoCats.map (·.1) ∧
    ∀ cell ∈ pre, cell ∈ demoCats.map (·.1) :=
  (first_unmatched_is_first demoCats [[97, 98], [], [97, 98, 99]]).2 1 (by decide)
example : catColumn (([], 9) :: demoCats) [[97, 98], [], [97, 98, 99]] = some [2, 9, 3] ∧
    catColumn demoCats [[97, 98], [], [97, 98, 99]] = none := by decide
example : (∃ cell ∈ [[97, 98], [], [97, 98, 99]], cell ∉ demoCats.map (·.1)) :=
  ((catColumn_spec demoCats (by decide) [[97, 98], [], [97, 98, 99]]).2).mp (by decide)
-- both branches of `categorical_property` are inhabited: with `` listed every cell is a key, without it the empty cell is none
example : ∀ cell ∈ [[[97, 98], [], [97, 98, 99]], [[97, 98], [], [97, 98, 99]]].flatten, cell ∈ ((([], 9) : Bytes × Int) :: demoCats).map (·.1) := by
  decide
-- two chunkings of the same six cells (`demoChunk` twice / a chunk without rows in between) give the same result
def emptyChunk : Chunk := { inds := [0], vals := [], off := 0, cap := 0, rows := 0, col := 0, ncols := 1 }
example : categoricalImportChecked demoCats [demoChunk, demoChunk] [] = categoricalImportChecked demoCats [demoChunk, emptyChunk, demoChunk] [] :=
  categorical_chunking_unobservable demoCats (by decide) _ _ [[[97, 98], [], [97, 98, 99]], [[97, 98], [], [97, 98, 99]]]
    [[[97, 98], [], [97, 98, 99]], [], [[97, 98], [], [97, 98, 99]]]
    (.cons demo_encodes (.cons demo_encodes .nil))
    (.cons demo_encodes (.cons ⟨rfl, ⟨0, by simp [EncFrom, emptyChunk], by decide⟩, by decide⟩ (.cons demo_encodes .nil))) rfl
example : EncodesAll [demoChunk, demoChunk] [[[97, 98], [], [97, 98, 99]], [[97, 98], [], [97, 98, 99]]] :=
  .cons demo_encodes (.cons demo_encodes .nil)
example : leakyImport [([97], 1), ([97, 98, 99], 7)] [demoChunk, demoChunk] LeakyState.init
    = .ok { data := [-1, -1, 7, -1, -1, 7], ftIndices := [0, 2, 2, 2, 4, 4, 4], ftValues := [97, 98, 97, 98], acc := 4 } := by
  rw [leaky_freetext _ (by decide) _ _ (.cons demo_encodes (.cons demo_encodes .nil))]; rfl
example : fixedStringTransform demoChunk 2 = .ok [97, 98, 0, 0, 97, 98] := by
  rw [fixed_truncates_to_n _ 2 _ demo_encodes]; rfl

example : ValidCivil 2020 6 15 19 45 39 := ⟨by decide, by decide, by decide, by decide, by decide, by decide⟩
-- b"2020-06-15 19:45:39+01:00" is 18:45:39 UTC = 1592246739 s
example : parseTimestamp (L19 2020 6 15 19 45 39 ++ offText false 1 0) = .ok 1592246739000000 := by rfl
example : boolLit [84, 114, 85, 101] = some 1 ∧ boolLit [110, 111, 112, 101] = none := by decide
example : boolTransform demoChunk .relaxed true 3 3 = .ok ([true, true, true], [false, false, false]) := by
  rw [bool_transform_spec _ _ _ _ _ _ demo_encodes (by decide) (by decide)]; rfl
/-- the capacity checks are real: a result array shorter than the row count is the model's out-of-bounds write -/
example : boolTransform demoChunk .relaxed true 2 3 = .error (.oob "elements[row_idx]") ∧
    boolTransform demoChunk .relaxed true 3 2 = .error (.oob "validity[row_idx]") := ⟨by rfl, by rfl⟩

end Exetera.Props.C06
