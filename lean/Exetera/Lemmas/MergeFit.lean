import Exetera.Model.MapValid
import Exetera.Spec.MapValid
/-! C02 / NC02c: the value buffer `ordered_map_valid_indexed_stream` sizes for itself (`value_factor=None`) holds every entry
    of the source. -/
namespace Exetera.Merge

open Exetera Exetera.Spec Exetera.MapValid

theorem le_foldl_max (l : List Nat) : ∀ (a : Nat), a ≤ l.foldl max a ∧ ∀ x ∈ l, x ≤ l.foldl max a := by
  induction l with
  | nil => intro a; simp
  | cons y ys ih =>
    intro a
    obtain ⟨h1, h2⟩ := ih (max a y)
    refine ⟨by simp only [List.foldl_cons]; omega, ?_⟩
    intro x hx
    simp only [List.foldl_cons]
    rcases List.mem_cons.1 hx with rfl | hx
    · omega
    · exact h2 x hx

/-- every entry is at most the longest one -/
theorem entry_le_longest {β} (ix : List Int) (vs : List β) : ∀ e ∈ entries ix vs, e.length ≤ longestEntry ix := by
  intro e he
  simp only [entries] at he
  obtain ⟨k, hk, hek⟩ := List.getElem_of_mem he
  simp only [List.length_zipWith] at hk
  simp only [List.getElem_zipWith] at hek
  subst hek
  have hmem : ((ix.tail[k]'(by omega)) - (ix[k]'(by omega))).toNat ∈
      List.zipWith (fun a b => (b - a).toNat) ix ix.tail := by
    apply List.mem_iff_getElem.2
    exact ⟨k, by simp only [List.length_zipWith]; exact hk, by simp [List.getElem_zipWith]⟩
  have := (le_foldl_max _ 0).2 _ hmem
  simp only [longestEntry]
  simp only [List.length_take, List.length_drop]
  omega

theorem le_mul_ceil (L cs : Nat) (hcs : 1 ≤ cs) : L ≤ cs * ((L + cs - 1) / cs) := by
  have h := Nat.lt_mul_div_succ (L + cs - 1) (show 0 < cs by omega)
  have : cs * ((L + cs - 1) / cs + 1) = cs * ((L + cs - 1) / cs) + cs := by rw [Nat.mul_add, Nat.mul_one]
  omega

/-- **the auto-sized value buffer holds every entry** -/
theorem entries_fit_auto {β} (vf : Nat) (ix : List Int) (vs : List β) (cs : Nat) (hcs : 1 ≤ cs) :
    ∀ e ∈ entries ix vs, e.length ≤ cs * autoValueFactor vf ix cs := by
  intro e he
  have h1 := entry_le_longest ix vs e he
  have h2 := le_mul_ceil (longestEntry ix) cs hcs
  have h3 : cs * ((longestEntry ix + cs - 1) / cs) ≤ cs * autoValueFactor vf ix cs :=
    Nat.mul_le_mul_left cs (by simp only [autoValueFactor]; omega)
  omega

end Exetera.Merge
