import Exetera.Lemmas.CatalogueRenameOk
/-! Every client call preserves the invariant (all operations except `reopen`, which is in `CatalogueReopen`). -/
namespace Exetera.Catalogue

theorem getFrame_ok {s : State} (hI : Inv s) {d : Nat} {fn : Name} {g : Nat} (h : getFrame s d fn = .ok g) :
    ((d, fn), g) ∈ s.dfs ∧ g ∈ s.file.map (·.2) := by
  unfold getFrame at h
  split at h
  · next g' hl =>
    cases h
    have hm := look_mem hl
    exact ⟨hm, List.mem_map.2 ⟨_, (hI.sameFrames _).1 hm, rfl⟩⟩
  · cases h

theorem void_state {α} (r : Res α) : r.void.state = r.state := by
  cases r <;> rfl

/-- a field-level block: keeps the core invariant and the dataset tables, hence the invariant -/
theorem Inv.field_level {s s' : State} (hI : Inv s) (hc : InvCore s') (hf : SameFrames s s') : Inv s' :=
  hI.lift hc hf.1 hf.2.1

/-- the part of `step` that is not `reopen` -/
theorem step_inv_noreopen {s : State} (hI : Inv s) (op : Op) (hop : ∀ d, op ≠ .reopen d) : Inv (step .repaired s op).state := by
  cases op with
  | create d fn n c =>
    simp only [step, withFrame]
    split
    · exact hI
    · next g hg =>
      rw [void_state]
      exact hI.field_level (addField_inv hI.toInvCore g n c (getFrame_ok hI hg).2) (addField_frames ..)
  | setItem d fn n r =>
    simp only [step, withField, withFrame]
    split
    · exact hI
    · split
      · exact hI
      · next g hg =>
        rw [void_state]
        exact hI.field_level (copyField_inv hI.toInvCore _ g n (getFrame_ok hI hg).2) (copyField_frames ..)
  | add d fn r =>
    simp only [step, withField, withFrame]
    split
    · exact hI
    · split
      · exact hI
      · next g hg =>
        rw [void_state]
        exact hI.field_level (addCopy_inv hI.toInvCore _ g (getFrame_ok hI hg).2) (addCopy_frames ..)
  | delItem d fn n =>
    simp only [step, withFrame]
    split
    · exact hI
    · exact hI.field_level (delItem_inv hI.toInvCore _ n) (delItem_frames ..)
  | drop d fn n =>
    simp only [step, withFrame]
    split
    · exact hI
    · exact hI.field_level (dropField_inv hI.toInvCore _ n) (dropField_frames ..)
  | deleteField d fn r =>
    simp only [step, withField, withFrame]
    split
    · exact hI
    · split
      · exact hI
      · exact hI.field_level (deleteField_inv hI.toInvCore _ _) (deleteField_frames ..)
  | rename d fn dict =>
    simp only [step, withFrame]
    split
    · exact hI
    · next hn =>
      split
      · exact hI
      · exact hI.field_level (renameFields_core hI.toInvCore _ dict (Decidable.not_not.1 hn)) (renameFields_frames ..)
  | copyField r d fn n =>
    simp only [step, withField, withFrame]
    split
    · exact hI
    · split
      · exact hI
      · next g hg =>
        rw [void_state]
        exact hI.field_level (copyField_inv hI.toInvCore _ g n (getFrame_ok hI hg).2) (copyField_frames ..)
  | moveField r d fn n =>
    simp only [step, withField, withFrame]
    split
    · exact hI
    · split
      · exact hI
      · next g hg =>
        exact hI.field_level (moveField_core hI.toInvCore _ g n (getFrame_ok hI hg).2) (moveField_frames ..)
  | createFrame d fn src =>
    cases src with
    | none => simp only [step]; rw [void_state]; exact createFrame_inv hI d fn none
    | some sr =>
      obtain ⟨sd, sfn⟩ := sr
      simp only [step, withFrame]
      split
      · exact hI
      · rw [void_state]; exact createFrame_inv hI d fn _
  | requireFrame d fn =>
    simp only [step]
    split
    · exact hI
    · rw [void_state]; exact createFrame_inv hI d fn none
  | copyFrame sd sfn d fn =>
    simp only [step, withFrame]
    split
    · exact hI
    · exact copyFrame_inv hI _ d fn
  | setFrame d fn sd sfn =>
    simp only [step, withFrame]
    split
    · exact hI
    · next sg hg => exact setFrame_inv hI d fn sd sg sfn (getFrame_ok hI hg).1
  | delFrame d fn => exact delFrame_inv hI d fn
  | dropFrame d fn => exact dropFrame_inv hI d fn
  | deleteFrame d sd sfn =>
    simp only [step, withFrame]
    split
    · exact hI
    · split
      · exact hI
      · exact delFrame_inv hI d _
  | moveFrame sd sfn d fn =>
    simp only [step, withFrame]
    split
    · exact hI
    · exact moveFrame_inv hI sd _ d fn
  | reopen d => exact absurd rfl (hop d)
  | view r =>
    simp only [step, withField]
    split
    · exact hI
    · next h _ =>
      rw [void_state]
      have := viewField_frames .repaired s h
      exact hI.lift (viewField_inv hI.toInvCore h) this.1.symm this.2.symm

end Exetera.Catalogue
