"""C07 — group-by results equal the group-wise reference computation.
Correspondence: DataFrame.groupby(...).count/min/max/first/last/distinct, DataFrame.drop_duplicates and Session.aggregate_*
on in-memory HDF5 dataframes  vs  Exetera.GroupBy.groupbyCount/groupbyAgg/groupbyDistinct/aggregate (Lean, Driver/C07.lean).
Oracle for the property itself: `reference()` below — distinct key tuples ascending, aggregate over the rows of each key in
original row order (the Python rendering of Spec/GroupBy.lean `IsGroupBy`)."""
import itertools

PROPERTY = "C07"
LEVEL = "proof"
LEAN_MODULES = ["Exetera.Props.C07", "Exetera.Witness.C07"]
EXHAUSTIVE = {"quick": True, "thorough": True}
CASE_TIMEOUT = 30
TECHNIQUE = ("Lean 4 theorems about an executable model of groupby / sort index / span reductions + differential correspondence "
             "of the compiled model with the real DataFrame.groupby and Session.aggregate_* calls")
LEVEL_TEXT = ("Proof, for all inputs, over the executable Lean model (Model/GroupBy.lean, Model/SortIndex.lean, Model/Spans.lean) that "
              "the driver runs: the multi-key sort index is the stable lexicographic sort; groupby(...).count / min / max / first / "
              "last / distinct and drop_duplicates return one row per distinct key tuple, ascending, with the aggregate of that "
              "key's rows taken in original order - for numeric, fixed-string and indexed-string targets (strings bytewise "
              "lexicographic), sorted or not, with or without a truthful hint (which is shown to be unobservable), with no "
              "out-of-bounds access and no spurious error; counts sum to the row count; Session.aggregate_* returns the same "
              "values on an ascending index; the specification determines the result. Since fix D20 (groupby compares every key "
              "column in its own dtype) the theorems hold for key columns of ANY mix of kinds - numbers of any dtype, fixed and "
              "indexed strings - with no hypothesis about the dtypes: `groupby_eq_spec`, `groupby_count_eq_spec`, "
              "`drop_duplicates_eq_spec`, `groupby_indexed_eq_spec`, `sorted_hint_irrelevant`; the `_partial` forms registered while "
              "D20 was open (hypothesis: stacking the key columns does not change how their values compare) are kept as "
              "corollaries, `stacked_eq_columnwise_on_faithful_keys` proves that on such keys (one dtype in particular) the "
              "repaired groupby returns exactly what the stacked one returned, and the witness theorems show the as-found code "
              "failing and the repaired code succeeding on D20's inputs.")
LEVEL_NOTE = ("Trusted: Lean kernel; the hand-written model is validated against the real code by the differential run (exhaustive "
              "frames up to 4/6 rows, all string sequences up to 3/4 rows for string min/max, seeded random frames to 3000 rows, "
              "exhaustive two-key frames over every pairing of key dtypes incl. int64 beyond 2^53 next to float64 and integers whose "
              "text order differs from their numeric order next to fixed / indexed strings, negative numbers), not verified against "
              "the Python text; numpy's stable argsort is modelled by List.mergeSort; fixed and indexed strings are rank-coded per "
              "column (the code only compares values of one column with each other), so the theorems speak about any totally "
              "ordered value type through Int, each column in its own order. The as-found stacking (np.asarray of all key columns, "
              "finding D20) stays in the model as `groupbyStacked`; the driver answers every case for both, the promotion being "
              "rendered as a per-column value table computed with numpy itself, and the stacked answer is accepted only while D20 "
              "is listed open (a `fixed` entry suppresses nothing: the as-found behaviour is then a disagreement AND a spec "
              "violation). The span kernels' own theorems are C08's (Props/C08.lean; the fold of per-column spans is "
              "Lemmas/SpansEntryN.lean), reused here. The theorems are about the tree with fix D18, NC08b and D20 applied; Session.aggregate_* "
              "with an IndexedStringField index needs fix NC07a and is covered by the correspondence only (the theorem is for "
              "numeric indexes).")
RULE = ("corpus (D18, D20 x3 + mixed-dtype keys x8, empty frame, text-ordered ints); exhaustive: every key frame with 1 key column "
        "over {0,1,2} and <= n rows and 2 key columns over {0,1}^2 and <= m rows (quick n=4,m=3; thorough n=6,m=4) x {count, "
        "distinct/drop_duplicates, min, max, first, last} x target kind rotating (thorough: all of) numeric/fixed/indexed, hint on "
        "when the frame is sorted; the two key columns rotate through 9 dtype pairings (same dtype; int64 at 2^53, 2^53+1 next to "
        "float64; integers 9, 10 / -3, 2 / -10, -9 next to S3 and indexed strings, either column first; float64 next to strings); "
        "every sequence of <= 3 (thorough 4) strings from a 6-string alphabet (prefixes, empty, trailing blank, non-ASCII) as one "
        "group and as two groups for string min/max; every Session.aggregate_* fn on every index over {0,1,2} with <= 4 rows; "
        "seeded random frames (1-3 key columns of int32/int64/float64/S3/indexed string, 45% of the compound keys of mixed dtypes: "
        "int/float, int/string, float/string, int/float/string; int64 beyond 2^53, integers of different digit counts and negative "
        "numbers next to strings; up to 60 / 3000 rows, sorted with truthful hint / sorted without / unsorted) and a malformed stream (ragged keys, no keys, aggregate without target / "
        "wrong length; a few untruthful hints, compared with the model only). Non-trivial = at least two groups and at least one "
        "group with two or more rows; distinct = distinct case dict.")
ASSUMPTIONS = ["all columns of a dataframe have the same number of rows (ragged key columns are only run as an error case)",
               "np.argsort(kind='stable') is a stable sort (modelled by List.mergeSort)",
               "numpy compares int32/int64/float64 values, fixed-length byte strings and (np.asarray of) Python strings as the total "
               "order the model uses on Int (strings rank-coded bytewise per column; float payloads integer-valued, no NaN)",
               "only for the as-found variant `groupbyStacked`: np.asarray([...]) of key columns promotes as numpy does in the harness "
               "process (value table per column)",
               "h5py stores and returns arrays faithfully; create_like gives a field of the same type",
               "hand-written Lean model validated by this differential run, not verified against the Python text"]
TRUSTED = ["Lean 4.33 kernel", "axioms: propext, Classical.choice, Quot.sound only (audited per theorem)",
           "checks/harness/c07.py generators, cast table, rank coding and comparison",
           "Lean models Exetera/Model/GroupBy.lean, SortIndex.lean, Spans.lean mirror dataframe.py / session.py / operations.py by hand"]
EXPLANATION = ""

STRS = ["", "a", "a ", "ab", "b", "aé"]          # prefixes, empty, trailing blank, non-ASCII (2 utf-8 bytes >= 0x80)
FIXED = ["", "a", "a ", "ab", "b", "a\xe9", "\xe9"]    # latin-1 renderings of S3 byte strings
BIG = [2 ** 53 - 1, 2 ** 53, 2 ** 53 + 1, 2 ** 53 + 2, 2 ** 53 + 3, 2 ** 62, 2 ** 62 + 1, -2 ** 53 - 1, -2 ** 53]
DEC = [0, 1, 2, 9, 10, 11, 19, 100, 101, -1, -2, -9, -10, -100]      # different digit counts, negative numbers
# dtype pairings of the exhaustive two-key frames and the values standing for the alphabet {0, 1} in a numeric column
PAIRS = [("int64", "int64"), ("int64", "float64"), ("int32", "indexed"), ("S3", "int64"), ("indexed", "indexed"),
         ("float64", "S3"), ("int64", "S3"), ("indexed", "int32"), ("float64", "int64")]
NEXT_TO_STR = [(9, 10), (-3, 2), (-10, -9), (2, 10)]
AGGS = ["count", "distinct", "min", "max", "first", "last"]


# ------------------------------------------------------------------------------------------------------------------
# generators
# ------------------------------------------------------------------------------------------------------------------

def lat(s):
    """text -> the latin-1 rendering of its utf-8 bytes (what impl returns for indexed strings)"""
    return s.encode("utf-8").decode("latin-1")


def keycol(dtype, data):
    return {"dtype": dtype, "data": list(data)}


def mk_target(kind, n, k, rng=None):
    """a target column of n rows; k selects the pattern (seed independent) unless rng is given"""
    def pick(pool, i):
        return pool[rng.randrange(len(pool))] if rng else pool[(i * (k % 5 + 1) + k // 5) % len(pool)]
    if kind == "numeric":
        dt = ["int32", "int64", "float64"][k % 3]
        pool = [3, -1, 7, 0, 5, 2, -4] + ([2 ** 53 + 1, 2 ** 53] if dt == "int64" else [])
        return {"kind": "numeric", "dtype": dt, "data": [pick(pool, i) for i in range(n)]}
    if kind == "fixed":
        return {"kind": "fixed", "len": 3, "data": [pick(FIXED, i) for i in range(n)]}
    return {"kind": "indexed", "data": [pick(STRS, i) for i in range(n)]}


def is_sorted_rows(keys):
    rows = key_rows(keys)
    return all(rows[i - 1] <= rows[i] for i in range(1, len(rows)))


def kenc(k):
    """encoding of the strings of a key column: indexed strings are text (utf-8), fixed strings latin-1 renderings of bytes"""
    return "utf-8" if k["dtype"] == "indexed" else "latin-1"


def is_str_key(k):
    return k["dtype"].startswith("S") or k["dtype"] == "indexed"


def key_rows(keys):
    cols = [[(x.encode(kenc(k)) if isinstance(x, str) else x) for x in k["data"]] for k in keys]
    return list(zip(*cols)) if cols else []


def mk_groupby(keys, agg, targets, hint, n, api=None):
    c = {"op": "groupby", "agg": agg, "hint": bool(hint), "keys": keys, "targets": targets if agg not in ("count", "distinct") else [],
         "_n": n}
    if agg == "distinct":
        c["api"] = api or ("drop_duplicates" if n % 2 else "groupby")
    return c


def frames(ncols, alphabet, maxlen):
    rows = list(itertools.product(alphabet, repeat=ncols))
    for ln in range(maxlen + 1):
        for seq in itertools.product(rows, repeat=ln):
            yield [[r[j] for r in seq] for j in range(ncols)]


def gen_cases(tier, rng):
    from checks import corpus
    cases = list(corpus.load("C07"))
    quick = tier == "quick"
    n1, n2 = (4, 3) if quick else (6, 4)
    cnt = 0
    kinds = ["numeric", "fixed", "indexed"]
    # exhaustive key frames
    for ncols, alpha, mx in ((1, (0, 1, 2), n1), (2, (0, 1), n2)):
        for cols in frames(ncols, alpha, mx):
            n = len(cols[0])
            for agg in AGGS:
                for tk in ([kinds[cnt % 3]] if quick or agg in ("count", "distinct") else kinds):
                    cnt += 1
                    kds = [["int32", "int64", "S3", "float64", "indexed"][cnt % 5]] if ncols == 1 else list(PAIRS[cnt % len(PAIRS)])
                    has_s = any(d in ("S3", "indexed") for d in kds)
                    keys = []
                    for kd, c in zip(kds, cols):
                        if kd == "S3":
                            vals = [FIXED[x + 1] for x in c]
                        elif kd == "indexed":
                            vals = [STRS[x + 1] for x in c]
                        elif ncols == 2 and has_s:            # a number next to a string: text order differs from numeric order
                            lo, hi = NEXT_TO_STR[(cnt // len(PAIRS)) % len(NEXT_TO_STR)]
                            vals = [(lo, hi)[x] for x in c]
                        elif ncols == 2 and kd == "int64" and "float64" in kds:   # int64 next to float64: beyond 2^53
                            vals = [2 ** 53 + x for x in c]
                        else:
                            vals = c
                        keys.append(keycol(kd, vals))
                    tg = [mk_target(tk, n, cnt)]
                    srt = is_sorted_rows(keys)
                    cases.append(mk_groupby(keys, agg, tg, srt and cnt % 2 == 0, cnt))
    # exhaustive string sequences for string min/max: one group, and two groups interleaved
    smax = 3 if quick else 4
    for ln in range(1, smax + 1):
        for seq in itertools.product(range(len(STRS)), repeat=ln):
            for agg in ("min", "max"):
                cnt += 1
                tgi = {"kind": "indexed", "data": [STRS[i] for i in seq]}
                tgf = {"kind": "fixed", "len": 3, "data": [FIXED[i] for i in seq]}
                cases.append(mk_groupby([keycol("int32", [0] * ln)], agg, [tgi, tgf], cnt % 3 == 0, cnt))
                if ln >= 2 and (not quick or cnt % 4 == 0):
                    cases.append(mk_groupby([keycol("int32", [i % 2 for i in range(ln)])], agg, [tgi], False, cnt))
    # exhaustive Session.aggregate_*
    for ln in range(0, 5):
        for idx in itertools.product((0, 1, 2), repeat=ln):
            for fn in ("count", "min", "max", "first", "last"):
                cnt += 1
                if quick and cnt % 3:
                    continue
                cases.append(mk_aggregate(list(idx), fn, cnt))
    # seeded random frames
    nrand = 500 if quick else 12000
    for t in range(nrand):
        cases.append(rand_groupby(rng, t, quick))
    for t in range(60 if quick else 1500):
        cases.append(rand_aggregate(rng, t))
    cases.extend(malformed(rng, 12 if quick else 60))
    return cases


def mk_aggregate(idx, fn, k, rng=None):
    n = len(idx)
    ik = ["ndarray", "field", "fixed_field", "fixed_ndarray", "indexed_field"][k % 5]
    index = {"kind": ik, "dtype": ["int32", "int64"][k % 2], "data": idx}
    if ik.startswith("fixed"):
        index["data"] = [FIXED[x % len(FIXED)] for x in idx]
        index["dtype"] = "S3"
    if ik == "indexed_field":
        index["data"] = [STRS[x % len(STRS)] for x in idx]
        index["dtype"] = "indexed"
    tg = mk_target("numeric", n, k, rng)
    target = None if fn == "count" else {"kind": ["ndarray", "field"][(k // 5) % 2], "dtype": tg["dtype"], "data": tg["data"]}
    return {"op": "aggregate", "fn": fn, "index": index, "target": target, "dest": k % 7 == 0, "_n": k}


def rand_key_values(rng, dtype, n, card, pool_kind):
    if dtype == "S3":
        pool = rng.sample(FIXED, min(card, len(FIXED)))
    elif dtype == "indexed":
        pool = rng.sample(STRS, min(card, len(STRS)))
    elif pool_kind == "big" and dtype == "int64":
        pool = rng.sample(BIG, min(card, len(BIG)))
    elif pool_kind == "dec":
        pool = rng.sample(DEC, min(card, len(DEC)))
    else:
        lo = rng.choice([-3, 0, 0, 100])
        pool = list(range(lo, lo + card))
    return [rng.choice(pool) for _ in range(n)]


def rand_groupby(rng, t, quick):
    if quick:
        n = rng.choice([0, 1, 2, 3, 5, 8, 13, 21, 40, 60])
    else:
        n = rng.choice([0, 1, 2, 3, 5, 8, 13, 21, 40, 60, 100, 100, 300]) if t % 40 else rng.choice([1000, 3000])
    ncols = rng.choice([1, 1, 2, 2, 3])
    mixed = rng.random() < 0.45
    if ncols == 1 or not mixed:
        d = rng.choice(["int32", "int64", "float64", "S3", "indexed"])
        dts = [d] * ncols
    else:
        fam = rng.choice(["intfloat", "intfloat", "ints", "intstr", "intstr", "floatstr", "all"])
        st = rng.choice(["S3", "indexed"])
        if fam == "intfloat":
            dts = [rng.choice(["int64", "float64", "int32"]) for _ in range(ncols)]
        elif fam == "ints":
            dts = [rng.choice(["int64", "int32"]) for _ in range(ncols)]
        elif fam == "intstr":
            dts = [rng.choice(["int64", st, "int32"]) for _ in range(ncols)]
        elif fam == "floatstr":
            dts = [rng.choice(["float64", st]) for _ in range(ncols)]
        else:
            dts = [rng.choice(["int64", "float64", st]) for _ in range(ncols)]
        if len(set(dts)) == 1:                 # make the family's point: at least two different dtypes
            a, b = {"intfloat": ("float64", "int64"), "ints": ("int32", "int64"), "intstr": (st, "int64"),
                    "floatstr": (st, "float64"), "all": (st, "int64")}[fam]
            dts[0] = a if dts[0] != a else b
    has_s = "S3" in dts or "indexed" in dts
    has_f = "float64" in dts
    keys = []
    for d in dts:
        card = rng.choice([1, 2, 3, 5, max(1, n // 2 + 1)])
        if has_s and d not in ("S3", "indexed") and not (d == "int64" and has_f and rng.random() < 0.3):
            pk = "dec"       # numbers next to strings: different digit counts, negative numbers
        else:
            pk = "big" if d == "int64" and rng.random() < (0.6 if has_f else 0.25) else "small"
        keys.append(keycol(d, rand_key_values(rng, d, n, card, pk)))
    shape = rng.choice(["unsorted", "unsorted", "sorted", "sorted_hint"])
    tcols = [mk_target(rng.choice(["numeric", "fixed", "indexed"]), n, t, rng) for _ in range(rng.choice([1, 1, 2]))]
    if shape != "unsorted" and n:
        order = sorted(range(n), key=lambda i: key_rows(keys)[i])
        keys = [keycol(k["dtype"], [k["data"][i] for i in order]) for k in keys]
    agg = rng.choice(AGGS)
    hint = shape == "sorted_hint"
    if shape == "unsorted" and rng.random() < 0.06:
        hint = True      # untruthful hint: outside the property, compared with the model only
    return mk_groupby(keys, agg, tcols, hint, t)


def rand_aggregate(rng, t):
    n = rng.choice([0, 1, 2, 5, 9, 30])
    card = rng.choice([1, 2, 3, 6])
    idx = [rng.randrange(card) for _ in range(n)]
    if rng.random() < 0.7:
        idx.sort()
    return mk_aggregate(idx, rng.choice(["count", "min", "max", "first", "last"]), rng.randrange(1000), rng)


def malformed(rng, m):
    out = []
    for t in range(m):
        k = t % 4
        if k == 0:    # ragged key columns
            c = mk_groupby([keycol("int32", [1, 0, 1]), keycol("int32", [0, 1])], AGGS[t % 6], [mk_target("numeric", 3, t)], False, t)
        elif k == 1:  # no key at all
            c = mk_groupby([], AGGS[t % 6], [mk_target("numeric", 3, t)], False, t)
        elif k == 2:  # aggregate without a target
            c = mk_aggregate([0, 0, 1], ["min", "max", "first", "last"][t % 4], 5 * t)
            c["target"] = None
        else:         # aggregate with a target of the wrong length
            c = mk_aggregate([0, 0, 1], ["min", "max", "first", "last"][t % 4], 5 * t)
            c["target"]["data"] = c["target"]["data"][:2] if t % 8 < 4 else c["target"]["data"] + [1]
        c["_malformed"] = True
        out.append(c)
    return out


# ------------------------------------------------------------------------------------------------------------------
# numpy's promotion when the key columns are stacked -> per-column cast tag for the model; Python renderings of the casts
# ------------------------------------------------------------------------------------------------------------------

def cast_tags(dtypes):
    """the kind of promotion np.asarray([...]) applies to each column (a label for the evidence's distribution)"""
    if any(d.startswith("S") or d == "indexed" for d in dtypes):
        return ["id" if d.startswith("S") or d == "indexed" else "text" for d in dtypes]
    if any(d.startswith("float") for d in dtypes):
        return ["f64" if d == "int64" else "id" for d in dtypes]
    return ["id"] * len(dtypes)


def model_values(k):
    """a key column as the model sees it: numbers as they are, strings rank-coded in the column's own bytewise order"""
    if is_str_key(k):
        tab = rank_table(k["data"], kenc(k))
        return [tab.index(v.encode(kenc(k))) for v in k["data"]]
    return list(k["data"])


_TABLES = {}


def stack_tables(keys):
    """What the AS-FOUND groupby's np.asarray([col0, col1, ...]) does to each key column, computed with numpy itself: per
    column a table [model value, rank of the promoted value among the column's promoted values] (equal promoted values get
    equal ranks, the promoted dtype's own order decides the ranks). None when nothing is promoted (one key, one dtype)."""
    dts = [k["dtype"] for k in keys]
    if len(set(dts)) <= 1 or len(set(len(k["data"]) for k in keys)) != 1:
        return None
    from checks import lib
    ck = lib.canon(keys)
    if ck not in _TABLES:
        import numpy as np
        cols = []
        for k in keys:
            if k["dtype"] == "indexed":
                cols.append(list(k["data"]))
            elif k["dtype"].startswith("S"):
                cols.append(np.array([v.encode("latin-1") for v in k["data"]], dtype=k["dtype"]))
            else:
                cols.append(np.array(k["data"], dtype=k["dtype"]))
        st = np.asarray(cols)
        out = []
        for j, k in enumerate(keys):
            codes = np.searchsorted(np.unique(st[j]), st[j]).tolist() if st.shape[1] else []
            out.append(sorted(set(zip(model_values(k), codes))))
        if len(_TABLES) > 20000:
            _TABLES.clear()
        _TABLES[ck] = out
    return _TABLES[ck]


def d20_shape(case):
    """the promotion of the as-found stacking changes how the values of some key column compare: two different values of
    the column become equal, or their order flips (the table is not strictly increasing in the column's own order)"""
    if case["op"] != "groupby" or case.get("_malformed"):
        return False
    tabs = stack_tables(case["keys"])
    if not tabs:
        return False
    return any(not a[1] < b[1] for tab in tabs for a, b in zip(tab, tab[1:]))


def rank_table(values, enc="latin-1"):
    return sorted(set(v.encode(enc) for v in values))


def to_model(case):
    if case["op"] == "groupby":
        tabs = stack_tables(case["keys"])
        keys = []
        for j, k in enumerate(case["keys"]):
            if tabs:      # only the as-found variant (`stacked`) looks at the table
                keys.append({"cast": "table", "table": [list(r) for r in tabs[j]], "data": model_values(k)})
            else:
                keys.append({"cast": "id", "data": model_values(k)})
        targets = []
        for t in case["targets"]:
            if t["kind"] == "numeric":
                targets.append({"kind": "plain", "data": t["data"]})
            elif t["kind"] == "fixed":
                tab = rank_table(t["data"])
                targets.append({"kind": "plain", "data": [tab.index(v.encode("latin-1")) for v in t["data"]]})
            else:
                indices, values = [0], []
                for s in t["data"]:
                    values.extend(s.encode("utf-8"))
                    indices.append(len(values))
                targets.append({"kind": "indexed", "indices": indices, "values": values})
        return {"op": "groupby", "agg": case["agg"], "hint": case["hint"], "keys": keys, "targets": targets}
    ix = case["index"]
    if ix["kind"] in ("ndarray", "field"):
        index = {"kind": "numeric", "data": ix["data"]}
    elif ix["kind"].startswith("fixed"):
        index = {"kind": "fixed", "rows": [list(v.encode("latin-1")) for v in ix["data"]]}
    else:
        indices, values = [0], []
        for s in ix["data"]:
            values.extend(s.encode("utf-8"))
            indices.append(len(values))
        index = {"kind": "indexed", "indices": indices, "values": values}
    m = {"op": "aggregate", "fn": case["fn"], "index": index}
    if case["target"] is not None:
        m["target"] = case["target"]["data"]
    return m


# ------------------------------------------------------------------------------------------------------------------
# implementation (runs in worker processes)
# ------------------------------------------------------------------------------------------------------------------
_S = {}


def _env():
    if not _S:
        import io
        import numpy as np
        from exetera.core import operations as ops, fields
        from exetera.core.session import Session
        _S.update(np=np, ops=ops, fields=fields, s=Session(), io=io, n=0)
    return _S


def _canon_array(np, a):
    if a.dtype.kind == "S":
        return [bytes(x).decode("latin-1") for x in a.tolist()]
    if a.dtype.kind == "f":
        return [int(x) if float(x).is_integer() else float(x) for x in a.tolist()]
    return [int(x) for x in a.tolist()]


def _canon_field(np, f):
    if f.indexed:
        return [lat(x) for x in f.data[:]]
    return _canon_array(np, np.asarray(f.data[:]))


def impl(case):
    e = _env()
    np, s, io = e["np"], e["s"], e["io"]
    e["n"] += 1
    name = "ds%d" % e["n"]
    ds = s.open_dataset(io.BytesIO(), "w", name)
    try:
        if case["op"] == "groupby":
            return impl_groupby(np, ds, case)
        return impl_aggregate(np, s, ds, case)
    finally:
        s.close_dataset(name)


def impl_groupby(np, ds, case):
    df = ds.create_dataframe("df")
    knames = []
    for j, k in enumerate(case["keys"]):
        nm = "k%d" % j
        knames.append(nm)
        if k["dtype"] == "indexed":
            df.create_indexed_string(nm).data.write(list(k["data"]))
        elif k["dtype"].startswith("S"):
            df.create_fixed_string(nm, int(k["dtype"][1:])).data.write(
                np.array([v.encode("latin-1") for v in k["data"]], dtype=k["dtype"]))
        else:
            df.create_numeric(nm, k["dtype"]).data.write(np.array(k["data"], dtype=k["dtype"]))
    tnames = []
    for j, t in enumerate(case["targets"]):
        nm = "t%d" % j
        tnames.append(nm)
        if t["kind"] == "numeric":
            df.create_numeric(nm, t["dtype"]).data.write(np.array(t["data"], dtype=t["dtype"]))
        elif t["kind"] == "fixed":
            df.create_fixed_string(nm, t["len"]).data.write(np.array([v.encode("latin-1") for v in t["data"]], dtype="S%d" % t["len"]))
        else:
            df.create_indexed_string(nm).data.write(list(t["data"]))
    ddf = ds.create_dataframe("ddf")
    by = knames[0] if len(knames) == 1 and case.get("_n", 0) % 2 == 0 else knames
    agg = case["agg"]
    if case.get("_n", 0) % 5 == 4 and case["keys"] and len(case["keys"][0]["data"]) >= 2:
        # the frame was grouped before with OTHER key values in the same columns (same field objects, same lengths): the keys
        # first hold the rows in reverse order, one group-by is run, then the real keys are written over them in place. The
        # measured call below must group what the columns hold now.
        def put(nm, k, data):
            f = df[nm]
            if k["dtype"] == "indexed":
                f.data.clear()
                f.data.write(list(data))
            elif k["dtype"].startswith("S"):
                f.data[:] = np.array([v.encode("latin-1") for v in data], dtype=k["dtype"])
            else:
                f.data[:] = np.array(data, dtype=k["dtype"])
        for nm, k in zip(knames, case["keys"]):
            put(nm, k, list(reversed(k["data"])))
        try:
            df.groupby(by, hint_keys_is_sorted=case["hint"]).count(ds.create_dataframe("before"))
        except Exception:  # noqa  (a sorted hint need not be truthful for the reversed rows)
            pass
        for nm, k in zip(knames, case["keys"]):
            put(nm, k, k["data"])
    if agg == "distinct" and case.get("api") == "drop_duplicates":
        df.drop_duplicates(by, ddf, hint_keys_is_sorted=case["hint"])
    else:
        g = df.groupby(by, hint_keys_is_sorted=case["hint"])
        if case.get("_n", 0) % 2 == 1 or case.get("reuse"):
            # the group-by object is reused, as scripts do (`g = df.groupby(k); g.count(a); g.max('x', b); …`): every
            # aggregate is first run once into a scratch dataframe; the measured call below must not notice
            tall = tnames[0] if len(tnames) == 1 else tnames
            for k_, a_ in enumerate(("last", "count", "first", "max", "min", "distinct")):
                scratch = ds.create_dataframe("scratch%d" % k_)
                if a_ in ("count", "distinct"):
                    getattr(g, a_)(scratch)
                elif tnames:
                    getattr(g, a_)(tall, scratch)
        if agg == "count":
            g.count(ddf)
        elif agg == "distinct":
            g.distinct(ddf)
        else:
            tg = tnames[0] if len(tnames) == 1 and case.get("_n", 0) % 3 == 0 else tnames
            getattr(g, agg)(tg, ddf)
    out = {"keys": [_canon_field(np, ddf[nm]) for nm in knames], "vals": []}
    if agg == "count":
        out["vals"].append(_canon_field(np, ddf["count"]))
    elif agg != "distinct":
        out["vals"] = [_canon_field(np, ddf[nm + "_" + agg]) for nm in tnames]
    extra = sorted(set(ddf.keys()) - set(knames) - {"count"} - {nm + "_" + agg for nm in tnames})
    if extra:
        out["extra"] = extra
    return out


def impl_aggregate(np, s, ds, case):
    df = ds.create_dataframe("df")
    ix = case["index"]
    if ix["kind"] == "ndarray":
        index = np.array(ix["data"], dtype=ix["dtype"])
    elif ix["kind"] == "field":
        index = df.create_numeric("i", ix["dtype"])
        index.data.write(np.array(ix["data"], dtype=ix["dtype"]))
    elif ix["kind"] == "fixed_ndarray":
        index = np.array([v.encode("latin-1") for v in ix["data"]], dtype="S3")
    elif ix["kind"] == "fixed_field":
        index = df.create_fixed_string("i", 3)
        index.data.write(np.array([v.encode("latin-1") for v in ix["data"]], dtype="S3"))
    else:
        index = df.create_indexed_string("i")
        index.data.write(list(ix["data"]))
    t = case["target"]
    target = None
    if t is not None:
        if t["kind"] == "ndarray":
            target = np.array(t["data"], dtype=t["dtype"])
        else:
            target = df.create_numeric("t", t["dtype"])
            target.data.write(np.array(t["data"], dtype=t["dtype"]))
    dest = None
    if case.get("dest"):
        dest = df.create_numeric("d", "int64" if case["fn"] == "count" else t["dtype"] if t else "int64")
    fn = getattr(s, "aggregate_" + case["fn"])
    if case["fn"] == "count":
        r = fn(index, dest)
    else:
        r = fn(index, target, dest)
    if dest is not None:
        return {"vals": _canon_array(np, np.asarray(dest.data[:]))}
    return {"vals": _canon_array(np, np.asarray(r))}


# ------------------------------------------------------------------------------------------------------------------
# the property's oracle: group-wise reference (Python rendering of Spec/GroupBy.lean)
# ------------------------------------------------------------------------------------------------------------------

def tvalue(t, i):
    v = t["data"][i]
    if t["kind"] == "fixed":
        return v.encode("latin-1")
    if t["kind"] == "indexed":
        return v.encode("utf-8")
    return v


def render(t, v):
    return v.decode("latin-1") if isinstance(v, bytes) else v


AGGF = {"min": min, "max": max, "first": lambda xs: xs[0], "last": lambda xs: xs[-1]}


def reference(case):
    """one row per distinct key tuple, ascending; aggregate over that key's rows in original order"""
    rows = key_rows(case["keys"])
    distinct = sorted(set(rows))
    members = {k: [i for i, r in enumerate(rows) if r == k] for k in distinct}
    keys = [[render(None, k[j]) for k in distinct] for j in range(len(case["keys"]))]
    agg = case["agg"]
    if agg == "count":
        vals = [[len(members[k]) for k in distinct]]
    elif agg == "distinct":
        vals = []
    else:
        vals = [[render(t, AGGF[agg]([tvalue(t, i) for i in members[k]])) for k in distinct] for t in case["targets"]]
    return {"keys": keys, "vals": vals}


def index_keys(case):
    ix = case["index"]
    enc = "utf-8" if ix["kind"] == "indexed_field" else "latin-1"
    return [x.encode(enc) if isinstance(x, str) else x for x in ix["data"]]


def runs_reference(case):
    """Session.aggregate_* on an index whose equal values are contiguous and ascending = the group-wise reference"""
    idx = index_keys(case)
    distinct = sorted(set(idx))
    members = {k: [i for i, r in enumerate(idx) if r == k] for k in distinct}
    if case["fn"] == "count":
        return [len(members[k]) for k in distinct]
    t = case["target"]["data"]
    return [AGGF[case["fn"]]([t[i] for i in members[k]]) for k in distinct]


def check_spec(case, io, mode):
    if case.get("_malformed"):
        return None          # outside the property's domain; only the error branch is compared with the model
    if case["op"] == "aggregate":
        key = index_keys(case)
        if any(key[i - 1] > key[i] for i in range(1, len(key))):
            return None      # not pre-grouped in key order: the property says nothing
        if "err" in io:
            return f"aggregate_{case['fn']} raised {io['err']} ({io.get('msg', '')}) on a pre-grouped index"
        ex = runs_reference(case)
        if io["vals"] != ex:
            return f"aggregate_{case['fn']} differs from the group-wise reference: got {io['vals']} expected {ex}"
        return None
    if case["hint"] and not is_sorted_rows(case["keys"]):
        return None          # untruthful hint: outside the property
    if "err" in io:
        return f"groupby.{case['agg']} raised {io['err']} ({io.get('msg', '')})"
    ex = reference(case)
    if io["keys"] != ex["keys"]:
        return f"key columns differ from the distinct ascending key tuples: got {io['keys']} expected {ex['keys']}"
    if io["vals"] != ex["vals"]:
        return f"{case['agg']} differs from the group-wise reference: got {io['vals']} expected {ex['vals']}"
    if io.get("extra"):
        return f"unexpected fields in the destination: {io['extra']}"
    if case["agg"] == "count" and sum(io["vals"][0]) != len(key_rows(case["keys"])):
        return "counts do not sum to the number of rows"
    return None


def match_finding(case, io, mode):
    """D20: key columns of different dtypes are stacked into one numpy array; the promotion changes how the values of some
    column compare (two different values become equal, or their order flips). Only such inputs are assigned to D20."""
    if case["op"] != "groupby" or case.get("_malformed") or "err" in io:
        return None
    return "D20" if d20_shape(case) else None


def decode_model(case, m):
    """model result (rank codes, byte lists) -> the canonical form impl returns"""
    if case["op"] == "aggregate":
        return {"vals": m}
    keys = []
    for k, col in zip(case["keys"], m["keys"]):
        if is_str_key(k):
            tab = rank_table(k["data"], kenc(k))
            keys.append([tab[r].decode("latin-1") for r in col])
        else:
            keys.append(col)
    vals = []
    if case["agg"] == "count":
        vals = m["vals"]
    elif case["agg"] != "distinct":
        for t, col in zip(case["targets"], m["vals"]):
            if t["kind"] == "fixed":
                tab = rank_table(t["data"])
                vals.append([tab[r].decode("latin-1") for r in col])
            elif t["kind"] == "indexed":
                vals.append([bytes(r).decode("latin-1") for r in col])
            else:
                vals.append(col)
    return {"keys": keys, "vals": vals}


def _compare(case, io, mo):
    if "err" in io or "err" in mo:
        a, b = io.get("err"), mo.get("err")
        return None if a == b else f"impl err={a} ({io.get('msg', '')}) model err={b}"
    m = decode_model(case, mo["ok"])
    for f in ("keys", "vals"):
        if f in m and io.get(f) != m[f]:
            return f"{f}: impl={io.get(f)} model={m[f]}"
    return None


_OPEN = {}


def d20_open():
    if "D20" not in _OPEN:
        from checks import lib
        _OPEN["D20"] = any(f["id"] == "D20" and f["status"] == "open" for f in lib.load_findings(PROPERTY))
    return _OPEN["D20"]


def compare(case, io, mo, mode):
    """The implementation must answer like the repaired model (`groupbyCols`). While finding D20 is listed OPEN, an input of
    D20's shape may instead be answered like the as-found variant (`groupbyStacked`, under `stacked`): the spec check then
    reports it under D20. Once D20 is `fixed` the as-found answer is a disagreement (and a spec violation)."""
    why = _compare(case, io, mo)
    if why and isinstance(mo.get("stacked"), dict) and d20_open() and d20_shape(case):
        if _compare(case, io, mo["stacked"]) is None:
            return None
    return why


def nontrivial(case, mo):
    if case.get("_malformed"):
        return False
    if case["op"] == "aggregate":
        idx = case["index"]["data"]
        return len(set(idx)) >= 2 and len(idx) > len(set(idx))
    rows = key_rows(case["keys"])
    return len(set(rows)) >= 2 and len(rows) > len(set(rows))


def classify(case, mo):
    tags = [case["op"]]
    if case.get("_malformed"):
        tags.append("malformed")
    if case["op"] == "aggregate":
        tags += ["fn:" + case["fn"], "index:" + case["index"]["kind"]]
    else:
        tags.append("agg:" + case["agg"])
        rows = key_rows(case["keys"])
        tags.append("rows:" + ("0" if not rows else "1-8" if len(rows) <= 8 else "9-99" if len(rows) < 100 else ">=100"))
        tags.append("keys:%d" % len(case["keys"]))
        srt = is_sorted_rows(case["keys"])
        tags.append(("hint" if srt else "untruthful-hint") if case["hint"] else ("sorted" if srt else "unsorted"))
        for t in case["targets"]:
            tags.append("target:" + t["kind"])
        dts = sorted(set("str" if is_str_key(k) else k["dtype"].rstrip("23468") for k in case["keys"]))
        if len(set(k["dtype"] for k in case["keys"])) > 1:
            tags.append("mixed-keys:" + "+".join(dts))
        if d20_shape(case):
            tags.append("d20-shape(promotion would change comparisons)")
        if any(isinstance(x, int) and x < 0 for k in case["keys"] for x in k["data"]) and "str" in dts and len(dts) > 1:
            tags.append("negative-next-to-string")
        if any(isinstance(x, int) and abs(x) > 2 ** 53 for k in case["keys"] for x in k["data"]):
            tags.append("beyond-2^53")
    if mo and "err" in mo:
        tags.append("model-err:" + mo["err"])
    return tags


def select_for_mode(case, mode, tier):
    if case["op"] == "groupby":
        n = len(case["keys"][0]["data"]) if case["keys"] else 0
        return n <= 40 and (case.get("_n", 0) % (11 if tier == "quick" else 3) == 0 or "_corpus" in case)
    return case.get("_n", 0) % 5 == 0
