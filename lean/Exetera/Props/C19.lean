import Exetera.Lemmas.JoinFlatSession
import Exetera.Lemmas.JoinFlatSwap
import Exetera.Lemmas.JoinFlatIndex
import Exetera.Lemmas.JoinFlatDec
import Exetera.Lemmas.C19Session
import Exetera.Lemmas.C19Pandas
import Exetera.Lemmas.C19Join
/-!
# C19 — Session-level merge and join helpers agree with relational join semantics

The theorems are about the executable models `Exetera.JoinFlat.*` (flat kernels) and `Exetera.JoinOld.*` (legacy streamed
drivers and the `Session` dispatch) that `Driver/C19.lean` runs against the real code, and about `Spec.leftJoin` /
`Spec.innerJoin` / `Spec.mapSpec`. `Sorted` is `List.Pairwise (· ≤ ·)`; a side asserted unique is strictly sorted
(`List.Pairwise (· < ·)`). An `.ok` result means: no out-of-bounds access in any kernel, every loop ended within its fuel.
The models carry the repairs D17, NC19a, NC19b, NC19c (fixes/*.patch); NC19d (indexed-string payloads are rejected by
`ordered_merge_*`) is open and modelled as found (`Witness/C19.lean`).
-/
namespace Exetera.Props.C19
open Exetera Exetera.Spec Exetera.Join Exetera.JoinFlat Exetera.JoinOld

/-! ## the flat kernels are projections of the relational join -/

/-- `generate_ordered_map_to_left_right_unique`: sorted keys, duplicate-free right column ⇒ `result` is the right column
    of the relational left join (row `r`: the matching right row, else the marker). -/
theorem left_right_unique_flat_eq {L R : List Int} (result : List Int) (inv : Int) (hL : Sorted L)
    (hR : R.Pairwise (· < ·)) (hres : result.length = L.length) :
    ∃ u, generateLeft false L R result inv = .ok (u, encR inv (leftJoin L R)) :=
  generateLeft_eq false result inv hL hR (by simp) hres

/-- `generate_ordered_map_to_left_both_unique`: both columns duplicate-free. -/
theorem left_both_unique_flat_eq {L R : List Int} (result : List Int) (inv : Int) (hL : L.Pairwise (· < ·))
    (hR : R.Pairwise (· < ·)) (hres : result.length = L.length) :
    ∃ u, generateLeft true L R result inv = .ok (u, encR inv (leftJoin L R)) :=
  generateLeft_eq true result inv (RU.sorted_of_strict hL) hR (fun _ => hL) hres

/-- `ordered_inner_map`: the two arrays list exactly the matching pairs in (left, right) order (arrays at least as long
    as the join; the rest of the arrays is left untouched). -/
theorem inner_map_flat_eq {L R : List Int} (l2i r2i : List Int) (hL : Sorted L) (hR : Sorted R)
    (hl : (innerJoin L R).length ≤ l2i.length) (hr : (innerJoin L R).length ≤ r2i.length) :
    orderedInnerMap true true L R l2i r2i =
      .ok ((encodeInner (innerJoin L R)).1 ++ l2i.drop (innerJoin L R).length,
           (encodeInner (innerJoin L R)).2 ++ r2i.drop (innerJoin L R).length) :=
  orderedInnerMap_eq true true l2i r2i hL hR (by simp) (by simp) hl hr

/-- `ordered_inner_map_left_unique`: duplicate-free left column. -/
theorem inner_map_left_unique_flat_eq {L R : List Int} (l2i r2i : List Int) (hL : L.Pairwise (· < ·)) (hR : Sorted R)
    (hl : (innerJoin L R).length ≤ l2i.length) (hr : (innerJoin L R).length ≤ r2i.length) :
    orderedInnerMap false true L R l2i r2i =
      .ok ((encodeInner (innerJoin L R)).1 ++ l2i.drop (innerJoin L R).length,
           (encodeInner (innerJoin L R)).2 ++ r2i.drop (innerJoin L R).length) :=
  orderedInnerMap_eq false true l2i r2i (RU.sorted_of_strict hL) hR (fun _ => hL) (by simp) hl hr

/-- `ordered_inner_map_both_unique` -/
theorem inner_map_both_unique_flat_eq {L R : List Int} (l2i r2i : List Int) (hL : L.Pairwise (· < ·))
    (hR : R.Pairwise (· < ·)) (hl : (innerJoin L R).length ≤ l2i.length) (hr : (innerJoin L R).length ≤ r2i.length) :
    orderedInnerMap false false L R l2i r2i =
      .ok ((encodeInner (innerJoin L R)).1 ++ l2i.drop (innerJoin L R).length,
           (encodeInner (innerJoin L R)).2 ++ r2i.drop (innerJoin L R).length) :=
  orderedInnerMap_eq false false l2i r2i (RU.sorted_of_strict hL) (RU.sorted_of_strict hR) (fun _ => hL) (fun _ => hR) hl hr

/-- `ordered_inner_map_result_size` is the number of matching pairs. -/
theorem inner_result_size_eq {L R : List Int} (hL : Sorted L) (hR : Sorted R) :
    innerResultSize L R = .ok (innerJoin L R).length :=
  innerResultSize_eq hL hR

-- non-vacuity: duplicate runs on the left, unmatched keys on both sides
example : Sorted [1, 2, 2, 3, 5, 5, 6, 9] ∧ ([2, 3, 4, 5, 9] : List Int).Pairwise (· < ·) := by simp [Sorted]
example : generateLeft false [1, 2, 2, 3, 5, 5, 6, 9] [2, 3, 4, 5, 9] (List.replicate 8 0) (-1) =
    .ok (true, encR (-1) (leftJoin [1, 2, 2, 3, 5, 5, 6, 9] [2, 3, 4, 5, 9])) := by decide
example : orderedInnerMap true true [1, 1, 2, 4, 4, 5] [1, 2, 2, 4, 6] (List.replicate 6 0) (List.replicate 6 0) =
    .ok (encodeInner (innerJoin [1, 1, 2, 4, 4, 5] [1, 2, 2, 4, 6])) := by decide
example : innerResultSize [1, 1, 2, 4, 4, 5] [1, 2, 2, 4, 6] = .ok 6 := by decide

/-! ## `Session.ordered_merge_left` / `ordered_merge_right` -/

/-- **ordered_merge_left is the relational left join of the payloads, and the forms agree.** For sorted keys, a
    duplicate-free right column (`right_unique=True`; `left_unique` only if the left column is duplicate-free too) and
    numeric payload columns of the right table there is ONE list of columns `cols` — column `k` is payload `k` mapped
    through the relational left join: row `r` is the payload at the unique right row whose key equals left key `r`, the
    empty value `0` if there is none (`Spec.mapSpec` over the right column of `Spec.leftJoin`) — such that every form of
    the call that is not the streamed one (ndarray or Field arguments; no sinks or Field sinks; any chunk size) succeeds
    and returns / writes exactly `cols`.

    `_partial`: superseded by `ordered_merge_left_correct` / `forms_agree` below, which also cover (a) the streamed form
    (`streamable c = true`: all arguments Fields and a map field given) for every chunk size `cs ≥ 1` and (b) ndarray
    sinks; kept because obligations are never deleted. Still excluded everywhere: (c) indexed-string payloads — false as
    found (open finding NC19d, `Witness.C19.nc19d_indexed_payload_rejected`). -/
theorem ordered_merge_left_correct_partial (lu : Bool) {L R : List Int} (xss : List (List Int))
    (hL : Sorted L) (hR : R.Pairwise (· < ·)) (hlu : lu = true → L.Pairwise (· < ·))
    (hne : xss ≠ []) (hlen : ∀ xs ∈ xss, xs.length = R.length) :
    ∃ cols, MappedCols (encR INVALID_INDEX (leftJoin L R)) INVALID_INDEX xss cols ∧
      ∀ (cs : Nat) (c : Cfg), streamable c = false →
        (c.sinks = .none → orderedMergeLeft cs c lu true L R (xss.map .numeric) = .ok ⟨some cols, [], none⟩) ∧
        (c.sinks = .fields → orderedMergeLeft cs c lu true L R (xss.map .numeric) = .ok ⟨none, cols, none⟩) :=
  orderedMergeLeft_flat lu xss hL hR hlu hne hlen

/-- `ordered_merge_right` is `ordered_merge_left` with the sides (and the flags) swapped: the result has one row per
    right row, the payloads come from the left table, whose key column must be the duplicate-free one.
    (`_partial` for the same reasons as `ordered_merge_left_correct_partial`.) -/
theorem ordered_merge_right_correct_partial (ru : Bool) {L R : List Int} (xss : List (List Int))
    (hL : L.Pairwise (· < ·)) (hR : Sorted R) (hru : ru = true → R.Pairwise (· < ·))
    (hne : xss ≠ []) (hlen : ∀ xs ∈ xss, xs.length = L.length) :
    ∃ cols, MappedCols (encR INVALID_INDEX (leftJoin R L)) INVALID_INDEX xss cols ∧
      ∀ (cs : Nat) (c : Cfg), streamable c = false →
        (c.sinks = .none → orderedMergeRight cs c true ru L R (xss.map .numeric) = .ok ⟨some cols, [], none⟩) ∧
        (c.sinks = .fields → orderedMergeRight cs c true ru L R (xss.map .numeric) = .ok ⟨none, cols, none⟩) :=
  orderedMergeLeft_flat ru xss hR hL hru hne hlen

/-- **forms agree** (array, field and field-sink forms, any chunk size): two calls that differ only in the form of
    their arguments return / write the same values. (`_partial`: see `ordered_merge_left_correct_partial`, items (a), (b).) -/
theorem forms_agree_partial (cs₁ cs₂ : Nat) (c₁ c₂ : Cfg) (lu : Bool) {L R : List Int} (xss : List (List Int))
    (h₁ : streamable c₁ = false) (h₂ : streamable c₂ = false)
    (hs₁ : c₁.sinks = .none ∨ c₁.sinks = .fields) (hs₂ : c₂.sinks = .none ∨ c₂.sinks = .fields)
    (hL : Sorted L) (hR : R.Pairwise (· < ·)) (hlu : lu = true → L.Pairwise (· < ·))
    (hne : xss ≠ []) (hlen : ∀ xs ∈ xss, xs.length = R.length) :
    ∃ o₁ o₂, orderedMergeLeft cs₁ c₁ lu true L R (xss.map .numeric) = .ok o₁ ∧
      orderedMergeLeft cs₂ c₂ lu true L R (xss.map .numeric) = .ok o₂ ∧
      o₁.returned.getD o₁.sinks = o₂.returned.getD o₂.sinks := by
  obtain ⟨cols, _, h⟩ := orderedMergeLeft_flat lu xss hL hR hlu hne hlen
  obtain ⟨a1, b1⟩ := h cs₁ c₁ h₁
  obtain ⟨a2, b2⟩ := h cs₂ c₂ h₂
  rcases hs₁ with s1 | s1 <;> rcases hs₂ with s2 | s2
  · exact ⟨_, _, a1 s1, a2 s2, rfl⟩
  · exact ⟨_, _, a1 s1, b2 s2, rfl⟩
  · exact ⟨_, _, b1 s1, a2 s2, rfl⟩
  · exact ⟨_, _, b1 s1, b2 s2, rfl⟩

-- non-vacuity: array form and field-sink form on the D17 witness columns, two payloads
example : orderedMergeLeft (1 <<< 20) ⟨false, false, .none, false⟩ false true [1, 2, 2, 3, 5, 5, 6, 9] [2, 3, 4, 5, 9]
    [.numeric [11, 14, 17, 20, 23]] = .ok ⟨some [[0, 11, 11, 14, 20, 20, 0, 23]], [], none⟩ := by decide
example : orderedMergeLeft 2 ⟨true, true, .fields, false⟩ false true [1, 2, 2, 3, 5, 5, 6, 9] [2, 3, 4, 5, 9]
    [.numeric [11, 14, 17, 20, 23]] = .ok ⟨none, [[0, 11, 11, 14, 20, 20, 0, 23]], none⟩ := by decide
-- the streamed form (not covered by the `_partial` theorems) on the same input, chunk size 2: same values
example : orderedMergeLeft 2 ⟨true, true, .fields, true⟩ false true [1, 2, 2, 3, 5, 5, 6, 9] [2, 3, 4, 5, 9]
    [.numeric [11, 14, 17, 20, 23]] =
    .ok ⟨none, [[0, 11, 11, 14, 20, 20, 0, 23]], some (encR INVALID_INDEX (leftJoin [1, 2, 2, 3, 5, 5, 6, 9] [2, 3, 4, 5, 9]))⟩ := by
  decide

/-! ### every form: array, Field, Field sinks, ndarray sinks, streamed with every chunk size -/

/-- **ordered_merge_left is the relational left join of the payloads — every form of the call.** For sorted keys, a
    duplicate-free right column (`right_unique=True`; `left_unique` only if the left column is duplicate-free too) and
    numeric payload columns of the right table there is ONE list of columns `cols` — column `k` is payload `k` mapped
    through the relational left join: row `r` is the payload at the unique right row whose key equals left key `r`, the
    empty value `0` if there is none (`Spec.mapSpec` over the right column of `Spec.leftJoin`) — such that, whatever the
    chunk size `cs` and whether keys / sources are ndarrays or Fields,
    * without sinks the call returns `cols`;
    * with Field sinks and no map field (not streamed) it writes `cols`;
    * with zero-initialised ndarray sinks (`np.zeros(len(left_on))`, one per payload) it writes `cols`;
    * the STREAMED form (all arguments Fields, Field sinks, a map field), for every chunk size `cs ≥ 1` of the legacy
      drivers `generate_ordered_map_to_left_right_unique_streamed_old` / `ordered_map_valid_stream_old`, writes `cols` and
      leaves the relational join map in the map field. The streamed form needs `len(right) ≤ INVALID_INDEX = 2^62` (the
      marker must not be a row number of the source; `ordered_map_valid_stream_old` does not test the entry that makes it
      fetch the next source chunk against the marker).
    `.ok` means: no out-of-bounds access, no `'i' has got ahead` / `StopIteration`, every loop ends within its fuel.
    Not covered: indexed-string payloads (open finding NC19d). -/
theorem ordered_merge_left_correct (lu : Bool) {L R : List Int} (xss : List (List Int))
    (hL : Sorted L) (hR : R.Pairwise (· < ·)) (hlu : lu = true → L.Pairwise (· < ·))
    (hne : xss ≠ []) (hlen : ∀ xs ∈ xss, xs.length = R.length) :
    ∃ cols, MappedCols (encR INVALID_INDEX (leftJoin L R)) INVALID_INDEX xss cols ∧
      ∀ (cs : Nat) (c : Cfg),
        (c.sinks = .none → orderedMergeLeft cs c lu true L R (xss.map .numeric) = .ok ⟨some cols, [], none⟩) ∧
        (c.sinks = .fields → streamable c = false →
          orderedMergeLeft cs c lu true L R (xss.map .numeric) = .ok ⟨none, cols, none⟩) ∧
        (c.sinks = zeroArrays L.length xss.length →
          orderedMergeLeft cs c lu true L R (xss.map .numeric) = .ok ⟨none, cols, none⟩) ∧
        (streamable c = true → 1 ≤ cs → (R.length : Int) ≤ INVALID_INDEX →
          orderedMergeLeft cs c lu true L R (xss.map .numeric) =
            .ok ⟨none, cols, some (encR INVALID_INDEX (leftJoin L R))⟩) :=
  orderedMergeLeft_all lu xss hL hR hlu hne hlen

/-- `ordered_merge_right`, every form: `ordered_merge_left` with the sides (and the flags) swapped — one row per right
    row, payloads from the left table, whose key column must be the duplicate-free one. -/
theorem ordered_merge_right_correct (ru : Bool) {L R : List Int} (xss : List (List Int))
    (hL : L.Pairwise (· < ·)) (hR : Sorted R) (hru : ru = true → R.Pairwise (· < ·))
    (hne : xss ≠ []) (hlen : ∀ xs ∈ xss, xs.length = L.length) :
    ∃ cols, MappedCols (encR INVALID_INDEX (leftJoin R L)) INVALID_INDEX xss cols ∧
      ∀ (cs : Nat) (c : Cfg),
        (c.sinks = .none → orderedMergeRight cs c true ru L R (xss.map .numeric) = .ok ⟨some cols, [], none⟩) ∧
        (c.sinks = .fields → streamable c = false →
          orderedMergeRight cs c true ru L R (xss.map .numeric) = .ok ⟨none, cols, none⟩) ∧
        (c.sinks = zeroArrays R.length xss.length →
          orderedMergeRight cs c true ru L R (xss.map .numeric) = .ok ⟨none, cols, none⟩) ∧
        (streamable c = true → 1 ≤ cs → (L.length : Int) ≤ INVALID_INDEX →
          orderedMergeRight cs c true ru L R (xss.map .numeric) =
            .ok ⟨none, cols, some (encR INVALID_INDEX (leftJoin R L))⟩) :=
  orderedMergeLeft_all ru xss hR hL hru hne hlen

/-- **the array, Field and streamed forms of the same call return the same values.** Two `ordered_merge_left` calls on the
    same keys and payloads that differ in the form of their arguments (ndarray / Field keys and sources; no sinks, Field
    sinks or zero-initialised ndarray sinks; with or without the map field, i.e. streamed or not) and in the chunk size of
    the streamed helpers (any `cs ≥ 1`) both succeed and return / write the same columns (`FormOK`: the forms listed in
    `ordered_merge_left_correct`). -/
theorem forms_agree (cs₁ cs₂ : Nat) (c₁ c₂ : Cfg) (lu : Bool) {L R : List Int} (xss : List (List Int))
    (h₁ : FormOK cs₁ c₁ L.length xss.length R.length) (h₂ : FormOK cs₂ c₂ L.length xss.length R.length)
    (hL : Sorted L) (hR : R.Pairwise (· < ·)) (hlu : lu = true → L.Pairwise (· < ·))
    (hne : xss ≠ []) (hlen : ∀ xs ∈ xss, xs.length = R.length) :
    ∃ o₁ o₂, orderedMergeLeft cs₁ c₁ lu true L R (xss.map .numeric) = .ok o₁ ∧
      orderedMergeLeft cs₂ c₂ lu true L R (xss.map .numeric) = .ok o₂ ∧
      o₁.returned.getD o₁.sinks = o₂.returned.getD o₂.sinks := by
  obtain ⟨cols, _, h⟩ := orderedMergeLeft_any lu xss hL hR hlu hne hlen
  obtain ⟨o₁, a1, b1, _⟩ := h cs₁ c₁ h₁
  obtain ⟨o₂, a2, b2, _⟩ := h cs₂ c₂ h₂
  exact ⟨o₁, o₂, a1, a2, b1.trans b2.symm⟩

/-- the same for `ordered_merge_right` -/
theorem forms_agree_right (cs₁ cs₂ : Nat) (c₁ c₂ : Cfg) (ru : Bool) {L R : List Int} (xss : List (List Int))
    (h₁ : FormOK cs₁ c₁ R.length xss.length L.length) (h₂ : FormOK cs₂ c₂ R.length xss.length L.length)
    (hL : L.Pairwise (· < ·)) (hR : Sorted R) (hru : ru = true → R.Pairwise (· < ·))
    (hne : xss ≠ []) (hlen : ∀ xs ∈ xss, xs.length = L.length) :
    ∃ o₁ o₂, orderedMergeRight cs₁ c₁ true ru L R (xss.map .numeric) = .ok o₁ ∧
      orderedMergeRight cs₂ c₂ true ru L R (xss.map .numeric) = .ok o₂ ∧
      o₁.returned.getD o₁.sinks = o₂.returned.getD o₂.sinks :=
  forms_agree cs₁ cs₂ c₁ c₂ ru xss h₁ h₂ hR hL hru hne hlen

/-- the two refinements the streamed form rests on, as statements about the legacy drivers themselves: for every chunk
    size ≥ 1 the streamed left map is the flat kernel's map … -/
theorem streamed_old_left_map_eq_flat {L R : List Int} (inv : Int) {cs : Nat} (hcs : 1 ≤ cs) (hL : Sorted L)
    (hR : R.Pairwise (· < ·)) :
    ∃ u u', streamedOld L R inv cs = .ok (u, encR inv (leftJoin L R)) ∧
      generateLeft false L R (List.replicate L.length 0) inv = .ok (u', encR inv (leftJoin L R)) := by
  obtain ⟨u, h⟩ := streamedOld_eq inv hcs hL hR
  obtain ⟨u', h'⟩ := generateLeft_eq false (List.replicate L.length 0) inv hL hR (by simp) (by simp)
  exact ⟨u, u', h, h'⟩

/-- … and the streamed mapper is `map_valid` (= `Spec.mapSpec`) on every in-range map whose valid entries do not
    decrease, the marker not being a row number of the source. -/
theorem streamed_old_map_valid_eq_flat (xs : List Int) (m : List Int) (inv : Int) {cs : Nat} (hcs : 1 ≤ cs)
    (hr : InRange xs.length m inv) (hmono : ValidMonotone m inv) (hinv : inv < 0 ∨ (xs.length : Int) ≤ inv) :
    mapValidStreamOld xs m inv cs 0 = MapValid.mapValid xs m none inv 0 ∧
      ∃ out, mapValidStreamOld xs m inv cs 0 = .ok out ∧ mapSpec xs inv 0 m = some out :=
  ⟨mapValidStreamOld_eq_mapValid xs m inv 0 hcs hr hmono hinv, mapValidStreamOld_eq xs m inv 0 hcs hr hmono hinv⟩

-- non-vacuity of the new hypotheses: the streamed form with chunk size 2 and zero-initialised ndarray sinks are covered forms
example : FormOK 2 ⟨true, true, .fields, true⟩ 8 1 5 ∧ streamable ⟨true, true, .fields, true⟩ = true := by
  refine ⟨⟨Or.inr (Or.inl rfl), fun _ => ⟨by decide, by decide⟩⟩, rfl⟩
example : FormOK (1 <<< 20) ⟨false, false, zeroArrays 8 1, false⟩ 8 1 5 :=
  ⟨Or.inr (Or.inr rfl), fun h => by cases h⟩
example : orderedMergeLeft (1 <<< 20) ⟨false, false, zeroArrays 8 1, false⟩ false true [1, 2, 2, 3, 5, 5, 6, 9] [2, 3, 4, 5, 9]
    [.numeric [11, 14, 17, 20, 23]] = .ok ⟨none, [[0, 11, 11, 14, 20, 20, 0, 23]], none⟩ := by decide
example : streamedOld [1, 2, 2, 3, 5, 5, 6, 9] [2, 3, 4, 5, 9] (-1) 1 =
    .ok (true, encR (-1) (leftJoin [1, 2, 2, 3, 5, 5, 6, 9] [2, 3, 4, 5, 9])) := by decide
example : encR (-1) (leftJoin [1, 2, 2, 3, 5, 5, 6, 9] [2, 3, 4, 5, 9]) = [-1, 0, 0, 1, 3, 3, -1, 4] := by decide
example : InRange 5 (encR (-1) (leftJoin [1, 2, 2, 3, 5, 5, 6, 9] [2, 3, 4, 5, 9])) (-1) ∧
    ValidMonotone (encR (-1) (leftJoin [1, 2, 2, 3, 5, 5, 6, 9] [2, 3, 4, 5, 9])) (-1) :=
  ⟨inRange_encR _ _ _, validMonotone_encR_leftJoin _ (by simp [Sorted]) (by simp)⟩
example : mapValidStreamOld [11, 14, 17, 20, 23] [-1, 0, 0, 1, 3, 3, -1, 4] (-1) 2 0 = .ok [0, 11, 11, 14, 20, 20, 0, 23] := by
  decide

/-! ## `Session.ordered_merge_inner` -/

/-- **inner results list exactly the matching pairs**: for sorted keys and every truthful combination of the
    uniqueness flags the two maps `ordered_merge_inner` computes are the left and the right column of `Spec.innerJoin` —
    also for `left_unique=False, right_unique=True`, where the code runs `ordered_inner_map_left_unique` with the two
    sides swapped and reads the result back swapped. -/
theorem inner_lists_exactly_pairs (lu ru : Bool) {L R : List Int} (hL : Sorted L) (hR : Sorted R)
    (hlu : lu = true → L.Pairwise (· < ·)) (hru : ru = true → R.Pairwise (· < ·)) :
    innerMaps lu ru L R = .ok (encodeInner (innerJoin L R)) :=
  innerMaps_eq lu ru hL hR hlu hru (innerResultSize_eq hL hR) (fun _ h2 => orderedInnerMap_swapped hL (hru h2))

/-- … so the payload columns `ordered_merge_inner` returns (no sinks) or writes (Field sinks) are, for every numeric
    payload, exactly the payload values of the matching pairs in (left, right) order. -/
theorem inner_payloads (lu ru : Bool) {L R : List Int} (lxs rxs : List (List Int)) (hL : Sorted L) (hR : Sorted R)
    (hlu : lu = true → L.Pairwise (· < ·)) (hru : ru = true → R.Pairwise (· < ·))
    (hl : ∀ xs ∈ lxs, xs.length = L.length) (hr : ∀ xs ∈ rxs, xs.length = R.length) (hln : lxs ≠ []) (hrn : rxs ≠ []) :
    ∃ lcols rcols,
      MappedCols (encodeInner (innerJoin L R)).1 INVALID_INDEX lxs lcols ∧
      MappedCols (encodeInner (innerJoin L R)).2 INVALID_INDEX rxs rcols ∧
      orderedMergeInner lu ru L R (lxs.map .numeric) .none (rxs.map .numeric) .none =
        .ok ⟨⟨some lcols, [], none⟩, ⟨some rcols, [], none⟩⟩ ∧
      orderedMergeInner lu ru L R (lxs.map .numeric) .fields (rxs.map .numeric) .fields =
        .ok ⟨⟨none, lcols, none⟩, ⟨none, rcols, none⟩⟩ := by
  have hm := inner_lists_exactly_pairs lu ru hL hR hlu hru
  obtain ⟨lcols, h1, h2⟩ := mapM_mapValid (encodeInner (innerJoin L R)).1 INVALID_INDEX L.length
    (inRange_inner_left L R INVALID_INDEX) lxs hl
  obtain ⟨rcols, h3, h4⟩ := mapM_mapValid (encodeInner (innerJoin L R)).2 INVALID_INDEX R.length
    (inRange_inner_right L R INVALID_INDEX) rxs hr
  have e1 : (lxs.map Payload.numeric).isEmpty = false := by
    cases lxs with
    | nil => exact absurd rfl hln
    | cons x xs => rfl
  have e2 : (rxs.map Payload.numeric).isEmpty = false := by
    cases rxs with
    | nil => exact absurd rfl hrn
    | cons x xs => rfl
  refine ⟨lcols, rcols, h2, h4, ?_, ?_⟩
  · simp only [orderedMergeInner, Sinks.count, Option.any_none, Bool.false_eq_true, if_false, e1, e2, hm, mapFields, h1, h3]
  · simp only [orderedMergeInner, Sinks.count, Option.any_none, Bool.false_eq_true, if_false, e1, e2, hm, mapFields, h1, h3]

/-- `ordered_merge_inner`, every form of the sinks: the same columns are returned (no sinks), written to Field sinks, or
    written to zero-initialised ndarray sinks of the join's length (`np.zeros(ordered_inner_map_result_size(...))`). -/
theorem inner_payloads_all_forms (lu ru : Bool) {L R : List Int} (lxs rxs : List (List Int)) (hL : Sorted L) (hR : Sorted R)
    (hlu : lu = true → L.Pairwise (· < ·)) (hru : ru = true → R.Pairwise (· < ·))
    (hl : ∀ xs ∈ lxs, xs.length = L.length) (hr : ∀ xs ∈ rxs, xs.length = R.length) (hln : lxs ≠ []) (hrn : rxs ≠ []) :
    ∃ lcols rcols,
      MappedCols (encodeInner (innerJoin L R)).1 INVALID_INDEX lxs lcols ∧
      MappedCols (encodeInner (innerJoin L R)).2 INVALID_INDEX rxs rcols ∧
      orderedMergeInner lu ru L R (lxs.map .numeric) .none (rxs.map .numeric) .none =
        .ok ⟨⟨some lcols, [], none⟩, ⟨some rcols, [], none⟩⟩ ∧
      orderedMergeInner lu ru L R (lxs.map .numeric) .fields (rxs.map .numeric) .fields =
        .ok ⟨⟨none, lcols, none⟩, ⟨none, rcols, none⟩⟩ ∧
      orderedMergeInner lu ru L R (lxs.map .numeric) (zeroArrays (innerJoin L R).length lxs.length)
          (rxs.map .numeric) (zeroArrays (innerJoin L R).length rxs.length) =
        .ok ⟨⟨none, lcols, none⟩, ⟨none, rcols, none⟩⟩ := by
  have hm := inner_lists_exactly_pairs lu ru hL hR hlu hru
  obtain ⟨lcols, h1, h2⟩ := mapM_mapValid (encodeInner (innerJoin L R)).1 INVALID_INDEX L.length
    (inRange_inner_left L R INVALID_INDEX) lxs hl
  obtain ⟨rcols, h3, h4⟩ := mapM_mapValid (encodeInner (innerJoin L R)).2 INVALID_INDEX R.length
    (inRange_inner_right L R INVALID_INDEX) rxs hr
  have e1 : (lxs.map Payload.numeric).isEmpty = false := by
    cases lxs with
    | nil => exact absurd rfl hln
    | cons x xs => rfl
  have e2 : (rxs.map Payload.numeric).isEmpty = false := by
    cases rxs with
    | nil => exact absurd rfl hrn
    | cons x xs => rfl
  have a1 := mapM_arrays (encodeInner (innerJoin L R)).1 INVALID_INDEX lxs
  have a2 := mapM_arrays (encodeInner (innerJoin L R)).2 INVALID_INDEX rxs
  have l1 : (encodeInner (innerJoin L R)).1.length = (innerJoin L R).length := by simp [encodeInner]
  have l2 : (encodeInner (innerJoin L R)).2.length = (innerJoin L R).length := by simp [encodeInner]
  rw [l1, h1] at a1
  rw [l2, h3] at a2
  refine ⟨lcols, rcols, h2, h4, ?_, ?_, ?_⟩
  · simp only [orderedMergeInner, Sinks.count, Option.any_none, Bool.false_eq_true, if_false, e1, e2, hm, mapFields, h1, h3]
  · simp only [orderedMergeInner, Sinks.count, Option.any_none, Bool.false_eq_true, if_false, e1, e2, hm, mapFields, h1, h3]
  · simp only [orderedMergeInner, zeroArrays, Sinks.count, Option.any_some, List.length_replicate, List.length_map,
      bne_self_eq_false, Bool.false_eq_true, if_false, e1, e2, hm, mapFields, a1, a2]

example : orderedMergeInner false false [1, 1, 2, 4, 4, 5] [1, 2, 2, 4, 6] [.numeric [11, 14, 17, 20, 23, 26]] (zeroArrays 6 1)
    [.numeric [7, 10, 13, 16, 19]] (zeroArrays 6 1) =
    .ok ⟨⟨none, [[11, 14, 17, 17, 20, 23]], none⟩, ⟨none, [[7, 7, 10, 13, 16, 16]], none⟩⟩ := by decide

example : innerMaps false false [1, 1, 2, 4, 4, 5] [1, 2, 2, 4, 6] = .ok (encodeInner (innerJoin [1, 1, 2, 4, 4, 5] [1, 2, 2, 4, 6])) := by
  decide
-- the swapped combination on a concrete input (duplicates on the left, right duplicate-free)
example : innerMaps false true [1, 1, 2, 4, 4, 5] [1, 2, 4, 6] = .ok (encodeInner (innerJoin [1, 1, 2, 4, 4, 5] [1, 2, 4, 6])) := by
  decide

/-! ## `Session.merge_left` / `merge_right` / `merge_inner` (the join itself is `pandas.merge`, a parameter) -/

/-- **merge_left maps the payloads through the rows pandas returned.** Whatever row pairs `pandas.merge(how='left')`
    returns for the two key columns (any order of keys, duplicates allowed; right rows in range), every payload column of
    the right table — numeric or indexed string — comes back as `Spec.mapSpec` / `Spec.mapIndexedSpec` through the right
    column of exactly those rows: row `r` is the payload at the partner row, the empty value (0 / empty string) where the
    left row has no partner. The same values are returned or written to the writers. -/
theorem merge_left_maps_pandas_rows (pd : List Int → List Int → List (Nat × Option Nat)) (L R : List Int)
    (ps : List Payload) (hrows : ∀ p ∈ pd L R, ∀ j, p.2 = some j → j < R.length)
    (hps : ∀ p ∈ ps, PayloadOK R.length p) :
    ∃ outs, mergeLeft pd L R ps = .ok outs ∧ MappedPayloads (encR NAN_AS_INT (pd L R)) NAN_AS_INT ps outs :=
  mergeLeft_rows pd L R ps hrows hps

/-- … so under the recorded assumption that `pandas.merge(how='left')` returns the relational left join, `merge_left`
    returns the payload values of `Spec.leftJoin` (keys in ANY order, duplicates on either side). -/
theorem merge_left_relational (pd : List Int → List Int → List (Nat × Option Nat)) (L R : List Int)
    (ps : List Payload) (hpd : pd L R = leftJoin L R) (hps : ∀ p ∈ ps, PayloadOK R.length p) :
    ∃ outs, mergeLeft pd L R ps = .ok outs ∧ MappedPayloads (encR NAN_AS_INT (leftJoin L R)) NAN_AS_INT ps outs := by
  have := mergeLeft_rows pd L R ps (by
    intro p hp j hj
    rw [hpd] at hp
    exact leftJoinFrom_bound R L 0 p hp j hj) hps
  rwa [hpd] at this

/-- `merge_right` is `merge_left` with the tables swapped (`pandas.merge(left=r_df, right=l_df, how='left')`). -/
theorem merge_right_relational (pd : List Int → List Int → List (Nat × Option Nat)) (L R : List Int)
    (ps : List Payload) (hpd : pd R L = leftJoin R L) (hps : ∀ p ∈ ps, PayloadOK L.length p) :
    ∃ outs, mergeRight pd L R ps = .ok outs ∧ MappedPayloads (encR NAN_AS_INT (leftJoin R L)) NAN_AS_INT ps outs :=
  merge_left_relational pd R L ps hpd hps

/-- **merge_inner maps both tables' payloads through the pairs pandas returned**; under the recorded assumption that
    `pandas.merge(how='inner')` returns the matching pairs of `Spec.innerJoin` in some order (pandas does not keep the
    order of duplicate right rows: a permutation) the two results list, row by row, the payloads of the left and of the
    right member of each pair (`-1` never occurs in the maps, so no row is a marker). -/
theorem merge_inner_maps_pandas_rows (pdi : List Int → List Int → List (Nat × Nat)) (L R : List Int)
    (lps rps : List Payload) (hpd : (pdi L R).Perm (innerJoin L R))
    (hl : ∀ p ∈ lps, PayloadOK L.length p) (hr : ∀ p ∈ rps, PayloadOK R.length p) :
    ∃ louts routs, mergeInner pdi L R lps rps = .ok (louts, routs) ∧
      MappedPayloads ((pdi L R).map (fun p => (p.1 : Int))) (-1) lps louts ∧
      MappedPayloads ((pdi L R).map (fun p => (p.2 : Int))) (-1) rps routs :=
  mergeInner_rows pdi L R lps rps (by
    intro p hp
    have := innerJoinFrom_bound R L 0 p (hpd.mem_iff.mp hp)
    omega) hl hr

-- non-vacuity: unsorted keys with duplicates, a numeric and an indexed-string payload ("a", "", "cc")
example : PayloadOK 3 (.numeric [11, 14, 17]) ∧ PayloadOK 3 (.indexed [0, 1, 1, 3] [97, 99, 99]) := by
  refine ⟨rfl, ⟨by decide, by decide, by decide⟩, by decide⟩
example : mergeLeft (fun l r => leftJoin l r) [5, 3, 5, 8] [3, 5, 3] [.numeric [11, 14, 17], .indexed [0, 1, 1, 3] [97, 99, 99]] =
    .ok [.numeric [14, 11, 17, 14, 0], .indexed [0, 0, 1, 3, 3, 3] [97, 99, 99]] := by decide

/-! ## `Session.get_index` -/

/-- **get_index**: for a duplicate-free target (primary key) column shorter than `INVALID_INDEX`, entry `r` of the
    result is the target row whose key equals foreign key `r`; a foreign key without target row gets a marker
    `≥ INVALID_INDEX` (never a valid row number). -/
theorem get_index_correct (target fk : List Int) (hnd : target.Nodup) (hlen : (target.length : Int) ≤ INVALID_INDEX) :
    (getIndex target fk).length = fk.length ∧
    ∀ (r : Nat) (k : Int), fk[r]? = some k →
      (∀ t : Nat, target[t]? = some k → (getIndex target fk)[r]? = some (t : Int)) ∧
      (k ∉ target → ∃ v, (getIndex target fk)[r]? = some v ∧ INVALID_INDEX ≤ v) :=
  getIndex_rows target fk hnd hlen

example : ([5, 3, 9] : List Int).Nodup := by decide
example : getIndex [5, 3, 9] [3, 3, 7, 9, 7, 5, 8] =
    [1, 1, INVALID_INDEX, 2, INVALID_INDEX, 0, INVALID_INDEX + 2] := by decide

/-! ## `Session.join` -/

/-- **join**: `values_to_join` carries one value per run of `fkey_indices` (`runKeys`: the key of every run of equal
    adjacent entries). If every key is a row number of the destination (or a marker `≥ INVALID_INDEX`, which is dropped)
    and the rows of each key are contiguous (one run per key), the result — in the space of the destination primary
    key — holds at row `k` the value of the run with key `k` and the empty value `0` at every row no foreign key points
    to. No out-of-bounds access. -/
theorem join_correct (destLen : Nat) (fkey values : List Int) (hlen : (runKeys fkey).length = values.length)
    (hnd : (runKeys fkey).Nodup) (hr : ∀ k ∈ fkey, k < INVALID_INDEX → 0 ≤ k ∧ k < destLen) :
    ∃ out, join destLen fkey values = .ok out ∧ out.length = destLen ∧
      (∀ (r : Nat) (k v : Int), (runKeys fkey)[r]? = some k → values[r]? = some v → k < INVALID_INDEX →
        out[k.toNat]? = some v) ∧
      (∀ d : Nat, d < destLen → (d : Int) ∉ fkey → out[d]? = some 0) :=
  join_spec destLen fkey values hlen hnd hr

example : runKeys [2, 2, 0, 0, 0, INVALID_INDEX, 3] = [2, 0, INVALID_INDEX, 3] ∧
    (runKeys [2, 2, 0, 0, 0, INVALID_INDEX, 3]).Nodup := by decide
example : join 5 [2, 2, 0, 0, 0, INVALID_INDEX, 3] [7, 8, 9, 10] = .ok [8, 0, 7, 10, 0] := by decide

end Exetera.Props.C19
