"""C14 — isin and unique have exact set semantics on every field type.
Correspondence: Field.isin / fields.isin / Field.unique on real fields (memory- and HDF5-backed)  vs  the Lean model
Exetera.Unique.applyIsin / applyUnique (Model/Unique.lean).
Oracle for the property itself: Python rendering of Spec/Unique.lean (membership; sorted distinct values, first-occurrence
index, reconstructing inverse, per-value counts), strings compared as UTF-8 byte sequences."""
import itertools

PROPERTY = "C14"
LEVEL = "proof"
LEAN_MODULES = ["Exetera.Props.C14", "Exetera.Witness.C14"]
THEOREMS = []  # checks/obligations/C14.json
EXHAUSTIVE = {"quick": True, "thorough": True}
MODES = {"quick": ["jit"], "thorough": ["jit", "nojit", "bounds"], "search": ["jit", "nojit"]}
CASE_TIMEOUT = 120   # first call per worker compiles the kernels (slow under NUMBA_BOUNDSCHECK and load); a SIGALRM landing inside
                     # np.array(typed list) is swallowed by numpy and surfaces as a bogus IndexError, so keep this generous
RULE = ("indexed strings, exhaustive: every column of length <= n over the alphabet {'', 'a', 'ab', 'b', 'ba', 'é'} "
        "(quick n=4, thorough n=6 [all 8 return_* flag combinations up to n=5, two combinations at n=6]) for unique; every "
        "subset of that alphabet + {'aa', None} as isin test set, as list/tuple/set/str-array/object-array in several orders and "
        "with duplicates, against every column of length <= 2 (thorough 3) and two fixed 10-row columns; a small exhaustive "
        "stream of columns over {'a','a\\0','a\\0\\0','\\0','','b'} (trailing U+0000, finding NC14a / fix NC14b); plus seeded random "
        "columns (length <= 60) of strings over ASCII, 2-, 3- and 4-byte UTF-8 characters with planted prefixes and equal-length "
        "variants, method and module entry points, memory- and HDF5-backed fields. Non-indexed: seeded random numeric "
        "(int8..int64, uint8, float32/64 with integer payloads, bool), categorical, timestamp and fixed-string columns with "
        "test sets containing None. Non-trivial = unique: >= 2 distinct values and (a repeated value or a non-identity sort "
        "permutation); isin: non-empty column and a test set that is non-empty after None removal. distinct = distinct case.")
ASSUMPTIONS = [
    "numpy orders Python str by code point, which for valid Unicode equals the lexicographic order of the UTF-8 bytes "
    "(exercised with 1-4 byte characters, not proved)",
    "np.isin / np.unique on the non-indexed field types are parameters of the model, instantiated with the Spec's reference "
    "semantics and compared with numpy on every non-indexed case (no theorem speaks about numpy)",
    "indexed-string storage: indices are the running byte offsets starting at 0 and values the concatenated UTF-8 bytes "
    "(C01; the harness compares field.indices[:] / field.values[:] with the model's encode on every indexed case)",
    "no stored string ends with U+0000 for unique() (open finding NC14a: numpy's '<U' result array cannot represent it)",
    "hand-written Lean model validated by this differential run, not verified against the Python text",
]
TRUSTED = ["Lean 4.33 kernel", "axioms: propext, Classical.choice, Quot.sound only (audited per theorem)",
           "checks/harness/c14.py generators, canonicalisation and comparison",
           "Lean model Exetera/Model/Unique.lean mirrors operations.py / fields.py by hand (with fixes D21, NC14b applied)",
           "core List.mergeSort as the rendering of sorted()/np.sort/np.argsort"]
LEVEL_TEXT = ("Lean 4 theorems for all inputs: compare_arrays is the three-way lexicographic comparison of byte strings (a total "
              "order); the binary search of isin_indexed_string_speedup on the sorted test set returns membership, so "
              "Field.isin on an indexed string column equals the Spec's isin (None entries ignored) with no out-of-bounds "
              "access and within the fuel len(tests); get_indexed_string_unique + unique_for_indexed_string (with fix D21) "
              "return exactly the Spec's sorted distinct values, first-occurrence indices, reconstructing inverse and "
              "per-value counts for every flag combination, for every column none of whose strings ends in U+0000. "
              "Non-indexed field types delegate to numpy (trusted, differential only).")
LEVEL_NOTE = ("proof for indexed strings (model tied to the code by exhaustive small-scope + random differential runs in JIT, "
              "interpreted and bounds-checked modes); numeric/categorical/timestamp/fixed-string fields are numpy calls: "
              "differential testing against the Spec only. unique() on strings ending in U+0000 is an open finding (NC14a) and "
              "excluded by an explicit hypothesis of the *_partial theorems.")
TECHNIQUE = ("Lean 4 theorems about an executable model of compare_arrays / the isin binary search / the unique kernel and its "
             "sort post-processing + differential correspondence of the compiled model with Field.isin / Field.unique")
EXPLANATION = ""

ALPHA = ["", "a", "ab", "b", "ba", "é"]
NULPHA = ["a", "a\x00", "a\x00\x00", "\x00", "", "b"]
FLAGS = [list(f) for f in itertools.product([False, True], repeat=3)]


def hx(s):
    return s.encode("utf-8").hex() if isinstance(s, str) else bytes(s).hex()


def unhx(h):
    return bytes.fromhex(h)


# ------------------------------------------------------------------------------------------------------------------
# generators
# ------------------------------------------------------------------------------------------------------------------

def uq(col, flags, backing="mem", **ann):
    c = {"op": "unique_indexed", "col": [hx(x) for x in col], "flags": list(flags), "backing": backing}
    c.update(ann)
    return c


def isn(col, tests, container="list", entry="method", backing="mem", **ann):
    c = {"op": "isin_indexed", "col": [hx(x) for x in col],
         "tests": None if tests is None else [None if t is None else hx(t) for t in tests],
         "container": container, "entry": entry, "backing": backing}
    c.update(ann)
    return c


def columns(alpha, n):
    for ln in range(n + 1):
        for c in itertools.product(alpha, repeat=ln):
            yield list(c)


def subsets(xs):
    for k in range(len(xs) + 1):
        for c in itertools.combinations(xs, k):
            yield list(c)


CONTAINERS = ["list", "tuple", "set", "array", "objarray"]


def gen_cases(tier, rng):
    from checks import corpus
    cases = list(corpus.load("C14"))
    big = tier != "quick"
    cnt = 0
    # ---- unique, indexed strings, exhaustive small scope ---------------------------------------------------------
    n_all = 5 if big else 4
    for col in columns(ALPHA, n_all):
        for fl in FLAGS:
            cnt += 1
            cases.append(uq(col, fl, "hdf5" if cnt % 97 == 0 else "mem", _n=cnt))
    if big:
        for col in itertools.product(ALPHA, repeat=6):
            for fl in ([True, True, True], [False, True, False]):
                cnt += 1
                cases.append(uq(list(col), fl, _n=cnt))
    # ---- isin, indexed strings, exhaustive test sets -------------------------------------------------------------
    pool = ALPHA + ["aa", None]
    fixed_cols = [ALPHA + ["aa", "abc", "bé", "éa"], ["ba", "b", "", "é", "aa", "a", "ab", "b", "abc", ""]]
    k = 0
    for ts in subsets(pool):
        variants = [ts, ts[::-1], ts + ts[:2]] if big else [ts if len(ts) % 2 else ts[::-1]]
        for v in variants:
            for col in fixed_cols:
                for cont in (CONTAINERS if big else [CONTAINERS[k % len(CONTAINERS)]]):
                    k += 1
                    cases.append(isn(col, v, cont, "module" if k % 5 == 0 else "method",
                                     "hdf5" if k % 41 == 0 else "mem", _n=k))
    pool2 = ALPHA + [None]
    for col in columns(ALPHA, 3 if big else 2):
        for ts in subsets(pool2):
            k += 1
            cases.append(isn(col, ts if k % 3 else ts[::-1], CONTAINERS[k % len(CONTAINERS)],
                             "module" if k % 7 == 0 else "method", _n=k))
    # ---- trailing U+0000 (NC14a open for unique, NC14b fixed for isin) ----------------------------------------------
    for col in columns(NULPHA, 3):
        if not col:
            continue
        k += 1
        cases.append(uq(col, [True, True, True], _n=k))
        if k % 4 == 0:
            cases.append(uq(col, [False, False, False], _n=k))
    for col in ([NULPHA], [NULPHA[::-1]]):
        for ts in subsets(NULPHA):
            k += 1
            cases.append(isn(col[0], ts, ["list", "tuple", "set", "objarray"][k % 4], _n=k))
    # ---- compare_arrays directly (the mechanism under isin; model-compared, the property itself does not mention it) ------
    bs = [bytes(c) for ln in range(4 if big else 3) for c in itertools.product([0x00, 0x61, 0x62, 0xc3], repeat=ln)]
    for a in bs:
        for b in bs:
            k += 1
            cases.append({"op": "compare_arrays", "a": a.hex(), "b": b.hex(), "_n": k})
    # ---- malformed / degenerate arguments ----------------------------------------------------------------------------
    for col in ([], ["a"], ["b", "a", "b"]):
        cases.append(isn(col, None))
        cases.append(isn(col, []))
        cases.append(isn(col, [None]))
        cases.append(isn(col, [None, None], "set"))
        cases.append(isn(col, None, entry="module"))
    for kind in ("int32", "S2", "timestamp", "categorical"):
        cases.append(plain_case(rng, "isin_plain", kind, 5, tests_none=True))
    # ---- seeded random ----------------------------------------------------------------------------------------------
    nrand = 6000 if big else 1200
    for t in range(nrand):
        col = rand_column(rng)
        backing = "hdf5" if t % 23 == 0 else "mem"
        if t % 2 == 0:
            cases.append(uq(col, rng.choice(FLAGS) if t % 4 else [True, True, True], backing, _n=t))
        else:
            vals = sorted(set(col))
            ts = [rng.choice(vals) for _ in range(rng.randrange(0, 6))] if vals else []
            ts += [rand_string(rng, rng.choice(STYLES)) for _ in range(rng.randrange(0, 6))]
            ts += [mutate(rng, rng.choice(vals)) for _ in range(rng.randrange(0, 3))] if vals else []
            ts += [None] * rng.choice([0, 0, 1, 2])
            rng.shuffle(ts)
            cases.append(isn(col, ts, rng.choice(CONTAINERS), rng.choice(["method", "method", "module"]), backing, _n=t))
    nplain = 4000 if big else 900
    for t in range(nplain):
        kind = rng.choice(PLAIN_KINDS)
        cases.append(plain_case(rng, "unique_plain" if t % 2 == 0 else "isin_plain", kind, rng.randrange(0, 30), seq=t))
    return cases


STYLES = ["ab", "ab", "multi", "prefix", "wide"]


def rand_string(rng, style):
    if style == "ab":
        return "".join(rng.choice("ab") for _ in range(rng.randrange(0, 5)))
    if style == "multi":
        return "".join(rng.choice(["a", "é", "日", "\U0001F600", "z", "ÿ", "Ā"]) for _ in range(rng.randrange(0, 4)))
    if style == "prefix":
        return "apple12"[:rng.randrange(0, 8)]
    return "".join(chr(rng.choice([0x20, 0x41, 0x7f, 0x80, 0x7ff, 0x800, 0xffff, 0x10000, 0x10ffff])) for _ in range(rng.randrange(0, 3)))


def mutate(rng, s):
    """a near miss of `s`: one more / one less character, or a changed last character"""
    r = rng.randrange(3)
    if r == 0:
        return s + rng.choice(["a", "é", " "])
    if r == 1:
        return s[:-1]
    return s[:-1] + rng.choice(["b", "è", "A"]) if s else "a"


def rand_column(rng):
    style = rng.choice(STYLES)
    n = rng.choice([0, 1, 2, 3, 5, 8, 13, 20, 40, 60])
    nd = rng.choice([1, 2, 3, 5, 8, 16, 40])
    vals = [rand_string(rng, style) for _ in range(nd)]
    return [rng.choice(vals) for _ in range(n)]


PLAIN_KINDS = ["int8", "int16", "int32", "int64", "uint8", "float32", "float64", "bool", "categorical", "timestamp",
               "S1", "S3", "S5"]


def plain_case(rng, op, kind, n, tests_none=False, **ann):
    if kind.startswith("S"):
        ln = int(kind[1:])
        def val():
            return bytes(rng.choice(b"ab\xc3\xa9 ") for _ in range(rng.randrange(0, ln + 1))).rstrip(b"\x00")
        nd = rng.choice([1, 2, 4, 8])
        vals = [val() for _ in range(nd)]
        col = [rng.choice(vals) for _ in range(n)]
        c = {"op": op, "kind": "bytes", "ftype": kind, "col": [x.hex() for x in col]}
        if op == "isin_plain":
            ts = [rng.choice(vals) for _ in range(rng.randrange(0, 4))] + [val() for _ in range(rng.randrange(0, 3))]
            if rng.random() < 0.25:      # a large test set: numpy switches from its per-value loop to the sort-based algorithm
                ts += [val() for _ in range(rng.randrange(15, 60))]
            ts = [t.hex() for t in ts] + [None] * rng.choice([0, 0, 1])
            rng.shuffle(ts)
            c["tests"] = None if tests_none else ts
    else:
        lo, hi = {"int8": (-128, 127), "uint8": (0, 255), "bool": (0, 1), "categorical": (0, 5), "int16": (-300, 300),
                  "float32": (-1000, 1000)}.get(kind, (-5, 5))
        if kind in ("int64", "timestamp", "float64") and rng.random() < 0.3:
            lo, hi = (-(1 << 40), 1 << 40) if kind != "int64" else (-(1 << 62), 1 << 62)
        nd = rng.choice([1, 2, 4, 8])
        vals = [rng.randint(lo, hi) for _ in range(nd)]
        col = [rng.choice(vals) for _ in range(n)]
        c = {"op": op, "kind": "int", "ftype": kind, "col": col}
        if op == "isin_plain":
            ts = [rng.choice(vals) for _ in range(rng.randrange(0, 4))] + [rng.randint(lo, hi) for _ in range(rng.randrange(0, 3))]
            if rng.random() < 0.25:      # a large test set (see above); wide range so that most column values are NOT members
                ts += [rng.randint(lo - 1000, hi + 1000) if kind not in ("uint8", "bool", "categorical", "int8") else
                       rng.randint(lo, hi) for _ in range(rng.randrange(15, 60))]
            ts += [None] * rng.choice([0, 0, 0, 1])
            rng.shuffle(ts)
            c["tests"] = None if tests_none else ts
    if op == "isin_plain":
        c["container"] = rng.choice(["list", "tuple", "set", "objarray"] if c["tests"] and None in c["tests"]
                                    else ["list", "tuple", "set", "array"])
        c["entry"] = rng.choice(["method", "module"])
    else:
        c["flags"] = rng.choice(FLAGS)
    c["backing"] = "hdf5" if rng.random() < 0.05 else "mem"
    c.update({"_n": ann.get("seq", 0)})
    return c


# ------------------------------------------------------------------------------------------------------------------
# implementation (runs in worker processes)
# ------------------------------------------------------------------------------------------------------------------
_S = {}


def _env():
    if not _S:
        import io
        import numpy as np
        from exetera.core import fields
        from exetera.core.session import Session
        s = Session()
        ds = s.open_dataset(io.BytesIO(), "w", "ds")
        _S.update(np=np, fields=fields, s=s, df=ds.create_dataframe("df"), n=0)
    return _S


def make_field(e, case):
    """build the real field of the case; returns (field, cleanup name or None)"""
    np, fields, s, df = e["np"], e["fields"], e["s"], e["df"]
    hdf5 = case.get("backing") == "hdf5"
    name = None
    if hdf5:
        e["n"] += 1
        name = "f%d" % e["n"]
    if case["op"].endswith("_indexed"):
        col = [unhx(h).decode("utf-8") for h in case["col"]]
        # the field's chunk size (its write staging, and what any row-chunked reader of the column would use) is the library's
        # default, or smaller than the column, so that a column spans several chunks: set semantics must not notice
        cs = [None, 2, 3, 1][case.get("_n", 0) % 4]
        if cs is None:
            f = df.create_indexed_string(name) if hdf5 else fields.IndexedStringMemField(s)
        else:
            f = df.create_indexed_string(name, chunksize=cs) if hdf5 else fields.IndexedStringMemField(s, chunksize=cs)
        f.data.write(col)
        return f, name
    ft = case["ftype"]
    if ft.startswith("S"):
        ln = int(ft[1:])
        f = df.create_fixed_string(name, ln) if hdf5 else fields.FixedStringMemField(s, ln)
        f.data.write(np.array([unhx(h) for h in case["col"]], dtype="S%d" % ln))
    elif ft == "categorical":
        key = {b"k%d" % i: i for i in range(6)}
        f = df.create_categorical(name, "int8", key) if hdf5 else fields.CategoricalMemField(s, "int8", key)
        f.data.write(np.array(case["col"], dtype="int8"))
    elif ft == "timestamp":
        f = df.create_timestamp(name) if hdf5 else fields.TimestampMemField(s)
        f.data.write(np.array(case["col"], dtype="float64"))
    else:
        f = df.create_numeric(name, ft) if hdf5 else fields.NumericMemField(s, ft)
        f.data.write(np.array(case["col"], dtype=ft))
    return f, name


def make_tests(e, case):
    np = e["np"]
    ts = case["tests"]
    if ts is None:
        return None
    if case["op"] == "isin_indexed":
        xs = [None if t is None else unhx(t).decode("utf-8") for t in ts]
    elif case["kind"] == "bytes":
        xs = [None if t is None else unhx(t) for t in ts]
    else:
        ft = case["ftype"]
        xs = [None if t is None else (float(t) if ft in ("timestamp", "float32", "float64") and t % 2 else t) for t in ts]
    cont = case.get("container", "list")
    if cont == "tuple":
        return tuple(xs)
    if cont == "set":
        return set(xs)
    if cont == "objarray" or (cont == "array" and (None in xs or any(isinstance(x, str) and x.endswith("\x00") for x in xs))):
        a = np.empty(len(xs), dtype=object)
        for i, x in enumerate(xs):
            a[i] = x
        return a
    if cont == "array":
        return np.array(xs) if xs else np.array([], dtype="U1" if case["op"] == "isin_indexed" else None)
    return xs


def canon_vals(case, arr):
    if case["op"].endswith("_indexed"):
        return [str(x).encode("utf-8").hex() for x in arr.tolist()]
    if case["kind"] == "bytes":
        return [bytes(x).hex() for x in arr.tolist()]
    out = []
    for x in arr.tolist():
        assert x == int(x)
        out.append(int(x))
    return out


def impl(case):
    e = _env()
    fields = e["fields"]
    if case["op"] == "compare_arrays":
        from exetera.core import operations as ops
        np = e["np"]
        return {"c": int(ops.compare_arrays(np.frombuffer(unhx(case["a"]), dtype=np.uint8),
                                            np.frombuffer(unhx(case["b"]), dtype=np.uint8)))}
    f, name = make_field(e, case)
    try:
        res = {}
        if case["op"].endswith("_indexed"):
            res["indices"] = [int(x) for x in f.indices[:]]
            res["values"] = bytes(bytearray(int(x) for x in f.values[:])).hex()
        if case["op"].startswith("isin"):
            ts = make_tests(e, case)
            if case.get("entry") == "module":
                r = fields.isin(f, ts).data[:]
            else:
                r = f.isin(ts)
            assert str(r.dtype) == "bool", r.dtype
            res["r"] = [bool(x) for x in r.tolist()]
        else:
            ri, rv, rc = case["flags"]
            r = f.unique(return_index=ri, return_inverse=rv, return_counts=rc)
            if not (ri or rv or rc):
                assert not isinstance(r, tuple)
                r = (r,)
            else:
                assert isinstance(r, tuple) and len(r) == 1 + ri + rv + rc
            r = list(r)
            res["u"] = canon_vals(case, r.pop(0))
            for key, on in (("index", ri), ("inverse", rv), ("counts", rc)):
                res[key] = [int(x) for x in r.pop(0).tolist()] if on else None
        return res
    finally:
        if name is not None:
            del e["df"][name]


# ------------------------------------------------------------------------------------------------------------------
# the property's oracle (Python rendering of Spec/Unique.lean); strings are compared as UTF-8 byte sequences
# ------------------------------------------------------------------------------------------------------------------

def values_of(case):
    if case["op"].endswith("_indexed") or case["kind"] == "bytes":
        return [unhx(h) for h in case["col"]]
    return list(case["col"])


def tests_of(case):
    ts = case["tests"]
    if ts is None:
        return None
    if case["op"].endswith("_indexed") or case["kind"] == "bytes":
        return [unhx(t) for t in ts if t is not None]
    return [t for t in ts if t is not None]


def out_vals(case, xs):
    if case["op"].endswith("_indexed") or case["kind"] == "bytes":
        return [unhx(h) for h in xs]
    return list(xs)


def check_spec(case, io, mode):
    if case["op"] == "compare_arrays":
        return None            # internal mechanism: compared with the model (theorem compare_arrays_is_lex), no demand of the property
    col = values_of(case)
    if case["op"].startswith("isin"):
        ts = tests_of(case)
        if ts is None:
            return None        # the property speaks about test *sets*; a bare None argument is outside it (model-compared only)
        if "err" in io:
            return f"raised {io['err']} ({io.get('msg', '')}) instead of returning the membership mask"
        exp = [x in ts for x in col]
        if io["r"] != exp:
            bad = [i for i, (a, b) in enumerate(zip(io["r"], exp)) if a != b][:5]
            return f"isin differs from membership at rows {bad} (len got {len(io['r'])} expected {len(exp)})"
        return None
    if "err" in io:
        return f"raised {io['err']} ({io.get('msg', '')}) instead of returning the unique values"
    ri, rv, rc = case["flags"]
    u = out_vals(case, io["u"])
    if any(not (a < b) for a, b in zip(u, u[1:])):
        return f"unique values are not strictly ascending: {io['u']}"
    if set(u) != set(col):
        return f"unique values are not the set of column values: {io['u']}"
    for key, on in (("index", ri), ("inverse", rv), ("counts", rc)):
        if (io[key] is not None) != on:
            return f"{key} returned={io[key] is not None} requested={on}"
    if ri:
        exp = [col.index(x) for x in u]
        if io["index"] != exp:
            return f"index is not the first occurrence of each unique value: got {io['index']} expected {exp}"
    if rv:
        inv = io["inverse"]
        if len(inv) != len(col) or any(not (0 <= j < len(u)) or u[j] != x for j, x in zip(inv, col)):
            return f"uniques[inverse] does not reconstruct the column: inverse={inv}"
    if rc:
        exp = [col.count(x) for x in u]
        if io["counts"] != exp:
            return f"counts are not the occurrences of each unique value (sum {sum(io['counts'])} rows {len(col)}): got {io['counts']}"
    return None


def has_trailing_nul(case):
    return case["op"] == "unique_indexed" and any(h.endswith("00") for h in case["col"])


def match_finding(case, io, mode):
    # NC14a: unique() on an indexed string column in which some string ends with U+0000
    if has_trailing_nul(case) and "err" not in io:
        return "NC14a"
    return None


def compare(case, io, mo, mode):
    if "err" in io or "err" in mo:
        a, b = io.get("err"), mo.get("err")
        return None if a == b else f"impl err={a} ({io.get('msg', '')}) model err={b}"
    m = mo["ok"]
    if case["op"] == "compare_arrays":
        return None if io["c"] == m else f"compare_arrays: impl={io['c']} model={m}"
    for key in ("r", "u", "index", "inverse", "counts"):
        if key in io or key in m:
            if io.get(key) != m.get(key):
                return f"{key}: impl={io.get(key)} model={m.get(key)}"
    if "indices" in io and case["col"]:       # an empty indexed field stores indices=[] (D2), the model's encode gives [0]
        if io["indices"] != m["indices"] or io["values"] != m["values"]:
            return f"storage: impl indices={io['indices']} values={io['values']} model indices={m['indices']} values={m['values']}"
    return None


def sort_perm_kind(col):
    """permutation that sorts the distinct values in discovery order: identity / involution / other (D21 needs `other`)"""
    disc = list(dict.fromkeys(col))
    perm = sorted(range(len(disc)), key=lambda i: disc[i])
    if perm == list(range(len(disc))):
        return "perm-identity"
    if all(perm[perm[i]] == i for i in range(len(perm))):
        return "perm-involution"
    return "perm-non-involution"


def nontrivial(case, mo):
    if case["op"] == "compare_arrays":
        return case["a"] != case["b"]
    col = values_of(case)
    if case["op"].startswith("isin"):
        ts = tests_of(case)
        return bool(col) and bool(ts)
    return len(set(col)) >= 2 and (len(set(col)) < len(col) or sort_perm_kind(col) != "perm-identity")


def classify(case, mo):
    if case["op"] == "compare_arrays":
        a, b = unhx(case["a"]), unhx(case["b"])
        return ["compare_arrays", "cmp-prefix" if a != b and (a.startswith(b) or b.startswith(a)) else
                ("cmp-equal" if a == b else "cmp-differ")]
    tags = [case["op"], "backing-" + case.get("backing", "mem")]
    col = values_of(case)
    if case["op"].startswith("unique"):
        tags.append("flags-" + "".join("1" if f else "0" for f in case["flags"]))
        tags.append(sort_perm_kind(col))
    else:
        tags.append("container-" + case.get("container", "list"))
        tags.append("entry-" + case.get("entry", "method"))
        ts = case["tests"]
        tags.append("tests-None" if ts is None else ("tests-with-None" if None in ts else "tests-plain"))
    if case["op"].endswith("_indexed"):
        if any(max(b, default=0) >= 0x80 for b in col):
            tags.append("multi-byte")
        s = set(col)
        if any(a != b and b.startswith(a) and a for a in s for b in s):
            tags.append("proper-prefix-pair")
        if any(a != b and len(a) == len(b) for a in s for b in s):
            tags.append("equal-length-pair")
        if b"" in s:
            tags.append("empty-string")
        if any(b.endswith(b"\x00") for b in col):
            tags.append("trailing-nul")
    else:
        tags.append("ftype-" + case["ftype"])
    if mo and "err" in mo:
        tags.append("model-err:" + mo["err"])
    return tags


def select_for_mode(case, mode, tier):
    n = case.get("_n", 0)
    if case["op"] == "compare_arrays":
        return n % 3 == 0
    if "_corpus" in case:
        return True
    if len(case["col"]) > 12:
        return n % 10 == 0
    return n % (4 if mode == "nojit" else 6) == 0



# the translated kernel of this property (Gen/Kernels.lean) is run against the real compiled kernel as well
from checks.harness import genkernels  # noqa: E402
genkernels.install(globals(), "C14")
